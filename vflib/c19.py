"""C19 one process per repository cache: Lock.tla; MC_Lock enumerates all orders of open / close / kill of two holders and of
short commands (succeeding, failing after the cache was opened); each schedule is executed with real git-bug processes."""
import json
import os
import re

from .core import Broken


def run_scheds(c, scheds, tag):
    sf = os.path.join(c.scratch, "lock-%s.ndjson" % tag)
    out = os.path.join(c.scratch, "lock-out-%s.ndjson" % tag)
    with open(sf, "w") as f:
        for s in scheds:
            f.write(json.dumps(s) + "\n")
    c.vh(["lock", sf, out, c.build_gitbug()], timeout=3400)
    mism, stats = [], None
    for line in open(out):
        d = json.loads(line)
        if "stats" in d:
            stats = d["stats"]
        else:
            mism.append(d)
    if not stats or stats["executed"] < len(scheds):
        raise Broken("lock harness executed too little: %s" % stats)
    driver = [m for m in mism if m["why"].startswith("DRIVER:") or m["why"].startswith("harness worker crashed")]
    if driver:
        raise Broken("the lock driver failed (not a verdict about the code): %s" % driver[0]["why"][:500])
    return mism, stats


def close_window(c):
    """MC_LockClose.tla: the holder owns the lock until the very end of Close; observed in-process at every write the holder makes
    and, with a real second process, at the moment the cache closes the repository inside Close."""
    c.tlc_model("MC_LockClose", "MC_LockClose.cfg", timeout=300, label="Close in steps: begin, flush, end; 2 holders")
    r = c.tlc("MC_LockClose", "MC_LockClose_unlockfirst.cfg", timeout=300, label="witness: removing the lock first must be reported by the model")
    if r.violated not in ("OwnerAlive", "WriteUnderLock"):
        raise Broken("the model does not distinguish releasing the lock first from releasing it last (vacuity guard)")
    out = os.path.join(c.scratch, "lock-close.ndjson")
    c.vh(["lock-close", out, c.build_gitbug()], timeout=600)
    rec = json.loads(open(out).readline())
    c.cov["close_window"] = {k: rec[k] for k in ("writes", "probed", "probe", "lock_after_close")}
    if rec["writes"] < 5 or not rec["probed"]:
        raise Broken("the close window was not observed: %s" % rec)
    if rec["lock_before_close"] != str(rec["pid"]):
        c.report("lock:close-window:not-owner-before-close", "the holder does not own the lock while its cache is open: lock file %r" % rec["lock_before_close"], {"close_window": True})
    if rec["unlocked"]:
        c.report("lock:close-window:write-without-lock", "the holder wrote to the repository's local storage without owning the lock: %s" % "; ".join(rec["unlocked"][:3]),
                 {"close_window": True})
    if rec["probe"] != "refused":
        c.report("lock:close-window:second-open-during-close", "a second process opening the cache while the holder is still inside Close was not refused: %s" % rec["probe"],
                 {"close_window": True})
    if rec["lock_after_close"] != "" or rec["close_err"]:
        c.report("lock:close-window:lock-left", "after a clean Close the lock file is still there (%r) or Close failed (%s)" % (rec["lock_after_close"], rec["close_err"]),
                 {"close_window": True})


def lock_window(c):
    """MC_LockOpen.tla: the lock appears with its content. Real holders are interrupted (hook on the local storage) at every
    point of taking the lock: killed there, whatever they leave must not keep the next process out; stalled there, an existing
    lock file - complete or not - is theirs and nobody takes it away."""
    c.tlc_model("MC_LockOpen", "MC_LockOpen.cfg", timeout=300, label="taking the lock in steps, atomic publication; 2 holders, death at any point")
    r = c.tlc("MC_LockOpen", "MC_LockOpen_inplace.cfg", timeout=300, label="witness: create-then-write must be reported by the model")
    if r.violated != "UsableAfterDeath":
        raise Broken("the model does not distinguish publishing the lock atomically from writing it in place (vacuity guard)")
    out = os.path.join(c.scratch, "lock-window.ndjson")
    c.vh(["lock-window", out, c.build_gitbug()], timeout=900)
    recs = [json.loads(l) for l in open(out)]
    c.cov["lock_window"] = [{k: r.get(k) for k in ("mode", "point", "child_exit", "next_open_ok", "stalled", "probe_admitted", "lock_file_exists_while_stalled")} for r in recs]
    died = [r for r in recs if r["mode"] == "die" and r["child_exit"] == 77]
    stalled = [r for r in recs if r["mode"] == "stall" and r["stalled"]]
    if not died or not stalled:
        raise Broken("no holder was interrupted while taking the lock: %s" % recs)
    for r in died:
        if not r["next_open_ok"]:
            c.report("lock:window:dead-holder-blocks", "a holder killed while taking the lock (point %s; it left lock file=%s content=%r) keeps every later process out: %s" % (
                r["point"], r["lock_file_exists"], r["lock_left"], r["next_open_out"][:300]), {"lock_window": True})
    for r in stalled:
        if r["lock_file_exists_while_stalled"] and (r["probe_admitted"] or r["lock_after_probe"] != r["lock_while_stalled"]):
            c.report("lock:window:live-lock-taken", "a holder stalled while taking the lock (point %s) had created its lock file (content %r); a second process was %s and the lock file then held %r" % (
                r["point"], r["lock_while_stalled"], "admitted" if r["probe_admitted"] else "refused", r["lock_after_probe"]), {"lock_window": True})
        if not r["holder_saw_own_lock"]:
            c.report("lock:window:holder-without-lock", "a holder that was slow taking the lock ended up open without owning the lock: %s" % r["holder_out"][:200], {"lock_window": True})


def other_user(c):
    """A live holder that belongs to another user (the second process cannot signal it) is still a live holder."""
    out = os.path.join(c.scratch, "lock-other-user.ndjson")
    c.vh(["lock-other-user", out, c.build_gitbug()], timeout=300)
    rec = json.loads(open(out).readline())
    c.cov["other_user"] = {k: rec.get(k) for k in ("skipped", "admitted", "names_holder")}
    if rec["skipped"]:
        c.notes.append("not running as root: the holder-of-another-user scenario was skipped")
        return
    if rec["admitted"] or rec["lock_after"] != rec["lock_before"] or not rec["probe_failed"]:
        c.report("lock:other-user:live-lock-taken", "a process of another user was not refused while the holder (pid %s) lives: lock file %r -> %r; %s" % (
            rec["holder_pid"], rec["lock_before"], rec["lock_after"], rec["probe_out"][:200]), {"other_user": True})
    elif not rec["names_holder"]:
        c.report("lock:other-user:holder-not-named", "the refusal does not name the holder (pid %s): %s" % (rec["holder_pid"], rec["probe_out"][:200]), {"other_user": True})


def big_pid(c):
    """A live holder whose process id has six digits (pid_max is 4194304 on 64-bit hosts) is still a live holder."""
    out = os.path.join(c.scratch, "lock-bigpid.ndjson")
    c.vh(["lock-bigpid", out, c.build_gitbug()], timeout=600)
    rec = json.loads(open(out).readline())
    c.cov["big_pid"] = {k: rec.get(k) for k in ("skipped", "why", "holder_pid", "admitted", "names_holder", "next_ok")}
    if rec["skipped"]:
        c.notes.append("the holder-with-a-six-digit-process-id scenario was skipped: %s" % rec.get("why"))
        return
    rep = {"big_pid": True}
    if not rec["holder_alive"]:
        raise Broken("the holder died during the probe: not evidence")
    if rec["admitted"] or rec["lock_after"] != rec["lock_before"] or not rec["probe_failed"]:
        c.report("lock:big-pid:live-lock-taken", "a second process was not refused while the holder (pid %s) lives: lock file %r -> %r; %s" % (
            rec["holder_pid"], rec["lock_before"], rec["lock_after"], rec["probe_out"][:200]), rep)
    elif not rec["names_holder"]:
        c.report("lock:big-pid:holder-not-named", "the refusal does not name the holder (pid %s): %s" % (rec["holder_pid"], rec["probe_out"][:200]), rep)
    elif not rec["next_ok"]:
        c.report("lock:big-pid:stale-lock-kept", "after the holder (pid %s) is gone the next command is refused: %s" % (rec["holder_pid"], rec["next_out"][:200]), rep)


def run(c):
    other_user(c)
    big_pid(c)
    lock_window(c)
    close_window(c)
    d = c.specdir()
    depth = 4 if c.tier == "quick" else 5
    cfg = "MC_Lock_run.cfg"
    with open(os.path.join(d, cfg), "w") as f:
        f.write("SPECIFICATION Spec\nCONSTANTS Holder = {1, 2}  Depth = %d\nINVARIANTS AtMostOne OwnerAlive Emit\nPROPERTY NoLiveLockRemoved\nCHECK_DEADLOCK FALSE\n" % depth)
    r = c.tlc_model("MC_Lock", cfg, timeout=900, label="2 holders + short commands, all orders of %d steps" % depth)
    scheds = [v for v in r.printed() if "steps" in v]
    if len(scheds) < 200:
        raise Broken("only %d lock schedules" % len(scheds))
    sel = scheds if c.tier == "thorough" else [s for i, s in enumerate(scheds) if i % 4 == c.seed % 4]
    mism, stats = run_scheds(c, sel, "main")
    c.cov["vectors_executed"] += stats["executed"]
    c.cov["traces_validated_against_impl"] = stats["executed"]
    c.cov["exhaustive"] = c.tier == "thorough"
    kinds = {}
    for s in sel:
        for st in s["steps"]:
            k = "%s:%s:%s" % (st["act"], st["kind"], st["out"])
            kinds[k] = kinds.get(k, 0) + 1
    c.cov["step_kinds"] = kinds
    c.sample(sel[len(sel) // 2])
    c.sample([s for s in sel if any(st["out"] == "refused" for st in s["steps"])][0])
    seen = set()
    for m in mism:
        key = "lock:" + re.sub(r"\d+", "N", m["why"])[:90]
        if key in seen:
            continue
        seen.add(key)
        c.report(key, m["why"], {"schedule": m["schedule"]})
    # self-test: expecting a refusal where the lock is free must be noticed
    bad = {"steps": [{"act": "Cmd", "h": 0, "kind": "ok", "out": "refused", "by": 1, "lock": 0}]}
    m2, _ = run_scheds(c, [bad], "selftest")
    c.cov["selftest_rejected"] = len(m2) == 1
    if len(m2) != 1:
        raise Broken("lock self-test failed")
    c.assumptions += ["a completed open is atomic with respect to other processes (the check-then-write window of the lock file is not scheduled)",
                      "holders are `git-bug webui --no-open` processes; killed holders are reaped so that their pid disappears"]


def replay(c, rep):
    c.cov["states"] = c.cov["transitions"] = 1
    c.sample(rep["replay"])
    if rep["replay"].get("close_window"):
        return close_window(c)
    if rep["replay"].get("lock_window"):
        return lock_window(c)
    if rep["replay"].get("other_user"):
        return other_user(c)
    if rep["replay"].get("big_pid"):
        return big_pid(c)
    mism, _ = run_scheds(c, [rep["replay"]["schedule"]], "replay")
    for m in mism:
        c.report(rep["key"], m["why"], rep["replay"])
