"""Shared pipeline of the GitBug.tla family (C01, C02, C03, C05): exhaustive TLC run, TLC-generated schedules
executed by harness/world on real repositories, trace validation by TLC, binding self-test."""
import json
import os
import random

from .core import Broken

REPLICAS2 = ["A", "B"]


def mc_cfg(c, name, replicas, nbug, maxcommit, rankdir, restart, invariants, props=True, loaderless=False, remotes=("origin",)):
    d = c.specdir()
    with open(os.path.join(d, name), "w") as f:
        f.write("SPECIFICATION Spec\nCONSTANTS\n  Replica = {%s}\n  Remote = {%s}\n  NBug = %d\n  Author = {u1, u2}\n  MaxHop = 1000\n"
                "  MaxCommit = %d\n  RankDir = %d\n  WithRestart = %s\n  LoaderLess = %s\nINVARIANTS %s\n%sCHECK_DEADLOCK FALSE\n" % (
                    ", ".join(replicas), ", ".join(remotes), nbug, maxcommit, rankdir, "TRUE" if restart else "FALSE", "TRUE" if loaderless else "FALSE",
                    " ".join(invariants), "PROPERTY ActionProps\n" if props else ""))
    return name


ALL_INV = ["AllReadable", "CausalOrder", "NoDupOps", "Converged", "MergeTruthful", "ClockDominates", "QuiescentConverged"]


def exhaustive(c, invariants, restart=False, loaderless=False):
    """Bounded exhaustive runs; returns nothing, raises Broken on a model-level error."""
    one, two = ("origin",), ("origin", "backup")
    if c.tier == "quick":
        runs = [(["A", "B"], 1, 5, 1, one), (["A", "B"], 1, 4, 1, two)]
    else:
        runs = [(["A", "B"], 1, 6, 1, one), (["A", "B"], 1, 5, 2, one), (["A", "B"], 2, 5, 1, one), (["A", "B", "C"], 1, 4, 1, one), (["A", "B"], 1, 5, 1, two)]
    if not restart:
        c.tlc_model("MC_GitBug", "MC_GitBug_plant.cfg", timeout=1200, label="2 replicas, 2 bugs, <=4 commits, with histories planted from outside among the remote-tracking refs")
    for i, (reps, nbug, maxc, rd, rem) in enumerate(runs):
        if restart:
            maxc -= 1
        cfg = mc_cfg(c, "MC_GitBug_run%d.cfg" % i, reps, nbug, maxc, rd, restart, invariants, loaderless=loaderless, remotes=rem)
        c.tlc_model("MC_GitBug", cfg, timeout=3000,
                    label="%d replicas, %d remote(s), %d bug(s), <=%d commits, rankdir %d, restart=%s" % (len(reps), len(rem), nbug, maxc, rd, restart))


def catalogue():
    """Directed schedules: diverged branches of every length pair, cross merges, both sides merging the same heads."""
    scheds = []
    one = [{"au": "u1", "n": 1}]
    two = [{"au": "u2", "n": 1}]
    mixed = [{"au": "u1", "n": 1}, {"au": "u2", "n": 2}]

    def step(act, r, b=0, runs=None, loaders=False, m="origin"):
        return {"act": act, "r": r, "b": b, "runs": runs or [], "loaders": loaders, "m": m}

    base = [step("NewBug", "A", runs=one), step("Push", "A"), step("Fetch", "B"), step("MergeAll", "B")]
    for la in range(0, 4):
        for lb in range(0, 4):
            s = list(base)
            for i in range(la):
                s.append(step("Edit", "A", 1, one if i % 2 == 0 else mixed))
            for i in range(lb):
                s.append(step("Edit", "B", 1, two))
            s += [step("Push", "A"), step("Fetch", "B"), step("MergeAll", "B"), step("Read", "B", 1), step("Edit", "B", 1, two),
                  step("Push", "B"), step("Fetch", "A"), step("MergeAll", "A"), step("Read", "A", 1)]
            scheds.append({"replicas": REPLICAS2, "steps": s, "quiesce": True, "name": "diverge-%d-%d" % (la, lb)})
    # both sides merge the same pair of heads, then cross-merge
    s = list(base) + [step("Edit", "A", 1, one), step("Edit", "B", 1, two), step("Push", "A")]
    s += [step("Fetch", "B"), step("MergeAll", "B")]
    # A cannot see B's head through the hub before B pushes: B pushes its merge, A diverges again
    s += [step("Edit", "A", 1, mixed), step("Push", "B"), step("Fetch", "A"), step("MergeAll", "A"), step("Read", "A", 1),
          step("Edit", "B", 1, two), step("Push", "A"), step("Fetch", "B"), step("MergeAll", "B"), step("Read", "B", 1)]
    scheds.append({"replicas": REPLICAS2, "steps": s, "quiesce": True, "name": "cross-merge"})
    # three replicas, two bugs
    s = [step("NewBug", "A", runs=mixed), step("NewBug", "B", runs=two), step("Push", "A"), step("Fetch", "C"), step("MergeAll", "C"),
         step("Push", "B"), step("Fetch", "A"), step("MergeAll", "A"), step("Edit", "C", 1, one), step("Edit", "A", 1, two),
         step("Edit", "A", 2, one), step("Push", "C"), step("Fetch", "A"), step("MergeAll", "A"), step("Push", "A"),
         step("Fetch", "B"), step("MergeAll", "B"), step("Edit", "B", 1, mixed), step("Edit", "C", 1, one), step("Push", "B")]
    scheds.append({"replicas": ["A", "B", "C"], "steps": s, "quiesce": True, "name": "three-replicas"})
    # a history nobody's git-bug wrote among the remote-tracking bugs: it is reported invalid, the others are merged all the same
    # (whichever comes first in the listing)
    for k, order in enumerate((("NewBug", "Plant", "NewBug"), ("Plant", "NewBug", "NewBug"), ("NewBug", "NewBug", "Plant"))):
        s = []
        for what in order:
            s.append(step("NewBug", "A", runs=one) if what == "NewBug" else step("Plant", "B"))
        s += [step("Push", "A"), step("Fetch", "B"), step("MergeAll", "B"), step("Edit", "B", 1 if order[0] == "NewBug" else 2, two), step("Push", "B"),
              step("Fetch", "A"), step("MergeAll", "A"), step("Edit", "A", 3 if order[2] == "NewBug" else 2, one), step("Push", "A"), step("Fetch", "B"), step("MergeAll", "B")]
        scheds.append({"replicas": REPLICAS2, "steps": s, "quiesce": True, "name": "foreign-history-among-the-remote-bugs-%d" % k})
    # a replica whose edit clock has leapt far ahead (it read a bug created far in the future) has to make the merge commit: merge
    # commits may sit any distance above their parents
    s = list(base) + [step("Edit", "A", 1, one), step("Edit", "B", 1, two), step("Push", "B"), step("ClockLeap", "A"), step("Fetch", "A"), step("MergeAll", "A"),
                      step("Read", "A", 1), step("Push", "A"), step("Fetch", "B"), step("MergeAll", "B"), step("Read", "B", 1), step("Edit", "B", 1, two), step("Push", "B"),
                      step("Fetch", "A"), step("MergeAll", "A"), step("Read", "A", 1)]
    scheds.append({"replicas": REPLICAS2, "steps": s, "quiesce": True, "name": "merge-after-the-clock-leapt"})
    # two remotes: the replicas exchange over one, over the other, over both in turn; a remote that lags behind the other is pushed
    # to later (fast-forward) or refused (it holds what the pusher has not merged yet)
    o, k = "origin", "backup"
    s = [step("NewBug", "A", runs=one), step("Push", "A", m=k), step("Fetch", "B", m=k), step("MergeAll", "B", m=k), step("Edit", "B", 1, two),
         step("Push", "B", m=o), step("Edit", "A", 1, mixed), step("Fetch", "A", m=o), step("MergeAll", "A", m=o), step("Read", "A", 1),
         step("Push", "A", m=o), step("Push", "A", m=k), step("Fetch", "B", m=k), step("MergeAll", "B", m=k), step("Read", "B", 1),
         step("Fetch", "B", m=o), step("MergeAll", "B", m=o), step("Read", "B", 1)]
    scheds.append({"replicas": REPLICAS2, "steps": s, "quiesce": True, "name": "two-remotes-relay"})
    s = [step("NewBug", "A", runs=one), step("NewBug", "B", runs=two), step("Push", "A", m=o), step("Push", "B", m=k), step("Fetch", "A", m=k), step("Fetch", "B", m=o),
         step("MergeAll", "A", m=k), step("MergeAll", "B", m=o), step("Edit", "A", 2, one), step("Edit", "B", 2, two), step("Edit", "B", 1, two),
         step("Push", "A", m=k), step("Push", "B", m=k), step("Push", "B", m=o), step("Fetch", "A", m=o), step("MergeAll", "A", m=o), step("MergeAll", "A", m=k),
         step("Read", "A", 1), step("Read", "A", 2), step("Push", "A", m=k), step("Push", "A", m=o), step("Fetch", "B", m=k), step("MergeAll", "B", m=k),
         step("MergeAll", "B", m=o), step("Read", "B", 2)]
    scheds.append({"replicas": REPLICAS2, "steps": s, "quiesce": True, "name": "two-remotes-crossed"})
    # both replicas merge the same pair of heads independently (each got the other's head over another remote): two different
    # merge commits of the same parents, which then meet
    s = [step("NewBug", "A", runs=one), step("Push", "A", m=o), step("Push", "A", m=k), step("Fetch", "B", m=o), step("MergeAll", "B", m=o),
         step("Edit", "A", 1, one), step("Edit", "B", 1, two), step("Push", "A", m=o), step("Push", "B", m=k),
         step("Fetch", "A", m=k), step("MergeAll", "A", m=k), step("Fetch", "B", m=o), step("MergeAll", "B", m=o),
         step("Push", "A", m=o), step("Fetch", "B", m=o), step("MergeAll", "B", m=o), step("Read", "B", 1), step("Edit", "B", 1, two),
         step("Push", "B", m=o), step("Push", "B", m=k), step("Fetch", "A", m=o), step("MergeAll", "A", m=o), step("Read", "A", 1), step("Read", "B", 1)]
    scheds.append({"replicas": REPLICAS2, "steps": s, "quiesce": True, "name": "two-remotes-twin-merges"})
    s = [step("NewBug", "C", runs=mixed), step("Push", "C", m=o), step("Fetch", "A", m=o), step("MergeAll", "A", m=o), step("Edit", "A", 1, one), step("Push", "A", m=k),
         step("Edit", "C", 1, two), step("Push", "C", m=o), step("Fetch", "B", m=k), step("MergeAll", "B", m=k), step("Fetch", "B", m=o), step("MergeAll", "B", m=o),
         step("Read", "B", 1), step("Push", "B", m=k), step("Push", "B", m=o), step("Fetch", "A", m=k), step("MergeAll", "A", m=k), step("Fetch", "C", m=o),
         step("MergeAll", "C", m=o), step("Read", "C", 1), step("Read", "A", 1)]
    scheds.append({"replicas": ["A", "B", "C"], "steps": s, "quiesce": True, "name": "two-remotes-three-replicas"})
    return scheds


def restart_catalogue():
    one = [{"au": "u1", "n": 1}]

    def step(act, r, b=0, runs=None, loaders=False, m="origin"):
        return {"act": act, "r": r, "b": b, "runs": runs or [], "loaders": loaders, "m": m}
    scheds = []
    # one of the two clock files lost: the loader has to rebuild it all the same
    for which in (1, 2):
        s = [step("NewBug", "A", runs=one), step("Edit", "A", 1, one), step("Edit", "A", 1, one), step("NewBug", "A", runs=one), step("Edit", "A", 2, one),
             step("DeleteClocks", "A", which), step("Reopen", "A", loaders=True), step("NewBug", "A", runs=one), step("Edit", "A", 1, one), step("Read", "A", 1)]
        scheds.append({"replicas": REPLICAS2, "steps": s, "quiesce": True, "name": "restart-one-clock-file-lost-%d" % which})
    # a merge commit made while the clocks are behind the local branch (files lost, reopened the way the commands reopen: without
    # loaders): the merge itself has to witness both branches
    for which in (0, 1):
        for na, nb in ((3, 1), (2, 2), (1, 3)):
            s = [step("NewBug", "A", runs=one), step("Push", "A"), step("Fetch", "B"), step("MergeAll", "B")]
            s += [step("Edit", "A", 1, one) for _ in range(na)] + [step("Edit", "B", 1, one) for _ in range(nb)]
            s += [step("Push", "B"), step("DeleteClocks", "A", which), step("Reopen", "A", loaders=False), step("Fetch", "A"), step("MergeAll", "A"),
                  step("Read", "A", 1), step("Edit", "A", 1, one), step("Push", "A"), step("Fetch", "B"), step("MergeAll", "B"), step("Read", "B", 1)]
            scheds.append({"replicas": REPLICAS2, "steps": s, "quiesce": True, "name": "merge-with-clocks-behind-%d-%d-%d" % (which, na, nb)})
    # the edit clock leaps (the replica read a bug created on a replica far ahead), then an older bug is edited: known finding far-clock
    s = [step("NewBug", "A", runs=one), step("Edit", "A", 1, one), step("Push", "A"), step("ClockLeap", "A"), step("NewBug", "A", runs=one),
         step("Edit", "A", 2, one), step("Read", "A", 2), step("Edit", "A", 1, one), step("Read", "A", 1)]
    scheds.append({"replicas": REPLICAS2, "steps": s, "quiesce": False, "name": "far-clock"})
    for ld in (True, False):
        for dele in (True, False):
            s = [step("NewBug", "A", runs=one), step("Edit", "A", 1, one), step("Push", "A"), step("Fetch", "B"),
                 step("MergeAll", "B"), step("Edit", "B", 1, one), step("Edit", "B", 1, one), step("Push", "B"),
                 step("Fetch", "A"), step("MergeAll", "A")]
            if dele:
                s.append(step("DeleteClocks", "A"))
            s += [step("Reopen", "A", loaders=ld), step("Read", "A", 1), step("Edit", "A", 1, one), step("NewBug", "A", runs=one)]
            scheds.append({"replicas": REPLICAS2, "steps": s, "quiesce": True,
                           "name": "restart-loaders%s-delete%s" % (ld, dele)})
    return scheds


def simulate(c, n, replicas, nbug, maxcommit, depth, restart, quiesce=True, remotes=("origin",)):
    """TLC -simulate on MBT_GitBug: returns up to n distinct schedules."""
    d = c.specdir()
    cfg = "MBT_GitBug_run.cfg"
    with open(os.path.join(d, cfg), "w") as f:
        f.write("SPECIFICATION MSpec\nCONSTANTS\n  Replica = {%s}\n  Remote = {%s}\n  NBug = %d\n  Author = {\"u1\", \"u2\"}\n  MaxHop = 1000000\n"
                "  MaxCommit = %d\n  Depth = %d\n  WithRestart = %s\nINVARIANT Emit\nCHECK_DEADLOCK FALSE\n" % (
                    ", ".join('"%s"' % r for r in replicas), ", ".join('"%s"' % r for r in remotes), nbug, maxcommit, depth, "TRUE" if restart else "FALSE"))
    out = []
    seen = set()
    rounds = 0
    while len(out) < n and rounds < 6:
        rounds += 1
        r = c.tlc("MBT_GitBug", cfg, workers=1, simulate=max(50, n // 4), depth=depth * 3 + 10, timeout=600,
                  label="schedule generation", seed=c.seed + 7919 * rounds)
        if r.rc != 0:
            raise Broken("schedule generation failed (rc=%d):\n%s" % (r.rc, r.out[-2000:]))
        for v in r.printed():
            k = json.dumps(v, sort_keys=True)
            if k not in seen:
                seen.add(k)
                out.append({"replicas": replicas, "steps": v["steps"], "quiesce": quiesce, "name": "sim-%d" % len(out)})
    return out[:n]


def uniform(c, n, replicas, nbug=3, depth=18, restart=False, remotes=("origin", "backup")):
    """Schedules drawn uniformly over the action kinds (TLC's simulation picks uniformly among successor states and so mostly
    edits with their many parameter values); which bug exists where is tracked the way the model does, and the trace
    specification judges these schedules like all others."""
    import random
    rnd = random.Random(c.seed * 15485863 + len(replicas))
    runs_choices = [[{"au": "u1", "n": 1}], [{"au": "u2", "n": 2}], [{"au": "u1", "n": 1}, {"au": "u2", "n": 1}], [{"au": "u2", "n": 1}]]

    def step(act, r, b=0, runs=None, loaders=False, m="origin"):
        return {"act": act, "r": r, "b": b, "runs": runs or [], "loaders": loaders, "m": m}
    out = []
    for k in range(n):
        ref = {r: set() for r in replicas}
        rems = remotes if k % 2 == 1 else remotes[:1]        # every other schedule uses all the remotes
        trk = {(r, m): set() for r in replicas for m in rems}
        hub, made, steps = {m: set() for m in rems}, 0, []
        while len(steps) < depth:
            r = rnd.choice(replicas)
            m = rnd.choice(rems)
            acts = ["NewBug", "Fetch", "MergeAll"]
            if ref[r]:
                acts += ["Edit", "Edit", "Read", "Push"]
            if restart and ref[r]:
                acts += ["Reopen", "DeleteClocks"]
            a = rnd.choice(acts)
            if a == "NewBug":
                if made >= nbug:
                    continue
                made += 1
                ref[r].add(made)
                steps.append(step("NewBug", r, runs=rnd.choice(runs_choices)))
            elif a == "Edit":
                steps.append(step("Edit", r, rnd.choice(sorted(ref[r])), rnd.choice(runs_choices)))
            elif a == "Read":
                steps.append(step("Read", r, rnd.choice(sorted(ref[r]))))
            elif a == "Push":
                hub[m] |= ref[r]
                trk[r, m] |= ref[r]
                steps.append(step("Push", r, m=m))
            elif a == "Fetch":
                trk[r, m] |= hub[m]
                steps.append(step("Fetch", r, m=m))
            elif a == "MergeAll":
                ref[r] |= trk[r, m]
                steps.append(step("MergeAll", r, m=m))
            elif a == "Reopen":
                steps.append(step("Reopen", r, loaders=rnd.random() < 0.7))
            else:
                steps.append(step("DeleteClocks", r, rnd.randint(0, 2)))
                steps.append(step("Reopen", r, loaders=rnd.random() < 0.7))
        out.append({"replicas": list(replicas), "steps": steps, "quiesce": True, "name": "uniform-%d" % k})
    return out


def execute(c, scheds, tag="w"):
    sf = os.path.join(c.scratch, "sched-%s.ndjson" % tag)
    with open(sf, "w") as f:
        for s in scheds:
            f.write(json.dumps(s) + "\n")
    tf = os.path.join(c.scratch, "trace-%s.ndjson" % tag)
    p = c.vh(["world", sf, tf], timeout=3000)
    try:
        info = json.loads(p.stdout.strip().splitlines()[-1])
    except Exception:
        raise Broken("world produced no summary: %s" % p.stdout[-500:])
    sessions = []
    with open(tf) as f:
        for line in f:
            e = json.loads(line)
            if e["ev"] == "Reset":
                sessions.append([])
            sessions[-1].append(line.rstrip("\n"))
    if len(sessions) != len(scheds):
        raise Broken("world ran %d sessions for %d schedules" % (len(sessions), len(scheds)))
    return sessions, info


def trace_cfg(c, name, bind_read, bind_merge, bind_clock, invariants):
    d = c.specdir()
    with open(os.path.join(d, name), "w") as f:
        f.write("SPECIFICATION TraceSpec\nCONSTANTS\n  Replica = {\"A\", \"B\", \"C\"}\n  Remote = {\"origin\", \"backup\"}\n  NBug = 3\n  Author = {\"u1\", \"u2\"}\n"
                "  MaxHop = 1000000\n  BindRead = %s\n  BindMerge = %s\n  BindClock = %s\nINVARIANTS %s\n"
                "PROPERTY TraceActionProps\nPOSTCONDITION TraceAccepted\nCHECK_DEADLOCK FALSE\n" % (
                    "TRUE" if bind_read else "FALSE", "TRUE" if bind_merge else "FALSE", "TRUE" if bind_clock else "FALSE",
                    " ".join(invariants)))
    return name


def validate(c, sessions, cfg, label, max_fail=12, chunk=150):
    """Validate concatenated sessions, `chunk` sessions per TLC run (the time of one run grows faster than the length of its trace:
    120 000 events in one run took half an hour, the same events in runs of 15 000 take three minutes); a rejected session is set
    aside and the rest of its chunk is validated again.
    Returns (accepted_count, failures, events) with failures = [(session index, event index in session, reason, event)]."""
    n_ok, failures, events = 0, [], 0
    order = list(range(len(sessions)))
    for start in range(0, len(order), chunk):
        if len(failures) >= max_fail:
            break
        ok, fs, ev = _validate_chunk(c, sessions, order[start:start + chunk], cfg, label, max_fail - len(failures))
        n_ok += ok
        failures += fs
        events += ev
    return n_ok, failures, events


def _validate_chunk(c, sessions, alive, cfg, label, max_fail):
    alive = list(alive)
    failures = []
    events_total = 0
    while alive:
        tf = os.path.join(c.scratch, "tv-%s.ndjson" % label)
        offsets = []
        n = 0
        with open(tf, "w") as f:
            for i in alive:
                offsets.append((n, i))
                for line in sessions[i]:
                    f.write(line + "\n")
                    n += 1
        ok, r = c.tlc_trace("GitBugTrace", cfg, tf, len(alive), label="trace validation " + label, timeout=3000)
        if ok:
            events_total = n
            break
        if r.rc != 0 and r.violated is None and "TraceAccepted" not in r.out:
            raise Broken("trace validation run failed (rc=%d):\n%s" % (r.rc, r.out[-3000:]))
        # first unexplained line (1-based) = depth of the search when the postcondition failed; an invariant violation
        # is reported in the state *after* consuming a line, i.e. line depth-1
        if r.violated in (None, "postcondition"):
            bad_line = r.depth
            reason = "no specification action explains this event (or the projected real state differs from the specification's)"
        else:
            bad_line = max(1, _violation_depth(r) - 1)
            reason = "invariant/property %s violated in the state reached by this event" % r.violated
        sess = None
        for off, i in offsets:
            if off < bad_line:
                sess, soff = i, off
        evline = sessions[sess][min(bad_line - 1 - soff, len(sessions[sess]) - 1)]
        failures.append((sess, bad_line - soff, reason, json.loads(evline)))
        alive.remove(sess)
        if len(failures) >= max_fail:
            break
    return len(alive), failures, events_total


def _violation_depth(r):
    # TLC prints the counterexample as "State N: <...>"; the last N is the violating state
    import re
    n = 0
    for m in re.finditer(r"^State (\d+):", r.out, re.M):
        n = max(n, int(m.group(1)))
    return n or r.depth


def selftest(c, sessions, cfg, mutate):
    """One corrupted session must be rejected."""
    for i, s in enumerate(sessions):
        m = mutate([json.loads(x) for x in s])
        if m is None:
            continue
        bad = [json.dumps(e) for e in m]
        n_ok, failures, _ = validate(c, [bad], cfg, "selftest", max_fail=1)
        rejected = len(failures) == 1
        c.cov["selftest_rejected"] = rejected
        if not rejected:
            raise Broken("binding self-test failed: a corrupted trace was accepted")
        return
    raise Broken("binding self-test: no session suitable for corruption")


def report_failures(c, scheds, failures, classify):
    for sess, idx, reason, event in failures:
        key = classify(event, reason)
        c.report(key, "%s; schedule %s, event #%d: %s" % (reason, scheds[sess].get("name"), idx,
                                                          json.dumps({k: event[k] for k in ("ev", "r", "m", "b", "status", "returned", "ok", "err", "clk") if k in event})),
                 {"schedule": scheds[sess], "event_index": idx, "event": event})
