"""C05 logical clocks: the clock part of GitBug.tla (increment, witness on read and merge, reopen, loader, deleted clock
files) + Clock.tla (one clock object: MemClock / PersistedClock) as exhaustive vectors."""
import json
import os

from . import c01, gb
from .core import Broken

INV = ["ClockDominates", "ClockCovers", "AllReadable"]


def classify(event, reason):
    if event.get("leapt") and ("AllReadable" in reason or event["ev"] == "Edit"):
        return "far-clock:own-commit-unreadable"
    if event.get("err"):
        return "%s:%s" % (event["ev"], event["err"][:60])
    return "%s:clock-or-state-differs" % event["ev"]


def mutate(events):
    for e in events:
        if e["ev"] == "Edit" and e["clk"]["e"] > 1:
            e["clk"]["e"] -= 1
            return events
    return None


def schedules(c):
    n = 40 if c.tier == "quick" else 1200
    scheds = gb.restart_catalogue() + gb.catalogue()
    scheds += gb.simulate(c, n, ["A", "B"], 2, 12, 14, True)
    scheds += gb.uniform(c, n // 2, ["A", "B"], restart=True)
    return scheds


def clock_vectors(c):
    d = c.specdir()
    maxlen, maxv = (4, 4) if c.tier == "quick" else (5, 5)
    cfg = "MC_Clock_run.cfg"
    with open(os.path.join(d, cfg), "w") as f:
        f.write("SPECIFICATION Spec\nCONSTANTS MaxLen = %d  MaxV = %d\nINVARIANTS MemGeDisk DominatesSeen Emit\nPROPERTIES Monotone IncStrict\nCHECK_DEADLOCK FALSE\n" % (maxlen, maxv))
    r = c.tlc_model("MC_Clock", cfg, timeout=900, label="one clock object, ops sequences <= %d" % maxlen)
    vecs = [v for v in r.printed() if "ops" in v]
    if len(vecs) < 50:
        raise Broken("only %d clock vectors" % len(vecs))
    vf = os.path.join(c.scratch, "clock-vectors.ndjson")
    with open(vf, "w") as f:
        for v in vecs:
            f.write(json.dumps(v) + "\n")
    out = os.path.join(c.scratch, "clock-out.ndjson")
    c.vh(["clock", vf, out], timeout=1200)
    stats = None
    for line in open(out):
        d = json.loads(line)
        if "stats" in d:
            stats = d["stats"]
        else:
            c.report("clock:%s:%s" % (d["impl"], d["why"][:40]), "%s: %s on %s" % (d["impl"], d["why"], json.dumps(d["vec"])),
                     {"clock_vector": d["vec"], "impl": d["impl"]})
    if not stats or stats.get("executed", 0) < len(vecs):
        raise Broken("clock harness executed too little: %s" % stats)
    c.cov["clock_vectors"] = len(vecs)
    c.cov["vectors_executed"] += stats["executed"]
    c.sample(vecs[len(vecs) // 2])
    # self-test of this binding: a wrong expectation must be noticed
    bad = json.loads(json.dumps(vecs[-1]))
    bad["exp"][-1]["mem"] += 1
    with open(vf, "w") as f:
        f.write(json.dumps(bad) + "\n")
    c.vh(["clock", vf, out], timeout=300)
    if not any("why" in json.loads(l) for l in open(out)):
        raise Broken("clock binding self-test failed")


def unbounded_clock(c):
    """ClockInd.tla with Apalache: an inductive invariant of the clock object without bounds (any number of steps, any witnessed
    value), the step properties from every state satisfying it, and a witness (a Witness that does not reach the file) that must
    fail. Skipped with a note when apalache-mc is not installed: the bounded TLC runs remain."""
    import shutil
    import subprocess
    exe = shutil.which("apalache-mc")
    if not exe:
        c.notes.append("apalache-mc not found: the unbounded clock invariant was not checked in this run")
        return
    d = os.path.join(c.scratch, "apalache")
    os.makedirs(d, exist_ok=True)
    shutil.copy(os.path.join(c.specdir(), "ClockInd.tla"), d)
    runs = [("Init", "Next", "IndInv", 0, True), ("InitIndInv", "Next", "IndInv", 1, True), ("InitIndInv", "Next", "DominatesSeen", 1, True),
            ("InitIndInv", "Next", "Monotone", 1, True), ("InitIndInv", "Next", "IncStrict", 1, True), ("InitIndInv", "NextBad", "IndInv", 1, False)]
    res = []
    for init, nxt, inv, length, want_ok in runs:
        try:
            p = subprocess.run([exe, "check", "--init=" + init, "--next=" + nxt, "--inv=" + inv, "--length=%d" % length, "--out-dir=" + os.path.join(d, "out"), "ClockInd.tla"],
                               cwd=d, stdout=subprocess.PIPE, stderr=subprocess.STDOUT, text=True, timeout=600)
        except subprocess.TimeoutExpired:
            raise Broken("apalache timed out on %s/%s" % (init, inv))
        ok = "EXITCODE: OK" in p.stdout
        res.append({"init": init, "next": nxt, "inv": inv, "length": length, "ok": ok})
        if ok != want_ok:
            raise Broken("apalache: init=%s next=%s inv=%s length=%d: expected %s\n%s" % (init, nxt, inv, length, "no error" if want_ok else "a counterexample (vacuity guard)", p.stdout[-1500:]))
    c.cov["apalache_runs"] = res
    c.log("apalache: IndInv inductive for the unbounded clock, step properties hold, witness fails (%d runs)" % len(res))


def clock_concurrent(c):
    """MemClockConc.tla: one clock object under concurrent Increment / Witness (load + compare-and-swap loop); the real
    MemClock and PersistedClock are stressed and observed at the boundaries of the calls."""
    c.tlc_model("MC_MemClockConc", "MC_MemClockConc.cfg", timeout=300, label="2 witnessers (load / compare-and-swap) x 2 incrementers x 3, every interleaving")
    r = c.tlc("MC_MemClockConc", "MC_MemClockConc_noretry.cfg", timeout=300, label="witness: giving up after a failed compare-and-swap must be reported by the model")
    if r.violated != "Dominates":
        raise Broken("MemClockConc does not distinguish retrying from giving up after a failed compare-and-swap (vacuity guard)")
    out = os.path.join(c.scratch, "clock-conc.ndjson")
    rounds = 8 if c.tier == "quick" else 120
    c.vh(["clock-conc", out, rounds], timeout=1800)
    recs = [json.loads(l) for l in open(out)]
    busy = [r for r in recs if r["increments"] >= 100]     # a run whose incrementers hardly ran (a very busy machine) says nothing
    if len(recs) != 2 * rounds or len(busy) < rounds:
        raise Broken("the concurrent clock runs did not run: %s" % recs[:2])
    if len(busy) < len(recs):
        c.notes.append("%d of %d concurrent clock runs had fewer than 100 increments and were set aside" % (len(recs) - len(busy), len(recs)))
    recs = busy
    c.cov["clock_concurrent"] = {"runs": len(recs), "witnesses": sum(r["witnesses"] for r in recs), "increments": sum(r["increments"] for r in recs)}
    c.cov["vectors_executed"] = c.cov.get("vectors_executed", 0) + len(recs)
    seen = set()
    for r in recs:
        for kind, what in (("lost", "Witness(v) returned with the clock below v"), ("stale", "an Increment begun after Witness(v) returned yielded v or less"), ("duplicate", "a time was handed out twice")):
            key = "clockconc:%s:%s" % (r["impl"], kind)
            if r[kind] and key not in seen:
                seen.add(key)
                c.report(key, "%s under concurrent use: %s (%d times in %d witnesses / %d increments): %s" % (r["impl"], what, r[kind], r["witnesses"], r["increments"], r["examples"][:3]), {"clock_concurrent": True})


def run(c):
    unbounded_clock(c)
    clock_vectors(c)
    clock_concurrent(c)
    gb.exhaustive(c, INV + ["MergeTruthful"], restart=True, loaderless=False)
    r = c.tlc("MC_GitBug", "MC_GitBug_leap.cfg", timeout=600, label="the design's counterexample: after a leap of the edit clock a commit on an older bug is not readable (known finding far-clock)")
    if r.violated != "AllReadable":
        raise Broken("MC_GitBug_leap.cfg did not produce the counterexample to AllReadable the known finding far-clock rests on")
    c01.run(c, inv=["ClockDominates", "AllReadable"], bind=(False, False, True), sched_fn=schedules, mut=mutate, cls=classify,
            restart=True, skip_exhaustive=True)


def replay(c, rep):
    if rep["replay"].get("clock_concurrent"):
        c.cov["states"] = c.cov["transitions"] = 1
        return clock_concurrent(c)
    if "clock_vector" in rep["replay"]:
        vf = os.path.join(c.scratch, "cv.ndjson")
        out = os.path.join(c.scratch, "co.ndjson")
        with open(vf, "w") as f:
            f.write(json.dumps(rep["replay"]["clock_vector"]) + "\n")
        c.vh(["clock", vf, out])
        c.cov["states"] = c.cov["transitions"] = 1
        c.sample(rep["replay"]["clock_vector"])
        for line in open(out):
            d = json.loads(line)
            if "why" in d:
                c.report("clock:%s:%s" % (d["impl"], d["why"][:40]), d["why"], rep["replay"])
        return
    c01.replay(c, rep)
