"""C03 operation order: (a) GitBug.tla CausalOrder / NoDupOps on every DAG git-bug builds + every real bug.Read bound to
Order(ref) by trace validation; (b) MC_Forge: every hand-crafted history up to the bound with its verdict, built with real
git objects on both storage backends."""
import json
import os

from . import c01, gb
from .core import Broken

INV = ["CausalOrder", "NoDupOps", "AllReadable", "Converged"]


def forge_vectors(c, maxn, ets, dirs):
    d = c.specdir()
    cfg = "MC_Forge_run_%d.cfg" % maxn
    with open(os.path.join(d, cfg), "w") as f:
        f.write("SPECIFICATION FSpec\nCONSTANTS\n  Replica = {\"A\"}\n  Remote = {\"origin\"}\n  NBug = 1\n  Author = {\"u1\"}\n  MaxHop = 1000000\n"
                "  MaxN = %d\n  Far = 1000005\n  RankDirs <- %s\n  EtChoices <- %s\nINVARIANTS OkImpliesCausal Emit\nCHECK_DEADLOCK FALSE\n" % (maxn, dirs, ets))
    r = c.tlc_model("MC_Forge", cfg, timeout=2400, label="forged histories <= %d commits, clocks %s" % (maxn, ets))
    vecs = [v for v in r.printed() if "dag" in v]
    if len(vecs) < 100:
        raise Broken("only %d forged vectors" % len(vecs))
    return vecs


def octopus_vectors(c):
    d = c.specdir()
    cfg = "MC_Forge_octo.cfg"
    with open(os.path.join(d, cfg), "w") as f:
        f.write("SPECIFICATION OSpec\nCONSTANTS\n  Replica = {\"A\"}\n  Remote = {\"origin\"}\n  NBug = 1\n  Author = {\"u1\"}\n  MaxHop = 1000000\n"
                "  MaxN = 6\n  Far = 1000005\n  RankDirs <- OneDir\n  EtChoices <- EtSmall\nINVARIANTS OkImpliesCausal Emit\nCHECK_DEADLOCK FALSE\n")
    r = c.tlc_model("MC_Forge", cfg, timeout=600, label="forged histories: a commit joining 2-4 concurrent children")
    vecs = [v for v in r.printed() if "dag" in v]
    if len(vecs) < 30 or not any(v["ok"] for v in vecs) or all(v["ok"] for v in vecs):
        raise Broken("octopus vectors: %d, need readable and refused ones" % len(vecs))
    return vecs


def run_forge(c, vecs, tag):
    vf = os.path.join(c.scratch, "forge-%s.ndjson" % tag)
    with open(vf, "w") as f:
        for v in vecs:
            f.write(json.dumps(v) + "\n")
    out = os.path.join(c.scratch, "forge-out-%s.ndjson" % tag)
    c.vh(["forge", vf, out], timeout=3000)
    mism, stats = [], None
    for line in open(out):
        d = json.loads(line)
        if "stats" in d:
            stats = d["stats"]
        else:
            mism.append(d)
    if not stats or stats["executed"] < 2 * len(vecs):
        raise Broken("forge harness executed too little: %s" % stats)
    return mism, stats


def shape_key(v):
    return "%s:%s" % ("ok" if v["ok"] else "refuse", "/".join("%d" % len(cm["par"]) for cm in v["dag"]))


def forge(c):
    vecs = forge_vectors(c, 3, "EtFull", "BothDirs") + octopus_vectors(c)
    if c.tier == "thorough":
        vecs += forge_vectors(c, 4, "EtSmall", "OneDir")
    mism, stats = run_forge(c, vecs, "main")
    c.cov["forged_vectors"] = len(vecs)
    c.cov["forged_readable"] = sum(1 for v in vecs if v["ok"])
    c.cov["vectors_executed"] += stats["executed"]
    c.sample([v for v in vecs if v["ok"] and len(v["dag"]) == 3][0])
    c.sample([v for v in vecs if not v["ok"] and len(v["dag"]) == 3][7])
    seen = set()
    for m in mism:
        v = m["vec"]
        key = "forge:%s:%s:%s" % (m["backend"], shape_key(v), m["why"][:50])
        if key in seen:
            continue
        seen.add(key)
        c.report(key, "forged history on %s: %s" % (m["backend"], m["why"]), {"forge_vector": v})
    # binding self-test: a wrong verdict and a wrong order must be noticed
    good = [v for v in vecs if v["ok"] and len(v["order"]) >= 2][0]
    b1 = json.loads(json.dumps(good))
    b1["order"] = list(reversed(b1["order"]))
    b2 = json.loads(json.dumps([v for v in vecs if not v["ok"]][0]))
    b2["ok"] = True
    b2["order"] = []
    mism, _ = run_forge(c, [b1, b2], "selftest")
    if len(mism) < 4:
        raise Broken("forge binding self-test failed: %d mismatches for 2 corrupted vectors on 2 backends" % len(mism))


def schedules(c):
    n = 40 if c.tier == "quick" else 1000
    return gb.catalogue() + gb.simulate(c, n, ["A", "B"], 1, 12, 14, False) + gb.uniform(c, n // 2, ["A", "B"], nbug=2)


def run(c):
    forge(c)
    c01.run(c, inv=INV, bind=(True, False, False), sched_fn=schedules)


def replay(c, rep):
    if "forge_vector" in rep["replay"]:
        mism, stats = run_forge(c, [rep["replay"]["forge_vector"]], "replay")
        c.cov["states"] = c.cov["transitions"] = 1
        c.sample(rep["replay"]["forge_vector"])
        for m in mism:
            c.report("forge:%s:%s:%s" % (m["backend"], shape_key(m["vec"]), m["why"][:50]), m["why"], rep["replay"])
        return
    c01.replay(c, rep)
