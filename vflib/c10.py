"""C10 bug state = documented interpretation of its operations: Snapshot.tla (one Apply operator per operation kind);
MC_Snapshot enumerates every call sequence to the bound, each replayed through three implementation paths; long random
sequences are folded by TLC (SnapshotTrace)."""
import json
import os

from . import tv
from .core import Broken


def gen(c, maxlen, small):
    d = c.specdir()
    cfg = "MC_Snapshot_run_%d_%s.cfg" % (maxlen, small)
    with open(os.path.join(d, cfg), "w") as f:
        f.write("SPECIFICATION Spec\nCONSTANTS MaxLen = %d  Small = %s\n"
                "INVARIANTS InvWellFormed InvRepeatable InvTitleStatus InvOneItemPerStateChange Emit\nCHECK_DEADLOCK FALSE\n" % (
                    maxlen, "TRUE" if small else "FALSE"))
    r = c.tlc_model("MC_Snapshot", cfg, timeout=3000, heap="12g",
                    label="all sequences create.s, |s|<=%d, %s alphabet" % (maxlen + 0, "small" if small else "full"))
    vecs = [v for v in r.printed() if "calls" in v]
    if len(vecs) < 100:
        raise Broken("only %d snapshot vectors" % len(vecs))
    return vecs


def run_vectors(c, vecs, tag, mod):
    vf = os.path.join(c.scratch, "snap-%s.ndjson" % tag)
    with open(vf, "w") as f:
        for v in vecs:
            f.write(json.dumps(v) + "\n")
    out = os.path.join(c.scratch, "snap-out-%s.ndjson" % tag)
    c.vh(["snapshot", vf, out, mod], timeout=3000)
    mism, stats = [], None
    for line in open(out):
        d = json.loads(line)
        if "stats" in d:
            stats = d["stats"]
        else:
            mism.append(d)
    if not stats or stats["executed"] < len(vecs):
        raise Broken("snapshot harness executed too little: %s" % stats)
    return mism, stats


def validate_seqs(c, lines, label, max_fail=15):
    """One line per sequence, one specification step per call plus one per line: a rejected sequence is located from the
    depth reached, recorded and set aside. Returns (accepted lines, [(event, reason, call index 1-based)])."""
    failures = []
    cur = list(lines)
    while cur:
        path = os.path.join(c.scratch, "tv-%s.ndjson" % label)
        with open(path, "w") as f:
            f.write("\n".join(cur) + "\n")
        ok, depth, r = tv.validate_file(c, "SnapshotTrace", "SnapshotTrace.cfg", path, label)
        if ok:
            break
        done, idx, at = depth - 1, len(cur) - 1, 1          # steps taken; the next one is the unexplained one
        acc = 0
        for i, ln in enumerate(cur):
            n = len(json.loads(ln)["calls"]) + 1
            if done < acc + n:
                idx, at = i, done - acc + 1
                break
            acc += n
        reason = "no specification action explains this step" if r.violated in (None, "postcondition") else "invariant %s violated" % r.violated
        failures.append((json.loads(cur[idx]), reason, at))
        del cur[idx]
        if len(failures) >= max_fail:
            break
    return len(cur), failures


def key_of(m):
    calls = m["vec"]["calls"]
    path = m["why"].split(":")[0]
    return "snapshot:%s:%s" % (path, ">".join(cl["k"] for cl in calls[-2:]))


def run(c):
    vecs = gen(c, 3, False)              # create . s, |s| <= 3, full alphabet, both forms of creation (212k sequences)
    c.cov["exhaustive"] = c.tier == "thorough"
    if c.tier == "thorough":
        vecs += gen(c, 4, True)          # |s| <= 4 over the small alphabet
    else:
        # every change: all sequences |s| <= 2 and a seeded eighth of those of length 3 (TLC checked the theorems on all)
        import zlib
        vecs = [v for v in vecs if len(v["calls"]) <= 3 or zlib.crc32(json.dumps(v["calls"], sort_keys=True).encode()) % 8 == c.seed % 8]
    mism, stats = run_vectors(c, vecs, "main", 3 if c.tier == "thorough" else 2)     # the cache path for every 3rd / 2nd vector
    c.cov["vectors_executed"] += stats["executed"]
    c.cov["harness_stats"] = stats
    c.sample(vecs[len(vecs) // 3])
    seen = set()
    for m in mism:
        k = key_of(m)
        if k in seen:
            continue
        seen.add(k)
        c.report(k, m["why"][:500], {"vector": m["vec"]})
    # binding self-test
    bad = json.loads(json.dumps([v for v in vecs if len(v["exp"]["actors"]) == 2][0]))
    bad["exp"]["actors"] = list(reversed(bad["exp"]["actors"]))
    m2, _ = run_vectors(c, [bad], "selftest", 0)
    if len(m2) != 1:
        raise Broken("snapshot vector self-test failed")
    # long random sequences: code -> spec
    count, maxlen = (40, 120) if c.tier == "quick" else (600, 300)
    tf = os.path.join(c.scratch, "snap-trace.ndjson")
    c.vh(["snapshot-trace", tf, count, maxlen], timeout=1800)
    lines = [l.rstrip("\n") for l in open(tf)]
    n_ok, failures = validate_seqs(c, lines, "snap")
    c.cov["traces_validated_against_impl"] = n_ok
    for ev, reason, at in failures:
        what = "after call %d (%s)" % (at, ev["calls"][at - 1]["k"]) if at <= len(ev["calls"]) else "at the end (complete snapshot, in memory or read back)"
        c.report("snapshot-trace:%s" % (ev.get("err") or "compiled-state-differs")[:60],
                 "long random sequence (%d calls): %s %s: the snapshot the code compiled %s is not the one the specification prescribes" % (len(ev["calls"]), reason, ev.get("err", ""), what),
                 {"calls": ev["calls"][:at]})
    e = json.loads(lines[0])
    e["mem"]["labels"] = e["mem"]["labels"] + [9]
    n2, f2 = validate_seqs(c, [json.dumps(e)], "snap-selftest", max_fail=1)
    e = json.loads(lines[0])
    mid = len(e["steps"]) // 2
    e["steps"][mid]["labels"] = list(reversed(e["steps"][mid]["labels"])) if len(e["steps"][mid]["labels"]) > 1 else e["steps"][mid]["labels"] + [9]
    n3, f3 = validate_seqs(c, [json.dumps(e)], "snap-selftest2", max_fail=1)
    c.cov["selftest_rejected"] = len(f2) == 1 and len(f3) == 1
    if len(f2) != 1 or len(f3) != 1 or f3[0][2] != mid + 1:
        raise Broken("snapshot trace self-test failed")
    c.assumptions += ["texts are identified by the position of the operation that introduced them; labels by small integers",
                      "the cache path is skipped for sequences the cache API cannot express (no-op operations, edits it refuses)"]


def replay(c, rep):
    c.cov["states"] = c.cov["transitions"] = 1
    c.sample(rep["replay"])
    if "vector" in rep["replay"]:
        mism, _ = run_vectors(c, [rep["replay"]["vector"]], "replay", 1)
        for m in mism:
            c.report(key_of(m), m["why"][:500], {"vector": m["vec"]})
