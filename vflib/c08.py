"""C08 signature rule: Sig.tla (KeysAt, Accept); MC_Sig enumerates version histories x commit cases with the verdict; each is
executed with real OpenPGP keys: writer replica, hub, and a judging replica that knows the author from git only."""
import json
import os

from .core import Broken


def gen(c, maxv, nkeys, maxt):
    d = c.specdir()
    cfg = "MC_Sig_run.cfg"
    with open(os.path.join(d, cfg), "w") as f:
        f.write("SPECIFICATION Spec\nCONSTANTS MaxV = %d  NKeys = %d  MaxT = %d\nINVARIANTS InvTheorems Emit\nCHECK_DEADLOCK FALSE\n" % (maxv, nkeys, maxt))
    r = c.tlc_model("MC_Sig", cfg, timeout=3000, label="histories <= %d versions, %d keys, times 0..%d" % (maxv, nkeys, maxt))
    vecs = [v for v in r.printed() if "hist" in v]
    if len(vecs) < 100:
        raise Broken("only %d signature vectors" % len(vecs))
    return vecs


def run_vecs(c, vecs, tag):
    vf = os.path.join(c.scratch, "sig-%s.ndjson" % tag)
    out = os.path.join(c.scratch, "sig-out-%s.ndjson" % tag)
    with open(vf, "w") as f:
        for v in vecs:
            f.write(json.dumps(v) + "\n")
    c.vh(["sig", vf, out], timeout=3400)
    mism, stats = [], None
    for line in open(out):
        d = json.loads(line)
        if "stats" in d:
            stats = d["stats"]
        else:
            mism.append(d)
    if not stats or stats["executed"] < len(vecs):
        raise Broken("sig harness executed too little: %s" % stats)
    return mism, stats


def case_key(v):
    c = v["c"]
    kind = "unsigned" if c["signer"] == 0 else "stranger" if c["signer"] == 99 else "key-in-force" if c["signer"] in v["keysat"] else "key-not-in-force"
    if c["altered"]:
        kind += "+altered"
    return "%s:%s:%s" % ("keys-in-force" if v["keysat"] else "no-key-in-force", kind, "accept" if v["accept"] else "refuse")


def run(c):
    if c.tier == "quick":
        vecs = gen(c, 2, 2, 3)
        # every vector of the 2-version space in the thorough tier; a seeded third here (all case classes stay covered)
        sel = [v for i, v in enumerate(vecs) if i % 3 == c.seed % 3]
    else:
        vecs = gen(c, 3, 2, 3)
        sel = vecs
    classes = {}
    for v in sel:
        classes.setdefault(case_key(v), 0)
        classes[case_key(v)] += 1
    mism, stats = run_vecs(c, sel, "main")
    c.cov["vectors_executed"] += stats["executed"]
    c.cov["traces_validated_against_impl"] = stats["executed"]
    c.cov["case_classes"] = classes
    c.cov["exhaustive"] = c.tier == "thorough"
    c.sample(sel[len(sel) // 2])
    c.sample([v for v in sel if v["keysat"] and v["accept"]][0])
    seen = set()
    for m in mism:
        v = m["vec"]
        if m["why"].startswith("DRIVER:"):
            raise Broken(m["why"])
        key = "sig:%s:%s" % (case_key(v), m["why"][:40])
        if key in seen:
            continue
        seen.add(key)
        c.report(key, m["why"], {"vector": v})
    good = json.loads(json.dumps([v for v in sel if v["keysat"] and v["accept"]][0]))
    good["accept"] = False
    bad2 = json.loads(json.dumps([v for v in sel if v["keysat"] and not v["accept"]][0]))
    bad2["accept"] = True
    m2, _ = run_vecs(c, [good, bad2], "selftest")
    c.cov["selftest_rejected"] = len(m2) == 2
    if len(m2) != 2:
        raise Broken("signature self-test failed: %d of 2 corrupted verdicts noticed" % len(m2))
    c.assumptions += ["cryptography is ideal in the specification; the OpenPGP library is exercised but its soundness is trusted",
                      "the judging replica obtains the author's identity by pull (public keys only), as any other user would"]


def replay(c, rep):
    c.cov["states"] = c.cov["transitions"] = 1
    c.sample(rep["replay"])
    mism, _ = run_vecs(c, [rep["replay"]["vector"]], "replay")
    for m in mism:
        c.report("sig:%s:%s" % (case_key(m["vec"]), m["why"][:40]), m["why"], {"vector": m["vec"]})
