"""C04 committed data reads back identically, ids content-derived and stable: Fidelity.tla; sessions of random operations of
every kind recorded on go-git and mock repositories, read through every path, validated by TLC."""
import json
import os

from . import tv
from .core import Broken


def split(lines):
    sessions = []
    for l in lines:
        if json.loads(l)["ev"] == "Reset":
            sessions.append([])
        sessions[-1].append(l)
    return sessions


def validate(c, sessions, label, max_fail=10):
    alive = list(range(len(sessions)))
    failures = []
    while alive:
        tf = os.path.join(c.scratch, "tv-%s.ndjson" % label)
        offsets, n = [], 0
        with open(tf, "w") as f:
            for i in alive:
                offsets.append((n, i))
                for line in sessions[i]:
                    f.write(line + "\n")
                    n += 1
        ok, bad, r = tv.validate_file(c, "FidelityTrace", "FidelityTrace.cfg", tf, label)
        if ok:
            break
        if r.violated not in (None, "postcondition"):
            import re
            m = [int(x) for x in re.findall(r"^State (\d+):", r.out, re.M)]
            bad = max(1, (max(m) if m else bad) - 1)
        sess = None
        for off, i in offsets:
            if off < bad:
                sess, soff = i, off
        ev = json.loads(sessions[sess][min(bad - 1 - soff, len(sessions[sess]) - 1)])
        failures.append((sess, bad - soff, ev))
        alive.remove(sess)
        if len(failures) >= max_fail:
            break
    return len(alive), failures


def run(c):
    c.tlc_model("MC_Fidelity", "MC_Fidelity.cfg", timeout=600, label="append / commit in chunks, 2 authors, <= 6 operations")
    n = 240 if c.tier == "quick" else 6000
    out = os.path.join(c.scratch, "fid.ndjson")
    c.vh(["fidelity", out, n], timeout=3000)
    lines = [l.rstrip("\n") for l in open(out)]
    sessions = split(lines)
    if len(sessions) != n:
        raise Broken("fidelity harness ran %d sessions of %d" % (len(sessions), n))
    paths = {}
    for l in lines:
        e = json.loads(l)
        if e["ev"] == "Read":
            paths[e["path"]] = paths.get(e["path"], 0) + 1
    for p in ("gogit:Read", "gogit:ReadAll", "gogit:cache", "gogit:replica", "mock:Read", "mock:ReadAll"):
        if paths.get(p, 0) == 0:
            raise Broken("read path %s was never exercised" % p)
    n_ok, failures = validate(c, sessions, "fid")
    c.cov["traces_validated_against_impl"] = n_ok
    c.cov["trace_events"] = len(lines)
    c.cov["reads_by_path"] = paths
    merged = [json.loads(l) for l in lines if '"ev":"ReadMerged"' in l]
    c.cov["merged_histories_read"] = len(merged)
    c.cov["reads_of_merged_histories"] = sum(len(e["reads"]) for e in merged)
    if len(merged) < n // 6:
        raise Broken("only %d sessions ended with concurrent edits merged on both replicas" % len(merged))
    e = json.loads(sessions[0][1])
    c.sample({"ev": e["ev"], "eid": e["eid"], "ops": e["ops"][:2]})
    e = json.loads([l for l in sessions[0] if '"ev":"Commit"' in l][0])
    c.sample({"ev": "Commit", "packs": e["packs"], "times": e["times"], "authors": [o["au"] for o in e["ops"]], "stored": e["stored"][:2]})
    for sess, idx, ev in failures:
        what = ev.get("err") or {"Append": "operation ids not fresh / entity id not the first operation's id",
                                 "Commit": "ids or payloads changed by the commit, or packs not split by author, or stored form does not hash to the id",
                                 "ReadMerged": "after concurrent edits were merged on both replicas the readers do not all see the same sequence holding every operation of both sides once, in each side's order",
                                 "Read": "the reader does not see exactly the committed operations (ids, payload digests, authors, order, times, files, validity)"}.get(ev["ev"], ev["ev"])
        c.report("fidelity:%s:%s:%s" % (ev["ev"], ev.get("path", ""), what[:50]), "session %d event #%d %s %s: %s" % (sess, idx, ev["ev"], ev.get("path", ""), what),
                 {"session_index": sess, "event": {k: ev[k] for k in ev if k != "ops"}, "n_ops": len(ev.get("ops", []))})
    # self-test: a reader returning a different payload for one operation must be rejected
    good = [s for i, s in enumerate(sessions) if i not in {f[0] for f in failures}]
    evs = [json.loads(x) for x in good[0]]
    for e in evs:
        if e["ev"] == "Read" and e["ops"]:
            e["ops"][-1]["d"] = "0" * 16
            break
    n2, f2 = validate(c, [[json.dumps(e) for e in evs]], "fid-selftest", max_fail=1)
    c.cov["selftest_rejected"] = len(f2) == 1
    if len(f2) != 1:
        raise Broken("fidelity self-test failed")
    c.assumptions += ["payload equality is equality of SHA-256 digests of a canonical rendering of every field of an operation",
                      "the hash of the stored form is recomputed by the harness from the raw JSON element of the stored blob",
                      "JSON / UTF-8 encoding fidelity is observed through those digests, not modelled"]


def replay(c, rep):
    c.cov["states"] = c.cov["transitions"] = 1
    c.sample(rep["replay"])
    out = os.path.join(c.scratch, "fid.ndjson")
    c.vh(["fidelity", out, 45])
    sessions = split([l.rstrip("\n") for l in open(out)])
    n_ok, failures = validate(c, sessions, "replay")
    for sess, idx, ev in failures:
        c.report(rep["key"], ev.get("err", ""), rep["replay"])
