"""C18 concurrent use of one cache: CacheConc.tla (goroutines, lock-delimited steps) model-checked in four configurations (the
shipped design; witnesses without the re-check and with eviction of instances in use); real concurrent runs validated by TLC."""
import json
import os

from . import tv
from .core import Broken


def symptom(ev):
    if ev["ev"] == "Clock":
        return "clock-file-behind-memory" if ev["mem"] != ev["file"] else "clock-values-not-unique"
    if ev["crash"]:
        return "crash"
    if ev["deadlock"]:
        return "deadlock"
    if ev["panics"]:
        return "panic"
    acks = {}
    for a in ev["acks"]:
        acks.setdefault(a["bug"], []).append(a["op"])
    maybes = {}
    for a in ev["maybes"]:
        maybes.setdefault(a["bug"], []).append(a["op"])
    for b in ev["bugs"]:
        if not b["readable"] or not b["valid"]:
            return "invalid-history"
        if len(set(b["stored"])) != len(b["stored"]):
            return "stored-twice"
        if not set(acks.get(b["bug"], [])) <= set(b["stored"]):
            return "lost-ack"
        if not set(b["stored"]) <= set(acks.get(b["bug"], [])) | set(maybes.get(b["bug"], [])):
            return "unacknowledged-stored"
    if ev.get("stale"):
        return "stale-excerpt"
    if not ev["agrees"]:
        return "cache-disagrees"
    if ev["clockfile"] != ev["clockmem"]:
        return "clock-file-behind-memory"
    return "other"


def run(c):
    c.tlc_model("CacheConc", "MC_CacheConc.cfg", timeout=1200, label="3 goroutines, re-check under the write lock, no eviction of instances in use")
    for cfg, inv, why in (("MC_CacheConc_norecheck.cfg", "AckStored", "without the re-check two instances coexist and an acknowledged operation is lost"),
                          ("MC_CacheConc_evict.cfg", "NoDeadlock", "evicting an instance in use blocks its holder"),
                          ("MC_CacheConc_evict2.cfg", "AckStored", "evicting an instance in use lets two instances coexist")):
        r = c.tlc("CacheConc", cfg, timeout=600, label="witness: " + why)
        if r.violated != inv:
            raise Broken("witness run %s did not produce the expected counterexample (%s): the model is vacuous" % (cfg, inv))
    c.tlc_model("ClockFirstUse", "MC_ClockFirstUse.cfg", timeout=600, label="3 goroutines first using one persisted clock: lookup, load and publication in one critical section")
    r = c.tlc("ClockFirstUse", "MC_ClockFirstUse_split.cfg", timeout=600, label="witness: load outside the lock, publication without looking again")
    if r.violated != "Unique":
        raise Broken("witness run MC_ClockFirstUse_split.cfg did not produce the expected counterexample (Unique): the model is vacuous")
    runs = 32 if c.tier == "quick" else 600
    out = os.path.join(c.scratch, "conc.ndjson")
    c.vh(["conc", out, runs], timeout=3400)
    clk = os.path.join(c.scratch, "conc-clock.ndjson")
    c.vh(["conc-clock", clk, 150 if c.tier == "quick" else 3000], timeout=3400)
    lines = [l.rstrip("\n") for l in open(out)] + [l.rstrip("\n") for l in open(clk)]
    n_ok, failures = tv.validate_dropping(c, "CacheConcTrace", "CacheConcTrace.cfg", lines, "conc", max_fail=60)
    c.cov["traces_validated_against_impl"] = n_ok
    evs = [json.loads(l) for l in lines]
    runs_ev = [e for e in evs if e["ev"] == "Run"]
    c.cov["concurrent_runs"] = len(runs_ev)
    c.cov["runs_where_eviction_possible"] = sum(1 for e in runs_ev if e["mayevict"])
    c.cov["acknowledged_operations"] = sum(len(e["acks"]) for e in runs_ev)
    c.cov["clock_rounds"] = len(evs) - len(runs_ev)
    c.cov["clock_rounds_first_use_concurrent"] = sum(1 for e in evs if e["ev"] == "Clock" and e.get("cold"))
    e0 = runs_ev[0]
    c.sample({"config": e0["config"], "acks": e0["acks"][:3], "stored": [b["stored"][:3] for b in e0["bugs"]][:2], "agrees": e0["agrees"]})
    if c.cov["acknowledged_operations"] < 50:
        raise Broken("the concurrent driver acknowledged almost nothing")
    for ev, reason in failures:
        s = symptom(ev)
        if ev["ev"] == "Run" and ev["mayevict"] and s in ("deadlock", "lost-ack", "cache-disagrees"):
            key = "evict-in-use:" + s
        else:
            key = "conc:" + s
        what = "%s; config %s; errors %s; %s" % (s, json.dumps(ev.get("config", {})), ev.get("errors", [])[:3], (ev.get("diff") or ev.get("crash") or "")[:600]) if ev["ev"] == "Run" else \
            "%d goroutines incrementing one persisted clock%s: memory %d, file %d, largest issued %d, unique %s" % (ev["workers"], " they are the first to use in this process" if ev.get("cold") else "", ev["mem"], ev["file"], ev["max"], ev["unique"])
        c.report(key, what, {"config": ev.get("config"), "event": {k: ev[k] for k in ev if k not in ("diff", "acks", "bugs", "maybes")}})
    e = json.loads(json.dumps(runs_ev[0]))
    if e["acks"] and e["bugs"]:
        b = e["acks"][-1]["bug"]
        for bs in e["bugs"]:
            if bs["bug"] == b and bs["stored"]:
                bs["stored"] = [x for x in bs["stored"] if x != e["acks"][-1]["op"]]
    e["deadlock"], e["crash"], e["agrees"] = False, "", True
    n2, f2 = tv.validate_dropping(c, "CacheConcTrace", "CacheConcTrace.cfg", [json.dumps(e)], "conc-selftest", max_fail=1)
    c.cov["selftest_rejected"] = len(f2) == 1
    if len(f2) != 1:
        raise Broken("concurrency self-test failed")
    c.assumptions += ["real schedules are whatever the Go scheduler produces for 2..16 goroutines at GOMAXPROCS 1..16: exploration, not enumeration; "
                      "the model enumerates the interleavings of the lock-delimited steps",
                      "a run that does not finish within 15 s is counted as a deadlock"]


def replay(c, rep):
    c.cov["states"] = c.cov["transitions"] = 1
    c.sample(rep["replay"])
    out = os.path.join(c.scratch, "conc.ndjson")
    if rep["key"].startswith("conc:clock"):
        c.vh(["conc-clock", out, 300], timeout=3000)
    else:
        c.vh(["conc", out, 32], timeout=3000)
    lines = [l.rstrip("\n") for l in open(out)]
    n_ok, failures = tv.validate_dropping(c, "CacheConcTrace", "CacheConcTrace.cfg", lines, "replay", max_fail=40)
    for ev, reason in failures:
        s = symptom(ev)
        key = ("evict-in-use:" + s) if ev.get("mayevict") and s in ("deadlock", "lost-ack", "cache-disagrees") else "conc:" + s
        c.report(key, s, {"config": ev.get("config")})
