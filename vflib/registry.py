"""Which properties have a check, and what MANIFEST.json says about them."""
import glob
import json
import os
import subprocess

from . import core

MC = "model_checking"

# property id -> {module, technique, text, note, design_ref}
CHECKS = {}


def reg(pid, module, technique, text, note, design_ref):
    CHECKS[pid] = dict(module=module, technique=technique, text=text, note=note, design_ref=design_ref)


# Reasons for properties that have no check (yet). Kept current by hand.
PENDING = "no check built yet for this property in the current state of /verif (construction order: DESIGN.md section 9); nothing is claimed"
NOT_APPLICABLE = {}


def all_property_ids():
    ids = []
    with open(os.path.join(core.VERIF, "properties.jsonl")) as f:
        for line in f:
            line = line.strip()
            if line:
                ids.append(json.loads(line)["id"])
    return ids


def write_manifest():
    checks = []
    for pid in sorted(CHECKS):
        e = CHECKS[pid]
        checks.append({
            "property_id": pid,
            "quick_cmd": "./vf check %s --tier quick" % pid,
            "thorough_cmd": "./vf check %s --tier thorough" % pid,
            "evidence_file": "/verif/evidence/%s.json" % pid,
            "replay_cmd_template": "./vf replay %s {path}" % pid,
            "engine": "tlc+harness",
            "level_claimed": {"category": MC, "text": e["text"], "design_ref": e["design_ref"]},
            "level_note": e["note"],
            "technique": e["technique"],
        })
    na = []
    for pid in all_property_ids():
        if pid not in CHECKS:
            na.append({"property_id": pid, "reason": NOT_APPLICABLE.get(pid, PENDING)})
    hooks_commits = []
    p = os.path.join(core.VERIF, "hooks_commits.txt")
    if os.path.exists(p):
        hooks_commits = [l.split()[0] for l in open(p) if l.strip() and not l.startswith("#")]
    m = {
        "version": 1,
        "setup_cmd": "./vf setup",
        "hooks": {
            "guard": "verif",
            "enable": "go build -tags verif (the harness module /verif/harness replaces github.com/MichaelMure/git-bug by /repo and is rebuilt from the working tree by every check)",
            "baseline_off_cmd": "cd /repo && go test -vet=off -count=1 -timeout 25m ./...",
            "source_commits": hooks_commits,
            "add_only": True,
        },
        "engines": [
            {"name": "tlc+harness", "path": "/verif/vf",
             "serves_properties": sorted(CHECKS),
             "kind_free_text": "TLA+ specifications in /verif/spec checked by TLC (exhaustive bounded models; generation of "
                               "behaviours and input vectors), bound to the Go code by /verif/harness: model-based test "
                               "vectors executed against the real packages and NDJSON traces of real executions validated "
                               "by TLC against trace specifications"},
        ],
        "checks": checks,
        "not_applicable": na,
        "notes": "See /verif/DESIGN.md. Exit 2 of a check means the run is not evidence (build failure, timeout, model error); "
                 "violations are only ever reported from behaviour of the real code. Known findings: /verif/known_findings.json.",
    }
    with open(os.path.join(core.VERIF, "MANIFEST.json"), "w") as f:
        json.dump(m, f, indent=1)
        f.write("\n")


def setup():
    """Build everything from files on disk: SANY over the modules, warm the Go build cache."""
    rc = 0
    env = dict(os.environ)
    env.update(core.GOENV)
    core.sync_gosum()
    p = subprocess.run(["go", "build", "-tags", "verif", "-o", "/dev/null", "./cmd/vh"], cwd=core.HARNESS, env=env)
    rc |= p.returncode
    p = subprocess.run(["go", "build", "-tags", "verif", "-o", "/dev/null", "."], cwd=core.REPO, env=env)
    rc |= p.returncode
    for tla in sorted(glob.glob(os.path.join(core.SPEC, "*.tla"))):
        p = subprocess.run(["java", "-cp", core.TLA_CP, "tla2sany.SANY", os.path.basename(tla)], cwd=core.SPEC,
                           stdout=subprocess.PIPE, stderr=subprocess.STDOUT, text=True)
        if p.returncode != 0 or "Semantic errors" in p.stdout or "***Parse Error***" in p.stdout or "Fatal errors" in p.stdout:
            print(p.stdout[-3000:])
            print("SANY failed on", tla)
            rc |= 1
    print("setup", "ok" if rc == 0 else "FAILED")
    return 1 if rc else 0


# ---------------------------------------------------------------------------------------------------------------------
# registered checks (see DESIGN.md section 4 for each)

reg("C20", "c20",
    "TLA+ spec Page.tla (Paginate, Walk) checked exhaustively by TLC; every TLC state replayed as a test vector against "
    "the generated connections and the GraphQL handler",
    "TLC enumerates every request (n, first, after, last, before) and every client walk (n, page size, direction) inside the "
    "bounds and checks the window, flag, cursor, total and exactly-once-walk theorems on the specification; each state is then "
    "executed against all seven generated connection functions and, end to end, against eight GraphQL lists served by the real "
    "handler over real repositories, and must return exactly the page the specification prescribes.",
    "Bounds: list length <= 5 (quick) / 7 (thorough), page sizes -1..6/8, cursors valid/foreign/malformed/absent. gqlgen, go-git "
    "and bleve are trusted; the Go-side comparison code and TLC are trusted.",
    "DESIGN.md section 4, C20")

GB_NOTE = ("Bounds of the exhaustive runs: 2-3 replicas, 1-2 bugs, <= 4-6 commits (see tlc_runs in the evidence). go-git, the "
           "system git used by its file transport, SHA-256 and TLC are trusted. Pack ids enter the specification only through "
           "their relative order (rank).")

reg("C01", "c01",
    "TLA+ spec GitBug.tla model-checked by TLC; TLC-generated schedules run on real replicas; recorded traces validated by TLC",
    "TLC explores every interleaving of create/edit/push/fetch/merge/read for 2-3 replicas inside the bounds and checks that every "
    "history git-bug builds stays readable, that equal operation sets are ordered equally and that a synchronisation fixpoint "
    "equalises all replicas. TLC then generates schedules (plus a catalogue of diverged branches of all length pairs 0..3, "
    "cross-merges, three replicas) that the harness runs on real go-git repositories sharing a bare remote, synchronises to "
    "quiescence and records; TLC validates every recorded step against the specification, including that each bug.Read returns "
    "exactly Order(ref) and that equal orders compile to equal snapshots. MC_GitBugLive.tla checks the liveness clause under "
    "fairness (after editing stops, fair pushes, fetches and merges lead to, and keep, identical replicas; a witness without fair "
    "merges must fail). Schedules also come from a generator drawing uniformly over the action kinds.",
    GB_NOTE, "DESIGN.md section 4, C01")

reg("C02", "c02",
    "TLA+ spec GitBug.tla (Merge: five scenarios) model-checked by TLC; merge results of real pulls validated by TLC as traces",
    "TLC checks on every reachable (local, fetched) pair inside the bounds that the merge report is truthful (new / updated / "
    "nothing / invalid iff what happened), that no operation reachable from a local ref is ever lost (action property RefsGrow), "
    "that the remote's operations are contained afterwards and that the entity handed back is Order(ref'). The harness runs "
    "TLC-generated and catalogue schedules on real repositories, consumes the real MergeResult stream of bug.MergeAll and logs "
    "status, returned entity (projected operations), new commits and refs; TLC accepts a trace only if each merge event is the "
    "specification's Merge step with exactly that status, returned entity and resulting state.",
    GB_NOTE, "DESIGN.md section 4, C02")

reg("C05", "c05",
    "TLA+ specs GitBug.tla (clock part, Reopen, DeleteClocks, loader) and Clock.tla model-checked by TLC; clock values of real "
    "runs bound to the specification by trace validation; exhaustive clock-object vectors",
    "TLC checks on every interleaving of edits, reads, merges, re-openings (with clock loaders) and deletions of the clock files "
    "inside the bounds that the clocks cover every local head after every call, that memory >= disk, and as an action property that "
    "every new pack's edit time exceeds that of every pack it descends from. Clock.tla enumerates all operation sequences "
    "(increment / witness v / reload) up to the bound; each is executed on MemClock, PersistedClock, GoGitRepo and the mock "
    "repository and must give the specification's memory value, file content and returned time after every operation. Schedules "
    "with restarts are run on real repositories; TLC accepts a trace only if the memory and file values of both clocks equal the "
    "specification's after every step. ClockInd.tla states the clock object without bounds; Apalache discharges an inductive "
    "invariant (initial states satisfy it; one step from any state satisfying it preserves it), the step properties from every such "
    "state, and refutes a witness whose Witness() does not reach the file.",
    GB_NOTE + " Concurrent increments inside one process belong to C18. The clock loader is the library mechanism "
    "(bug.ClockLoader); a re-opening without loaders is modelled as such and claims nothing.", "DESIGN.md section 4, C05")

reg("C03", "c03",
    "TLA+ specs GitBug.tla (Order, ReadOK) and MC_Forge.tla model-checked by TLC; forged histories enumerated by TLC and built on "
    "both storage backends; real reads bound to Order by trace validation",
    "TLC checks that on every DAG git-bug can build inside the bounds, and on every clock-consistent forged DAG, the documented "
    "order never places a pack before one of its ancestors and contains every operation once. MC_Forge enumerates every history "
    "of <= 3 commits (<= 4 in the thorough tier) over {0,1,2 parents} x edit clocks {0,1,2,3,far} x creation clock x pack contents x "
    "both pack-id directions with the verdict ReadOK and the prescribed order; the harness builds each with real git objects on "
    "GoGitRepo and on the mock repository and requires bug.Read (twice) and bug.MergeAll to accept with exactly that order or to "
    "refuse (error / invalid, local refs untouched, no panic). Reads of self-built histories are bound to Order by the trace "
    "specification.",
    GB_NOTE, "DESIGN.md section 4, C03")

reg("C13", "c13",
    "TLA+ spec Ids.tla model-checked by TLC (interleaving theorem for every prefix length, resolution table); vectors against "
    "CombineIds/SeparateIds; traces of real prefix resolution validated by TLC",
    "TLC proves on position-tagged symbolic ids that for every prefix length 0..64 a combined id's prefix separates into a prefix "
    "of each part (50 + 14 symbols, injective layout) and checks the 0/1/many table on every population of <= 4 ids with all "
    "shared-prefix shapes. The layout is replayed against entity.CombineIds / SeparateIds on random real ids. The harness then "
    "engineers real populations (bugs, identities, comments whose ids share 1-3 leading characters, found by grinding nonces), "
    "asks the cache to resolve every prefix length 0..64 of every id and combined id plus near-miss prefixes, and TLC accepts the "
    "trace only if every answer (entity found, multiple-match error and its id list, not-found) is the one the specification "
    "computes on the logged population. Populations hold 9 bugs and 8 identities (multiple-match lists longer than a handful). The "
    "command line's resolution (commands/select: the argument first, the selected bug only when the argument matches nothing) is "
    "exercised through the real select.Resolve for every prefix with no selection, a selected bug and a selection that no longer "
    "exists.",
    "SHA-256 collisions ignored; the cache is built by git-bug itself from entities written through the entity API.",
    "DESIGN.md section 4, C13")

reg("C10", "c10",
    "TLA+ spec Snapshot.tla (operation semantics transcribed operator by operator) enumerated by TLC; one implementation test per "
    "transition through three paths; long random sequences folded by TLC",
    "TLC enumerates every sequence create.s (|s| <= 3 over 47 call instances covering every operation kind with and without "
    "attached files, valid / unknown / non-comment edit targets, forced and filtered label changes over three labels with "
    "duplicates and absent removals, metadata collisions, no-op; quick tier: all of length <= 2 and a seeded quarter of length 3) "
    "and checks the property's clauses as theorems (sorted duplicate-free labels, one comment per create/add-comment with the text "
    "and files of its latest edit, duplicate-free actors/participants, one timeline entry per state-changing operation, incremental = from "
    "scratch). Every state is replayed through bug.Compile in memory (twice), through commit + bug.Read + Compile, and through the "
    "cache's incrementally maintained snapshot, and the fully projected snapshot (title, status, labels, comments, actors, "
    "participants, timeline with edit history, per-operation metadata) must equal the specification's. Random sequences of 20-300 "
    "calls executed on the code are validated by TLC one specification step per call (a projection of the compiled state is "
    "logged after every call, the complete state at the end).",
    "Texts and labels are abstracted to integers; unicode fidelity belongs to C04. TLC, the harness projection code trusted.",
    "DESIGN.md section 4, C10")

reg("C12", "c12",
    "TLA+ spec Query.tla (Tokenize, Parse, Render/Denote, Matches/Admissible) enumerated by TLC; vectors against query.Parse; "
    "random strings and evaluations over real populations validated by TLC as traces",
    "TLC enumerates every string of <= 5 (6) atoms over {qualifier words, words, blank, colon, both quotes} with the outcome the "
    "transcribed lexer and parser prescribe, and every sequence of <= 2 (3) clauses from a catalogue covering every documented "
    "qualifier, quoted multi-word values, sub-qualifiers and all sort forms, proving the round trip Parse(Render(q)) = Denote(q) on "
    "the model. Each vector is run through query.Parse in four instantiations (ASCII, tab, NBSP + multibyte words, ideographic "
    "space); random strings beyond the bound are checked by trace validation (no panic, same outcome). For evaluation the harness "
    "builds real populations through two caches sharing a remote (overlapping names and logins, labels, titles, metadata, equal "
    "and distinct Lamport / unix times), runs generated queries through Parse + RepoCacheBug.Query and TLC accepts the trace only "
    "if every result lists exactly the bugs satisfying the query (any-of / all-of rules, case-insensitive names, id prefixes), each "
    "once, sorted by the requested key and direction.",
    "ASCII case folding only; bleve full-text evaluation excluded (C11); TLC and the harness projection trusted.",
    "DESIGN.md section 4, C12")

reg("C08", "c08",
    "TLA+ spec Sig.tla (KeysAt, Accept) enumerated by TLC; every vector executed with real OpenPGP keys across two replicas",
    "TLC enumerates every identity version history (<= 2 / 3 versions adding, removing, rotating 2 keys at logical times 0..3) crossed "
    "with commits at every logical time signed by a key in force, a removed or not-yet-valid key, a stranger's key, unsigned, or "
    "signed and then altered, checks the clauses of the rule as theorems and prints the verdict. The harness builds each history "
    "with real identities and OpenPGP keys (versions committed at the prescribed edit-clock values), writes the commit (git-bug's "
    "StoreSignedCommit for signatures, go-git for the altered case), pushes it, and a second replica that knows the author only "
    "from git must merge / read it exactly when the specification accepts, and otherwise refuse with a signature error, create "
    "no ref and not crash.",
    "Ideal cryptography in the model; ProtonMail/go-crypto trusted. Commits are single-commit bugs written by hand at the chosen "
    "logical time (git-bug's own write path cannot choose a logical time below its clock).",
    "DESIGN.md section 4, C08")

reg("C09", "c09",
    "TLA+ specs Ident.tla / IdentFields.tla model-checked and enumerated by TLC; schedules run on real repositories and validated "
    "by TLC as traces; field-class vectors on the editing API and as remote data",
    "TLC explores every interleaving of new identity / mutate / push / fetch / merge on 2-3 replicas within 5 versions and checks "
    "the action properties (every local chain only ever extends; the id never changes) and the fast-forward table (updated iff the "
    "remote strictly extends the local, nothing iff equal or behind, invalid and untouched iff diverged). A catalogue of all "
    "(prefix, local suffix, remote suffix) triples up to (2,2,2), with and without other identities in the same pull, and "
    "TLC-simulated schedules are run on real repositories; TLC accepts a trace only if every step (including that MergeAll "
    "reports on every remote identity, the status, the identity handed back and the resulting chains) is the specification's. "
    "IdentFields enumerates 1008 field-class combinations and the clock classes (growing, equal, decreasing, dropped); each is "
    "tried through NewIdentityFull + Commit and as a forged remote chain and must be accepted exactly when valid.",
    "Keys are covered by C08. go-git, TLC and the projection code are trusted.", "DESIGN.md section 4, C09")

reg("C14", "c14",
    "TLA+ spec Remove.tla enumerated by TLC (every configuration x entry point, repeated); each configuration executed on real "
    "repositories through the entity API, the cache API and the CLI",
    "TLC enumerates every configuration of 0..3 remotes, the entity local or not, tracked by any subset of the remotes, other "
    "entities present or not, and checks completeness, the frame condition, idempotence and the end state of a wipe on the model. "
    "The harness realises each configuration with real refs (bugs and identities; one neighbour sharing an id prefix), removes "
    "through bug.Remove / identity.Remove, SubCache.Remove and `git-bug bug rm <unique prefix>`, and compares every ref, the "
    "configuration, and what the live cache, the reopened cache and a rebuilt cache serve (excerpt, prefix resolution, title "
    "query, full-text hit) with the specification; a merge without a new fetch must not bring the entity back; `git-bug wipe` "
    "must leave no git-bug ref, configuration key or storage and keep foreign refs and keys.",
    "Tracking refs are planted directly. go-git, bleve trusted.", "DESIGN.md section 4, C14")

reg("C11", "c11",
    "TLA+ spec Cache.tla model-checked by TLC; TLC-generated sessions run on two real caches; live-versus-rebuilt comparison "
    "after every action validated by TLC as a trace",
    "TLC explores every interleaving of new / edit / commit / push / pull / remove / resolve-under-small-size / reopen by two users "
    "(3 bugs) and checks that, given the refresh obligations each action carries, every quiescent state has the cache list "
    "exactly the bugs with a local ref with fresh excerpt, index document and instance. Sessions generated by TLC (plus a "
    "catalogue including pull-then-edit on merged history, eviction with cache size 1, identity renames) are run on two real "
    "RepoCaches sharing a remote; after every action the harness builds a second cache from a copy of the git data and compares "
    "excerpts, resolved snapshots, valid labels, a battery of queries, full-text hits for planted words, create-metadata lookups "
    "and identities; TLC accepts a trace only if at every point the specification deems quiescent the live cache lists exactly the "
    "bugs with a local ref and agrees with the rebuilt cache on every facet.",
    "Content equality is judged against the rebuilt cache (same code): a defect common to both paths is not visible here (C10, C01 "
    "cover the content). bleve trusted.", "DESIGN.md section 4, C11")

reg("C06", "c06",
    "TLA+ spec Crash.tla model-checked by TLC; fault enumeration of every crash point of every write path in dying child "
    "processes; records validated by TLC",
    "Crash.tla states what a write path must look like (every object followed by the ref update that publishes it, one ref "
    "mutation per entity, clock files only replaced atomically) and what must be found after a crash at point k, entity by entity "
    "(old or new state decided by the mutations of that entity's ref alone, repository opens, every entity readable and valid, "
    "clocks usable and not behind any stored time, repeating the call completes it). TLC checks every path of the commit / merge / "
    "pull / remove grammar (one or two entities per call) x every crash point; two witness runs show that in-place clock writes and "
    "a ref update after every pack are reported unsafe. The harness runs a catalogue of calls (new bug with one / several authors, "
    "edit, new and mutated identity, pulls that create / fast-forward / merge, one pull moving six entities, removal of a bug and of "
    "an identity, plain read) and generated ones (commits with up to three authors, identities with several versions, pulls of "
    "random mixtures) once to record the real mutation sequence (git objects and refs through a decorator of "
    "repository.ClockedRepo, clock-file operations through the verif local-storage hook) and then once per crash point in a child "
    "process that exits at that mutation (after an O_TRUNC open took effect; in the middle of a write - thorough: every prefix "
    "length); the dying child's own trail must match the reference run; the parent re-opens with clock loaders, reads everything, "
    "repeats the call if needed (thorough: interrupts the repeated call too), and TLC accepts the records only if all of the above "
    "holds at every point.",
    "go-git's object / ref writes and fetch are trusted atomic. 113+ crash points; identity and bug paths; entity API level.",
    "DESIGN.md section 4, C06")

reg("C07", "c07",
    "TLA+ spec Format.tla enumerated by TLC (mutation x position x local situation, with verdicts); every case served to a real "
    "victim repository in isolated processes; byte-level fuzz outcomes validated by TLC",
    "Format.tla names 48 structural mutations of bug packs (tree entries, JSON shapes, author, operation list, operation types and "
    "fields, DAG shape, ref name) and 21 of identity versions, says which validity conjunct each breaks, and crosses them with "
    "the position in the history and the five local situations (850 cases incl. unmutated controls that must be merged with the "
    "right status). The harness builds each served history from real git objects in a victim repository, offers it through a "
    "remote-tracking ref and requires: no crash, 'invalid' with every local ref untouched for invalid data (or, for the few "
    "mutations that stay decodable, either that or an accepted entity that reads back and validates); then stores the same data "
    "under a local ref and requires an error (not a panic) from the reader and a cache build that does not crash. Byte-level "
    "mutations of pack and version blobs (seeded) are run the same way and judged by TLC with the rule that needs no knowledge of "
    "validity.",
    "Mutations stay inside well-formed git objects (go-git rejects others). Entity-level MergeAll; the cache build is used for "
    "locally stored data.", "DESIGN.md section 4, C07")

reg("C04", "c04",
    "TLA+ spec Fidelity.tla (id stability, author-run split, readers see exactly the committed operations) model-checked by TLC; "
    "recorded sessions of random operations validated by TLC",
    "The specification fixes what never changes once an operation is appended (id, payload digest, author, position; the entity id "
    "= id of the first operation, predicted before any commit), how a commit splits the staging area (one pack per maximal "
    "same-author run, one edit-clock tick per pack), that an operation's id is the hash of its stored form, and that every reader "
    "sees exactly the committed operations, valid, with the same logical times and every attached file. The harness generates "
    "operation sequences over all eight kinds with unicode (combining marks, RTL, emoji), long and whitespace-only texts, many "
    "metadata keys, attached files (also the same file twice) and several authors per staging area, commits in arbitrary "
    "chunks, and reads back through bug.Read, bug.ReadAll, the cache, and a second replica after push / pull, on go-git and on "
    "the mock repository; TLC accepts a session only if every Append, Commit and Read event satisfies the specification.",
    "Digests (SHA-256 of a canonical rendering) stand for payloads; hash of the stored form recomputed by the harness.",
    "DESIGN.md section 4, C04")

reg("C19", "c19",
    "TLA+ spec Lock.tla model-checked by TLC; every enumerated schedule executed with real git-bug processes",
    "TLC checks on all orders of open / close / kill of two long-lived holders and of short commands that at most one live process "
    "owns the lock, that only its owner's exit removes a live lock, that stale locks are recovered and that every command "
    "releases the lock, and prints each behaviour with what every step must report. The harness runs each schedule with the built "
    "git-bug binary on one repository (`webui --no-open` holders stopped by SIGINT or SIGKILL; `bug`, `bug show <unknown>` and `bug "
    "rm` without a configured identity as commands that succeed, fail in RunE, fail in the pre-run after the cache was opened) "
    "and compares exit status, the refusal message (it must name the live holder's pid) and the content of the lock file after "
    "every step. Two more models take opening and closing apart (MC_LockOpen, MC_LockClose, each with a witness configuration "
    "that must fail): through the local-storage hook real holders are killed or stalled at every point of taking the lock (whatever "
    "a dead one leaves must not keep the next process out; an existing lock file is never taken from a live one), and an in-process "
    "holder is watched through Close (every write it makes happens under its own lock; a real second process started while the "
    "cache closes the repository inside Close must be refused).",
    "The check-then-write window inside one open is not scheduled (the code documents it as racy); main claim is about completed "
    "opens, closes and kills.", "DESIGN.md section 4, C19")

reg("C18", "c18",
    "TLA+ spec CacheConc.tla model-checked by TLC (design + three witness configurations); real concurrent runs of the cache "
    "validated by TLC (end state against acknowledged operations)",
    "The model splits Resolve, edit+commit and eviction at the lock boundaries of the code and TLC explores all interleavings of 3 "
    "goroutines: with the re-check under the write lock and no eviction of instances in use every acknowledged operation is in "
    "the stored chain, there is one instance and nobody blocks; three witness runs must produce the lost acknowledgement without "
    "the re-check and the deadlock / lost acknowledgement when instances in use are evicted. The harness runs generated mixes "
    "of New / Resolve / AddComment+Commit / SetTitle+Commit / Snapshot / Query from 2..16 goroutines (GOMAXPROCS 1..16, cache "
    "sizes 1..1000, shared and private bugs, cold and warm caches) in child processes with a deadlock watchdog, and 2..8 "
    "goroutines incrementing one persisted clock; TLC accepts a run only if nothing crashed, blocked or panicked, every "
    "acknowledged operation is stored exactly once in a readable valid history that holds nothing unaccounted for, the cache "
    "agrees with a rebuild, and the clock file holds the memory value.",
    "Real schedules are sampled, not enumerated. Known finding (design): eviction of instances still held by a goroutine.",
    "DESIGN.md section 4, C18")

reg("C17", "c17",
    "TLA+ spec Api.tla / MC_Api model-checked by TLC; every mutation found by introspection exercised on the real handlers with "
    "and without the authentication middleware; observations validated by TLC",
    "Api.tla states what each kind of request may report and change (no user: refused and the repository unchanged; user and "
    "well-formed: exactly the operations the mutation stands for, authored by the user, returned bug reflecting them, no other "
    "bug touched; ill-formed: error and no change; queries always served and never changing anything; upload likewise) and TLC "
    "checks the design against it. The harness builds the router like `git-bug webui` does, lists the Mutation type by "
    "introspection (new mutations are picked up), derives inputs from the input types, and for every mutation sends well-formed "
    "and ill-formed requests with and without the middleware, plus queries and uploads, comparing every ref, the number of git "
    "objects and what the cache serves before and after; TLC accepts the recorded observations only if each satisfies its rule. "
    "Every well-formed mutation runs under three configurations of the repository's own user (the attached one, another one, none) "
    "and with an uploaded file attached. ApiSeq.tla models the mutations as a state machine over one bug; TLC explores all sequences "
    "of <= 4 requests and request sequences of 14-19 (TLC simulation, a fixed one, and ones drawn uniformly over the request kinds) "
    "run against the real handlers, every step validated: refusal, the returned bug, the bug read back from git, authorship, and "
    "whether anything persistent moved.",
    "In-process HTTP (httptest); gqlgen trusted. Expected operation counts are known for the nine current mutations; a new "
    "mutation is checked for the gate, authorship and locality.", "DESIGN.md section 4, C17")

reg("C15", "c15",
    "TLA+ spec HostRepo.tla (frame condition) checked by TLC; sessions of CLI and library actions on a prepared host repository "
    "validated by TLC as traces",
    "The specification says that no git-bug action changes `foreign` (every ref outside git-bug's namespaces, HEAD, the index, "
    "the work tree, configuration outside the git-bug section, hooks and other files of .git), that every ref it creates lies in "
    "refs/bugs, refs/identities or their remote mirrors, and that the object database stays acceptable to git fsck --strict. The "
    "harness prepares a repository with branches (one named `bugs`), light and annotated tags, a dirty work tree, a staged file, "
    "an untracked file, aliases and hooks, runs seeded sessions of the built binary (user new, bug new / comment / label / status / "
    "title / rm / select / show, listings, push, pull from a second clone) and library calls storing attachments, and after "
    "every action records the digest of the foreign state, the fsck verdict and the ref namespaces; at the end stock git pushes "
    "the git-bug refs, garbage-collects, mirror-clones and fscks, and git-bug lists the bugs again. TLC accepts a session only "
    "if every step satisfies the frame condition.",
    "git fsck is the judge of object validity. No bridge configuration (needs the network).", "DESIGN.md section 4, C15")

reg("C16", "c16",
    "TLA+ spec Bridge.tla model-checked by TLC; TLC-simulated scenarios run with the real GitLab importer against a simulated "
    "GitLab server with failure injection; traces validated by TLC",
    "TLC explores tracker histories of 2 issues (comments and their edits, title and description changes, label and state events), "
    "up to 3 import rounds with growth in between and a failure of any request class in any round, and checks that a round "
    "without error leaves everything that changed before it imported exactly once, that the cursor moves iff no error was reported, "
    "that nothing imported is ever lost and that a round over an unchanged tracker imports nothing. Scenarios simulated by TLC "
    "(plus a catalogue) are executed by the real importer (bridge.LoadBridge + ImportAll) against an in-process GitLab "
    "simulator serving hostile texts (control characters, unicode, long lines) with HTTP 400 injected per request class; after "
    "every step the harness logs, per issue, the GitLab ids carried by the bug's operations with multiplicity, the anonymous edit "
    "operations, validity, the error flag and whether the stored cursor moved; TLC accepts a trace only if every round is the "
    "specification's clean or failed round.",
    "GitLab only (no network for the others); one page per listing; deleted users and transport-level failures are not part of "
    "the validated scenarios.", "DESIGN.md section 4, C16")
