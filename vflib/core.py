"""Shared machinery of the orchestrator: scratch space, TLC runs, harness build, verdicts, evidence.

Exit codes of a check (DESIGN.md section 6):
  0  property held on everything explored
  1  at least one VIOLATION line was printed (behaviour of the real code)
  2  the run is not evidence (build failure, dead driver, timeout, TLC model error, failed self-test)
"""
import json
import os
import re
import shutil
import signal
import subprocess
import sys
import time

VERIF = os.path.dirname(os.path.dirname(os.path.abspath(__file__)))
REPO = os.environ.get("VERIF_REPO", "/repo")
# where evidence and replays go: /verif, unless a run against another tree (a seeded change in a scratch worktree) says otherwise
OUT = os.environ.get("VERIF_OUT", VERIF)
SPEC = os.path.join(VERIF, "spec")
HARNESS = os.path.join(VERIF, "harness")
TLA_CP = "/opt/veriftools/tla/tla2tools.jar:/opt/veriftools/tla/CommunityModules-deps.jar"
NCPU = os.cpu_count() or 4

GOENV = {
    "GOFLAGS": "-mod=mod",
    "GOPROXY": "off",
    "GOSUMDB": "off",
    "GOTOOLCHAIN": "local",
}


class Broken(Exception):
    """The run cannot be used as evidence (exit 2)."""


class TlcResult:
    def __init__(self, rc, out, wall):
        self.rc = rc
        self.out = out
        self.wall = wall
        self.generated = 0
        self.distinct = 0
        self.depth = 0
        m = None
        for m in re.finditer(r"(\d+) states generated, (\d+) distinct states found", out):
            pass
        if m:
            self.generated = int(m.group(1))
            self.distinct = int(m.group(2))
        m = re.search(r"The depth of the complete state graph search is (\d+)", out)
        if m:
            self.depth = int(m.group(1))
        self.ok = rc == 0 and ("No error has been found" in out or "Finished in" in out or "simulation" in out.lower())
        self.violated = None
        m = re.search(r"Error: Invariant (\S+) is violated", out)
        if m:
            self.violated = m.group(1)
        m = re.search(r"Error: Action property (\S+) is violated", out)
        if m:
            self.violated = m.group(1)
        if "Error: Temporal properties were violated" in out:
            self.violated = "temporal"
        if "Error: Deadlock reached" in out:
            self.violated = "deadlock"
        if rc != 0 and self.violated is None and re.search(r"The postcondition.*(violated|false)|Postcondition", out, re.I):
            self.violated = "postcondition"

    def printed(self):
        """JSON values printed by the spec with PrintT(ToJson(x)): one TLA+ string literal per line."""
        res = []
        for line in self.out.splitlines():
            if len(line) >= 2 and line[0] == '"' and line[-1] == '"':
                try:
                    res.append(json.loads(tla_unquote(line)))
                except Exception:
                    pass
        return res

    def coverage_zero(self):
        """Names of actions TLC reports as never taken (needs -coverage)."""
        zero = []
        for m in re.finditer(r"<(\w+) line \d+, col \d+ to line \d+, col \d+ of module \w+>: (\d+):(\d+)", self.out):
            if int(m.group(2)) == 0 and int(m.group(3)) == 0:
                zero.append(m.group(1))
        return sorted(set(zero))

    def action_counts(self):
        res = {}
        for m in re.finditer(r"<(\w+) line \d+, col \d+ to line \d+, col \d+ of module \w+>: (\d+):(\d+)", self.out):
            res[m.group(1)] = res.get(m.group(1), 0) + int(m.group(3))
        return res


def tla_unquote(lit):
    """TLC prints strings with \\" and \\\\ escapes only; turn the literal into the raw string."""
    body = lit[1:-1]
    out = []
    i = 0
    while i < len(body):
        c = body[i]
        if c == "\\" and i + 1 < len(body):
            n = body[i + 1]
            if n == "n":
                out.append("\n")
            elif n == "t":
                out.append("\t")
            else:
                out.append(n)
            i += 2
        else:
            out.append(c)
            i += 1
    return "".join(out)


class Check:
    def __init__(self, pid, tier, seed, level="model_checking"):
        self.pid = pid
        self.tier = tier
        self.seed = seed
        self.level = level
        self.t0 = time.time()
        self.scratch = "/dev/shm/vf-%s-%d" % (pid, os.getpid())
        if not os.path.isdir("/dev/shm"):
            self.scratch = os.path.join(os.environ.get("TMPDIR", "/var/tmp"), "vf-%s-%d" % (pid, os.getpid()))
        shutil.rmtree(self.scratch, ignore_errors=True)
        os.makedirs(self.scratch)
        self.violations = []
        self.known_seen = []
        self.cov = {
            "states": 0,
            "transitions": 0,
            "traces_validated_against_impl": 0,
            "samples": [],
            "tlc_runs": [],
            "vectors_executed": 0,
            "selftest_rejected": None,
        }
        self.assumptions = []
        self._vh = None
        self._bin = None
        self.known = load_known()
        self.notes = []

    # ------------------------------------------------------------------ logging
    def log(self, *a):
        print("[%s %6.1fs]" % (self.pid, time.time() - self.t0), *a, flush=True)

    # ------------------------------------------------------------------ TLC
    def specdir(self):
        d = os.path.join(self.scratch, "spec")
        if not os.path.isdir(d):
            shutil.copytree(SPEC, d)
        return d

    def tlc(self, module, cfg=None, workers=None, simulate=None, depth=None, timeout=600, env=None,
            coverage=False, dfs=False, deadlock=True, record=True, label=None, extra=None, heap=None, seed=None):
        d = self.specdir()
        cfg = cfg or (module + ".cfg")
        meta = os.path.join(self.scratch, "meta-%s-%d" % (module, int(time.time() * 1000) % 10 ** 9))
        cmd = ["java", "-XX:+UseParallelGC", "-Xss64m"]
        if heap:
            cmd.append("-Xmx" + heap)
        if dfs:
            cmd.append("-Dtlc2.tool.queue.IStateQueue=StateDeque")
        cmd += ["-cp", TLA_CP, "tlc2.TLC", "-config", cfg, "-metadir", meta, "-noGenerateSpecTE"]
        cmd += ["-workers", str(workers or NCPU)]
        if not deadlock:
            cmd.append("-deadlock")
        if simulate is not None:
            cmd += ["-simulate", "num=%d" % simulate, "-seed", str(self.seed if seed is None else seed)]
            if depth:
                cmd += ["-depth", str(depth)]
        if coverage:
            cmd += ["-coverage", "1"]
        if extra:
            cmd += extra
        cmd.append(module)
        e = dict(os.environ)
        if env:
            e.update({k: str(v) for k, v in env.items()})
        t = time.time()
        try:
            p = subprocess.run(cmd, cwd=d, env=e, stdout=subprocess.PIPE, stderr=subprocess.STDOUT,
                               timeout=timeout, text=True, errors="replace")
        except subprocess.TimeoutExpired:
            subprocess.run(["pkill", "-f", meta], check=False)
            raise Broken("TLC timeout on %s/%s after %ds" % (module, cfg, timeout))
        finally:
            shutil.rmtree(meta, ignore_errors=True)
        r = TlcResult(p.returncode, p.stdout, time.time() - t)
        if record:
            self.cov["tlc_runs"].append({
                "module": module, "cfg": cfg, "label": label or "", "generated": r.generated,
                "distinct": r.distinct, "depth": r.depth, "rc": r.rc, "wall_s": round(r.wall, 1),
                "mode": "simulate" if simulate is not None else "exhaustive"})
        return r

    def tlc_model(self, module, cfg=None, count=True, **kw):
        """Exhaustive run of a bounded model that must pass; a model-level failure is exit 2, never a violation."""
        r = self.tlc(module, cfg, **kw)
        if r.rc != 0:
            tail = "\n".join(r.out.splitlines()[-60:])
            raise Broken("TLC reports an error on the bounded model %s/%s (rc=%d): the model is wrong or the "
                         "design is; not a verdict about the code.\n%s" % (module, cfg or module, r.rc, tail))
        if count:
            self.cov["states"] += r.distinct
            self.cov["transitions"] += r.generated
        self.log("TLC %s/%s: %d generated, %d distinct, %.1fs" % (module, cfg or module, r.generated, r.distinct, r.wall))
        return r

    def tlc_trace(self, module, cfg, tracefile, ntraces, label="trace", timeout=900, dfs=False, invariants_note=""):
        """Trace validation: returns (accepted: bool, TlcResult). TraceAccepted is a POSTCONDITION in the cfg."""
        r = self.tlc(module, cfg, workers=1, env={"TRACE": tracefile}, timeout=timeout, dfs=dfs,
                     deadlock=False, label=label)
        accepted = r.rc == 0 and "No error has been found" in r.out
        return accepted, r

    # ------------------------------------------------------------------ Go harness
    def goenv(self):
        e = dict(os.environ)
        e.update(GOENV)
        return e

    def build(self, race=False):
        if self._vh and not race:
            return self._vh
        out = os.path.join(self.scratch, "vh-race" if race else "vh")
        sync_gosum()
        cmd = ["go", "build", "-tags", "verif", "-o", out]
        if REPO != "/repo":
            # another tree than /repo (VERIF_REPO): same module, the replace directive redirected through an alternative go.mod
            mod = os.path.join(self.scratch, "alt.mod")
            with open(os.path.join(HARNESS, "go.mod")) as f:
                txt = f.read().replace("=> /repo", "=> " + REPO)
            with open(mod, "w") as f:
                f.write(txt)
            shutil.copy(os.path.join(HARNESS, "go.sum"), os.path.join(self.scratch, "alt.sum"))
            cmd.append("-modfile=" + mod)
        if race:
            cmd.append("-race")
        cmd.append("./cmd/vh")
        t = time.time()
        p = subprocess.run(cmd, cwd=HARNESS, env=self.goenv(), stdout=subprocess.PIPE, stderr=subprocess.STDOUT, text=True)
        if p.returncode != 0:
            raise Broken("harness build failed against %s:\n%s" % (REPO, p.stdout[-4000:]))
        self.log("built harness%s in %.1fs" % (" (race)" if race else "", time.time() - t))
        if not race:
            self._vh = out
        return out

    def build_gitbug(self):
        if self._bin:
            return self._bin
        out = os.path.join(self.scratch, "git-bug")
        t = time.time()
        p = subprocess.run(["go", "build", "-tags", "verif", "-o", out, "."], cwd=REPO, env=self.goenv(),
                           stdout=subprocess.PIPE, stderr=subprocess.STDOUT, text=True)
        if p.returncode != 0:
            raise Broken("git-bug build failed:\n%s" % p.stdout[-4000:])
        self.log("built git-bug in %.1fs" % (time.time() - t))
        self._bin = out
        return out

    def vh(self, args, timeout=1800, stdin=None, race=False, env=None, check=True):
        exe = self.build(race=race)
        e = self.goenv()
        e["VERIF_SEED"] = str(self.seed)
        e["VERIF_SCRATCH"] = self.scratch
        if env:
            e.update({k: str(v) for k, v in env.items()})
        try:
            p = subprocess.run([exe] + [str(a) for a in args], env=e, input=stdin, stdout=subprocess.PIPE,
                               stderr=subprocess.PIPE, text=True, timeout=timeout, errors="replace")
        except subprocess.TimeoutExpired:
            raise Broken("harness timeout: vh %s" % " ".join(map(str, args)))
        if check and p.returncode != 0:
            raise Broken("harness driver died: vh %s rc=%d\n%s\n%s" % (
                " ".join(map(str, args)), p.returncode, p.stdout[-2000:], p.stderr[-4000:]))
        return p

    # ------------------------------------------------------------------ verdicts
    def report(self, key, what, replay_obj):
        """A disagreement observed on the real code. Known finding (exact key) -> KNOWN-FINDING line; else VIOLATION."""
        for f in self.known.get("findings", []):
            if f.get("property") == self.pid and f.get("status", "open") == "open" and f.get("key") == key:
                if key not in self.known_seen:
                    self.known_seen.append(key)
                    print("KNOWN-FINDING: property=%s %s [%s]" % (self.pid, f.get("what", what), key), flush=True)
                return False
        d = os.path.join(OUT, "replays", self.pid)
        os.makedirs(d, exist_ok=True)
        safe = re.sub(r"[^A-Za-z0-9_.-]+", "_", key)[:80]
        path = os.path.join(d, "%s-%d.json" % (safe, len(self.violations)))
        if len(self.violations) < 25:
            with open(path, "w") as f:
                json.dump({"property": self.pid, "key": key, "what": what, "seed": self.seed, "tier": self.tier,
                           "replay": replay_obj}, f, indent=1, default=str)
            print("VIOLATION property=%s replay=%s" % (self.pid, path), flush=True)
            print("  what: %s" % what[:600], flush=True)
        self.violations.append({"key": key, "what": what[:300]})
        return True

    def sample(self, obj, cap=8):
        if len(self.cov["samples"]) < cap:
            self.cov["samples"].append(obj)

    # ------------------------------------------------------------------ evidence
    def write_evidence(self, status):
        ev = {
            "property_id": self.pid,
            "tier": self.tier,
            "seed": self.seed,
            "level": self.level,
            "coverage": self.cov,
            "assumptions": self.assumptions,
            "wall_s": round(time.time() - self.t0, 1),
            "violations": len(self.violations),
            "status": status,
            "violation_keys": [v["key"] for v in self.violations][:50],
            "known_findings_seen": self.known_seen,
            "notes": self.notes,
            "repo_head": git_head(),
        }
        os.makedirs(os.path.join(OUT, "evidence"), exist_ok=True)
        with open(os.path.join(OUT, "evidence", self.pid + ".json"), "w") as f:
            json.dump(ev, f, indent=1, default=str)

    def cleanup(self):
        shutil.rmtree(self.scratch, ignore_errors=True)


def git_head():
    try:
        h = subprocess.run(["git", "-C", REPO, "rev-parse", "--short", "HEAD"], stdout=subprocess.PIPE, text=True).stdout.strip()
        d = subprocess.run(["git", "-C", REPO, "status", "--porcelain", "--untracked-files=no"], stdout=subprocess.PIPE, text=True).stdout.strip()
        return h + ("+dirty" if d else "")
    except Exception:
        return "?"


def sync_gosum():
    """The harness module shares /repo's dependency set: keep its go.sum a superset of /repo's."""
    src = os.path.join(REPO, "go.sum")
    dst = os.path.join(HARNESS, "go.sum")
    try:
        have = set(open(dst).read().splitlines()) if os.path.exists(dst) else set()
        want = set(open(src).read().splitlines())
        if not want <= have:
            with open(dst, "w") as f:
                f.write("\n".join(sorted(have | want)) + "\n")
    except OSError:
        pass


def load_known():
    p = os.path.join(VERIF, "known_findings.json")
    try:
        with open(p) as f:
            return json.load(f)
    except FileNotFoundError:
        return {"findings": [], "fixed": []}


def run_check(pid, tier, seed, fn, level="model_checking"):
    c = Check(pid, tier, seed, level)

    def on_term(signum, frame):
        raise Broken("terminated by signal %d" % signum)
    signal.signal(signal.SIGTERM, on_term)
    rc = 2
    status = "broken"
    try:
        fn(c)
        if c.violations:
            rc, status = 1, "violation"
        else:
            rc, status = 0, "held"
    except Broken as e:
        print("BROKEN property=%s (not a verdict about the code): %s" % (pid, e), flush=True)
        rc, status = (1, "violation+broken") if c.violations else (2, "broken")
        c.notes.append("broken: %s" % str(e)[:2000])
    except KeyboardInterrupt:
        rc, status = 2, "interrupted"
    except Exception as e:      # a defect of the machinery is never a verdict about the code
        import traceback
        traceback.print_exc()
        print("BROKEN property=%s (not a verdict about the code): orchestrator error %r" % (pid, e), flush=True)
        rc, status = 2, "broken"
        c.notes.append("broken: orchestrator error %r" % (e,))
    finally:
        try:
            c.write_evidence(status)
        finally:
            c.cleanup()
    c.log("%s: %s (exit %d), %d violation(s), %d known finding(s), %.1fs" % (
        pid, status, rc, len(c.violations), len(c.known_seen), time.time() - c.t0))
    return rc
