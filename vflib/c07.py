"""C07 hostile or corrupt remote data: Format.tla enumerates structural mutations x positions x local situations with the
verdict; every case is served to a real victim repository through a remote-tracking ref (merge) and as locally stored data
(read, cache build), in isolated processes; byte-level fuzz outcomes are judged by TLC with the verdict-free rule."""
import json
import os
import re

from . import tv
from .core import Broken


def run_cases(c, cases, tag):
    cf = os.path.join(c.scratch, "hostile-%s.ndjson" % tag)
    out = os.path.join(c.scratch, "hostile-out-%s.ndjson" % tag)
    with open(cf, "w") as f:
        for v in cases:
            f.write(json.dumps(v) + "\n")
    c.vh(["hostile", cf, out], timeout=3000)
    mism, stats = [], None
    for line in open(out):
        d = json.loads(line)
        if "stats" in d:
            stats = d["stats"]
        else:
            mism.append(d)
    if not stats or stats["executed"] < len(cases):
        raise Broken("hostile harness executed too little: %s" % stats)
    return mism, stats


def why_class(why):
    w = re.sub(r"[0-9a-f]{12,}", "<id>", why)
    return w[:70]


def run(c):
    r = c.tlc_model("Format", "Format.cfg", timeout=600, label="mutation x position x local situation, bugs and identities")
    cases = [v for v in r.printed() if "verdict" in v]
    if len(cases) < 500:
        raise Broken("only %d hostile cases" % len(cases))
    classes = sorted({v["class"] for v in cases})
    mism, stats = run_cases(c, cases, "main")
    c.cov["vectors_executed"] += stats["executed"]
    c.cov["exhaustive"] = True
    c.cov["validity_conjuncts_exercised"] = classes
    c.cov["verdicts"] = {k: sum(1 for v in cases if v["verdict"] == k) for k in ("valid", "invalid", "either")}
    c.sample([v for v in cases if v["m"] == "op_unknown_type"][0])
    c.sample([v for v in cases if v["verdict"] == "valid" and v["local"] == "diverged"][0])
    seen = set()
    for m in mism:
        cs = m["case"]
        key = "hostile:%s:%s:%s" % (cs["kind"], cs["m"], why_class(m["why"]))
        if key in seen:
            continue
        seen.add(key)
        c.report(key, "%s %s at %s, local %s: %s" % (cs["kind"], cs["m"], cs["pos"], cs["local"], m["why"]), {"case": cs, "outcome": m.get("outcome")})
    # self-test: a wrong verdict must be noticed
    bad = json.loads(json.dumps([v for v in cases if v["verdict"] == "valid" and v["local"] == "absent" and v["kind"] == "bug"][0]))
    bad["verdict"], bad["class"] = "invalid", "json"
    bad2 = json.loads(json.dumps([v for v in cases if v["m"] == "json_broken" and v["local"] == "absent" and v["kind"] == "bug"][0]))
    bad2["verdict"], bad2["class"] = "valid", "valid"
    m2, _ = run_cases(c, [bad, bad2], "selftest")
    if len(m2) != 2:
        raise Broken("hostile self-test failed: %d of 2 corrupted verdicts noticed" % len(m2))
    # byte-level fuzz
    n = 400 if c.tier == "quick" else 20000
    ff = os.path.join(c.scratch, "fuzz.ndjson")
    c.vh(["hostile-fuzz", ff, n, 900], timeout=6000, env={"VERIF_TIER": c.tier})
    lines = [l.rstrip("\n") for l in open(ff)]
    n_ok, failures = tv.validate_dropping(c, "FormatTrace", "FormatTrace.cfg", lines, "fuzz", max_fail=30)
    c.cov["traces_validated_against_impl"] = n_ok
    c.cov["fuzzed_blobs"] = len(lines)
    c.cov["structural_variants"] = sum(1 for l in lines if json.loads(l)["item"]["struct"] >= 0)
    if c.cov["structural_variants"] < 150:
        raise Broken("only %d structural variants of the JSON documents were served" % c.cov["structural_variants"])
    st = {}
    for l in lines:
        s = json.loads(l)["o"]["status"]
        st[s] = st.get(s, 0) + 1
    c.cov["fuzz_statuses"] = st
    seen = set()
    for ev, reason in failures:
        o = ev["o"]
        what = ("process crashed: " + o["reason"]) if o["crashed"] else "status %s, local refs untouched %s, local entities readable %s: %s" % (o["status"], o["untouched"], o["readable"], o.get("readerr", "") or o.get("reason", ""))
        key = "fuzz:%s:%s" % (ev["item"]["kind"], why_class(what))
        if key in seen:
            continue
        seen.add(key)
        c.report(key, "fuzzed %s blob (seed %d, structural variant %d, position %d, local %s): %s" % (ev["item"]["kind"], ev["item"]["seed"], ev["item"]["struct"], ev["item"]["pos"], ev["item"]["local"], what), {"fuzz_item": ev["item"]})
    e = json.loads(lines[0])
    e["o"]["crashed"] = True
    n2, f2 = tv.validate_dropping(c, "FormatTrace", "FormatTrace.cfg", [json.dumps(e)], "fuzz-selftest", max_fail=1)
    c.cov["selftest_rejected"] = len(f2) == 1
    if len(f2) != 1:
        raise Broken("fuzz self-test failed")
    c.assumptions += ["one structural mutation per served history; mutations that leave the data decodable are judged by the weaker rule (no crash; "
                      "invalid => untouched; accepted => reads back and validates)",
                      "go-git refuses malformed git objects on its own: mutations stay within well-formed git objects"]


def replay(c, rep):
    c.cov["states"] = c.cov["transitions"] = 1
    c.sample(rep["replay"])
    if "case" in rep["replay"]:
        mism, _ = run_cases(c, [rep["replay"]["case"]], "replay")
        for m in mism:
            c.report(rep["key"], m["why"], rep["replay"])
