"""C20 pagination: spec/Page.tla, MC_Page (exhaustive requests + walks), MBT vectors against the seven generated
connections and the real GraphQL handler."""
import json
import os

from .core import Broken


def bounds(tier):
    return (5, 6) if tier == "quick" else (7, 8)


def gen_vectors(c, maxn, maxk):
    d = c.specdir()
    cfg = "MC_Page_run.cfg"
    with open(os.path.join(d, cfg), "w") as f:
        f.write("SPECIFICATION Spec\nCONSTANTS MaxN = %d  MaxK = %d\n"
                "INVARIANTS InvWindow InvRejects InvFlagsF InvFlagsB InvWalkCovers InvWalkTerminates Emit EmitWalk\n"
                "CHECK_DEADLOCK FALSE\n" % (maxn, maxk))
    r = c.tlc_model("MC_Page", cfg, timeout=1500, label="requests+walks, MaxN=%d MaxK=%d" % (maxn, maxk))
    vecs = r.printed()
    if len(vecs) < 100:
        raise Broken("TLC printed only %d vectors" % len(vecs))
    return vecs


def run_vectors(c, vecs, e2e_mod):
    vf = os.path.join(c.scratch, "page-vectors.ndjson")
    with open(vf, "w") as f:
        for v in vecs:
            f.write(json.dumps(v) + "\n")
    out = os.path.join(c.scratch, "page-out.ndjson")
    c.vh(["page", vf, out, "1", str(e2e_mod)], timeout=3000)
    mism, stats = [], None
    with open(out) as f:
        for line in f:
            d = json.loads(line)
            if "stats" in d:
                stats = d
            else:
                mism.append(d)
    if stats is None:
        raise Broken("harness produced no statistics line")
    return mism, stats


def selftest(c, vecs):
    """Binding self-test: a wrong expectation must be noticed by the harness."""
    bad = []
    for v in vecs:
        if "exp" in v and not v["exp"]["err"] and len(v["exp"]["edges"]) >= 2 and v["n"] >= 2:
            w = json.loads(json.dumps(v))
            w["exp"]["hasNext"] = not w["exp"]["hasNext"]
            bad.append(w)
            w2 = json.loads(json.dumps(v))
            w2["exp"]["edges"] = w2["exp"]["edges"][1:]
            bad.append(w2)
            break
    mism, stats = run_vectors(c, bad, 1)
    ok = len(mism) >= 2 * 7
    c.cov["selftest_rejected"] = ok
    if not ok:
        raise Broken("binding self-test failed: corrupted expectations were accepted (%d mismatches)" % len(mism))


def run(c):
    maxn, maxk = bounds(c.tier)
    vecs = gen_vectors(c, maxn, maxk)
    # thorough: every vector end to end; quick: one in three (rotating with the seed), all of them directly
    mod = 1 if c.tier == "thorough" else 3
    mism, stats = run_vectors(c, vecs, mod)
    st = stats["stats"]
    c.cov["vectors_executed"] = st.get("direct", 0) + st.get("e2e", 0) + st.get("direct_walks", 0) + st.get("e2e_walks", 0)
    c.cov["traces_validated_against_impl"] = c.cov["vectors_executed"]
    c.cov["exhaustive"] = True
    c.cov["harness_stats"] = st
    c.cov["bounds"] = {"MaxN": maxn, "MaxK": maxk, "e2e_sampling_modulus": mod}
    if st.get("direct", 0) < 7 * len([v for v in vecs if "exp" in v]) or st.get("e2e", 0) == 0:
        raise Broken("harness executed fewer cases than generated: %s" % st)
    for v in vecs[:3]:
        c.sample(v)
    for v in [v for v in vecs if "walk" in v][:2]:
        c.sample(v)
    c.assumptions += [
        "list positions stand for list elements; elements are distinguishable by the key each list exposes (id or name)",
        "end-to-end lists have length 1..MaxN (a repository with bugs has at least one identity, comment, operation); "
        "length 0 is covered by the direct calls of the generated connection functions",
    ]
    seen = set()
    for m in mism:
        v = m["vec"]
        key = "%s:%s" % (m["list"], m["kind"])
        # one VIOLATION per (list, kind): thousands of vectors fail for the same reason
        if key in seen:
            continue
        seen.add(key)
        c.report(key, "%s: %s" % (m["list"], m["why"]), {"vectors": [v], "lists": [m["list"]], "got": m["got"]})
    selftest(c, vecs)


def replay(c, rep):
    vecs = rep["replay"]["vectors"]
    mism, stats = run_vectors(c, vecs, 1)
    c.cov["states"] = c.cov["transitions"] = 1
    c.cov["traces_validated_against_impl"] = len(vecs)
    c.sample(vecs[0])
    for m in mism:
        c.report("%s:%s" % (m["list"], m["kind"]), "%s: %s" % (m["list"], m["why"]), {"vectors": [m["vec"]], "got": m["got"]})
