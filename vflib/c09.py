"""C09 identities append-only, fast-forward only: Ident.tla (MC_Ident exhaustive, MBT_Ident schedules, IdentTrace) and
IdentFields.tla (validity by field classes) executed on the editing API and as remote data."""
import json
import os

from . import tv
from .core import Broken


def catalogue():
    scheds = []

    def st(act, r, i=0):
        return {"act": act, "r": r, "i": i}
    for p in (1, 2):
        for a in (0, 1, 2):
            for b in (0, 1, 2):
                for second in (False, True):
                    s = [st("NewIdent", "A")] + [st("Mutate", "A", 1)] * (p - 1)
                    if second:
                        s.append(st("NewIdent", "A"))
                    s += [st("Push", "A"), st("Fetch", "B"), st("MergeAll", "B")]
                    s += [st("Mutate", "A", 1)] * b + [st("Mutate", "B", 1)] * a
                    if second:
                        s += [st("Mutate", "A", 2), st("NewIdent", "A")]
                    s += [st("Push", "A"), st("Fetch", "B"), st("MergeAll", "B")]
                    scheds.append({"replicas": ["A", "B"], "steps": s, "quiesce": True, "name": "p%d-a%d-b%d%s" % (p, a, b, "-others" if second else "")})
    # a long-lived process goes on with the identity a fast-forward handed back: it changes it and commits, several times, the two
    # replicas taking turns
    s = [st("NewIdent", "A"), st("Push", "A"), st("Fetch", "B"), st("MergeAll", "B")]
    for turn in range(3):
        x, y = ("A", "B") if turn % 2 == 0 else ("B", "A")
        s += [st("Mutate", x, 1)] * (1 + turn % 2) + [st("Push", x), st("Fetch", y), st("MergeAll", y), st("Mutate", y, 1), st("Push", y), st("Fetch", x), st("MergeAll", x)]
    scheds.append({"replicas": ["A", "B"], "steps": s, "quiesce": True, "name": "taking-turns-on-the-merged-identity"})
    return scheds


def simulate(c, n):
    d = c.specdir()
    cfg = "MBT_Ident_run.cfg"
    with open(os.path.join(d, cfg), "w") as f:
        f.write("SPECIFICATION MSpec\nCONSTANTS Replica = {\"A\", \"B\", \"C\"}  NIdent = 3  MaxVer = 9  Depth = 16\nINVARIANT Emit\nCHECK_DEADLOCK FALSE\n")
    out, seen = [], set()
    for rnd in range(1, 5):
        r = c.tlc("MBT_Ident", cfg, workers=1, simulate=max(50, n // 3), depth=60, timeout=600, label="identity schedule generation", seed=c.seed + 31 * rnd)
        if r.rc != 0:
            raise Broken("identity schedule generation failed:\n" + r.out[-2000:])
        for v in r.printed():
            k = json.dumps(v, sort_keys=True)
            if k not in seen:
                seen.add(k)
                out.append({"replicas": ["A", "B", "C"], "steps": v["steps"], "quiesce": True, "name": "sim-%d" % len(out)})
        if len(out) >= n:
            break
    return out[:n]


def split_sessions(path):
    sessions = []
    for line in open(path):
        e = json.loads(line)
        if e["ev"] == "Reset":
            sessions.append([])
        sessions[-1].append(line.rstrip("\n"))
    return sessions


def validate_sessions(c, sessions, label, max_fail=12):
    """Like gb.validate, for IdentTrace."""
    alive = list(range(len(sessions)))
    failures = []
    while alive:
        tf = os.path.join(c.scratch, "tv-%s.ndjson" % label)
        offsets, n = [], 0
        with open(tf, "w") as f:
            for i in alive:
                offsets.append((n, i))
                for line in sessions[i]:
                    f.write(line + "\n")
                    n += 1
        ok, bad, r = tv.validate_file(c, "IdentTrace", "IdentTrace.cfg", tf, label)
        if ok:
            break
        if r.violated not in (None, "postcondition"):
            import re
            m = [int(x) for x in re.findall(r"^State (\d+):", r.out, re.M)]
            bad = max(1, (max(m) if m else bad) - 1)
            reason = "invariant/property %s violated" % r.violated
        else:
            reason = "no specification action explains this event (or the projected chains differ from the specification's)"
        sess = None
        for off, i in offsets:
            if off < bad:
                sess, soff = i, off
        line = sessions[sess][min(bad - 1 - soff, len(sessions[sess]) - 1)]
        failures.append((sess, bad - soff, reason, json.loads(line)))
        alive.remove(sess)
        if len(failures) >= max_fail:
            break
    return len(alive), failures


def run(c):
    c.tlc_model("MC_Ident", "MC_Ident.cfg", timeout=1200, label="2 replicas, 2 identities, <= 5 versions")
    if c.tier == "thorough":
        d = c.specdir()
        with open(os.path.join(d, "MC_Ident_big.cfg"), "w") as f:
            f.write("SPECIFICATION Spec\nCONSTANTS Replica = {A, B, C}  NIdent = 2  MaxVer = 5\nINVARIANTS MergeTruthful SameRoot\nPROPERTY ActionProps\nCHECK_DEADLOCK FALSE\n")
        c.tlc_model("MC_Ident", "MC_Ident_big.cfg", timeout=3000, label="3 replicas, 2 identities, <= 5 versions")
    scheds = catalogue() + simulate(c, 40 if c.tier == "quick" else 1500)
    sf = os.path.join(c.scratch, "ident-sched.ndjson")
    tf = os.path.join(c.scratch, "ident-trace.ndjson")
    with open(sf, "w") as f:
        for s in scheds:
            f.write(json.dumps(s) + "\n")
    c.vh(["ident", sf, tf], timeout=3000)
    sessions = split_sessions(tf)
    if len(sessions) != len(scheds):
        raise Broken("identity harness ran %d sessions for %d schedules" % (len(sessions), len(scheds)))
    n_ok, failures = validate_sessions(c, sessions, "ident")
    c.cov["traces_validated_against_impl"] = n_ok
    c.cov["schedules"] = len(scheds)
    c.sample({"schedule": scheds[5]["name"], "steps": scheds[5]["steps"]})
    c.sample(json.loads(sessions[5][6]))
    for sess, idx, reason, ev in failures:
        key = "ident:%s:%s:%s" % (ev["ev"], ev.get("status", ""), (ev.get("err") or "chains-or-report-differ")[:40])
        c.report(key, "%s; schedule %s event #%d: %s" % (reason, scheds[sess]["name"], idx, json.dumps({k: ev[k] for k in ("ev", "r", "i", "status", "returned", "chain", "trk", "err")})),
                 {"schedule": scheds[sess], "event": ev})
    # self-test: a diverged merge reported as updated must be rejected
    good = [s for i, s in enumerate(sessions) if i not in {f[0] for f in failures}]
    done = False
    for s in good:
        evs = [json.loads(x) for x in s]
        for e in evs:
            if e["ev"] == "Merge" and e["status"] == "invalid":
                e["status"] = "updated"
                done = True
                break
        if done:
            n2, f2 = validate_sessions(c, [[json.dumps(e) for e in evs]], "ident-selftest", max_fail=1)
            c.cov["selftest_rejected"] = len(f2) == 1
            if len(f2) != 1:
                raise Broken("identity trace self-test failed")
            break
    if not done:
        raise Broken("no diverged merge in the recorded sessions")

    # field classes
    r = c.tlc_model("IdentFields", "IdentFields.cfg", timeout=600, label="version field classes x clock classes")
    vecs = [v for v in r.printed() if "valid" in v]
    vf = os.path.join(c.scratch, "if.ndjson")
    out = os.path.join(c.scratch, "if-out.ndjson")

    def run_fields(vs):
        with open(vf, "w") as f:
            for v in vs:
                f.write(json.dumps(v) + "\n")
        c.vh(["ident-fields", vf, out], timeout=1200)
        mism, stats = [], None
        for line in open(out):
            dd = json.loads(line)
            if "stats" in dd:
                stats = dd["stats"]
            else:
                mism.append(dd)
        return mism, stats
    mism, stats = run_fields(vecs)
    if not stats or stats["executed"] < 3 * len(vecs):
        raise Broken("ident-fields executed too little")
    c.cov["vectors_executed"] += stats["executed"]
    c.sample(vecs[100])
    seen = set()
    for m in mism:
        v = m["vec"]
        key = "fields:%s:%s" % (json.dumps(v["v"], sort_keys=True)[:80], v["clocks"])
        if len(seen) < 6 and key not in seen:
            seen.add(key)
            c.report(key, m["why"], {"field_vector": v})
    bad = json.loads(json.dumps([v for v in vecs if v["valid"]][0]))
    bad["valid"] = False
    m2, _ = run_fields([bad])
    if len(m2) != 1:
        raise Broken("field vector self-test failed")
    c.assumptions += ["version chains are projected from the commits under the refs (ListCommits), independently of identity.read",
                      "the entity handed back by a merge is identified by the (unique) name of its last version"]


def replay(c, rep):
    c.cov["states"] = c.cov["transitions"] = 1
    c.sample(rep["replay"])
    if "schedule" in rep["replay"]:
        sf = os.path.join(c.scratch, "s.ndjson")
        tf = os.path.join(c.scratch, "t.ndjson")
        with open(sf, "w") as f:
            f.write(json.dumps(rep["replay"]["schedule"]) + "\n")
        c.vh(["ident", sf, tf])
        n_ok, failures = validate_sessions(c, split_sessions(tf), "replay")
        for sess, idx, reason, ev in failures:
            c.report(rep["key"], reason, rep["replay"])
