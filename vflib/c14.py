"""C14 removal: Remove.tla enumerates every configuration (0..3 remotes, which hold the entity, which other entities exist) and
the three entry points; each is executed on real repositories (entity API, cache API, CLI) incl. `git-bug wipe`."""
import json
import os

from .core import Broken


def run_vecs(c, vecs, tag):
    vf = os.path.join(c.scratch, "rm-%s.ndjson" % tag)
    out = os.path.join(c.scratch, "rm-out-%s.ndjson" % tag)
    with open(vf, "w") as f:
        for v in vecs:
            f.write(json.dumps(v) + "\n")
    c.vh(["remove", vf, out, c.build_gitbug()], timeout=3400)
    mism, stats = [], None
    for line in open(out):
        d = json.loads(line)
        if "stats" in d:
            stats = d["stats"]
        else:
            mism.append(d)
    if not stats or stats["executed"] < len(vecs):
        raise Broken("remove harness executed too little: %s" % stats)
    return mism, stats


def run(c):
    r = c.tlc_model("Remove", "Remove.cfg", timeout=900, label="all configurations of <=3 remotes, target + 2 other entities, 3 entry points, repeated")
    vecs, seen_v = [], set()
    for v in r.printed():
        if "via" not in v:
            continue
        k = json.dumps(v, sort_keys=True)
        if k in seen_v:
            continue      # the failed attempt of `cacheflaky` may leave any of the refs: same vector, printed once per choice
        seen_v.add(k)
        if v["via"] == "cacheflaky":
            # which removal of a ref fails is the harness's to enumerate: the first .. fourth (local ref + three remotes at most)
            vecs += [dict(v, failat=k) for k in (1, 2, 3, 4)]
        else:
            vecs.append(v)
    if len(vecs) < 500:
        raise Broken("only %d removal vectors" % len(vecs))
    sel = vecs if c.tier == "thorough" else [v for i, v in enumerate(vecs) if i % 4 == c.seed % 4]
    mism, stats = run_vecs(c, sel, "main")
    c.cov["vectors_executed"] += stats["executed"]
    c.cov["traces_validated_against_impl"] = stats["executed"]
    c.cov["exhaustive"] = c.tier == "thorough"
    c.cov["by_entry_point"] = {k: sum(1 for v in sel if v["via"] == k) for k in ("entity", "cache", "cacheflaky", "wipe")}
    c.sample([v for v in sel if v["via"] == "cache" and len(v["remotes"]) == 2][0])
    c.sample([v for v in sel if v["via"] == "wipe" and v["before"]["tref"]][0])
    seen = set()
    for m in mism:
        key = "remove:%s:%s" % (m["vec"]["via"], m["why"].split(":")[0][:40] + ":" + m["why"].split(":")[1][:50] if ":" in m["why"] else m["why"][:60])
        key = key.split(" refs/")[0]
        if key in seen:
            continue
        seen.add(key)
        c.report(key, m["why"][:600], {"vector": m["vec"]})
    bad = json.loads(json.dumps([v for v in sel if v["via"] == "entity" and v["before"]["tref"] and "T" in v["before"]["lref"]][0]))
    bad["after"]["lref"] = bad["before"]["lref"]
    m2, _ = run_vecs(c, [bad], "selftest")
    c.cov["selftest_rejected"] = len(m2) == 1
    if len(m2) != 1:
        raise Broken("removal self-test failed")
    c.assumptions += ["remote-tracking refs are planted with UpdateRef (what a fetch leaves behind); remotes need not be reachable for removal",
                      "one neighbour entity shares its first two id characters with the removed one"]


def replay(c, rep):
    c.cov["states"] = c.cov["transitions"] = 1
    c.sample(rep["replay"])
    mism, _ = run_vecs(c, [rep["replay"]["vector"]], "replay")
    for m in mism:
        c.report(rep["key"], m["why"][:600], rep["replay"])
