"""C16 bridge imports idempotent, incremental, resumable: Bridge.tla (tracker growth, import rounds with a failing request
class, cursor rule); MC_Bridge exhaustive; TLC-simulated scenarios run with the real GitLab importer against a simulated
GitLab server; traces validated by TLC."""
import json
import os

from . import tv
from .core import Broken


def st(act, i=0, kind="", k=0, fail=""):
    return {"act": act, "i": i, "kind": kind, "k": k, "fail": fail}


def catalogue():
    s1 = [st("NewIssue", 1), st("AddEvent", 1, "comment"), st("AddEvent", 1, "label"), st("Round", fail="none"), st("Round", fail="none"),
          st("AddEvent", 1, "state"), st("EditNote", 1, k=1), st("NewIssue", 2), st("AddEvent", 2, "title"), st("Round", fail="issues"),
          st("Round", fail="none"), st("AddEvent", 2, "desc"), st("Round", fail="labels:2"), st("Round", fail="none")]
    s2 = [st("NewIssue", 1), st("AddEvent", 1, "label"), st("AddEvent", 1, "label"), st("AddEvent", 1, "state"), st("Round", fail="notes:1"),
          st("Round", fail="none"), st("Round", fail="none"), st("AddEvent", 1, "comment"), st("AddEvent", 1, "desc"), st("AddEvent", 1, "desc"),
          st("Round", fail="states:1"), st("EditNote", 1, k=1), st("EditNote", 1, k=1), st("Round", fail="none"), st("Round", fail="none")]
    # an issue renamed before it is first imported, renamed again, then listed again by later rounds (nothing new; an unrelated comment)
    s3 = [st("NewIssue", 1), st("AddEvent", 1, "title"), st("Round", fail="none"), st("AddEvent", 1, "title"), st("Round", fail="none"), st("Round", fail="none"),
          st("AddEvent", 1, "comment"), st("Round", fail="none"), st("NewIssue", 2), st("AddEvent", 2, "title"), st("AddEvent", 2, "title"), st("Round", fail="notes:2"),
          st("AddEvent", 2, "title"), st("Round", fail="none"), st("Round", fail="none")]
    # comments written by people whose texts are the texts of the tracker's own notes ("closed", "changed the description",
    # "assigned to @..."): one of each, imported in three rounds, some edited afterwards
    s4 = [st("NewIssue", 1)] + [st("AddEvent", 1, "comment")] * 5 + [st("Round", fail="none")] + [st("AddEvent", 1, "comment")] * 5 + [st("Round", fail="notes:1")] + \
         [st("AddEvent", 1, "comment")] * 3 + [st("EditNote", 1, k=1), st("EditNote", 1, k=3), st("EditNote", 1, k=7), st("Round", fail="none"), st("Round", fail="none")]
    # the lookup of a user fails (GET /users/:id), in a round where that user's first event lies between others: what follows it is
    # left for the next run; a user already known is not looked up again; a new issue opened by that user ends the run
    s5 = [st("NewIssue", 1), st("AddEvent", 1, "comment"), st("AddEvent", 1, "title"), st("AddEvent", 1, "title"), st("AddEvent", 1, "label"),
          st("Round", fail="user:1"), st("Round", fail="none"), st("Round", fail="user:1"), st("AddEvent", 1, "title"), st("AddEvent", 1, "state"),
          st("NewIssue", 2), st("AddEvent", 2, "comment"), st("Round", fail="user:2"), st("Round", fail="none"), st("Round", fail="none")]
    s6 = [st("NewIssue", 2), st("AddEvent", 2, "title"), st("NewIssue", 1), st("AddEvent", 1, "comment"), st("AddEvent", 2, "title"), st("Round", fail="user:2"),
          st("AddEvent", 1, "title"), st("Round", fail="user:1"), st("Round", fail="none"), st("EditNote", 1, k=1), st("Round", fail="user:1"), st("Round", fail="none")]
    return [{"name": "user-lookup-fails-1", "steps": s5}, {"name": "user-lookup-fails-2", "steps": s6}, {"name": "hand-1", "steps": s1}, {"name": "hand-2", "steps": s2}, {"name": "renamed-before-first-import", "steps": s3},
            {"name": "comments-that-read-like-system-notes", "steps": s4}]


def simulate(c, n):
    d = c.specdir()
    cfg = "MBT_Bridge_run.cfg"
    with open(os.path.join(d, cfg), "w") as f:
        f.write("SPECIFICATION MSpec\nCONSTANTS Issue = {1, 2}  Margin = 5  StopAtFirst = TRUE  MaxEv = 112  Depth = 16\nINVARIANT Emit\nCHECK_DEADLOCK FALSE\n")
    out, seen = [], set()
    for rnd in range(1, 6):
        r = c.tlc("MBT_Bridge", cfg, workers=1, simulate=max(40, n // 3), depth=60, timeout=600, label="bridge scenario generation", seed=c.seed + 13 * rnd)
        if r.rc != 0:
            raise Broken("bridge scenario generation failed:\n" + r.out[-2000:])
        for v in r.printed():
            k = json.dumps(v, sort_keys=True)
            if k not in seen and any(s["act"] == "Round" for s in v["steps"]):
                seen.add(k)
                out.append({"name": "sim-%d" % len(out), "steps": v["steps"]})
        if len(out) >= n:
            break
    return out[:n]


def split(path):
    sessions = []
    for line in open(path):
        e = json.loads(line)
        if e["ev"] == "Reset":
            sessions.append([])
        sessions[-1].append(line.rstrip("\n"))
    return sessions


def validate(c, sessions, label, max_fail=12):
    alive = list(range(len(sessions)))
    failures = []
    while alive:
        tf = os.path.join(c.scratch, "tv-%s.ndjson" % label)
        offsets, n = [], 0
        with open(tf, "w") as f:
            for i in alive:
                offsets.append((n, i))
                for line in sessions[i]:
                    f.write(line + "\n")
                    n += 1
        ok, bad, r = tv.validate_file(c, "BridgeTrace", "BridgeTrace.cfg", tf, label)
        if ok:
            break
        if r.violated not in (None, "postcondition"):
            import re
            m = [int(x) for x in re.findall(r"^State (\d+):", r.out, re.M)]
            bad = max(1, (max(m) if m else bad) - 1)
        sess = None
        for off, i in offsets:
            if off < bad:
                sess, soff = i, off
        ev = json.loads(sessions[sess][min(bad - 1 - soff, len(sessions[sess]) - 1)])
        failures.append((sess, bad - soff, ev, r.violated))
        alive.remove(sess)
        if len(failures) >= max_fail:
            break
    return len(alive), failures


def describe(ev):
    if ev["ev"] == "Crash":
        return "crash", "the importing process crashed: %s" % ev["errors"][:1]
    if ev["ev"] != "Round":
        return "state", "what is imported changed without an import round"
    dup = [b for b in ev["bugs"] if len(set(b["ids"])) != len(b["ids"])]
    bad = [b for b in ev["bugs"] if not b["valid"]]
    if dup:
        return "duplicate-event", "an event was imported twice: issue %d holds ids %s" % (dup[0]["i"], dup[0]["ids"])
    if bad:
        return "invalid", "issue %d imported as an invalid bug (or as two bugs)" % bad[0]["i"]
    if ev["fail"] == "none" and ev["error"]:
        return "spurious-error", "a round without any failing request reported an error: %s" % ev["errors"][:1]
    if ev["fail"] != "none" and not ev["error"]:
        return "error-not-reported", "request class %s failed and the round reported no error" % ev["fail"]
    if ev["error"] and ev["advanced"]:
        return "cursor-advanced-on-error", "an error was reported and the stored cursor advanced all the same"
    if not ev["error"] and not ev["advanced"]:
        return "cursor-not-stored", "a clean round did not store its cursor"
    return "incomplete-or-extra", "what the round imported is not what the specification prescribes: %s" % [(b["i"], b["known"], b["ids"], b["nedits"]) for b in ev["bugs"]]


def run_scheds(c, scheds, tag):
    sf = os.path.join(c.scratch, "bridge-%s.ndjson" % tag)
    tf = os.path.join(c.scratch, "bridge-trace-%s.ndjson" % tag)
    with open(sf, "w") as f:
        for k, s in enumerate(scheds):
            f.write(json.dumps(dict(s, seed=s.get("seed", k))) + "\n")
    c.vh(["bridge", sf, tf], timeout=3200)
    sessions = split(tf)
    if len(sessions) != len(scheds):
        raise Broken("bridge harness ran %d sessions for %d scenarios" % (len(sessions), len(scheds)))
    return sessions


def run(c):
    d = c.specdir()
    with open(os.path.join(d, "MC_Bridge_run.cfg"), "w") as f:
        f.write("SPECIFICATION Spec\nCONSTANTS Issue = {1, 2}  Margin = 5  StopAtFirst = TRUE  MaxEv = %d  MaxRounds = 3\nINVARIANTS Complete TitleFollows CursorRule\nPROPERTIES Monotone Idempotent\nCHECK_DEADLOCK FALSE\n" % (3 if c.tier == "quick" else 4))
    c.tlc_model("MC_Bridge", "MC_Bridge_run.cfg", timeout=3400, label="2 issues, tracker growth, <= 3 rounds, failure of any request class")
    r = c.tlc("MC_Bridge", "MC_Bridge_goon.cfg", timeout=900, label="witness: going on with the events that follow one that could not be imported (the pinned tree) must violate TitleFollows")
    if r.violated != "TitleFollows":
        raise Broken("MC_Bridge_goon.cfg did not produce the counterexample to TitleFollows: the user-lookup part of the model is vacuous")
    scheds = catalogue() + simulate(c, 40 if c.tier == "quick" else 1500)
    sessions = run_scheds(c, scheds, "main")
    n_ok, failures = validate(c, sessions, "bridge")
    c.cov["traces_validated_against_impl"] = n_ok
    c.cov["scenarios"] = len(scheds)
    rounds = [json.loads(l) for s in sessions for l in s if '"ev":"Round"' in l]
    c.cov["import_rounds"] = len(rounds)
    c.cov["rounds_with_injected_failure"] = sum(1 for r in rounds if r["fail"] != "none")
    c.cov["requests_served"] = sum(r["requests"] for r in rounds)
    c.sample({"scenario": scheds[0]["name"], "steps": scheds[0]["steps"][:6]})
    c.sample({k: rounds[0][k] for k in ("ev", "fail", "error", "advanced", "bugs")})
    for sess, idx, ev, violated in failures:
        kind, what = describe(ev)
        if violated not in (None, "postcondition"):
            what += " (%s violated)" % violated
        c.report("bridge:%s:%s" % (kind, ev.get("fail", "")), "scenario %s, step #%d %s(fail=%s): %s" % (scheds[sess]["name"], idx, ev["ev"], ev.get("fail", ""), what),
                 {"scenario": scheds[sess], "event": ev})
    # overlapping id spaces (notes / label events / state events numbered independently, as on a real GitLab instance)
    over = [dict(s, overlap=True, name=s["name"] + "-overlap") for s in catalogue()]
    osess = run_scheds(c, over, "overlap")
    o_ok, ofail = validate(c, osess, "bridge-overlap", max_fail=4)
    c.cov["overlapping_id_scenarios"] = len(over)
    for sess, idx, ev, violated in ofail:
        kind, what = describe(ev)
        c.report("bridge-overlap:%s" % kind, "with note / label-event / state-event ids drawn from separate counters: scenario %s, step #%d: %s" % (over[sess]["name"], idx, what),
                 {"scenario": over[sess], "event": ev})
    good = [s for i, s in enumerate(sessions) if i not in {f[0] for f in failures}]
    if not good:
        raise Broken("no accepted session for the self-test")
    evs = [json.loads(x) for x in good[0]]
    for e in evs:
        if e["ev"] == "Round" and not e["error"]:
            e["advanced"] = False
            break
    n2, f2 = validate(c, [[json.dumps(e) for e in evs]], "bridge-selftest", max_fail=1)
    c.cov["selftest_rejected"] = len(f2) == 1
    if len(f2) != 1:
        raise Broken("bridge self-test failed")
    c.assumptions += ["the simulated server implements the five endpoints the importer uses (issues with updated_after, users, notes, resource label / state events), one page each",
                      "the stored cursor (one-second resolution) is replaced after each successful round by a synthetic value identifying the round; the server "
                      "answers `updated_after` in tracker time",
                      "failures are HTTP 400 answers for a request class (issue listing; notes / label events / state events of one issue)"]


def replay(c, rep):
    c.cov["states"] = c.cov["transitions"] = 1
    c.sample(rep["replay"].get("scenario", {}).get("name"))
    sessions = run_scheds(c, [rep["replay"]["scenario"]], "replay")
    n_ok, failures = validate(c, sessions, "replay")
    for sess, idx, ev, violated in failures:
        kind, what = describe(ev)
        c.report(rep["key"], what, rep["replay"])
