"""C02 a pull never loses operations nor breaks an entity: the Merge action of GitBug.tla (five scenarios), invariant
MergeTruthful and action property RefsGrow; every real merge result (status, returned entity) is bound to the specification."""
from . import c01, gb

INV = ["MergeTruthful", "AllReadable", "NoDupOps"]


def classify(event, reason):
    if event["ev"] == "Merge":
        return "merge:%s:%s" % (event.get("status"), (event.get("err") or "status-returned-entity-or-ref-differs")[:60])
    if event.get("err"):
        return "%s:%s" % (event["ev"], event["err"][:60])
    return "%s:state-or-result-differs" % event["ev"]


def mutate(events):
    """Report a fast-forward / merge as 'nothing'."""
    for e in events:
        if e["ev"] == "Merge" and e["status"] == "updated":
            e["status"] = "nothing"
            return events
    return None


def schedules(c):
    n = 60 if c.tier == "quick" else 1500
    scheds = gb.catalogue()
    scheds += gb.simulate(c, n, ["A", "B"], 2, 14, 16, False)
    scheds += gb.simulate(c, n // 3, ["A", "B"], 2, 12, 16, False, remotes=("origin", "backup"))
    scheds += gb.uniform(c, n // 2, ["A", "B"]) + gb.uniform(c, n // 4, ["A", "B", "C"])
    return scheds


def identities(c):
    """The identity half of the property: merge reports and chains of identity pulls (Ident.tla, shared with C09)."""
    import json
    import os
    from . import c09
    c.tlc_model("MC_Ident", "MC_Ident.cfg", timeout=1200, label="identities: 2 replicas, 2 identities, <= 5 versions")
    scheds = c09.catalogue() + c09.simulate(c, 20 if c.tier == "quick" else 600)
    sf = os.path.join(c.scratch, "ident-sched.ndjson")
    tf = os.path.join(c.scratch, "ident-trace.ndjson")
    with open(sf, "w") as f:
        for s in scheds:
            f.write(json.dumps(s) + "\n")
    c.vh(["ident", sf, tf], timeout=3000)
    sessions = c09.split_sessions(tf)
    n_ok, failures = c09.validate_sessions(c, sessions, "ident")
    c.cov["identity_traces_validated"] = n_ok
    for sess, idx, reason, ev in failures:
        key = "ident-merge:%s:%s:%s" % (ev["ev"], ev.get("status", ""), (ev.get("err") or "chains-or-report-differ")[:40])
        c.report(key, "identity pull: %s; schedule %s event #%d: %s" % (reason, scheds[sess]["name"], idx, json.dumps({k: ev[k] for k in ("ev", "r", "i", "status", "chain", "trk", "err")})),
                 {"ident_schedule": scheds[sess], "event": ev})


def through_the_cache(c):
    """The cache half of the property (cache/subcache.go MergeAll, repo_cache_common.go Pull): pulls through RepoCache in
    sessions of two users; what is judged here is what a pull is answerable for - the step of the pull itself (the merged
    entity is what the cache hands back and serves) and, at every later step, that no stored operation disappears."""
    import json
    import os
    from . import c11
    scheds = c11.catalogue() + c11.simulate(c, 12 if c.tier == "quick" else 400)
    sf = os.path.join(c.scratch, "c02-cache-sched.ndjson")
    tf = os.path.join(c.scratch, "c02-cache-trace.ndjson")
    with open(sf, "w") as f:
        for s in scheds:
            f.write(json.dumps(s) + "\n")
    c.vh(["cache", sf, tf], timeout=3200)
    sessions = c11.split(tf)
    n_ok, failures = c11.validate(c, sessions, "c02-cache")
    c.cov["cache_sessions_validated"] = n_ok
    c.cov["cache_pull_steps"] = sum(1 for s in sessions for l in s if '"ev":"Pull"' in l)
    seen = set()
    for sess, idx, reason, ev in failures:
        if ev["ev"] == "Pull" or ev.get("lost", 0) > 0:
            key = "cache-pull:%s:%s" % (ev["ev"], "lost" if ev.get("lost", 0) > 0 else "merged-result-not-served")
            if key in seen:
                continue
            seen.add(key)
            what = ("%d stored operation(s) disappeared (%s)" % (ev["lost"], ev.get("lostwhat", ""))) if ev.get("lost", 0) > 0 else \
                "after the pull the cache does not serve the merged entities: " + ev.get("diff", "")[:600]
            c.report(key, "pull through the cache, session %s event #%d %s(%s): %s" % (scheds[sess]["name"], idx, ev["ev"], ev["r"], what),
                     {"cache_session": scheds[sess]})


def failing_calls(c):
    """A pull whose repository calls fail (Crash.tla ErrSafe; harness/crashx/errors.go): for every pull scenario of the crash
    catalogue (and generated pulls of random mixtures) each call the pull makes on the repository - reads, clock operations,
    object and ref writes, the replacement of a clock file - fails in turn; the pull reports it or carries on. TLC judges what
    is found afterwards: nothing lost, nothing half-merged, everything readable, a repeated pull completes."""
    import json
    import os
    from . import tv
    out = os.path.join(c.scratch, "pull-errors.ndjson")
    c.vh(["crash-errors", out, 1 if c.tier == "quick" else 8], timeout=3200)
    lines = [l.rstrip("\n") for l in open(out)]
    recs = [json.loads(l) for l in lines]
    if len(recs) < 300 or len({r["errkind"] for r in recs}) < 12:
        raise Broken("only %d failing calls of %d kinds" % (len(recs), len({r["errkind"] for r in recs})))
    n_ok, failures = tv.validate_dropping(c, "CrashErrTrace", "CrashErrTrace.cfg", lines, "pull-errors", max_fail=30)
    c.cov["failing_calls_validated"] = n_ok
    c.cov["failing_call_kinds"] = sorted({r["errkind"] for r in recs})
    c.cov["failing_call_scenarios"] = len({r["scenario"] for r in recs})
    c.cov["failing_calls_not_reported"] = sum(1 for r in recs if not r["reported"])
    seen = set()
    for ev, reason in failures:
        bad = {e: v for e, v in ev["outcome"].items() if v == "other"}
        if ev["openerr"] or ev["readerr"]:
            what = "afterwards the repository does not open / an entity is unreadable: " + (ev["openerr"] or ev["readerr"])
        elif bad:
            what = "entity %s is neither in its state before the pull nor in its merged state: %s" % (", ".join(sorted(bad)), ev["state"][:400])
        elif not ev["clockok"]:
            what = "clocks: " + ev["clockwhy"]
        elif ev["redo"] == "other":
            what = "repeating the pull does not complete it: " + ev["redoerr"][:300]
        else:
            what = "entities are not in the state the ref updates made prescribe: %s (refs moved: %s)" % (
                {e: v for e, v in ev["outcome"].items() if v != "unchanged"}, [m["ent"] for m in ev["done"] if m["ent"]])
        key = "pull-error:%s:%s:%s" % (ev["scenario"].split(":")[0] + (":pull" if ev["scenario"].startswith("gen:") else ""), ev["errkind"], what.split(":")[0][:50])
        if key in seen:
            continue
        seen.add(key)
        c.report(key, "scenario %s, call %d of %d (%s) fails%s: %s" % (ev["scenario"], ev["errat"], ev["ncalls"], ev["errkind"],
                                                                          "" if ev["reported"] else " (the pull reports no error)", what),
                 {"pull_error": {"scenario": ev["scenario"], "errat": ev["errat"]}})
    cand = [r for r in recs if "pre" in r["outcome"].values()][0]
    bad = json.loads(json.dumps(cand))
    e = [e for e, v in bad["outcome"].items() if v == "pre"][0]
    bad["outcome"][e] = "other"
    n2, f2 = tv.validate_dropping(c, "CrashErrTrace", "CrashErrTrace.cfg", [json.dumps(bad)], "pull-errors-selftest", max_fail=1)
    if len(f2) != 1:
        raise Broken("failing-call self-test: a lost entity state was accepted")


def run(c):
    identities(c)
    through_the_cache(c)
    c01.run(c, inv=INV, bind=(False, True, False), sched_fn=schedules, mut=mutate, cls=classify)
    c.cov["traces_validated_against_impl"] += c.cov.get("identity_traces_validated", 0) + c.cov.get("cache_sessions_validated", 0)
    # last: its scenarios are prepared with the code under test (pushes and pulls between replicas); on a tree where those
    # go wrong the preparation stops the driver, and what the other parts found must already be on record
    failing_calls(c)
    c.cov["traces_validated_against_impl"] += c.cov.get("failing_calls_validated", 0)


def replay(c, rep):
    if "pull_error" in rep["replay"]:
        import json
        import os
        from . import tv
        c.cov["states"] = c.cov["transitions"] = 1
        c.sample(rep["replay"])
        out = os.path.join(c.scratch, "pull-errors.ndjson")
        c.vh(["crash-errors", out, 0, rep["replay"]["pull_error"]["scenario"], rep["replay"]["pull_error"]["errat"]], timeout=1200)
        lines = [l.rstrip("\n") for l in open(out)]
        n_ok, failures = tv.validate_dropping(c, "CrashErrTrace", "CrashErrTrace.cfg", lines, "replay")
        for ev, reason in failures:
            c.report(rep["key"], "scenario %s, call %d (%s) fails: %s" % (ev["scenario"], ev["errat"], ev["errkind"], ev["state"][:300]), rep["replay"])
        return
    if "cache_session" in rep["replay"]:
        from . import c11
        rep2 = dict(rep)
        rep2["replay"] = {"session": rep["replay"]["cache_session"]}
        return c11.replay(c, rep2)
    return c01.replay(c, rep)
