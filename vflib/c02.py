"""C02 a pull never loses operations nor breaks an entity: the Merge action of GitBug.tla (five scenarios), invariant
MergeTruthful and action property RefsGrow; every real merge result (status, returned entity) is bound to the specification."""
from . import c01, gb

INV = ["MergeTruthful", "AllReadable", "NoDupOps"]


def classify(event, reason):
    if event["ev"] == "Merge":
        return "merge:%s:%s" % (event.get("status"), (event.get("err") or "status-returned-entity-or-ref-differs")[:60])
    if event.get("err"):
        return "%s:%s" % (event["ev"], event["err"][:60])
    return "%s:state-or-result-differs" % event["ev"]


def mutate(events):
    """Report a fast-forward / merge as 'nothing'."""
    for e in events:
        if e["ev"] == "Merge" and e["status"] == "updated":
            e["status"] = "nothing"
            return events
    return None


def schedules(c):
    n = 60 if c.tier == "quick" else 1500
    scheds = gb.catalogue()
    scheds += gb.simulate(c, n, ["A", "B"], 2, 14, 16, False)
    return scheds


def identities(c):
    """The identity half of the property: merge reports and chains of identity pulls (Ident.tla, shared with C09)."""
    import json
    import os
    from . import c09
    c.tlc_model("MC_Ident", "MC_Ident.cfg", timeout=1200, label="identities: 2 replicas, 2 identities, <= 5 versions")
    scheds = c09.catalogue() + c09.simulate(c, 20 if c.tier == "quick" else 600)
    sf = os.path.join(c.scratch, "ident-sched.ndjson")
    tf = os.path.join(c.scratch, "ident-trace.ndjson")
    with open(sf, "w") as f:
        for s in scheds:
            f.write(json.dumps(s) + "\n")
    c.vh(["ident", sf, tf], timeout=3000)
    sessions = c09.split_sessions(tf)
    n_ok, failures = c09.validate_sessions(c, sessions, "ident")
    c.cov["identity_traces_validated"] = n_ok
    for sess, idx, reason, ev in failures:
        key = "ident-merge:%s:%s:%s" % (ev["ev"], ev.get("status", ""), (ev.get("err") or "chains-or-report-differ")[:40])
        c.report(key, "identity pull: %s; schedule %s event #%d: %s" % (reason, scheds[sess]["name"], idx, json.dumps({k: ev[k] for k in ("ev", "r", "i", "status", "chain", "trk", "err")})),
                 {"ident_schedule": scheds[sess], "event": ev})


def run(c):
    identities(c)
    c01.run(c, inv=INV, bind=(False, True, False), sched_fn=schedules, mut=mutate, cls=classify)
    c.cov["traces_validated_against_impl"] += c.cov.get("identity_traces_validated", 0)


replay = c01.replay
