"""C02 a pull never loses operations nor breaks an entity: the Merge action of GitBug.tla (five scenarios), invariant
MergeTruthful and action property RefsGrow; every real merge result (status, returned entity) is bound to the specification."""
from . import c01, gb

INV = ["MergeTruthful", "AllReadable", "NoDupOps"]


def classify(event, reason):
    if event["ev"] == "Merge":
        return "merge:%s:%s" % (event.get("status"), (event.get("err") or "status-returned-entity-or-ref-differs")[:60])
    if event.get("err"):
        return "%s:%s" % (event["ev"], event["err"][:60])
    return "%s:state-or-result-differs" % event["ev"]


def mutate(events):
    """Report a fast-forward / merge as 'nothing'."""
    for e in events:
        if e["ev"] == "Merge" and e["status"] == "updated":
            e["status"] = "nothing"
            return events
    return None


def schedules(c):
    n = 60 if c.tier == "quick" else 1500
    scheds = gb.catalogue()
    scheds += gb.simulate(c, n, ["A", "B"], 2, 14, 16, False)
    return scheds


def run(c):
    c01.run(c, inv=INV, bind=(False, True, False), sched_fn=schedules, mut=mutate, cls=classify)


replay = c01.replay
