"""C12 queries: Query.tla (lexer, parser, grammar, evaluation). MC_Query: every atom string to the bound and every clause
sequence of the documented grammar (round trip) as vectors for query.Parse; random strings and evaluation over real
populations validated by TLC as traces."""
import json
import os

from . import tv
from .core import Broken


def run(c):
    d = c.specdir()
    maxlex, maxcl = (5, 2) if c.tier == "quick" else (6, 3)
    cfg = "MC_Query_run.cfg"
    with open(os.path.join(d, cfg), "w") as f:
        f.write("SPECIFICATION Spec\nCONSTANTS MaxLex = %d  MaxClauses = %d\nINVARIANTS InvRoundTrip InvTokens InvQuoteProtects Emit\nCHECK_DEADLOCK FALSE\n" % (maxlex, maxcl))
    r = c.tlc_model("MC_Query", cfg, timeout=3000, heap="12g", label="atom strings <= %d, clause sequences <= %d" % (maxlex, maxcl))
    vecs = [v for v in r.printed() if "atoms" in v]
    if len(vecs) < 1000:
        raise Broken("only %d query vectors" % len(vecs))
    vf = os.path.join(c.scratch, "q-vectors.ndjson")
    out = os.path.join(c.scratch, "q-out.ndjson")

    def run_vecs(vs):
        with open(vf, "w") as f:
            for v in vs:
                f.write(json.dumps(v) + "\n")
        c.vh(["query-parse", vf, out], timeout=3000)
        mism, stats = [], None
        for line in open(out):
            dd = json.loads(line)
            if "stats" in dd:
                stats = dd["stats"]
            else:
                mism.append(dd)
        return mism, stats
    mism, stats = run_vecs(vecs)
    if not stats or stats["executed"] < 4 * len(vecs):
        raise Broken("query-parse executed too little: %s" % stats)
    c.cov["vectors_executed"] += stats["executed"]
    c.cov["exhaustive"] = True
    c.sample(vecs[len(vecs) // 2])
    seen = set()
    for m in mism:
        key = "parse:%s:%s" % (m["variant"], "".join(m["vec"]["atoms"])[:60])
        if len(seen) >= 8:
            break
        seen.add(key)
        c.report(key, m["why"], {"vector": m["vec"], "variant": m["variant"]})
    # self-test (vectors)
    bad = json.loads(json.dumps([v for v in vecs if not v["exp"]["err"] and v["exp"]["label"]][0]))
    bad["exp"]["label"] = []
    m2, _ = run_vecs([bad])
    if len(m2) != 4:
        raise Broken("query vector self-test failed")

    # random strings beyond the bound
    n = 1500 if c.tier == "quick" else 40000
    tf = os.path.join(c.scratch, "qparse-trace.ndjson")
    c.vh(["query-parse-trace", tf, n])
    lines = [l.rstrip("\n") for l in open(tf)]
    n_ok, failures = tv.validate_dropping(c, "QueryParseTrace", "QueryParseTrace.cfg", lines, "qparse")
    for ev, reason in failures:
        c.report("parse-random:%s" % ("panic" if ev.get("panic") else "outcome-differs"), "query.Parse(%r): %s %s" % (ev["text"], reason, ev.get("panic", "")),
                 {"text": ev["text"], "atoms": ev["atoms"]})
    c.cov["random_strings"] = len(lines)

    # evaluation over real populations
    sessions, per = (3, 250) if c.tier == "quick" else (40, 400)
    ef = os.path.join(c.scratch, "qeval-trace.ndjson")
    c.vh(["query-trace", ef, sessions, per], timeout=3000)
    lines = [l.rstrip("\n") for l in open(ef)]
    nonempty = sum(1 for l in lines if '"ev":"Query"' in l and '"result":[]' not in l)
    n_ok, failures = tv.validate_dropping(c, "QueryTrace", "QueryTrace.cfg", lines, "qeval")
    c.cov["traces_validated_against_impl"] = sessions if not failures else sessions - 1
    c.cov["queries_evaluated"] = len(lines) - sessions
    c.cov["queries_with_nonempty_result"] = nonempty
    if nonempty < (len(lines) - sessions) // 10:
        raise Broken("query driver is vacuous: only %d non-empty results" % nonempty)
    c.sample(json.loads(lines[3]))
    for ev, reason in failures:
        c.report("eval:%s" % (ev.get("err") or "result-not-admissible")[:50], "query %r: %s; result %s %s" % (ev.get("text"), reason, ev.get("result"), ev.get("err", "")),
                 {"event": ev})
    # self-test (trace): drop one element of a non-empty result
    sess = []
    for l in lines:
        e = json.loads(l)
        if e["ev"] == "Pop":
            if sess:
                break
            sess = [l]
        elif sess:
            sess.append(l)
    for i, l in enumerate(sess):
        e = json.loads(l)
        if e["ev"] == "Query" and len(e["result"]) >= 2:
            e["result"] = e["result"][1:]
            sess[i] = json.dumps(e)
            break
    n2, f2 = tv.validate_dropping(c, "QueryTrace", "QueryTrace.cfg", sess[:i + 1], "qeval-selftest", max_fail=1)
    c.cov["selftest_rejected"] = len(f2) == 1
    if len(f2) != 1:
        raise Broken("query evaluation self-test failed")
    c.assumptions += ["strings are compared as code-point sequences; case folding is modelled for ASCII letters (populations use ASCII names)",
                      "full-text search terms are parsed but their evaluation by bleve is not part of Eval (see C11)",
                      "bugs with equal sort keys may come in any order"]


def replay(c, rep):
    c.cov["states"] = c.cov["transitions"] = 1
    c.sample(rep["replay"])
    if "vector" in rep["replay"]:
        vf = os.path.join(c.scratch, "v.ndjson")
        out = os.path.join(c.scratch, "o.ndjson")
        with open(vf, "w") as f:
            f.write(json.dumps(rep["replay"]["vector"]) + "\n")
        c.vh(["query-parse", vf, out])
        for line in open(out):
            dd = json.loads(line)
            if "why" in dd:
                c.report(rep["key"], dd["why"], rep["replay"])
