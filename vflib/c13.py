"""C13 id prefixes and combined comment ids: Ids.tla; MC_Ids (interleaving theorem for every prefix length, resolution table
on abstract populations); vectors against CombineIds / SeparateIds; traces of real prefix resolution validated by TLC."""
import json
import os

from . import tv
from .core import Broken


def run(c):
    r = c.tlc_model("MC_Ids", "MC_Ids.cfg", timeout=900, label="split theorem L=0..64; populations <=4 ids depth 3")
    vecs = [v for v in r.printed() if "layout" in v]
    if len(vecs) != 65:
        raise Broken("expected 65 split vectors, got %d" % len(vecs))
    vf = os.path.join(c.scratch, "ids-vectors.ndjson")
    out = os.path.join(c.scratch, "ids-out.ndjson")
    with open(vf, "w") as f:
        for v in vecs:
            f.write(json.dumps(v) + "\n")
    c.vh(["ids-vectors", vf, out])
    stats = None
    for line in open(out):
        d = json.loads(line)
        if "stats" in d:
            stats = d["stats"]
        else:
            c.report("split:L=%d" % d["vec"]["L"], d["why"], {"split_vector": d["vec"], "primary": d["primary"], "secondary": d["secondary"]})
    if not stats or stats["executed"] < 65:
        raise Broken("ids vector harness executed too little")
    c.cov["vectors_executed"] += stats["executed"]
    c.sample(vecs[7])
    # self-test for the vector binding
    bad = json.loads(json.dumps([v for v in vecs if v["L"] == 10][0]))
    bad["layout"][9], bad["layout"][8] = bad["layout"][8], bad["layout"][9]
    with open(vf, "w") as f:
        f.write(json.dumps(bad) + "\n")
    c.vh(["ids-vectors", vf, out])
    if not any("why" in json.loads(l) for l in open(out)):
        raise Broken("split-vector self-test failed")

    rounds = 3 if c.tier == "quick" else 40
    tf = os.path.join(c.scratch, "ids-trace.ndjson")
    c.vh(["ids-trace", tf, rounds, c.build_gitbug()], timeout=1800)
    lines = [l.rstrip("\n") for l in open(tf)]
    # sessions are delimited by Pop events: validate, dropping a rejected Resolve line and going on
    n_ok, failures = tv.validate_dropping(c, "IdsTrace", "IdsTrace.cfg", lines, "ids")
    c.cov["traces_validated_against_impl"] = rounds if not failures else max(0, rounds - 1)
    c.cov["trace_events"] = len(lines)
    c.sample(json.loads(lines[0]) if len(lines[0]) < 3000 else {"ev": "Pop", "note": "population of 4 bugs, 4 identities, 10 comments"})
    c.sample(json.loads(lines[40]))
    for ev, reason in failures:
        key = "resolve:%s:%s:len%d" % (ev.get("kind", ev.get("ev")), ev.get("outcome"), len(ev.get("prefix", [])))
        c.report(key, "%s: %s" % (reason, json.dumps(ev)[:400]), {"event": ev})
    # binding self-test
    bad_lines = list(lines[:60])
    for i, l in enumerate(bad_lines):
        e = json.loads(l)
        if e["ev"] == "Resolve" and e["outcome"] == "found":
            e["outcome"] = "multiple"
            bad_lines[i] = json.dumps(e)
            break
    n2, f2 = tv.validate_dropping(c, "IdsTrace", "IdsTrace.cfg", bad_lines, "ids-selftest", max_fail=1)
    c.cov["selftest_rejected"] = len(f2) == 1
    if len(f2) != 1:
        raise Broken("ids trace self-test failed: corrupted answer accepted")
    c.assumptions += ["ids are compared as sequences of base-36 digits; hash collisions are not considered",
                      "populations: 4 bugs, 4 identities, 10 comments per session with engineered shared prefixes of 1-3 characters"]


def replay(c, rep):
    c.cov["states"] = c.cov["transitions"] = 1
    c.sample(rep["replay"])
    if "split_vector" in rep["replay"]:
        vf = os.path.join(c.scratch, "v.ndjson")
        out = os.path.join(c.scratch, "o.ndjson")
        with open(vf, "w") as f:
            f.write(json.dumps(rep["replay"]["split_vector"]) + "\n")
        c.vh(["ids-vectors", vf, out])
        for line in open(out):
            d = json.loads(line)
            if "why" in d:
                c.report(rep["key"], d["why"], rep["replay"])
        return
    # resolution depends on a freshly engineered population: re-run one session and validate it
    tf = os.path.join(c.scratch, "ids-trace.ndjson")
    c.vh(["ids-trace", tf, 1, c.build_gitbug()])
    lines = [l.rstrip("\n") for l in open(tf)]
    n_ok, failures = tv.validate_dropping(c, "IdsTrace", "IdsTrace.cfg", lines, "ids")
    for ev, reason in failures:
        c.report("resolve:%s:%s:len%d" % (ev.get("kind", ev.get("ev")), ev.get("outcome"), len(ev.get("prefix", []))), reason, {"event": ev})
