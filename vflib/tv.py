"""Small helpers shared by checks that validate one trace file with one trace specification."""
import json
import os

from .core import Broken


def validate_file(c, module, cfg, path, label):
    """Returns (accepted, first_unexplained_line_1based_or_0, TlcResult)."""
    ok, r = c.tlc_trace(module, cfg, path, 1, label=label, timeout=3000)
    if ok:
        return True, 0, r
    if r.rc != 0 and r.violated is None and "TraceAccepted" not in r.out:
        raise Broken("trace validation run failed (rc=%d):\n%s" % (r.rc, r.out[-3000:]))
    return False, r.depth, r


def validate_dropping(c, module, cfg, lines, label, is_boundary=None, max_fail=15):
    """Validate a list of JSON lines; every rejected line is recorded and removed (events are independent unless
    is_boundary groups them), until the remainder is accepted. Returns (accepted_lines, failures[(line, reason)])."""
    failures = []
    cur = list(lines)
    while cur:
        path = os.path.join(c.scratch, "tv-%s.ndjson" % label)
        with open(path, "w") as f:
            f.write("\n".join(cur) + "\n")
        ok, bad, r = validate_file(c, module, cfg, path, label)
        if ok:
            break
        idx = min(max(bad, 1), len(cur)) - 1
        reason = "no specification action explains this event" if r.violated in (None, "postcondition") else \
            "invariant %s violated after this event" % r.violated
        failures.append((json.loads(cur[idx]), reason))
        del cur[idx]
        if len(failures) >= max_fail:
            break
    return len(cur), failures
