"""C06 crash atomicity: Crash.tla (mutation sequences tagged with the entity whose ref they move, crash points, what must be
found afterwards, entity by entity). The harness enumerates every crash point of every write path in child processes that die
at that point (object / ref mutations through a decorator of repository.ClockedRepo, clock-file operations through the
local-storage hook), for a catalogue of calls and for generated ones (commits with several authors, identities with several
versions, pulls that create / fast-forward / merge several entities at once); TLC judges the records."""
import json
import os

from . import tv
from .core import Broken


def what_of(ev):
    kind = ev["mutations"][ev["k"] - 1]["kind"] if ev["k"] <= ev["n"] else "end"
    bad = sorted(e for e, v in ev["outcome"].items() if v not in ("unchanged", "pre", "post"))
    if ev["openerr"]:
        what = "repository does not open: " + ev["openerr"]
    elif ev["readerr"]:
        what = "entity unreadable: " + ev["readerr"]
    elif not ev["clockok"]:
        what = "clock: " + ev["clockwhy"]
    elif ev["redo"] == "other":
        what = "repeating the call does not complete it: " + ev["redoerr"]
    elif ev.get("redo2") == "other":
        what = "interrupting the repeated call: " + ev["redo2err"]
    elif bad:
        what = "entity %s is neither in its old nor in its new state (%s)" % (", ".join(bad), ev["state"][:300])
    else:
        what = "entities %s are not in the state the ref updates done so far prescribe (%s)" % (
            {e: v for e, v in ev["outcome"].items() if v != "unchanged"}, ev["state"][:300])
    return kind, what


def gen_kind(name):
    return ":".join(name.split(":")[:2]) if name.startswith("gen:") else name


def run(c):
    c.tlc_model("MC_Crash", "MC_Crash.cfg", timeout=600, label="all write paths <= 3 packs, 1-2 entities per call, removals x all crash points; atomic clock writes, one ref update per entity")
    r = c.tlc("MC_Crash", "MC_Crash_inplace.cfg", timeout=600, label="witness: in-place clock writes must be reported unsafe by the model")
    if r.violated != "ClockNeverTorn":
        raise Broken("the model does not distinguish atomic from in-place clock writes (vacuity guard)")
    r = c.tlc("MC_Crash", "MC_Crash_refperpack.cfg", timeout=600, label="witness: a ref update after every pack must be reported unsafe by the model")
    if r.violated != "CrashAtomic":
        raise Broken("the model does not distinguish one ref update per entity from one per pack (vacuity guard)")
    out = os.path.join(c.scratch, "crash.ndjson")
    ngen = 3 if c.tier == "quick" else 250
    c.vh(["crash", out, ngen], timeout=6000, env={"VERIF_TIER": c.tier})
    lines = [l.rstrip("\n") for l in open(out)]
    if len(lines) < 200:
        raise Broken("only %d crash records" % len(lines))
    recs = [json.loads(l) for l in lines]
    n_ok, failures = tv.validate_dropping(c, "CrashTrace", "CrashTrace.cfg", lines, "crash", max_fail=60)
    c.cov["traces_validated_against_impl"] = n_ok
    c.cov["crash_points"] = len(recs)
    c.cov["scenarios"] = len({r["scenario"] for r in recs})
    c.cov["scenario_kinds"] = sorted({gen_kind(r["scenario"]) for r in recs})
    c.cov["mutation_kinds_seen"] = sorted({m["kind"] for r in recs for m in r["mutations"]})
    c.cov["max_entities_moved_by_one_call"] = max(len({m["ent"] for m in r["mutations"] if m["ent"]}) for r in recs)
    c.cov["second_crash_during_repeat"] = sum(1 for r in recs if r.get("redo2"))
    c.cov["exhaustive"] = True
    multi = [r for r in recs if len({m["ent"] for m in r["mutations"] if m["ent"]}) >= 3]
    if not multi:
        raise Broken("no call moved three entities: the multi-entity part of the model was not exercised")
    for need in ("ref", "rmref", "rmtrack", "blob", "tree", "commit", "fs-rename"):
        if need not in c.cov["mutation_kinds_seen"]:
            raise Broken("mutation kind %s never observed" % need)
    c.cov["samples"].append({"scenario": recs[0]["scenario"], "k": recs[0]["k"], "mutations": [m["kind"] + (":" + m["ent"] if m["ent"] else "") for m in recs[0]["mutations"]],
                             "outcome": recs[0]["outcome"], "redo": recs[0]["redo"]})
    mid = multi[len(multi) // 2]
    c.cov["samples"].append({"scenario": mid["scenario"], "k": mid["k"], "interrupted": mid["mutations"][mid["k"] - 1] if mid["k"] <= mid["n"] else "none",
                             "outcome": mid["outcome"], "clockok": mid["clockok"]})
    seen = set()
    for ev, reason in failures:
        kind, what = what_of(ev)
        key = "crash:%s:%s:%s" % (gen_kind(ev["scenario"]), kind, what.split(":")[0][:60])
        if key in seen:
            continue
        seen.add(key)
        c.report(key, "scenario %s, process dies at mutation %d of %d (%s): %s" % (ev["scenario"], ev["k"], ev["n"], kind, what),
                 {"scenario": ev["scenario"], "k": ev["k"], "tear": ev["tear"], "record": {k: ev[k] for k in ev if k != "state"}})
    # binding self-test: an entity reported in the wrong state, and a second ref update of the same entity, must be rejected
    cand = [r for r in recs if "pre" in r["outcome"].values()][0]
    bad = json.loads(json.dumps(cand))
    e = [e for e, v in bad["outcome"].items() if v == "pre"][0]
    bad["outcome"][e] = "post"
    n2, f2 = tv.validate_dropping(c, "CrashTrace", "CrashTrace.cfg", [json.dumps(bad)], "crash-selftest", max_fail=1)
    bad = json.loads(json.dumps(cand))
    bad["mutations"] = bad["mutations"] + [{"kind": "ref", "ent": e}]
    bad["n"] += 1
    n3, f3 = tv.validate_dropping(c, "CrashTrace", "CrashTrace.cfg", [json.dumps(bad)], "crash-selftest2", max_fail=1)
    c.cov["selftest_rejected"] = len(f2) == 1 and len(f3) == 1
    if len(f2) != 1 or len(f3) != 1:
        raise Broken("crash record self-test failed")
    c.assumptions += ["go-git's own object and ref writes are atomic (temp file + rename, ref lock files): crash points lie between git-bug's calls",
                      "states are compared structurally (operation kinds, authors, texts, number of commits under the ref): ids differ between runs because of nonces",
                      "fetch is not interrupted internally (go-git transport trusted); the merges that follow are",
                      "a dying child must walk the same sequence of mutation kinds as the reference run (checked; otherwise the run is not evidence)"]


def replay(c, rep):
    c.cov["states"] = c.cov["transitions"] = 1
    c.sample(rep["replay"])
    out = os.path.join(c.scratch, "crash.ndjson")
    c.vh(["crash", out, 0, rep["replay"]["scenario"], rep["replay"]["k"], rep["replay"].get("tear", -1)], timeout=3000, env={"VERIF_TIER": "quick"})
    lines = [l.rstrip("\n") for l in open(out)]
    n_ok, failures = tv.validate_dropping(c, "CrashTrace", "CrashTrace.cfg", lines, "replay")
    for ev, reason in failures:
        kind, what = what_of(ev)
        c.report(rep["key"], "scenario %s, process dies at mutation %d of %d (%s): %s" % (ev["scenario"], ev["k"], ev["n"], kind, what), rep["replay"])
