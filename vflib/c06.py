"""C06 crash atomicity: Crash.tla (mutation sequences, crash points, what must be found afterwards). The harness enumerates
every crash point of every write path in child processes that die at that point (object / ref mutations through a decorator
of repository.ClockedRepo, clock-file operations through the local-storage hook); TLC judges the records."""
import json
import os

from . import tv
from .core import Broken


def run(c):
    c.tlc_model("MC_Crash", "MC_Crash.cfg", timeout=600, label="all write paths <= 3 packs x all crash points, atomic clock writes")
    r = c.tlc("MC_Crash", "MC_Crash_inplace.cfg", timeout=600, label="witness: in-place clock writes must be reported unsafe by the model")
    if r.violated != "ClockNeverTorn":
        raise Broken("the model does not distinguish atomic from in-place clock writes (vacuity guard)")
    out = os.path.join(c.scratch, "crash.ndjson")
    c.vh(["crash", out], timeout=3000)
    lines = [l.rstrip("\n") for l in open(out)]
    if len(lines) < 50:
        raise Broken("only %d crash records" % len(lines))
    recs = [json.loads(l) for l in lines]
    n_ok, failures = tv.validate_dropping(c, "CrashTrace", "CrashTrace.cfg", lines, "crash", max_fail=40)
    c.cov["traces_validated_against_impl"] = n_ok
    c.cov["crash_points"] = len(recs)
    c.cov["scenarios"] = sorted({r["scenario"] for r in recs})
    c.cov["mutation_kinds_seen"] = sorted({m for r in recs for m in r["mutations"]})
    c.cov["exhaustive"] = True
    c.cov["samples"].append({"scenario": recs[0]["scenario"], "k": recs[0]["k"], "mutations": recs[0]["mutations"], "outcome": recs[0]["outcome"], "redo": recs[0]["redo"]})
    pdm = [r for r in recs if r["scenario"] == "pull-diverged-merge"] or recs
    mid = pdm[len(pdm) // 2]
    c.cov["samples"].append({"scenario": mid["scenario"], "k": mid["k"], "interrupted": mid["mutations"][mid["k"] - 1] if mid["k"] <= mid["n"] else "none", "outcome": mid["outcome"], "clockok": mid["clockok"]})
    seen = set()
    for ev, reason in failures:
        kind = ev["mutations"][ev["k"] - 1] if ev["k"] <= ev["n"] else "end"
        if ev["openerr"]:
            what = "repository does not open: " + ev["openerr"]
        elif ev["readerr"]:
            what = "entity unreadable: " + ev["readerr"]
        elif not ev["clockok"]:
            what = "clock: " + ev["clockwhy"]
        elif ev["redo"] == "other":
            what = "repeating the call does not complete it: " + ev["redoerr"]
        else:
            what = "state after the crash is '%s' (%s)" % (ev["outcome"], ev["state"][:200])
        key = "crash:%s:%s:%s" % (ev["scenario"], kind, what.split(":")[0])
        if key in seen:
            continue
        seen.add(key)
        c.report(key, "scenario %s, process dies at mutation %d of %d (%s): %s" % (ev["scenario"], ev["k"], ev["n"], kind, what),
                 {"scenario": ev["scenario"], "k": ev["k"], "record": {k: ev[k] for k in ev if k != "state"}})
    bad = json.loads(lines[3])
    bad["outcome"] = "post" if bad["outcome"] == "pre" else "pre"
    n2, f2 = tv.validate_dropping(c, "CrashTrace", "CrashTrace.cfg", [json.dumps(bad)], "crash-selftest", max_fail=1)
    c.cov["selftest_rejected"] = len(f2) == 1
    if len(f2) != 1:
        raise Broken("crash record self-test failed")
    c.assumptions += ["go-git's own object and ref writes are atomic (temp file + rename, ref lock files): crash points lie between git-bug's calls",
                      "states are compared structurally (operation kinds, authors, texts): ids differ between runs because of nonces",
                      "fetch is not interrupted internally (go-git transport trusted); the merges that follow are"]


def replay(c, rep):
    c.cov["states"] = c.cov["transitions"] = 1
    c.sample(rep["replay"])
    out = os.path.join(c.scratch, "crash.ndjson")
    c.vh(["crash", out], timeout=3000)
    lines = [l for l in open(out) if json.loads(l)["scenario"] == rep["replay"]["scenario"] and json.loads(l)["k"] == rep["replay"]["k"]]
    n_ok, failures = tv.validate_dropping(c, "CrashTrace", "CrashTrace.cfg", [l.rstrip("\n") for l in lines], "replay")
    for ev, reason in failures:
        c.report(rep["key"], reason, rep["replay"])
