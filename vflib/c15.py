"""C15 host repository untouched, only valid git data: HostRepo.tla (frame condition over a digest of everything that is not
git-bug's, fsck verdict); sessions of CLI and library actions on a prepared host repository validated by TLC."""
import json
import os

from . import tv
from .core import Broken


def run(c):
    c.tlc_model("MC_HostRepo", "MC_HostRepo.cfg", timeout=300, label="frame condition on the model")
    sessions, steps = (6, 16) if c.tier == "quick" else (120, 30)
    out = os.path.join(c.scratch, "host.ndjson")
    c.vh(["host", out, sessions, steps, c.build_gitbug()], timeout=3400)
    lines = [l.rstrip("\n") for l in open(out)]
    evs = [json.loads(l) for l in lines]
    cmds = {}
    failed_cmds = 0
    for e in evs:
        if e["ev"] == "Step":
            cmds[e["cmd"]] = cmds.get(e["cmd"], 0) + 1
            failed_cmds += e["exit"] != 0
    if len(evs) < sessions * 6 or failed_cmds > len(evs) // 2:
        raise Broken("host driver is ineffective: %d events, %d failed commands" % (len(evs), failed_cmds))
    # per session validation: a rejected step is reported, the rest of that session is still checked
    by_sess = {}
    for l, e in zip(lines, evs):
        by_sess.setdefault(e["sess"], []).append(l)
    n_ok = 0
    for sess, ls in by_sess.items():
        ok, failures = tv.validate_dropping(c, "HostRepoTrace", "HostRepoTrace.cfg", ls, "host%d" % sess, max_fail=6)
        if not failures:
            n_ok += 1
        start = json.loads(ls[0])
        for ev, reason in failures:
            if ev.get("hung"):
                what = "the command did not come back: " + ev["out"][:200]
            elif not ev["fsck"]:
                what = "git fsck --strict complains: " + ev["fsckout"][:300]
            elif not ev["refsok"]:
                what = "a ref outside git-bug's namespaces was created"
            elif ev.get("interop") and ev["exit"] != 0:
                what = "stock git cannot work with what git-bug wrote: " + ev["out"][:300]
            else:
                a = set(start["detail"].split("\n"))
                b = set(ev["detail"].split("\n"))
                what = "foreign state changed: before %s / after %s" % (sorted(a - b)[:4], sorted(b - a)[:4])
            c.report("host:%s:%s" % (ev["cmd"], what.split(":")[0]), "after `%s` (exit %d): %s" % (ev["cmd"], ev["exit"], what), {"command": ev["cmd"], "session": sess})
    c.cov["traces_validated_against_impl"] = n_ok
    c.cov["commands_run"] = cmds
    c.cov["steps"] = len(evs)
    e = evs[2]
    c.sample({k: e[k] for k in ("ev", "cmd", "exit", "foreign", "fsck", "refsok")})
    bad = [lines[0], lines[1]]
    e = json.loads(bad[1])
    e["foreign"] = "0" * 20
    bad[1] = json.dumps(e)
    n2, f2 = tv.validate_dropping(c, "HostRepoTrace", "HostRepoTrace.cfg", bad, "host-selftest", max_fail=1)
    c.cov["selftest_rejected"] = len(f2) == 1
    if len(f2) != 1:
        raise Broken("host self-test failed")
    c.assumptions += ["object validity is what git fsck --strict (git 2.39) says; the specification consumes that verdict",
                      "bridge configuration through `git-bug bridge new` needs the network and is not part of the sessions; library "
                      "attachments (StoreData + NewWithFiles) are"]


def replay(c, rep):
    c.cov["states"] = c.cov["transitions"] = 1
    c.sample(rep["replay"])
    run(c)
