"""C01 convergence: GitBug.tla; exhaustive TLC; TLC schedules on real replicas, synchronised to quiescence; traces validated
with AllReadable / Converged / QuiescentConverged and with every bug.Read bound to the specification's Order."""
import json

from . import gb
from .core import Broken

INV = ["AllReadable", "NoDupOps", "Converged", "QuiescentConverged", "CausalOrder"]


def classify(event, reason):
    if event["ev"] == "Read":
        return "read:%s" % (event.get("err") or "order-or-snapshot-differs")
    if event.get("err"):
        return "%s:%s" % (event["ev"], event["err"][:60])
    return "%s:state-or-result-differs" % event["ev"]


def mutate(events):
    """Swap two operations in the result of a successful read."""
    for e in events:
        if e["ev"] == "Read" and e["ok"] and len(e["returned"]) >= 2:
            e["returned"][0], e["returned"][1] = e["returned"][1], e["returned"][0]
            return events
    return None


def schedules(c):
    n = 60 if c.tier == "quick" else 1500
    scheds = gb.catalogue()
    scheds += gb.simulate(c, n // 2, ["A", "B"], 2, 12, 14, False)
    scheds += gb.simulate(c, n // 2, ["A", "B", "C"], 2, 14, 18, False)
    scheds += gb.simulate(c, n // 3, ["A", "B"], 2, 12, 16, False, remotes=("origin", "backup"))
    scheds += gb.uniform(c, n // 3, ["A", "B"]) + gb.uniform(c, n // 3, ["A", "B", "C"])
    return scheds


def liveness(c):
    """MC_GitBugLive.tla: after editing stops, fair pushes / fetches / merges lead to (and keep) identical replicas."""
    import os
    d = c.specdir()
    # editing uses at most MaxCommit - Reserve commits; the reserve must cover the merge commits of the synchronisation (a fast-forward
    # needs none): RoomForMerges is checked as an invariant so that a starved model shows as such, not as a liveness failure
    maxc, reserve, reps = (8, 4, "A, B") if c.tier == "quick" else (10, 5, "A, B")
    for name, spec in (("MC_GitBugLive_run.cfg", "LSpec"), ("MC_GitBugLive_nomerge_run.cfg", "LSpecNoMerge")):
        with open(os.path.join(d, name), "w") as f:
            f.write("SPECIFICATION %s\nCONSTANTS\n  Replica = {%s}\n  Remote = {origin}\n  NBug = 1\n  Author = {u1, u2}\n  MaxHop = 1000\n  MaxCommit = %d\n  RankDir = 1\n"
                    "  WithRestart = FALSE\n  LoaderLess = FALSE\n  Reserve = %d\nINVARIANTS AllReadable RoomForMerges\nPROPERTY EventuallySame\nCHECK_DEADLOCK FALSE\n" % (spec, reps, maxc, reserve))
    c.tlc_model("MC_GitBugLive", "MC_GitBugLive_run.cfg", timeout=3000, label="liveness: editing stops, fair synchronisation => eventually always identical replicas (<= %d commits, %d of them reserved for merges)" % (maxc, reserve))
    r = c.tlc("MC_GitBugLive", "MC_GitBugLive_nomerge_run.cfg", timeout=3000, label="witness: without fair merges convergence must fail")
    if "EventuallySame" not in r.out or "violated" not in r.out:
        raise Broken("the liveness property holds without fair merges: it says nothing (vacuity guard)")


def run(c, inv=INV, bind=(True, False, False), sched_fn=schedules, mut=mutate, cls=classify, restart=False, skip_exhaustive=False):
    if not skip_exhaustive:
        gb.exhaustive(c, inv, restart=restart)
    if c.pid == "C01":
        liveness(c)
    scheds = sched_fn(c)
    if len(scheds) < 10:
        raise Broken("only %d schedules generated" % len(scheds))
    sessions, info = gb.execute(c, scheds)
    cfg = gb.trace_cfg(c, "GitBugTrace_run.cfg", bind[0], bind[1], bind[2], inv)
    n_ok, failures, nevents = gb.validate(c, sessions, cfg, "main")
    c.cov["traces_validated_against_impl"] = n_ok
    c.cov["trace_events"] = info.get("events", 0)
    c.cov["schedules"] = len(scheds)
    c.cov["bindings"] = {"read": bind[0], "merge": bind[1], "clock": bind[2]}
    c.sample({"schedule": scheds[0]["steps"][:8], "name": scheds[0].get("name")})
    c.sample({"trace_line": json.loads(sessions[-1][min(3, len(sessions[-1]) - 1)])})
    gb.report_failures(c, scheds, failures, cls)
    good = [s for i, s in enumerate(sessions) if i not in {f[0] for f in failures}]
    gb.selftest(c, good, cfg, mut)
    c.assumptions += [
        "go-git's transport (file protocol, system git) and object storage are trusted",
        "pack ids are compared through their rank among the pack ids of one session",
        "bounds of the exhaustive runs are listed under tlc_runs; beyond them only the executed schedules apply",
    ]


def replay(c, rep):
    sched = rep["replay"]["schedule"]
    sessions, info = gb.execute(c, [sched])
    cfg = gb.trace_cfg(c, "GitBugTrace_run.cfg", True, True, True, gb.ALL_INV)
    n_ok, failures, _ = gb.validate(c, sessions, cfg, "replay")
    c.cov["states"] = c.cov["transitions"] = 1
    c.cov["traces_validated_against_impl"] = n_ok
    c.sample(sched["steps"][:5])
    gb.report_failures(c, [sched], failures, classify)
