"""C17 no authenticated user, no change: Api.tla (acceptance rules per request kind), MC_Api (the design as a state machine);
every mutation found by introspection, queries and the upload endpoint are exercised on the real handlers with and
without the authentication middleware; the recorded observations are validated by TLC."""
import json
import os

from . import tv
from .core import Broken


def run(c):
    c.tlc_model("MC_Api", "MC_Api.cfg", timeout=600, label="requests of every kind x authenticated x well-formed")
    out = os.path.join(c.scratch, "api.ndjson")
    c.vh(["api", out], timeout=1200)
    lines = [l.rstrip("\n") for l in open(out)]
    schema = json.loads(lines[0])
    if schema.get("ev") != "Schema" or len(schema["mutations"]) < 1:
        raise Broken("introspection did not list the mutations")
    obs = lines[1:]
    evs = [json.loads(l) for l in obs]
    # every mutation of the schema was sent both ways
    for m in schema["mutations"]:
        for auth in (True, False):
            if not any(e["ev"] == "Mutation" and e["name"] == m and e["auth"] == auth and e["valid"] for e in evs):
                raise Broken("mutation %s was not exercised with auth=%s" % (m, auth))
    n_ok, failures = tv.validate_dropping(c, "ApiTrace", "ApiTrace.cfg", obs, "api", max_fail=40)
    c.cov["traces_validated_against_impl"] = n_ok
    c.cov["mutations_in_schema"] = schema["mutations"]
    c.cov["requests"] = len(evs)
    c.cov["unauthenticated_requests"] = sum(1 for e in evs if not e["auth"])
    c.sample({k: evs[0][k] for k in ("ev", "name", "auth", "variant", "refused", "changed", "detail")})
    c.sample({k: [e for e in evs if e["auth"] and e["valid"] and e["ev"] == "Mutation"][0][k] for k in ("ev", "name", "auth", "refused", "changed", "newops", "byuser", "reflects")})
    for ev, reason in failures:
        if not ev["auth"]:
            what = "without a user: " + ("the request was served" if not ev["refused"] else "") + (" the repository changed" if ev["changed"] else "")
        elif ev.get("valid"):
            what = "with a user: refused=%s changed=%s new operations=%s authored by the user=%s returned bug reflects it=%s other bugs touched=%s stored=%s" % (
                ev["refused"], ev["changed"], ev["newops"], ev["byuser"], ev["reflects"], ev["otherbugs"], ev["stored"])
        else:
            what = "ill-formed request: refused=%s changed=%s" % (ev["refused"], ev["changed"])
        c.report("api:%s:%s:%s:%s" % (ev["ev"], ev["name"], "auth" if ev["auth"] else "anon", ev["variant"]),
                 "%s %s (%s): %s [%s]" % (ev["ev"], ev["name"], ev["variant"], what, ev["detail"][:120]), {"observation": ev})
    e = json.loads(obs[0])
    e["changed"] = True
    n2, f2 = tv.validate_dropping(c, "ApiTrace", "ApiTrace.cfg", [json.dumps(e)], "api-selftest", max_fail=1)
    c.cov["selftest_rejected"] = len(f2) == 1
    if len(f2) != 1:
        raise Broken("api self-test failed")
    c.assumptions += ["'changed' compares every ref, the number of git objects and what the cache serves about every bug before and after the request",
                      "the router is built like commands/webui.go (gorilla/mux, auth.Middleware only when a user is configured)"]


def replay(c, rep):
    c.cov["states"] = c.cov["transitions"] = 1
    c.sample(rep["replay"])
    out = os.path.join(c.scratch, "api.ndjson")
    c.vh(["api", out])
    obs = [l.rstrip("\n") for l in open(out)][1:]
    n_ok, failures = tv.validate_dropping(c, "ApiTrace", "ApiTrace.cfg", obs, "replay", max_fail=40)
    for ev, reason in failures:
        c.report("api:%s:%s:%s:%s" % (ev["ev"], ev["name"], "auth" if ev["auth"] else "anon", ev["variant"]), reason, {"observation": ev})
