"""C17 no authenticated user, no change: Api.tla (acceptance rules per request kind), MC_Api (the design as a state machine);
every mutation found by introspection, queries and the upload endpoint are exercised on the real handlers with and
without the authentication middleware; the recorded observations are validated by TLC."""
import json
import os

from . import tv
from .core import Broken


def run(c):
    c.tlc_model("MC_Api", "MC_Api.cfg", timeout=600, label="requests of every kind x authenticated x well-formed")
    out = os.path.join(c.scratch, "api.ndjson")
    c.vh(["api", out], timeout=1200)
    lines = [l.rstrip("\n") for l in open(out)]
    schema = json.loads(lines[0])
    if schema.get("ev") != "Schema" or len(schema["mutations"]) < 1:
        raise Broken("introspection did not list the mutations")
    obs = lines[1:]
    evs = [json.loads(l) for l in obs]
    hung = [e for e in evs if e["ev"] == "Hung"]
    for e in hung:      # the harness stops at the first request that does not come back: what was observed before it is still validated
        c.report("api:hung:%s:%s:%s" % (e["name"], "auth" if e["auth"] else "anon", e["variant"]),
                 "a request was never answered (or the state could not be read afterwards): %s; the requests before it: %s" % (
                     e["detail"], ["%s/%s/%s" % (x["name"], "auth" if x["auth"] else "anon", x["variant"]) for x in evs[-6:-1]]), {"observation": e})
    obs = [l for l, e in zip(obs, evs) if e["ev"] != "Hung"]
    evs = [e for e in evs if e["ev"] != "Hung"]
    # every mutation of the schema was sent both ways
    for m in schema["mutations"]:
        for auth in (True, False):
            if not hung and not any(e["ev"] == "Mutation" and e["name"] == m and e["auth"] == auth and e["valid"] for e in evs):
                raise Broken("mutation %s was not exercised with auth=%s" % (m, auth))
    n_ok, failures = tv.validate_dropping(c, "ApiTrace", "ApiTrace.cfg", obs, "api", max_fail=40)
    c.cov["traces_validated_against_impl"] = n_ok
    c.cov["mutations_in_schema"] = schema["mutations"]
    c.cov["requests"] = len(evs)
    c.cov["unauthenticated_requests"] = sum(1 for e in evs if not e["auth"])
    c.sample({k: evs[0][k] for k in ("ev", "name", "auth", "variant", "refused", "changed", "detail")})
    for e in [e for e in evs if e["auth"] and e["valid"] and e["ev"] == "Mutation"][:1]:
        c.sample({k: e[k] for k in ("ev", "name", "auth", "refused", "changed", "newops", "byuser", "reflects")})
    for ev, reason in failures:
        if not ev["auth"]:
            what = "without a user: " + ("the request was served" if not ev["refused"] else "") + (" the repository changed" if ev["changed"] else "")
        elif ev.get("valid"):
            what = "with a user: refused=%s changed=%s new operations=%s authored by the user=%s returned bug reflects it=%s other bugs touched=%s stored=%s" % (
                ev["refused"], ev["changed"], ev["newops"], ev["byuser"], ev["reflects"], ev["otherbugs"], ev["stored"])
        else:
            what = "ill-formed request: refused=%s changed=%s" % (ev["refused"], ev["changed"])
        c.report("api:%s:%s:%s:%s" % (ev["ev"], ev["name"], "auth" if ev["auth"] else "anon", ev["variant"]),
                 "%s %s (%s): %s [%s]" % (ev["ev"], ev["name"], ev["variant"], what, ev["detail"][:120]), {"observation": ev})
    e = json.loads(obs[0])
    e["changed"] = True
    n2, f2 = tv.validate_dropping(c, "ApiTrace", "ApiTrace.cfg", [json.dumps(e)], "api-selftest", max_fail=1)
    c.cov["selftest_rejected"] = len(f2) == 1
    if len(f2) != 1:
        raise Broken("api self-test failed")
    run_sequences(c)
    c.assumptions += ["'changed' compares every ref, the number of git objects and what the cache serves about every bug before and after the request",
                      "the router is built like commands/webui.go (gorilla/mux, auth.Middleware only when a user is configured)"]


def seq_schedules(c, n):
    d = c.specdir()
    cfg = "MBT_ApiSeq_run.cfg"
    with open(os.path.join(d, cfg), "w") as f:
        f.write('SPECIFICATION MSpec\nCONSTANTS Labels = {"x", "y"}  Depth = 14\nINVARIANT Emit\nCHECK_DEADLOCK FALSE\n')
    out, seen = [], set()
    for rnd in range(1, 8):
        r = c.tlc("MBT_ApiSeq", cfg, workers=1, simulate=max(30, n // 2), depth=40, timeout=600, label="request sequence generation", seed=c.seed + 31 * rnd)
        if r.rc != 0:
            raise Broken("request sequence generation failed:\n" + r.out[-2000:])
        for v in r.printed():
            k = json.dumps(v, sort_keys=True)
            if "reqs" in v and k not in seen:
                seen.add(k)
                out.append(v)
        if len(out) >= n:
            break
    return out[:n]


def split_sessions(lines):
    sessions = []
    for l in lines:
        if json.loads(l)["ev"] == "Reset":
            sessions.append([])
        sessions[-1].append(l)
    return sessions


def validate_sessions(c, sessions, label, max_fail=12):
    """Concatenated sessions; a rejected session is located from the depth reached, recorded and set aside."""
    alive, failures = list(range(len(sessions))), []
    while alive:
        tf = os.path.join(c.scratch, "tv-%s.ndjson" % label)
        offs, n = [], 0
        with open(tf, "w") as f:
            for i in alive:
                offs.append((n, i))
                for l in sessions[i]:
                    f.write(l + "\n")
                    n += 1
        ok, bad, r = tv.validate_file(c, "ApiSeqTrace", "ApiSeqTrace.cfg", tf, label)
        if ok:
            break
        sess, soff = alive[-1], offs[-1][0]
        for off, i in offs:
            if off < bad:
                sess, soff = i, off
        idx = min(bad - 1 - soff, len(sessions[sess]) - 1)
        failures.append((sess, idx, json.loads(sessions[sess][idx])))
        alive.remove(sess)
        if len(failures) >= max_fail:
            break
    return len(alive), failures


def run_sequences(c):
    """ApiSeq.tla: sequences of requests against one bug, with and without a user, judged step by step."""
    c.tlc_model("MC_ApiSeq", "MC_ApiSeq.cfg", timeout=900, label="every sequence of <= 4 requests (10 kinds x auth x arguments) on one bug")
    def rq(name, auth=True, i=1, add=(), rem=()):
        return {"name": name, "auth": auth, "i": i, "add": list(add), "rem": list(rem)}
    fixed = {"reqs": [rq("editComment", i=3), rq("changeLabels", rem=["x"]), rq("setTitle", auth=False), rq("addCommentAndClose"), rq("addCommentAndReopen"),
                      rq("changeLabels", add=["x", "y"]), rq("changeLabels", add=["x"], rem=["y"]), rq("editComment", i=2), rq("editCommentAmbiguous"), rq("editComment", i=1), rq("closeBug"),
                      rq("closeBug"), rq("openBug", auth=False), rq("openBug"), rq("setTitle"), rq("setTitleEmpty"), rq("setTitle"), rq("setTitle", auth=False), rq("setTitle"), rq("unknownBug"), rq("addCommentMissingFile"), rq("setTitle"), rq("addComment", auth=False),
                      rq("addComment"), rq("changeLabels", rem=["x", "y"])]}
    raced = {"reqs": [dict(r, race=r["auth"]) for r in fixed["reqs"]]}
    scheds = [fixed, fixed, fixed, raced, raced, raced] + seq_schedules(c, 30 if c.tier == "quick" else 600)     # the fixed ones under each configured user
    # TLC's simulation picks uniformly among successor states, i.e. mostly label changes (one per pair of label sets): add
    # sequences drawn uniformly over the request kinds (the trace specification judges them all the same way)
    import random
    rnd = random.Random(c.seed * 7919 + 17)
    names = ["addComment", "addCommentAndClose", "addCommentAndReopen", "editComment", "editCommentAmbiguous", "changeLabels", "openBug", "closeBug",
             "setTitle", "setTitleEmpty", "unknownBug", "addCommentMissingFile"]
    for _ in range(45 if c.tier == "quick" else 1500):
        reqs, ncomments = [], 1
        for _k in range(16):
            name = rnd.choice(names)
            auth = rnd.random() < 0.8
            if name == "editCommentAmbiguous" and ncomments < 2:
                name = "addComment"
            r = rq(name, auth=auth)
            r["race"] = auth and rnd.random() < 0.25
            if name == "editComment":
                r["i"] = rnd.randint(1, 3)
            if name == "changeLabels":
                a = set(rnd.sample(["x", "y"], rnd.randint(0, 2)))
                b = set(rnd.sample(["x", "y"], rnd.randint(0, 2))) - a
                if not a and not b:
                    a = {"x"}
                r["add"], r["rem"] = sorted(a), sorted(b)
            if auth and name in ("addComment", "addCommentAndClose", "addCommentAndReopen"):
                ncomments += 1
            reqs.append(r)
        scheds.append({"reqs": reqs})
    sf, tf = os.path.join(c.scratch, "apiseq-s.ndjson"), os.path.join(c.scratch, "apiseq-t.ndjson")
    with open(sf, "w") as f:
        for s in scheds:
            f.write(json.dumps(s) + "\n")
    c.vh(["api-seq", sf, tf], timeout=3000)
    sessions = split_sessions([l.rstrip("\n") for l in open(tf)])
    if len(sessions) != len(scheds):
        raise Broken("api-seq ran %d sessions for %d schedules" % (len(sessions), len(scheds)))
    nhung = 0
    for i, sess in enumerate(sessions):     # a request that never came back ends its session: reported here, the requests before it are validated
        last = json.loads(sess[-1])
        if last.get("hung"):
            nhung += 1
            sessions[i] = sess[:-1]
            if nhung <= 3:
                c.report("apiseq:%s:%s:hung" % (last["name"], "auth" if last["auth"] else "anon"),
                         "request #%d of a sequence (repository user: %s), %s %s: never answered (%s); the requests before it: %s" % (
                             len(sess) - 1, last["configured"], last["name"], "with a user" if last["auth"] else "without a user", last["detail"],
                             [json.loads(x)["name"] for x in sess[1:-1]][-5:]), {"sequence": scheds[i], "session": i})
    c.cov["requests_never_answered"] = nhung
    n_ok, failures = validate_sessions(c, sessions, "apiseq")
    c.cov["traces_validated_against_impl"] += n_ok
    c.cov["request_sequences"] = len(scheds)
    c.cov["sequence_requests"] = sum(len(s) - 1 for s in sessions)
    names = {}
    for s in sessions:
        for l in s[1:]:
            e = json.loads(l)
            key = "%s:%s:%s" % (e["name"], "auth" if e["auth"] else "anon", "refused" if e["refused"] else "done")
            names[key] = names.get(key, 0) + 1
    c.cov["sequence_outcomes"] = names
    for need in ("addCommentAndReopen:auth:done", "changeLabels:auth:refused", "editComment:auth:refused", "setTitle:anon:refused", "editCommentAmbiguous:auth:refused"):
        if need not in names:
            raise Broken("request sequences never produced %s" % need)
    seen = set()
    for sess, idx, ev in failures:
        key = "apiseq:%s:%s" % (ev["name"], "auth" if ev["auth"] else "anon")
        if key in seen:
            continue
        seen.add(key)
        c.report(key, "request #%d of a sequence (repository user: %s), %s %s i=%s +%s -%s: refused=%s [%s] changed=%s authored by the user=%s; returned %s; stored %s" % (
            idx, ev["configured"], ev["name"], "with a user" if ev["auth"] else "without a user", ev["i"], ev["add"], ev["rem"], ev["refused"], ev["detail"][:100],
            ev["changed"], ev["byuser"], ev["returned"], ev["stored"]), {"sequence": scheds[sess], "session": sess})
    good = [s for i, s in enumerate(sessions) if i not in {f[0] for f in failures}]
    if not good:
        raise Broken("no accepted request sequence to run the self-test on")
    evs = [json.loads(x) for x in good[0]]
    tgt = [e for e in evs if e["ev"] == "Request" and not e["refused"]][0]
    tgt["stored"]["nops"] += 1
    n2, f2 = validate_sessions(c, [[json.dumps(e) for e in evs]], "apiseq-selftest", max_fail=1)
    if len(f2) != 1:
        raise Broken("api sequence self-test failed")


def replay(c, rep):
    if "sequence" in rep["replay"]:
        c.cov["states"] = c.cov["transitions"] = 1
        sf, tf = os.path.join(c.scratch, "apiseq-s.ndjson"), os.path.join(c.scratch, "apiseq-t.ndjson")
        with open(sf, "w") as f:
            for _ in range(rep["replay"].get("session", 0) % 3 + 1):      # the session index decides the configured user
                f.write(json.dumps(rep["replay"]["sequence"]) + "\n")
        c.vh(["api-seq", sf, tf], timeout=600)
        sessions = split_sessions([l.rstrip("\n") for l in open(tf)])
        for i, sess in enumerate(sessions):
            last = json.loads(sess[-1])
            if last.get("hung"):
                sessions[i] = sess[:-1]
                c.report(rep["key"], "request #%d %s: never answered (%s)" % (len(sess) - 1, last["name"], last["detail"]), rep["replay"])
        n_ok, failures = validate_sessions(c, sessions, "replay")
        for sess, idx, ev in failures:
            c.report(rep["key"], "request #%d %s: returned %s stored %s [%s]" % (idx, ev["name"], ev["returned"], ev["stored"], ev["detail"][:100]), rep["replay"])
        return
    replay_obs(c, rep)


def replay_obs(c, rep):
    c.cov["states"] = c.cov["transitions"] = 1
    c.sample(rep["replay"])
    out = os.path.join(c.scratch, "api.ndjson")
    c.vh(["api", out])
    obs = [l.rstrip("\n") for l in open(out)][1:]
    for e in [json.loads(l) for l in obs]:
        if e["ev"] == "Hung":
            c.report("api:hung:%s:%s:%s" % (e["name"], "auth" if e["auth"] else "anon", e["variant"]), e["detail"], {"observation": e})
    obs = [l for l in obs if json.loads(l)["ev"] != "Hung"]
    n_ok, failures = tv.validate_dropping(c, "ApiTrace", "ApiTrace.cfg", obs, "replay", max_fail=40)
    for ev, reason in failures:
        c.report("api:%s:%s:%s:%s" % (ev["ev"], ev["name"], "auth" if ev["auth"] else "anon", ev["variant"]), reason, {"observation": ev})
