#!/bin/bash
# developer aid: re-apply every stored seeded change to a scratch worktree of /repo's HEAD and run the check of its property
# against it: prints one line per change (caught / MISSED / patch does not apply). Nothing here touches /repo's working tree.
#   tools_regress.sh [name-pattern] [parallelism]
set -u
export GOFLAGS=-mod=mod GOPROXY=off GOSUMDB=off GOTOOLCHAIN=local
pat=${1:-.}
par=${2:-5}
one() {
  name=$1
  prop=$(python3 -c "import json;print(json.load(open('/verif/seeded/$name/meta.json'))['property'])")
  wt=/tmp/wtr-$name
  git -C /repo worktree remove --force $wt >/dev/null 2>&1
  git -C /repo worktree add -q --detach $wt HEAD || { echo "$name $prop worktree failed"; return; }
  if ! git -C $wt apply /verif/seeded/$name/patch.diff 2>/dev/null && ! git -C $wt apply -3 /verif/seeded/$name/patch.diff 2>/dev/null; then
    echo "$name $prop patch does not apply to the current tree"
  else
    out=/dev/shm/vfreg/$name; rm -rf $out; mkdir -p $out
    VERIF_REPO=$wt VERIF_OUT=$out /verif/vf check $prop --tier quick > $out/log 2>&1; rc=$?
    case $rc in
      1) echo "$name $prop caught ($(grep -c '^VIOLATION' $out/log) violation lines)";;
      0) echo "$name $prop MISSED";;
      *) echo "$name $prop exit $rc: $(grep -m1 '^BROKEN' $out/log | cut -c1-160)";;
    esac
  fi
  git -C /repo worktree remove --force $wt >/dev/null 2>&1
}
export -f one
ls /verif/seeded | grep -v "\.txt$\|\.md$" | grep -E "$pat" | xargs -P $par -I{} bash -c 'one {}'
