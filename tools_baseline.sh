#!/bin/sh
# developer aid: run the repository's test suite with the guard off and list stable-baseline tests that do not pass
cd /repo && go test -vet=off -count=1 -json -timeout 25m ./... > /dev/shm/baseline.json 2>/dev/null
python3 - <<'PY'
import json
b=json.load(open('/root/.vp/BASELINE.json'))
res={}
for l in open('/dev/shm/baseline.json'):
    try: d=json.loads(l)
    except: continue
    if d.get('Action') in ('pass','fail') and d.get('Test'):
        res[d['Package']+'::'+d['Test']]=d['Action']
bad=[t for t in b['stable_pass'] if res.get(t)!='pass']
print("stable tests not passing:", len(bad)); print("\n".join(bad[:20]))
PY
