#!/bin/bash
# developer aid: confirm a seeded change in its scratch worktree, store it under /verif/seeded/<name>/, run the checks against it.
#   tools_seed.sh confirm <seeddir> <worktree> <name> <property>
#   tools_seed.sh run <name> <worktree> [ids...]         (runs quick checks against the worktree with the patch applied)
# The worktree is an ordinary `git worktree` of /repo outside /repo and /verif; nothing here touches /repo.
set -u
export GOFLAGS=-mod=mod GOPROXY=off GOSUMDB=off GOTOOLCHAIN=local
V=/verif
mode=$1; shift

suite() { # $1 = tree ; prints number of stable-baseline tests not passing
  (cd "$1" && go test -vet=off -count=1 -json -timeout 25m ./... 2>/dev/null) > /dev/shm/seed-suite.$$.json
  python3 - /dev/shm/seed-suite.$$.json <<'PY'
import json,sys
b=json.load(open('/root/.vp/BASELINE.json'))
res={}
for l in open(sys.argv[1]):
    try: d=json.loads(l)
    except: continue
    if d.get('Action') in ('pass','fail') and d.get('Test'):
        res[d['Package']+'::'+d['Test']]=d['Action']
bad=[t for t in b['stable_pass'] if res.get(t)!='pass' and 'Seeded' not in t]
print(len(bad)); print("\n".join(bad[:20]), file=sys.stderr)
PY
  rm -f /dev/shm/seed-suite.$$.json
}

case $mode in
confirm)
  seed=$1 wt=$2 name=$3 prop=$4
  demo=$(cd "$wt" && git status --short | awk '/^\?\? .*_test.go$/{print $2}' | head -1)
  [ -n "$demo" ] || { echo "no demonstration file in $wt"; exit 2; }
  pkg=./$(dirname "$demo")
  tests=$(grep -o '^func Test[A-Za-z0-9_]*' "$wt/$demo" | sed 's/func //' | paste -sd'|')
  cp "$wt/$demo" /dev/shm/seed-demo.$$.go
  git -C "$wt" checkout -q -- . && git -C "$wt" apply "$seed/patch.diff" || { echo "patch does not apply"; exit 2; }
  (cd "$wt" && go build ./... ) || { echo "does not build"; exit 2; }
  bad=$(suite "$wt")
  echo "with the change: stable baseline tests not passing: $bad"
  (cd "$wt" && go test -vet=off -count=1 -run "^($tests)\$" "$pkg") > /dev/shm/seed-with.$$.txt 2>&1; rc_with=$?
  git -C "$wt" apply -R "$seed/patch.diff"
  (cd "$wt" && go test -vet=off -count=1 -run "^($tests)\$" "$pkg") > /dev/shm/seed-without.$$.txt 2>&1; rc_without=$?
  git -C "$wt" apply "$seed/patch.diff"
  echo "demonstration: with the change exit $rc_with, without exit $rc_without"
  if [ "$bad" != 0 ] || [ $rc_with = 0 ] || [ $rc_without != 0 ]; then echo "NOT CONFIRMED"; tail -20 /dev/shm/seed-with.$$.txt /dev/shm/seed-without.$$.txt; rm -f /dev/shm/seed-*.$$.*; exit 1; fi
  d=$V/seeded/$name; mkdir -p "$d"
  cp "$seed/patch.diff" "$d/patch.diff"; cp /dev/shm/seed-demo.$$.go "$d/$(basename "$demo")"
  [ -f "$seed/README.md" ] && cp "$seed/README.md" "$d/README.md"
  tail -40 /dev/shm/seed-with.$$.txt > "$d/demo_with_change.txt"; tail -5 /dev/shm/seed-without.$$.txt > "$d/demo_without_change.txt"
  python3 - "$d" "$prop" "$demo" "$tests" <<'PY'
import json,sys,os
d,prop,demo,tests=sys.argv[1:5]
p=os.path.join(d,"meta.json")
m=json.load(open(p)) if os.path.exists(p) else {}
m.update({"property":prop,"demonstration":{"file":demo,"run":"go test -vet=off -count=1 -run '^(%s)$' ./%s"%(tests,os.path.dirname(demo)),
  "with_change":"fails","without_change":"passes"},
  "confirmed":{"builds":True,"stable_baseline_tests_not_passing":0,"how":"tools_seed.sh confirm in a scratch worktree of /repo"}})
m.setdefault("needs","")
m.setdefault("checks",{})
json.dump(m,open(p,"w"),indent=1)
PY
  rm -f /dev/shm/seed-*.$$.*
  echo "CONFIRMED -> $d"
  ;;
run)
  name=$1 wt=$2; shift 2
  ids=${*:-C01 C02 C03 C04 C05 C06 C07 C08 C09 C10 C11 C12 C13 C14 C15 C16 C17 C18 C19 C20}
  out=/dev/shm/vfmut/$name; rm -rf "$out"; mkdir -p "$out"
  for p in $ids; do
    VERIF_REPO=$wt VERIF_OUT=$out $V/vf check $p --tier quick > "$out/$p.log" 2>&1; rc=$?
    echo "$name $p exit=$rc $(grep -c '^VIOLATION' "$out/$p.log") violation line(s)  $(grep -m1 '^VIOLATION\|^BROKEN' "$out/$p.log" | cut -c1-200)"
  done | tee "$out/summary.txt"
  ;;
esac
