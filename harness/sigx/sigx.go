// Package sigx executes the vectors of spec/MC_Sig.tla: real identities with real OpenPGP keys and version
// histories, one commit per vector (signed by a chosen key, unsigned, or signed and then altered), judged by a
// second replica that only knows the author's identity from git (C08).
package sigx

import (
	"encoding/json"
	"fmt"
	"os"
	"path/filepath"
	"strings"

	gogit "github.com/go-git/go-git/v5"
	"github.com/go-git/go-git/v5/plumbing"
	"github.com/go-git/go-git/v5/plumbing/object"

	"github.com/MichaelMure/git-bug/entities/bug"
	"github.com/MichaelMure/git-bug/entities/identity"
	"github.com/MichaelMure/git-bug/entity"
	"github.com/MichaelMure/git-bug/repository"
	"github.com/MichaelMure/git-bug/util/lamport"

	"verif/harness/hx"
)

type Ver struct {
	T    int   `json:"t"`
	Keys []int `json:"keys"`
}
type Commit struct {
	Et      int  `json:"et"`
	Signer  int  `json:"signer"`
	Altered bool `json:"altered"`
	// "ops": the commit under test is a single-commit bug; "empty": it is a commit without operations (the shape of a merge
	// commit) on top of a root written by an author without keys
	Shape string `json:"shape"`
}
type Vec struct {
	Hist   []Ver  `json:"hist"`
	C      Commit `json:"c"`
	KeysAt []int  `json:"keysat"`
	Accept bool   `json:"accept"`
}

var pool map[int]*identity.Key

func key(k int) *identity.Key {
	if pool == nil {
		pool = map[int]*identity.Key{}
	}
	if pool[k] == nil {
		pool[k] = identity.GenerateKey()
	}
	return pool[k]
}

func packBlob(author identity.Interface, msg string, unix int64) []byte {
	op := bug.NewCreateOp(author, unix, "signed bug", msg, nil)
	raw, err := json.Marshal(op)
	hx.Must(err)
	blob, err := json.Marshal(struct {
		Author struct {
			Id string `json:"id"`
		} `json:"author"`
		Ops []json.RawMessage `json:"ops"`
	}{Author: struct {
		Id string `json:"id"`
	}{author.Id().String()}, Ops: []json.RawMessage{raw}})
	hx.Must(err)
	return blob
}

func tree(repo repository.RepoData, blob []byte, et int) repository.Hash {
	empty, err := repo.StoreData([]byte{})
	hx.Must(err)
	bh, err := repo.StoreData(blob)
	hx.Must(err)
	th, err := repo.StoreTree([]repository.TreeEntry{
		{ObjectType: repository.Blob, Hash: empty, Name: "version-4"},
		{ObjectType: repository.Blob, Hash: bh, Name: "ops"},
		{ObjectType: repository.Blob, Hash: empty, Name: fmt.Sprintf("edit-clock-%d", et)},
		{ObjectType: repository.Blob, Hash: empty, Name: "create-clock-1"},
	})
	hx.Must(err)
	return th
}

// treeUnsorted writes the same tree by hand with its entries out of git's canonical order (the pack before the clocks): nothing
// in the rule depends on the order in which a tree lists its entries.
func treeUnsorted(dir string, repo repository.RepoData, blob []byte, et int) repository.Hash {
	empty, err := repo.StoreData([]byte{})
	hx.Must(err)
	bh, err := repo.StoreData(blob)
	hx.Must(err)
	r, err := gogit.PlainOpen(dir)
	hx.Must(err)
	// go-git's own encoder refuses such a tree: the object is written byte by byte ("<mode> <name>\0<20 bytes of hash>" per entry)
	obj := r.Storer.NewEncodedObject()
	obj.SetType(plumbing.TreeObject)
	wr, err := obj.Writer()
	hx.Must(err)
	for _, e := range []struct {
		name string
		h    repository.Hash
	}{{"ops", bh}, {"version-4", empty}, {fmt.Sprintf("edit-clock-%d", et), empty}, {"create-clock-1", empty}} {
		ph := plumbing.NewHash(e.h.String())
		_, err = fmt.Fprintf(wr, "100644 %s\x00", e.name)
		hx.Must(err)
		_, err = wr.Write(ph[:])
		hx.Must(err)
	}
	hx.Must(wr.Close())
	h, err := r.Storer.SetEncodedObject(obj)
	hx.Must(err)
	return repository.Hash(h.String())
}

func commentPackBlob(author identity.Interface, msg string) []byte {
	raw, err := json.Marshal(bug.NewAddCommentOp(author, 1_600_000_002, msg, nil))
	hx.Must(err)
	return []byte(fmt.Sprintf(`{"author":{"id":%q},"ops":[%s]}`, author.Id().String(), raw))
}

func emptyPackBlob(author identity.Interface, altered bool) []byte {
	if altered {
		return []byte(fmt.Sprintf(`{"author":{"id":%q}, "ops":[]}`, author.Id().String()))
	}
	return []byte(fmt.Sprintf(`{"author":{"id":%q},"ops":[]}`, author.Id().String()))
}

func treeNonRoot(repo repository.RepoData, blob []byte, et int) repository.Hash {
	empty, err := repo.StoreData([]byte{})
	hx.Must(err)
	bh, err := repo.StoreData(blob)
	hx.Must(err)
	th, err := repo.StoreTree([]repository.TreeEntry{
		{ObjectType: repository.Blob, Hash: empty, Name: "version-4"},
		{ObjectType: repository.Blob, Hash: bh, Name: "ops"},
		{ObjectType: repository.Blob, Hash: empty, Name: fmt.Sprintf("edit-clock-%d", et)},
	})
	hx.Must(err)
	return th
}

func one(v Vec) (why string) {
	dir := hx.Scratch("sig")
	defer os.RemoveAll(dir)
	hub := hx.InitBare(filepath.Join(dir, "hub"))
	defer hub.Close()
	w := hx.InitRepo(filepath.Join(dir, "W"))
	defer w.Close()
	hx.Must(w.AddRemote("origin", filepath.Join(dir, "hub")))
	// a second remote that receives the author's first version only: what a long-running process has loaded before the rest arrives
	early := hx.InitBare(filepath.Join(dir, "early"))
	defer early.Close()
	hx.Must(w.AddRemote("early", filepath.Join(dir, "early")))
	keysOf := func(ks []int) []*identity.Key {
		var r []*identity.Key
		for _, k := range ks {
			r = append(r, key(k).Clone())
		}
		return r
	}
	// the author's version history, each version created when the bugs-edit clock shows the prescribed time
	// (time 0 = the clock does not exist yet: the version records no time for it)
	// shape "empty": everything happens one tick later, the root of the bug takes the first tick
	shift := 0
	var creator *identity.Identity
	if v.C.Shape == "empty" {
		shift = 1
		var err error
		creator, err = identity.NewIdentityFull(w, "creator", "c@example.org", "", "", nil)
		hx.Must(err)
		hx.Must(creator.Commit(w))
	}
	var author *identity.Identity
	for i, ver := range v.Hist {
		if ver.T > 0 {
			hx.Must(w.Witness("bugs-edit", lamport.Time(ver.T+shift)))
		}
		var err error
		if i == 0 {
			author, err = identity.NewIdentityFull(w, "v0", "a@example.org", "", "", keysOf(ver.Keys))
			hx.Must(err)
		} else {
			// a rotation that keeps the number of keys (> 0) replaces them in place and touches nothing else (what code holding the
			// mutator's slice does); any other change assigns a new list and renames
			prev := v.Hist[i-1].Keys
			inPlace := len(prev) == len(ver.Keys) && len(prev) > 0 && fmt.Sprint(prev) != fmt.Sprint(ver.Keys)
			hx.Must(author.Mutate(w, func(m *identity.Mutator) {
				if inPlace {
					for j, k := range keysOf(ver.Keys) {
						m.Keys[j] = k
					}
					return
				}
				m.Name = fmt.Sprintf("v%d", i)
				m.Keys = keysOf(ver.Keys)
			}))
			if inPlace && !author.NeedCommit() {
				return fmt.Sprintf("version %d replaces the keys %v by %v in place: Mutate reported success and recorded no new version", i, prev, ver.Keys)
			}
		}
		hx.Must(author.Commit(w))
		if i == 0 {
			_, err := identity.Push(w, "early")
			hx.Must(err)
		}
	}
	// the commit under test: a single-commit bug written by hand at logical time et
	blob := packBlob(author, "the content that was signed", 1_600_000_000)
	mkTree := func(blob []byte) repository.Hash {
		if v.C.Shape == "unsorted" {
			return treeUnsorted(filepath.Join(dir, "W"), w, blob, v.C.Et)
		}
		return tree(w, blob, v.C.Et)
	}
	th := mkTree(blob)
	var parents []repository.Hash
	if v.C.Shape == "empty" {
		blob = packBlob(creator, "root by an author without keys", 1_600_000_000)
		root, err := w.StoreCommit(tree(w, blob, 1))
		hx.Must(err)
		parents = []repository.Hash{root}
		th = treeNonRoot(w, emptyPackBlob(author, false), v.C.Et+shift)
	}
	// shape "chained": the commit under test is the second signed commit of its author in the bug, after a root the author wrote
	// and signed, rightly, at the earliest time a key was in force - both are judged in the same read, each by the keys of its time
	chained := false
	if v.C.Shape == "chained" {
		keysAt := func(t int) []int {
			var ks []int
			for _, ver := range v.Hist {
				if ver.T <= t {
					ks = ver.Keys
				}
			}
			return ks
		}
		for rt := 1; rt < v.C.Et && !chained; rt++ {
			if ks := keysAt(rt); len(ks) > 0 {
				blob = packBlob(author, "root signed with a key in force", 1_600_000_000)
				root, err := w.StoreSignedCommit(tree(w, blob, rt), key(ks[0]).PGPEntity())
				hx.Must(err)
				parents = []repository.Hash{root}
				th = treeNonRoot(w, commentPackBlob(author, "the comment that was signed"), v.C.Et)
				chained = true
			}
		}
	}
	var head repository.Hash
	var err error
	switch {
	case v.C.Signer == 0:
		head, err = w.StoreCommit(th, parents...)
		hx.Must(err)
	default:
		sk := key(v.C.Signer)
		head, err = w.StoreSignedCommit(th, sk.PGPEntity(), parents...)
		hx.Must(err)
		if v.C.Altered {
			// same signature, other content: take the signed commit apart with go-git and swap the tree
			blob2 := packBlob(author, "content put in place after signing", 1_600_000_001)
			th2 := mkTree(blob2)
			if v.C.Shape == "empty" {
				blob2 = blob // the root is what it was: the commit without operations gets another (equivalent) pack
				th2 = treeNonRoot(w, emptyPackBlob(author, true), v.C.Et+shift)
			}
			if chained {
				blob2 = blob
				th2 = treeNonRoot(w, commentPackBlob(author, "a comment put in place after signing"), v.C.Et)
			}
			r, err := gogit.PlainOpen(filepath.Join(dir, "W"))
			hx.Must(err)
			c, err := r.CommitObject(plumbing.NewHash(head.String()))
			hx.Must(err)
			alt := object.Commit{Author: c.Author, Committer: c.Committer, Message: c.Message, PGPSignature: c.PGPSignature,
				TreeHash: plumbing.NewHash(th2.String()), ParentHashes: c.ParentHashes}
			obj := r.Storer.NewEncodedObject()
			obj.SetType(plumbing.CommitObject)
			hx.Must(alt.Encode(obj))
			h, err := r.Storer.SetEncodedObject(obj)
			hx.Must(err)
			head = repository.Hash(h.String())
			blob = blob2
		}
	}
	// entity id = id of the create operation as stored
	var pack struct {
		Ops []json.RawMessage `json:"ops"`
	}
	hx.Must(json.Unmarshal(blob, &pack))
	id := entity.DeriveId(pack.Ops[0])
	hx.Must(w.UpdateRef("refs/bugs/"+id.String(), head))
	_, err = identity.Push(w, "origin")
	hx.Must(err)
	_, err = bug.Push(w, "origin")
	hx.Must(err)

	// the judging replica knows the author from git only
	r := hx.InitRepo(filepath.Join(dir, "R"))
	defer r.Close()
	hx.Must(r.AddRemote("origin", filepath.Join(dir, "hub")))
	hx.Must(identity.Pull(r, "origin"))
	_, err = bug.Fetch(r, "origin")
	hx.Must(err)
	reader, err := identity.NewIdentity(r, "reader", "r@example.org")
	hx.Must(err)
	hx.Must(reader.Commit(r))
	resolvers := entity.Resolvers{&identity.Identity{}: identity.NewSimpleResolver(r)}
	var status entity.MergeStatus
	var reason string
	n := 0
	for res := range bug.MergeAll(r, resolvers, "origin", reader) {
		status, reason = res.Status, res.Reason
		if res.Err != nil {
			reason = res.Err.Error()
		}
		n++
	}
	if n != 1 {
		return fmt.Sprintf("MergeAll produced %d results", n)
	}
	if v.Accept && status != entity.MergeStatusNew {
		return fmt.Sprintf("specification accepts (keys in force %v, signer %d, altered %v); merge reported status %d: %s", v.KeysAt, v.C.Signer, v.C.Altered, status, reason)
	}
	if !v.Accept && status != entity.MergeStatusInvalid {
		return fmt.Sprintf("specification refuses (keys in force %v, signer %d, altered %v); merge reported status %d", v.KeysAt, v.C.Signer, v.C.Altered, status)
	}
	if !v.Accept {
		if ok, _ := r.RefExist("refs/bugs/" + id.String()); ok {
			return "refused commit became a local bug"
		}
		if !strings.Contains(strings.ToLower(reason), "sign") && !strings.Contains(strings.ToLower(reason), "key") {
			return "DRIVER: refused, but apparently not because of the signature (the forged commit may be invalid otherwise): " + reason
		}
		hx.Must(r.UpdateRef("refs/bugs/"+id.String(), head))
	}
	_, rerr := func() (b *bug.Bug, err error) {
		defer func() {
			if p := recover(); p != nil {
				err = fmt.Errorf("panic: %v", p)
			}
		}()
		return bug.Read(r, id)
	}()
	if rerr != nil && strings.HasPrefix(rerr.Error(), "panic:") {
		return "bug.Read: " + rerr.Error()
	}
	if v.Accept && rerr != nil {
		return "specification accepts; bug.Read failed: " + rerr.Error()
	}
	if !v.Accept && rerr == nil {
		return "specification refuses; bug.Read accepted the commit"
	}
	if len(v.Hist) < 2 {
		return ""
	}
	// the same verdict from a process that has had the cache open since the author's first version: it pulled that version,
	// resolved the author (the identity is in memory), and now pulls the later versions together with the commit under test
	r2 := hx.InitRepo(filepath.Join(dir, "R2"))
	defer r2.Close()
	hx.Must(r2.AddRemote("origin", filepath.Join(dir, "hub")))
	hx.Must(r2.AddRemote("early", filepath.Join(dir, "early")))
	reader2, err := identity.NewIdentity(r2, "reader", "r@example.org")
	hx.Must(err)
	hx.Must(reader2.Commit(r2))
	hx.Must(identity.SetUserIdentity(r2, reader2))
	c2, err := hx.OpenCache(r2)
	hx.Must(err)
	defer c2.Close()
	if _, err := c2.Fetch("early"); err != nil {
		return "cache: fetching the first version: " + err.Error()
	}
	for res := range c2.MergeAll("early") {
		if res.Err != nil {
			return "cache: merging the first version: " + res.Err.Error()
		}
	}
	if _, err := c2.Identities().Resolve(author.Id()); err != nil {
		return "cache: the author is not known after the first pull: " + err.Error()
	}
	if _, err := c2.Fetch("origin"); err != nil {
		return "cache: fetch: " + err.Error()
	}
	status, reason, n = 0, "", 0
	for res := range c2.MergeAll("origin") {
		if res.Id == id {
			status, reason = res.Status, res.Reason
			if res.Err != nil {
				reason = res.Err.Error()
			}
			n++
		}
	}
	if n != 1 {
		return fmt.Sprintf("cache: MergeAll produced %d results for the bug", n)
	}
	if v.Accept && status != entity.MergeStatusNew {
		return fmt.Sprintf("cache with the author loaded since the first version: specification accepts (keys in force %v, signer %d, altered %v); merge reported status %d: %s", v.KeysAt, v.C.Signer, v.C.Altered, status, reason)
	}
	if !v.Accept {
		if status != entity.MergeStatusInvalid {
			return fmt.Sprintf("cache with the author loaded since the first version: specification refuses (keys in force %v, signer %d, altered %v); merge reported status %d", v.KeysAt, v.C.Signer, v.C.Altered, status)
		}
		if ok, _ := r2.RefExist("refs/bugs/" + id.String()); ok {
			return "cache with the author loaded since the first version: refused commit became a local bug"
		}
	}
	return ""
}

// Worker answers {"why": "..."} per vector.
func Worker(args []string) {
	hx.Serve(func(item json.RawMessage) interface{} {
		var v Vec
		hx.Must(json.Unmarshal(item, &v))
		return map[string]string{"why": one(v)}
	})
}

// Run: vh sig <vectors> <out>
func Run(args []string) {
	items := hx.ReadLines(args[0])
	out := hx.NewWriter(args[1])
	defer out.Close()
	res := hx.Isolated("sig-worker", items, 0)
	bad := 0
	for i, r := range res {
		var a map[string]string
		hx.Must(json.Unmarshal(r, &a))
		why := a["why"]
		if c, ok := a["crash"]; ok {
			why = "process crashed: " + c
		}
		if why != "" {
			bad++
			out.Put(map[string]interface{}{"vec": items[i], "why": why})
		}
	}
	out.Put(map[string]interface{}{"stats": map[string]int{"executed": len(items), "mismatches": bad}})
}
