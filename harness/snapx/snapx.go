// Package snapx executes the call sequences enumerated by spec/MC_Snapshot.tla through three paths (in-memory
// compile, commit + read + compile, the cache's incrementally maintained snapshot) and compares the projected
// snapshot with the one the specification prescribes (C10).
package snapx

import (
	"encoding/json"
	"fmt"
	"reflect"
	"strconv"
	"strings"
	"sync"

	"github.com/MichaelMure/git-bug/cache"
	"github.com/MichaelMure/git-bug/entities/bug"
	"github.com/MichaelMure/git-bug/entities/common"
	"github.com/MichaelMure/git-bug/entities/identity"
	"github.com/MichaelMure/git-bug/entity"
	"github.com/MichaelMure/git-bug/entity/dag"
	"github.com/MichaelMure/git-bug/repository"

	"verif/harness/hx"
)

type Call struct {
	K   string `json:"k"`
	A   int    `json:"a"`
	T   string `json:"t"`
	S   string `json:"s"`
	Add []int  `json:"add"`
	Rem []int  `json:"rem"`
	Key string `json:"key"`
	Wf  bool   `json:"wf"` // create / comment / edit: the call attaches files
}

type Comment struct {
	Op  int `json:"op"`
	Au  int `json:"au"`
	Msg int `json:"msg"`
	// files of the comment: 0 = none, i = the files attached by the operation at position i
	Files int `json:"files"`
}
type Item struct {
	Kind string `json:"kind"`
	Op   int    `json:"op"`
	Au   int    `json:"au"`
	Hist []int  `json:"hist"`
	A1   []int  `json:"a1"`
	A2   []int  `json:"a2"`
}
type Snap struct {
	N            int              `json:"n"`
	Title        int              `json:"title"`
	Status       string           `json:"status"`
	Labels       []int            `json:"labels"`
	Comments     []Comment        `json:"comments"`
	Actors       []int            `json:"actors"`
	Participants []int            `json:"participants"`
	Timeline     []Item           `json:"timeline"`
	Meta         []map[string]int `json:"meta"`
	Author       int              `json:"author"`
}
type Vec struct {
	Calls []Call `json:"calls"`
	Exp   Snap   `json:"exp"`
}

func num(s, prefix string) int {
	if !strings.HasPrefix(s, prefix) {
		return -9
	}
	n, err := strconv.Atoi(strings.TrimPrefix(s, prefix))
	if err != nil {
		return -9
	}
	return n
}

func ints(ls []bug.Label) []int {
	r := []int{}
	for _, l := range ls {
		r = append(r, num(string(l), "l"))
	}
	return r
}

func labels(xs []int) []string {
	var r []string
	for _, x := range xs {
		r = append(r, fmt.Sprintf("l%d", x))
	}
	return r
}

type env struct {
	authors []identity.Interface // index 1, 2
	idx     map[entity.Id]int
	repo    repository.ClockedRepo
	fileNo  map[repository.Hash]int
}

// files attached by the operation at position i (two distinct blobs, stored in the repository)
func (e *env) files(i int, wf bool) []repository.Hash {
	if !wf {
		return nil
	}
	var hs []repository.Hash
	for _, suffix := range []string{"a", "b"} {
		h, err := e.repo.StoreData([]byte(fmt.Sprintf("file %d%s", i, suffix)))
		hx.Must(err)
		e.fileNo[h] = i
		hs = append(hs, h)
	}
	return hs
}

func (e *env) filesToken(hs []repository.Hash) int {
	if len(hs) == 0 {
		return 0
	}
	n := e.fileNo[hs[0]]
	if len(hs) != 2 || n == 0 || e.fileNo[hs[1]] != n || hs[0] == hs[1] {
		return -5
	}
	return n
}

func (e *env) au(i identity.Interface) int {
	if i == nil {
		return 0
	}
	return e.idx[i.Id()]
}

// slim: what the trace carries after every single call
func (e *env) slim(s *bug.Snapshot) map[string]interface{} {
	p := e.project(s)
	return map[string]interface{}{"n": p.N, "title": p.Title, "status": p.Status, "labels": p.Labels, "ncomments": len(p.Comments),
		"ntimeline": len(p.Timeline), "actors": p.Actors, "participants": p.Participants}
}

func (e *env) project(s *bug.Snapshot) Snap {
	p := Snap{N: len(s.Operations), Title: num(s.Title, "title "), Status: s.Status.String(), Labels: ints(s.Labels),
		Comments: []Comment{}, Actors: []int{}, Participants: []int{}, Timeline: []Item{}, Meta: []map[string]int{}, Author: e.au(s.Author)}
	pos := map[entity.Id]int{}
	byCombined := map[entity.CombinedId]int{}
	for i, op := range s.Operations {
		pos[op.Id()] = i + 1
		byCombined[entity.CombineIds(s.Id(), op.Id())] = i + 1
		m := map[string]int{}
		for _, k := range []string{"k0", "k1"} {
			v, ok := op.GetMetadata(k)
			av, aok := op.AllMetadata()[k]
			switch {
			case !ok:
				m[k] = 0
			case v == "own":
				m[k] = -1
			case v == "":
				m[k] = -2 // there, with nothing in it
			default:
				m[k] = num(v, "v")
			}
			if ok != aok || (ok && v != av) {
				m[k] = -99 // GetMetadata and AllMetadata disagree
			}
		}
		p.Meta = append(p.Meta, m)
	}
	for _, c := range s.Comments {
		p.Comments = append(p.Comments, Comment{Op: pos[c.TargetId()], Au: e.au(c.Author), Msg: num(c.Message, "message "), Files: e.filesToken(c.Files)})
		if byCombined[c.CombinedId()] != pos[c.TargetId()] {
			p.Comments[len(p.Comments)-1].Op = -7
		}
	}
	for _, a := range s.Actors {
		p.Actors = append(p.Actors, e.au(a))
	}
	for _, a := range s.Participants {
		p.Participants = append(p.Participants, e.au(a))
	}
	hist := func(h []bug.CommentHistoryStep) []int {
		r := []int{}
		for _, st := range h {
			r = append(r, num(st.Message, "message "))
		}
		return r
	}
	for _, it := range s.Timeline {
		item := Item{Op: byCombined[it.CombinedId()], Hist: []int{}, A1: []int{}, A2: []int{}}
		switch t := it.(type) {
		case *bug.CreateTimelineItem:
			item.Kind, item.Au, item.Hist = "create", e.au(t.Author), hist(t.History)
			if num(t.Message, "message ") != item.Hist[len(item.Hist)-1] {
				item.Kind = "create:message-differs-from-last-edit"
			}
		case *bug.AddCommentTimelineItem:
			item.Kind, item.Au, item.Hist = "comment", e.au(t.Author), hist(t.History)
			if num(t.Message, "message ") != item.Hist[len(item.Hist)-1] {
				item.Kind = "comment:message-differs-from-last-edit"
			}
		case *bug.SetTitleTimelineItem:
			item.Kind, item.Au, item.Hist = "title", e.au(t.Author), []int{num(t.Title, "title "), num(t.Was, "title ")}
		case *bug.SetStatusTimelineItem:
			item.Kind, item.Au = "status:"+t.Status.String(), e.au(t.Author)
		case *bug.LabelChangeTimelineItem:
			item.Kind, item.Au, item.A1, item.A2 = "label", e.au(t.Author), ints(t.Added), ints(t.Removed)
		default:
			item.Kind = fmt.Sprintf("%T", it)
		}
		p.Timeline = append(p.Timeline, item)
	}
	return p
}

func target(s *bug.Snapshot, t string) entity.Id {
	switch t {
	case "create":
		return s.Operations[0].Id()
	case "last":
		return s.Operations[len(s.Operations)-1].Id()
	}
	return entity.Id(strings.Repeat("0123456789abcdef", 4))
}

// apply performs one API call on an entity-level bug (paths 1 and 2).
// opTime: the wall-clock time written into the k-th operation after the creation. Nothing in the interpretation of a bug depends on
// it (operations are ordered by the history, not by their authors' clocks): times run backwards, repeat, and lie before the creation.
func opTime(create int64, k int) int64 {
	return create + []int64{1, -7, 3, -3600, 0, 12, -1, 2, -86400 * 365, 5}[k%10]
}

func (e *env) apply(b bug.Interface, c Call, unix int64) error {
	s := b.Compile()
	i := len(s.Operations) + 1
	a := e.authors[c.A]
	var err error
	switch c.K {
	case "comment":
		_, _, err = bug.AddComment(b, a, unix, fmt.Sprintf("message %d", i), e.files(i, c.Wf), nil)
	case "edit":
		_, _, err = bug.EditComment(b, a, unix, target(s, c.T), fmt.Sprintf("message %d", i), e.files(i, c.Wf), nil)
	case "editsame":
		_, _, err = bug.EditComment(b, a, unix, target(s, c.T), currentText(s, target(s, c.T), i), e.files(i, c.Wf), nil)
	case "title":
		_, err = bug.SetTitle(b, a, unix, fmt.Sprintf("title %d", i), nil)
	case "titlestale":
		// written by hand: the editing API fills `was` with the title in force
		t := fmt.Sprintf("title %d", i)
		b.Append(bug.NewSetTitleOp(a, unix, t, t))
	case "status":
		if c.S == "open" {
			_, err = bug.Open(b, a, unix, nil)
		} else {
			_, err = bug.Close(b, a, unix, nil)
		}
	case "labelf":
		_, err = bug.ForceChangeLabels(b, a, unix, labels(c.Add), labels(c.Rem), nil)
	case "label":
		before := len(b.Operations())
		_, _, err = bug.ChangeLabels(b, a, unix, labels(c.Add), labels(c.Rem), nil)
		if err != nil && len(b.Operations()) == before {
			err = nil // refused without appending anything (nothing to change): whether that was right is decided by the compiled state
		}
	case "meta":
		_, err = bug.SetMetadata(b, a, unix, target(s, c.T), map[string]string{c.Key: fmt.Sprintf("v%d", i)})
	case "metaempty":
		_, err = bug.SetMetadata(b, a, unix, target(s, c.T), map[string]string{c.Key: ""})
	case "noop":
		op := dag.NewNoOpOp[*bug.Snapshot](bug.NoOpOp, a, unix)
		b.Append(op)
	default:
		err = fmt.Errorf("unknown call %q", c.K)
	}
	return err
}

func (e *env) applyCache(b *cache.BugCache, c Call, unix int64) error {
	s := b.Snapshot() // taken before the call: the incremental path of withSnapshot.Append is used
	i := len(s.Operations) + 1
	a := e.authors[c.A]
	var err error
	switch c.K {
	case "comment":
		_, _, err = b.AddCommentRaw(a, unix, fmt.Sprintf("message %d", i), e.files(i, c.Wf), nil)
	case "edit":
		_, err = b.EditCommentWithFilesRaw(a, unix, entity.CombineIds(b.Id(), target(s, c.T)), fmt.Sprintf("message %d", i), e.files(i, c.Wf), nil)
	case "editsame":
		_, err = b.EditCommentWithFilesRaw(a, unix, entity.CombineIds(b.Id(), target(s, c.T)), currentText(s, target(s, c.T), i), e.files(i, c.Wf), nil)
	case "title":
		_, err = b.SetTitleRaw(a, unix, fmt.Sprintf("title %d", i), nil)
	case "status":
		if c.S == "open" {
			_, err = b.OpenRaw(a, unix, nil)
		} else {
			_, err = b.CloseRaw(a, unix, nil)
		}
	case "labelf":
		_, err = b.ForceChangeLabelsRaw(a, unix, labels(c.Add), labels(c.Rem), nil)
	case "label":
		before := len(b.Snapshot().Operations)
		_, _, err = b.ChangeLabelsRaw(a, unix, labels(c.Add), labels(c.Rem), nil)
		if err != nil && len(b.Snapshot().Operations) == before {
			err = nil
		}
	case "meta":
		_, err = b.SetMetadataRaw(a, unix, target(s, c.T), map[string]string{c.Key: fmt.Sprintf("v%d", i)})
	case "metaempty":
		_, err = b.SetMetadataRaw(a, unix, target(s, c.T), map[string]string{c.Key: ""})
	}
	return err
}

// currentText: the text the targeted comment shows now (a fresh one if the target is no comment)
func currentText(s *bug.Snapshot, target entity.Id, i int) string {
	for _, c := range s.Comments {
		if c.TargetId() == target {
			return c.Message
		}
	}
	return fmt.Sprintf("message %d", i)
}

func diff(path string, got Snap, exp Snap) string {
	if reflect.DeepEqual(got, exp) {
		return ""
	}
	g, _ := json.Marshal(got)
	return path + ": code " + string(g)
}

type worker struct {
	mock  repository.ClockedRepo
	e     *env
	crepo *repository.GoGitRepo
	cache *cache.RepoCache
	ce    *env
}

func newEnv(repo repository.ClockedRepo) *env {
	e := &env{authors: make([]identity.Interface, 3), idx: map[entity.Id]int{}, repo: repo, fileNo: map[repository.Hash]int{}}
	for i := 1; i <= 2; i++ {
		id, err := identity.NewIdentity(repo, fmt.Sprintf("a%d", i), "a@example.org")
		hx.Must(err)
		hx.Must(id.Commit(repo))
		e.authors[i] = id
		e.idx[id.Id()] = i
	}
	return e
}

func (w *worker) run(v Vec, withCache bool) string {
	var unix int64 = 1_600_000_000
	// path 1: in memory
	b, _, err := bug.Create(w.e.authors[1], unix, "title 1", "message 1", w.e.files(1, v.Calls[0].Wf), map[string]string{"k0": "own"})
	hx.Must(err)
	for k, c := range v.Calls[1:] {
		if err := w.e.apply(b, c, opTime(unix, k)); err != nil {
			return fmt.Sprintf("memory: call %d (%s) failed: %v", k+2, c.K, err)
		}
	}
	if d := diff("in-memory Compile", w.e.project(b.Compile()), v.Exp); d != "" {
		return d
	}
	if d := diff("second Compile (repeatable)", w.e.project(b.Compile()), v.Exp); d != "" {
		return d
	}
	// path 2: commit, read back, compile
	if err := b.Commit(w.mock); err != nil {
		return "commit failed: " + err.Error()
	}
	rb, err := bug.Read(w.mock, b.Id())
	if err != nil {
		return "read back failed: " + err.Error()
	}
	if d := diff("Compile after commit and Read", w.e.project(rb.Compile()), v.Exp); d != "" {
		return d
	}
	// path 3: the cache's incrementally maintained snapshot
	if withCache {
		for _, c := range v.Calls {
			if c.K == "noop" || c.K == "titlestale" {
				return "" // the cache API has no no-op call, and fills the `was` of a title change itself
			}
		}
		cb, _, err := w.cache.Bugs().NewRaw(w.ce.authors[1], unix, "title 1", "message 1", w.ce.files(1, v.Calls[0].Wf), map[string]string{"k0": "own"})
		if err != nil {
			return "cache: NewRaw failed: " + err.Error()
		}
		for k, c := range v.Calls[1:] {
			nbefore := len(cb.Snapshot().Operations)
			if err := w.ce.applyCache(cb, c, opTime(unix, k)); err != nil {
				if (c.K == "edit" || c.K == "editsame") && len(cb.Snapshot().Operations) == nbefore {
					return "" // the cache API refuses edits whose target is not a comment: nothing is appended, nothing to compare
				}
				return fmt.Sprintf("cache: call %d (%s) failed: %v", k+2, c.K, err)
			}
		}
		if d := diff("cache incremental snapshot", w.ce.project(cb.Snapshot()), v.Exp); d != "" {
			return d
		}
		if err := cb.CommitAsNeeded(); err != nil {
			return "cache commit failed: " + err.Error()
		}
		if d := diff("cache snapshot after commit", w.ce.project(cb.Snapshot()), v.Exp); d != "" {
			return d
		}
	}
	return ""
}

// Run: vh snapshot <vectors> <out> <cache modulus (0 = never)>
func Run(args []string) {
	lines := hx.ReadLines(args[0])
	out := hx.NewWriter(args[1])
	defer out.Close()
	mod := 1
	if len(args) > 2 {
		fmt.Sscan(args[2], &mod)
	}
	pool := sync.Pool{New: func() interface{} {
		w := &worker{mock: repository.NewMockRepo()}
		w.e = newEnv(w.mock)
		if mod > 0 {
			w.crepo = hx.InitRepo(hx.Scratch("snapc"))
			c, err := hx.OpenCache(w.crepo)
			hx.Must(err)
			w.cache = c
			w.ce = &env{authors: make([]identity.Interface, 3), idx: map[entity.Id]int{}, repo: w.crepo, fileNo: map[repository.Hash]int{}}
			for i := 1; i <= 2; i++ {
				ic, err := c.Identities().New(fmt.Sprintf("a%d", i), "a@example.org")
				hx.Must(err)
				w.ce.authors[i] = ic
				w.ce.idx[ic.Id()] = i
			}
		}
		return w
	}}
	var mu sync.Mutex
	executed, cached, bad := 0, 0, 0
	hx.Parallel(len(lines), 0, func(i int) {
		var v Vec
		hx.Must(json.Unmarshal(lines[i], &v))
		w := pool.Get().(*worker)
		wc := mod > 0 && i%mod == 0
		why := func() (why string) {
			defer func() {
				if p := recover(); p != nil {
					why = fmt.Sprintf("panic: %v", p)
				}
			}()
			return w.run(v, wc)
		}()
		pool.Put(w)
		mu.Lock()
		executed++
		if wc {
			cached++
		}
		if why != "" {
			bad++
			if bad <= 200 {
				out.Put(map[string]interface{}{"vec": v, "why": why})
			}
		}
		mu.Unlock()
	})
	out.Put(map[string]interface{}{"stats": map[string]int{"executed": executed, "with_cache": cached, "mismatches": bad}})
	_ = common.OpenStatus
}

// TraceCmd: vh snapshot-trace <out> <count> <maxlen>: long random call sequences executed on the real code; each
// event carries the calls and the projected snapshots of the three paths, for TLC to fold and compare.
func TraceCmd(args []string) {
	out := hx.NewWriter(args[0])
	defer out.Close()
	count, maxlen := 20, 100
	fmt.Sscan(args[1], &count)
	fmt.Sscan(args[2], &maxlen)
	seed := hx.Seed()
	var mu sync.Mutex
	hx.Parallel(count, 0, func(i int) {
		rng := newRng(uint64(seed)*1000003 + uint64(i))
		n := 20 + int(rng.next()%uint64(maxlen-19))
		calls := []Call{{K: "create", A: 1, Add: []int{}, Rem: []int{}, Wf: rng.next()%2 == 0}}
		kinds := []string{"comment", "comment", "edit", "edit", "editsame", "title", "status", "labelf", "label", "label", "meta"}
		for len(calls) < n {
			k := kinds[rng.next()%uint64(len(kinds))]
			c := Call{K: k, A: 1 + int(rng.next()%2), Add: []int{}, Rem: []int{}}
			switch k {
			case "edit":
				c.T = []string{"create", "last", "unknown"}[rng.next()%3]
				c.Wf = rng.next()%2 == 0
			case "editsame":
				c.T = []string{"create", "last"}[rng.next()%2]
				c.Wf = rng.next()%2 == 0
			case "comment":
				c.Wf = rng.next()%2 == 0
			case "status":
				c.S = []string{"open", "closed"}[rng.next()%2]
			case "labelf", "label":
				for j := 0; j < int(rng.next()%4); j++ {
					c.Add = append(c.Add, 1+int(rng.next()%5))
				}
				for j := 0; j < int(rng.next()%3); j++ {
					c.Rem = append(c.Rem, 1+int(rng.next()%5))
				}
				if len(c.Add)+len(c.Rem) == 0 {
					c.Add = []int{1 + int(rng.next()%5)}
				}
			case "meta":
				c.T = []string{"create", "last"}[rng.next()%2]
				c.Key = []string{"k0", "k1"}[rng.next()%2]
			}
			calls = append(calls, c)
		}
		w := &worker{mock: repository.NewMockRepo()}
		w.e = newEnv(w.mock)
		var unix int64 = 1_600_000_000
		b, _, err := bug.Create(w.e.authors[1], unix, "title 1", "message 1", w.e.files(1, calls[0].Wf), map[string]string{"k0": "own"})
		hx.Must(err)
		ev := map[string]interface{}{"ev": "Seq", "calls": calls, "err": ""}
		steps := []map[string]interface{}{w.e.slim(b.Compile())}
		for k, c := range calls[1:] {
			if err := w.e.apply(b, c, opTime(unix, k)); err != nil {
				ev["err"] = fmt.Sprintf("call %d (%s) failed: %v", k+2, c.K, err)
				break
			}
			steps = append(steps, w.e.slim(b.Compile()))
		}
		ev["steps"] = steps
		ev["mem"] = w.e.project(b.Compile())
		if err := b.Commit(w.mock); err != nil {
			ev["err"] = "commit: " + err.Error()
		}
		rb, err := bug.Read(w.mock, b.Id())
		if err != nil {
			ev["err"] = "read: " + err.Error()
			ev["read"] = ev["mem"]
		} else {
			ev["read"] = w.e.project(rb.Compile())
		}
		mu.Lock()
		out.Put(ev)
		mu.Unlock()
	})
}

type rng struct{ s uint64 }

func newRng(seed uint64) *rng { return &rng{s: seed*2685821657736338717 + 1442695040888963407} }
func (r *rng) next() uint64 {
	r.s ^= r.s << 13
	r.s ^= r.s >> 7
	r.s ^= r.s << 17
	return r.s >> 3
}
