// Package clockx executes the vectors of spec/Clock.tla against lamport.MemClock, lamport.PersistedClock and the
// clocks served by GoGitRepo and the mock repository (C05).
package clockx

import (
	"encoding/json"
	"fmt"
	"os"
	"path/filepath"
	"strconv"
	"strings"
	"sync"

	"github.com/go-git/go-billy/v5"
	"github.com/go-git/go-billy/v5/osfs"

	"github.com/MichaelMure/git-bug/repository"
	"github.com/MichaelMure/git-bug/util/lamport"

	"verif/harness/hx"
)

type Op struct {
	Op string `json:"op"`
	V  int    `json:"v"`
}
type St struct {
	Mem  int  `json:"mem"`
	Disk int  `json:"disk"`
	Ret  int  `json:"ret"`
	Err  bool `json:"err"`
}

// failFS: a file system on which a file cannot be replaced while `fail` is set (renaming fails, and so does opening for
// writing: whichever way the clock is written)
type failFS struct {
	billy.Filesystem
	fail *bool
}

func (f failFS) Rename(from, to string) error {
	if *f.fail {
		return fmt.Errorf("injected: no space left on device")
	}
	return f.Filesystem.Rename(from, to)
}
func (f failFS) OpenFile(name string, flag int, perm os.FileMode) (billy.File, error) {
	if *f.fail && flag&(os.O_WRONLY|os.O_RDWR|os.O_TRUNC) != 0 && !strings.Contains(name, ".tmp") {
		return nil, fmt.Errorf("injected: no space left on device")
	}
	return f.Filesystem.OpenFile(name, flag, perm)
}
func (f failFS) Create(name string) (billy.File, error) {
	return f.OpenFile(name, os.O_RDWR|os.O_CREATE|os.O_TRUNC, 0o666)
}

func hasFail(v Vec) bool {
	for _, o := range v.Ops {
		if o.Op == "incfail" || o.Op == "witfail" {
			return true
		}
	}
	return false
}

type Vec struct {
	Ops []Op `json:"ops"`
	Exp []St `json:"exp"`
}

func readFile(p string) int {
	b, err := os.ReadFile(p)
	if err != nil {
		return -1
	}
	n, err := strconv.Atoi(strings.TrimSpace(string(b)))
	if err != nil {
		return -2
	}
	return n
}

type impl struct {
	name    string
	persist bool
	run     func(v Vec, dir string) (int, string) // index of first disagreement, description
}

func hasReload(v Vec) bool {
	for _, o := range v.Ops {
		if o.Op == "reload" {
			return true
		}
	}
	return false
}

func checkErr(i int, exp St, err error) string {
	if exp.Err && err == nil {
		return fmt.Sprintf("op %d: the clock file could not be written, yet the call reported success", i)
	}
	if !exp.Err && err != nil {
		return fmt.Sprintf("op %d: failed: %v", i, err)
	}
	return ""
}

func check(i int, exp St, mem, disk, ret int, persist bool) string {
	if mem != exp.Mem {
		return fmt.Sprintf("after op %d: Time() = %d, specification %d", i, mem, exp.Mem)
	}
	if persist && disk != exp.Disk {
		return fmt.Sprintf("after op %d: clock file holds %d, specification %d", i, disk, exp.Disk)
	}
	if ret != exp.Ret {
		return fmt.Sprintf("op %d: Increment returned %d, specification %d", i, ret, exp.Ret)
	}
	return ""
}

func runMem(v Vec, dir string) string {
	c := lamport.NewMemClock()
	for i, o := range v.Ops {
		ret := 0
		switch o.Op {
		case "inc":
			t, err := c.Increment()
			hx.Must(err)
			ret = int(t)
		case "witness":
			hx.Must(c.Witness(lamport.Time(o.V)))
		}
		if why := check(i, v.Exp[i], int(c.Time()), 0, ret, false); why != "" {
			return why
		}
	}
	return ""
}

func runPersisted(v Vec, dir string) string {
	fail := false
	fs := failFS{osfs.New(dir), &fail}
	c, err := lamport.NewPersistedClock(fs, "clk")
	hx.Must(err)
	for i, o := range v.Ops {
		ret := 0
		switch o.Op {
		case "inc":
			t, err := c.Increment()
			hx.Must(err)
			ret = int(t)
		case "witness":
			hx.Must(c.Witness(lamport.Time(o.V)))
		case "incfail", "witfail":
			fail = true
			var err error
			if o.Op == "incfail" {
				_, err = c.Increment()
			} else {
				err = c.Witness(lamport.Time(o.V))
			}
			fail = false
			if why := checkErr(i, v.Exp[i], err); why != "" {
				return why
			}
		case "reload":
			c, err = lamport.LoadPersistedClock(fs, "clk")
			if err != nil {
				return fmt.Sprintf("op %d: reload failed: %v", i, err)
			}
		}
		if why := check(i, v.Exp[i], int(c.Time()), readFile(filepath.Join(dir, "clk")), ret, true); why != "" {
			return why
		}
	}
	return ""
}

func runRepo(v Vec, dir string) string {
	repo, err := repository.InitGoGitRepo(dir, "git-bug")
	hx.Must(err)
	_, err = repo.GetOrCreateClock("x-edit")
	hx.Must(err)
	file := filepath.Join(dir, ".git", "git-bug", "clocks", "x-edit")
	for i, o := range v.Ops {
		ret := 0
		switch o.Op {
		case "inc":
			t, err := repo.Increment("x-edit")
			hx.Must(err)
			ret = int(t)
		case "witness":
			hx.Must(repo.Witness("x-edit", lamport.Time(o.V)))
		case "reload":
			_ = repo.Close()
			repo, err = repository.OpenGoGitRepo(dir, "git-bug", nil)
			if err != nil {
				return fmt.Sprintf("op %d: reopen failed: %v", i, err)
			}
		}
		c, err := repo.GetOrCreateClock("x-edit")
		hx.Must(err)
		if why := check(i, v.Exp[i], int(c.Time()), readFile(file), ret, true); why != "" {
			return why
		}
	}
	_ = repo.Close()
	return ""
}

// loadFails: directories whose clock files cannot be opened for reading at the moment (a transient I/O error at the first use of a
// clock after a restart). The hook that gives every repository of this process its file system is set once, in Run.
var loadFails sync.Map

type loadFailFS struct {
	billy.Filesystem
}

func (f loadFailFS) failing(name string) bool {
	v, ok := loadFails.Load(f.Root())
	return ok && v.(bool) && strings.Contains(name, "clocks")
}
func (f loadFailFS) Open(name string) (billy.File, error) {
	if f.failing(name) {
		return nil, fmt.Errorf("injected: input/output error")
	}
	return f.Filesystem.Open(name)
}
func (f loadFailFS) OpenFile(name string, flag int, perm os.FileMode) (billy.File, error) {
	if f.failing(name) && flag&(os.O_WRONLY|os.O_RDWR) == 0 {
		return nil, fmt.Errorf("injected: input/output error")
	}
	return f.Filesystem.OpenFile(name, flag, perm)
}

// runRepoLoadFails: as runRepo, but after every reopening the first use of the clock meets a file that cannot be read: the call
// has to say so and must leave the file alone (a clock that cannot be loaded is not a clock that does not exist); the next use
// finds the clock where it was.
func runRepoLoadFails(v Vec, dir string) string {
	repo, err := repository.InitGoGitRepo(dir, "git-bug")
	hx.Must(err)
	_, err = repo.GetOrCreateClock("x-edit")
	hx.Must(err)
	file := filepath.Join(dir, ".git", "git-bug", "clocks", "x-edit")
	root := filepath.Join(dir, ".git", "git-bug")
	for i, o := range v.Ops {
		ret := 0
		switch o.Op {
		case "inc":
			t, err := repo.Increment("x-edit")
			hx.Must(err)
			ret = int(t)
		case "witness":
			hx.Must(repo.Witness("x-edit", lamport.Time(o.V)))
		case "reload":
			_ = repo.Close()
			repo, err = repository.OpenGoGitRepo(dir, "git-bug", nil)
			if err != nil {
				return fmt.Sprintf("op %d: reopen failed: %v", i, err)
			}
			before := readFile(file)
			loadFails.Store(root, true)
			t, ierr := repo.Increment("x-edit")
			werr := repo.Witness("x-edit", 1)
			loadFails.Store(root, false)
			if ierr == nil || werr == nil {
				return fmt.Sprintf("op %d: the clock file could not be read after the reopening; Increment returned %d, %v and Witness %v", i, t, ierr, werr)
			}
			if after := readFile(file); after != before {
				return fmt.Sprintf("op %d: the clock file could not be read after the reopening: it held %d and holds %d now", i, before, after)
			}
		}
		c, err := repo.GetOrCreateClock("x-edit")
		hx.Must(err)
		if why := check(i, v.Exp[i], int(c.Time()), readFile(file), ret, true); why != "" {
			return why
		}
	}
	_ = repo.Close()
	return ""
}

// runRepoHandle: the same through GoGitRepo with a clock handle that is kept (as code holding on to a clock does): after every
// (re)opening the handle is asked once, operations go alternately through the handle and through the repository, and both have to
// show the same clock all along - there is one clock per name in a process, whoever asks for it.
func runRepoHandle(v Vec, dir string) string {
	repo, err := repository.InitGoGitRepo(dir, "git-bug")
	hx.Must(err)
	h, err := repo.GetOrCreateClock("x-edit")
	hx.Must(err)
	file := filepath.Join(dir, ".git", "git-bug", "clocks", "x-edit")
	for i, o := range v.Ops {
		ret := 0
		viaHandle := i%2 == 0
		switch o.Op {
		case "inc":
			var t lamport.Time
			if viaHandle {
				t, err = h.Increment()
			} else {
				t, err = repo.Increment("x-edit")
			}
			hx.Must(err)
			ret = int(t)
		case "witness":
			if viaHandle {
				hx.Must(h.Witness(lamport.Time(o.V)))
			} else {
				hx.Must(repo.Witness("x-edit", lamport.Time(o.V)))
			}
		case "reload":
			_ = repo.Close()
			repo, err = repository.OpenGoGitRepo(dir, "git-bug", nil)
			if err != nil {
				return fmt.Sprintf("op %d: reopen failed: %v", i, err)
			}
			h, err = repo.GetOrCreateClock("x-edit")
			hx.Must(err)
		}
		c, err := repo.GetOrCreateClock("x-edit")
		hx.Must(err)
		if c.Time() != h.Time() {
			return fmt.Sprintf("op %d: the clock handle kept since the repository was opened shows %d, the repository's clock %d", i, h.Time(), c.Time())
		}
		if why := check(i, v.Exp[i], int(h.Time()), readFile(file), ret, true); why != "" {
			return why
		}
	}
	_ = repo.Close()
	return ""
}

func runMock(v Vec, dir string) string {
	repo := repository.NewMockRepo()
	_, err := repo.GetOrCreateClock("x-edit")
	hx.Must(err)
	for i, o := range v.Ops {
		ret := 0
		switch o.Op {
		case "inc":
			t, err := repo.Increment("x-edit")
			hx.Must(err)
			ret = int(t)
		case "witness":
			hx.Must(repo.Witness("x-edit", lamport.Time(o.V)))
		}
		c, err := repo.GetOrCreateClock("x-edit")
		hx.Must(err)
		if why := check(i, v.Exp[i], int(c.Time()), 0, ret, false); why != "" {
			return why
		}
	}
	return ""
}

// Run: vh clock <vectors> <out>
func Run(args []string) {
	lines := hx.ReadLines(args[0])
	out := hx.NewWriter(args[1])
	defer out.Close()
	type im struct {
		name    string
		persist bool
		f       func(Vec, string) string
	}
	impls := []im{{"MemClock", false, runMem}, {"PersistedClock", true, runPersisted}, {"GoGitRepo", true, runRepo}, {"GoGitRepo (kept handle)", true, runRepoHandle}, {"GoGitRepo (load fails)", true, runRepoLoadFails}, {"MockRepo", false, runMock}}
	repository.VerifWrapLocalStorage = func(fs billy.Filesystem) billy.Filesystem { return loadFailFS{fs} }
	executed := make([]int, len(lines))
	hx.Parallel(len(lines), 0, func(i int) {
		var v Vec
		hx.Must(json.Unmarshal(lines[i], &v))
		if len(v.Ops) == 0 {
			return
		}
		for _, m := range impls {
			if !m.persist && hasReload(v) {
				continue
			}
			if m.name != "PersistedClock" && hasFail(v) {
				continue // faults are injected below the clock object
			}
			dir := hx.Scratch("clk")
			why := m.f(v, dir)
			_ = os.RemoveAll(dir)
			executed[i]++
			if why != "" {
				out.Put(map[string]interface{}{"impl": m.name, "why": why, "vec": v})
			}
		}
	})
	n := 0
	for _, e := range executed {
		n += e
	}
	out.Put(map[string]interface{}{"stats": map[string]int{"executed": n, "vectors": len(lines)}})
}
