// Package clockx executes the vectors of spec/Clock.tla against lamport.MemClock, lamport.PersistedClock and the
// clocks served by GoGitRepo and the mock repository (C05).
package clockx

import (
	"encoding/json"
	"fmt"
	"os"
	"path/filepath"
	"strconv"
	"strings"

	"github.com/go-git/go-billy/v5/osfs"

	"github.com/MichaelMure/git-bug/repository"
	"github.com/MichaelMure/git-bug/util/lamport"

	"verif/harness/hx"
)

type Op struct {
	Op string `json:"op"`
	V  int    `json:"v"`
}
type St struct {
	Mem  int `json:"mem"`
	Disk int `json:"disk"`
	Ret  int `json:"ret"`
}
type Vec struct {
	Ops []Op `json:"ops"`
	Exp []St `json:"exp"`
}

func readFile(p string) int {
	b, err := os.ReadFile(p)
	if err != nil {
		return -1
	}
	n, err := strconv.Atoi(strings.TrimSpace(string(b)))
	if err != nil {
		return -2
	}
	return n
}

type impl struct {
	name    string
	persist bool
	run     func(v Vec, dir string) (int, string) // index of first disagreement, description
}

func hasReload(v Vec) bool {
	for _, o := range v.Ops {
		if o.Op == "reload" {
			return true
		}
	}
	return false
}

func check(i int, exp St, mem, disk, ret int, persist bool) string {
	if mem != exp.Mem {
		return fmt.Sprintf("after op %d: Time() = %d, specification %d", i, mem, exp.Mem)
	}
	if persist && disk != exp.Disk {
		return fmt.Sprintf("after op %d: clock file holds %d, specification %d", i, disk, exp.Disk)
	}
	if ret != exp.Ret {
		return fmt.Sprintf("op %d: Increment returned %d, specification %d", i, ret, exp.Ret)
	}
	return ""
}

func runMem(v Vec, dir string) string {
	c := lamport.NewMemClock()
	for i, o := range v.Ops {
		ret := 0
		switch o.Op {
		case "inc":
			t, err := c.Increment()
			hx.Must(err)
			ret = int(t)
		case "witness":
			hx.Must(c.Witness(lamport.Time(o.V)))
		}
		if why := check(i, v.Exp[i], int(c.Time()), 0, ret, false); why != "" {
			return why
		}
	}
	return ""
}

func runPersisted(v Vec, dir string) string {
	fs := osfs.New(dir)
	c, err := lamport.NewPersistedClock(fs, "clk")
	hx.Must(err)
	for i, o := range v.Ops {
		ret := 0
		switch o.Op {
		case "inc":
			t, err := c.Increment()
			hx.Must(err)
			ret = int(t)
		case "witness":
			hx.Must(c.Witness(lamport.Time(o.V)))
		case "reload":
			c, err = lamport.LoadPersistedClock(fs, "clk")
			if err != nil {
				return fmt.Sprintf("op %d: reload failed: %v", i, err)
			}
		}
		if why := check(i, v.Exp[i], int(c.Time()), readFile(filepath.Join(dir, "clk")), ret, true); why != "" {
			return why
		}
	}
	return ""
}

func runRepo(v Vec, dir string) string {
	repo, err := repository.InitGoGitRepo(dir, "git-bug")
	hx.Must(err)
	_, err = repo.GetOrCreateClock("x-edit")
	hx.Must(err)
	file := filepath.Join(dir, ".git", "git-bug", "clocks", "x-edit")
	for i, o := range v.Ops {
		ret := 0
		switch o.Op {
		case "inc":
			t, err := repo.Increment("x-edit")
			hx.Must(err)
			ret = int(t)
		case "witness":
			hx.Must(repo.Witness("x-edit", lamport.Time(o.V)))
		case "reload":
			_ = repo.Close()
			repo, err = repository.OpenGoGitRepo(dir, "git-bug", nil)
			if err != nil {
				return fmt.Sprintf("op %d: reopen failed: %v", i, err)
			}
		}
		c, err := repo.GetOrCreateClock("x-edit")
		hx.Must(err)
		if why := check(i, v.Exp[i], int(c.Time()), readFile(file), ret, true); why != "" {
			return why
		}
	}
	_ = repo.Close()
	return ""
}

func runMock(v Vec, dir string) string {
	repo := repository.NewMockRepo()
	_, err := repo.GetOrCreateClock("x-edit")
	hx.Must(err)
	for i, o := range v.Ops {
		ret := 0
		switch o.Op {
		case "inc":
			t, err := repo.Increment("x-edit")
			hx.Must(err)
			ret = int(t)
		case "witness":
			hx.Must(repo.Witness("x-edit", lamport.Time(o.V)))
		}
		c, err := repo.GetOrCreateClock("x-edit")
		hx.Must(err)
		if why := check(i, v.Exp[i], int(c.Time()), 0, ret, false); why != "" {
			return why
		}
	}
	return ""
}

// Run: vh clock <vectors> <out>
func Run(args []string) {
	lines := hx.ReadLines(args[0])
	out := hx.NewWriter(args[1])
	defer out.Close()
	type im struct {
		name    string
		persist bool
		f       func(Vec, string) string
	}
	impls := []im{{"MemClock", false, runMem}, {"PersistedClock", true, runPersisted}, {"GoGitRepo", true, runRepo}, {"MockRepo", false, runMock}}
	executed := make([]int, len(lines))
	hx.Parallel(len(lines), 0, func(i int) {
		var v Vec
		hx.Must(json.Unmarshal(lines[i], &v))
		if len(v.Ops) == 0 {
			return
		}
		for _, m := range impls {
			if !m.persist && hasReload(v) {
				continue
			}
			dir := hx.Scratch("clk")
			why := m.f(v, dir)
			_ = os.RemoveAll(dir)
			executed[i]++
			if why != "" {
				out.Put(map[string]interface{}{"impl": m.name, "why": why, "vec": v})
			}
		}
	})
	n := 0
	for _, e := range executed {
		n += e
	}
	out.Put(map[string]interface{}{"stats": map[string]int{"executed": n, "vectors": len(lines)}})
}
