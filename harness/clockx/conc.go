package clockx

import (
	"fmt"
	"os"
	"sync"
	"sync/atomic"
	"time"

	"github.com/go-git/go-billy/v5/osfs"

	"github.com/MichaelMure/git-bug/util/lamport"

	"verif/harness/hx"
)

// One clock object used by several goroutines at once (spec/MemClockConc.tla): incrementers run while the main goroutine
// witnesses ever higher values. Observed at the boundaries of the calls, which is all a lock-free object offers:
//   Dominates  after Witness(v) has returned, Time() >= v;
//   Fresh      no time is handed out twice, an incrementer's times grow, and an Increment begun after Witness(v)
//              returned yields more than v.

type ConcRecord struct {
	Ev         string   `json:"ev"`
	Impl       string   `json:"impl"`
	Witnesses  int      `json:"witnesses"`
	Increments int      `json:"increments"`
	Lost       int      `json:"lost"`      // Witness(v) returned with the clock below v
	Stale      int      `json:"stale"`     // an Increment begun after Witness(v) returned yielded v or less
	Duplicate  int      `json:"duplicate"` // a time handed out twice, or an incrementer's times not growing
	Examples   []string `json:"examples"`
}

func concOne(impl string, c lamport.Clock, incrementers, witnesses, step int) ConcRecord {
	rec := ConcRecord{Ev: "ClockConc", Impl: impl, Examples: []string{}}
	var mu sync.Mutex
	note := func(s string) {
		mu.Lock()
		if len(rec.Examples) < 5 {
			rec.Examples = append(rec.Examples, s)
		}
		mu.Unlock()
	}
	var floor uint64 // largest value whose Witness has returned
	var stop int32
	var stale, dup, incs int64
	times := make([][]lamport.Time, incrementers)
	var wg sync.WaitGroup
	for g := 0; g < incrementers; g++ {
		wg.Add(1)
		go func(g int) {
			defer wg.Done()
			var last lamport.Time
			for atomic.LoadInt32(&stop) == 0 && len(times[g]) < 400000 {
				f := atomic.LoadUint64(&floor)
				t, err := c.Increment()
				hx.Must(err)
				if uint64(t) <= f {
					atomic.AddInt64(&stale, 1)
					note(fmt.Sprintf("Increment begun after Witness(%d) had returned yielded %d", f, t))
				}
				if t <= last {
					atomic.AddInt64(&dup, 1)
					note(fmt.Sprintf("an incrementer got %d after %d", t, last))
				}
				last = t
				times[g] = append(times[g], t)
				atomic.AddInt64(&incs, 1)
			}
		}(g)
	}
	// the witnesses go on until the incrementers have had their share too (on a busy machine they may be slow to start)
	began := time.Now()
	for k := 0; k < witnesses || (atomic.LoadInt64(&incs) < 2000 && time.Since(began) < 30*time.Second); k++ {
		v := c.Time() + lamport.Time(step)
		hx.Must(c.Witness(v))
		if t := c.Time(); t < v {
			rec.Lost++
			note(fmt.Sprintf("Witness(%d) returned with the clock at %d", v, t))
		}
		atomic.StoreUint64(&floor, uint64(v))
		rec.Witnesses++
	}
	atomic.StoreInt32(&stop, 1)
	wg.Wait()
	seen := map[lamport.Time]bool{}
	for _, ts := range times {
		rec.Increments += len(ts)
		for _, t := range ts {
			if seen[t] {
				dup++
				note(fmt.Sprintf("time %d handed out twice", t))
			}
			seen[t] = true
		}
	}
	rec.Stale, rec.Duplicate = int(stale), int(dup)
	return rec
}

// Conc: vh clock-conc <out> <rounds>
func Conc(args []string) {
	out := hx.NewWriter(args[0])
	defer out.Close()
	rounds := 1
	fmt.Sscan(args[1], &rounds)
	for r := 0; r < rounds; r++ {
		out.Put(concOne("MemClock", lamport.NewMemClock(), 1+r%4, 100000, 1+r%3*500))
		dir, err := os.MkdirTemp("/dev/shm", "clockconc-")
		hx.Must(err)
		pc, err := lamport.NewPersistedClock(osfs.New(dir), "clock")
		hx.Must(err)
		out.Put(concOne("PersistedClock", pc, 1+r%4, 3000, 1+r%3*500))
		_ = os.RemoveAll(dir)
	}
}
