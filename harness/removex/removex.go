// Package removex executes the configurations enumerated by spec/Remove.tla on real repositories: removal through
// the entity API, the cache API and the CLI, and `git-bug wipe` (C14).
package removex

import (
	"encoding/json"
	"fmt"
	"hash/crc32"
	"os"
	"os/exec"
	"path/filepath"
	"sort"
	"strings"

	"github.com/MichaelMure/git-bug/cache"
	"github.com/MichaelMure/git-bug/entities/bug"
	"github.com/MichaelMure/git-bug/entities/identity"
	"github.com/MichaelMure/git-bug/entity"
	"github.com/MichaelMure/git-bug/query"
	"github.com/MichaelMure/git-bug/repository"

	"verif/harness/hx"
)

type State struct {
	Lref   []string   `json:"lref"`
	Tref   [][]string `json:"tref"`
	Cexc   []string   `json:"cexc"`
	Merged []string   `json:"merged"`
	Conf   []string   `json:"conf"` // before: the configuration keys present (git-bug.identity, git-bug.bridge.x.target, user.name)
}
type Vec struct {
	Via     string   `json:"via"`
	Remotes []string `json:"remotes"`
	Before  State    `json:"before"`
	After   State    `json:"after"`
	FailAt  int      `json:"failat"` // via cacheflaky: which removal of a ref fails in the first attempt
}

// flakyRepo: the FailAt-th RemoveRef fails once, without removing anything.
type flakyRepo struct {
	repository.ClockedRepo
	n, failAt *int
}

func (f flakyRepo) RemoveRef(ref string) error {
	*f.n++
	if *f.n == *f.failAt {
		return fmt.Errorf("injected failure removing %s", ref)
	}
	return f.ClockedRepo.RemoveRef(ref)
}

var gitbug string

type ent struct {
	name string
	id   entity.Id
	head repository.Hash
}

func has(xs []string, x string) bool {
	for _, y := range xs {
		if y == x {
			return true
		}
	}
	return false
}

func sortedKey(xs []string) string {
	s := append([]string(nil), xs...)
	sort.Strings(s)
	return strings.Join(s, ",")
}

func one(v Vec, kind string, cli bool) string {
	dir := hx.Scratch("rm")
	if os.Getenv("VERIF_KEEP") == "" {
		defer os.RemoveAll(dir)
	} else {
		fmt.Fprintln(os.Stderr, "keeping", dir)
	}
	repo := hx.InitRepo(dir)
	for k, m := range v.Remotes {
		hx.Must(repo.AddRemote(m, filepath.Join(dir, "nowhere-"+m)))
		if k == 0 {
			// a remote with a mirror (`git remote set-url --add`): two URLs, one remote
			if out, err := exec.Command("git", "-C", dir, "config", "--add", "remote."+m+".url", filepath.Join(dir, "mirror-of-"+m)).CombinedOutput(); err != nil {
				hx.Die("git config: %v %s", err, out)
			}
		}
	}
	ns := map[string]string{"bug": "bugs", "identity": "identities"}[kind]
	author, err := identity.NewIdentity(repo, "author", "a@example.org")
	hx.Must(err)
	hx.Must(author.Commit(repo))
	// engineered neighbour: o1 shares its first two id characters with T
	ents := map[string]*ent{}
	mk := func(name string, ok func(id string) bool) {
		for {
			switch kind {
			case "bug":
				b, _, err := bug.Create(author, 1600000000, "zebra"+name+" title", "message "+name, nil, nil)
				hx.Must(err)
				if !ok(b.Id().String()) {
					continue
				}
				hx.Must(b.Commit(repo))
				h, err := repo.ResolveRef("refs/bugs/" + b.Id().String())
				hx.Must(err)
				ents[name] = &ent{name, b.Id(), h}
			case "identity":
				i, err := identity.NewIdentity(repo, "zebra"+name, "x@example.org")
				hx.Must(err)
				if !ok(i.Id().String()) {
					continue
				}
				hx.Must(i.Commit(repo))
				h, err := repo.ResolveRef("refs/identities/" + i.Id().String())
				hx.Must(err)
				ents[name] = &ent{name, i.Id(), h}
			}
			return
		}
	}
	mk("T", func(string) bool { return true })
	mk("o1", func(id string) bool { return id[:2] == ents["T"].id.String()[:2] && id != ents["T"].id.String() })
	mk("o2", func(string) bool { return true })
	for name, e := range ents {
		for _, tr := range v.Before.Tref {
			if tr[1] == name {
				hx.Must(repo.UpdateRef(fmt.Sprintf("refs/remotes/%s/%s/%s", tr[0], ns, e.id), e.head))
			}
		}
		if !has(v.Before.Lref, name) {
			hx.Must(repo.RemoveRef(fmt.Sprintf("refs/%s/%s", ns, e.id)))
		}
	}
	// unrelated things that must survive
	if v.Via != "wipe" || has(v.Before.Conf, "git-bug.bridge.x.target") {
		hx.Must(repo.LocalConfig().StoreString("git-bug.bridge.x.target", "gitlab"))
	}
	hx.Must(repo.UpdateRef("refs/heads/unrelated", ents["o2"].head))
	// the host project's own remote-tracking branches, some named like git-bug's namespaces begin
	var hostTracking []string
	for _, m := range v.Remotes {
		for _, name := range []string{"main", "bugsnag-integration", "bugs-2024-triage", "identities-cleanup", "bug"} {
			ref := "refs/remotes/" + m + "/" + name
			hx.Must(repo.UpdateRef(ref, ents["o2"].head))
			hostTracking = append(hostTracking, ref)
		}
	}
	// every other time the host has packed its refs meanwhile (git gc, git pack-refs): no ref of git-bug's is a loose file any more
	if packed := crc32.ChecksumIEEE([]byte(fmt.Sprintf("%s %v %v %s %v", v.Via, v.Before.Lref, v.Before.Tref, kind, cli)))%2 == 0; packed {
		if out, err := exec.Command("git", "-C", dir, "pack-refs", "--all", "--prune").CombinedOutput(); err != nil {
			hx.Die("git pack-refs: %v %s", err, out)
		}
	}
	foreignBefore := foreign(dir, repo, ents, ns)

	// the refs as stock git lists them (this process's handle may remember packed refs another process has rewritten since)
	gitRefs := func() map[string]bool {
		out, err := exec.Command("git", "-C", dir, "for-each-ref", "--format=%(refname)").Output()
		if err != nil {
			hx.Die("git for-each-ref: %v", err)
		}
		set := map[string]bool{}
		for _, l := range strings.Split(strings.TrimSpace(string(out)), "\n") {
			set[l] = true
		}
		return set
	}
	project := func() State {
		var s State
		have := gitRefs()
		for name, e := range ents {
			if have[fmt.Sprintf("refs/%s/%s", ns, e.id)] {
				s.Lref = append(s.Lref, name)
			}
			for _, m := range v.Remotes {
				if have[fmt.Sprintf("refs/remotes/%s/%s/%s", m, ns, e.id)] {
					s.Tref = append(s.Tref, []string{m, name})
				}
			}
		}
		return s
	}
	trefKey := func(t [][]string) string {
		var xs []string
		for _, p := range t {
			xs = append(xs, p[0]+"/"+p[1])
		}
		return sortedKey(xs)
	}
	checkRefs := func(when string) string {
		s := project()
		if sortedKey(s.Lref) != sortedKey(v.After.Lref) {
			return fmt.Sprintf("%s: local refs %v, specification %v", when, s.Lref, v.After.Lref)
		}
		if trefKey(s.Tref) != trefKey(v.After.Tref) {
			return fmt.Sprintf("%s: tracking refs %v, specification %v", when, s.Tref, v.After.Tref)
		}
		if v.Via != "wipe" {
			if f := foreign(dir, repo, ents, ns); f != foreignBefore {
				return fmt.Sprintf("%s: something outside the removed entity changed:\nbefore %s\nafter  %s", when, foreignBefore, f)
			}
		}
		return ""
	}
	T := ents["T"]
	switch v.Via {
	case "entity":
		// the cache has been used before (its files list the entity), it is closed while the entity API removes
		if c, err := hx.OpenCache(repo); err == nil {
			_ = c.Close()
		}
		for round := 0; round < 2; round++ {
			var err error
			if kind == "bug" {
				err = bug.Remove(repo, T.id)
			} else {
				err = identity.Remove(repo, T.id)
			}
			if err != nil && !(entity.IsErrNotFound(err)) {
				return fmt.Sprintf("removal %d failed: %v", round+1, err)
			}
			if why := checkRefs(fmt.Sprintf("after removal %d", round+1)); why != "" {
				return why
			}
		}
		// a rebuild forced by the loss of the *other* cache file: the file of this kind still loads (and still lists the
		// removed entity); what the rebuilt cache serves is what has a local ref
		other := "identities"
		if kind != "bug" {
			other = "bugs"
		}
		_ = os.Remove(filepath.Join(dir, ".git", "git-bug", "cache", other))
		c, err := hx.OpenCache(repo)
		if err != nil {
			return "rebuild after entity-level removal: " + err.Error()
		}
		why := cacheView(c, kind, ents, v.After.Lref, "after entity-level removal and a rebuild forced by the loss of the other cache file")
		_ = c.Close()
		if why != "" {
			return why
		}
	case "cache", "cacheflaky":
		var through repository.ClockedRepo = repo
		nRemoved, failAt := 0, v.FailAt
		if v.Via == "cacheflaky" {
			through = flakyRepo{repo, &nRemoved, &failAt}
		}
		c, err := hx.OpenCache(through)
		if err != nil {
			return "cache open: " + err.Error()
		}
		ic, err := c.Identities().Resolve(author.Id())
		hx.Must(err)
		hx.Must(c.SetUserIdentity(ic))
		foreignBefore = foreign(dir, repo, ents, ns)
		if cli && kind == "bug" {
			_ = c.Close()
			// a unique prefix: one character more than what T shares with any other bug (its neighbour o1 shares two on purpose)
			n := 3
			for clash := true; clash; {
				clash = false
				for name, e := range ents {
					if name != "T" && e.id != T.id && e.id.String()[:n] == T.id.String()[:n] {
						clash = true
					}
				}
				if clash {
					n++
				}
			}
			// another bug is the selected one (`git bug select`): commands given no bug fall back on it, a removal naming a bug
			// never does
			selected := ""
			for _, name := range []string{"o1", "o2"} {
				if e, ok := ents[name]; ok && has(v.Before.Lref, name) && selected == "" {
					sel := exec.Command(gitbug, "bug", "select", e.id.String())
					sel.Dir = dir
					if out, err := sel.CombinedOutput(); err != nil {
						return fmt.Sprintf("git-bug bug select failed: %v: %s", err, out)
					}
					selected = name
				}
			}
			cmd := exec.Command(gitbug, "bug", "rm", T.id.String()[:n])
			cmd.Dir = dir
			if out, err := cmd.CombinedOutput(); err != nil {
				return fmt.Sprintf("git-bug bug rm failed: %v: %s", err, out)
			}
			// once more: the prefix names nothing any more, the command has nothing to remove (and says so)
			again := exec.Command(gitbug, "bug", "rm", T.id.String()[:n])
			again.Dir = dir
			if out, err := again.CombinedOutput(); err == nil {
				return fmt.Sprintf("the second `git-bug bug rm` of the same prefix (selected bug: %q) reported a removal: %s", selected, out)
			}
			c, err = hx.OpenCache(repo)
			if err != nil {
				return "cache reopen after CLI: " + err.Error()
			}
		} else {
			// the entity is in memory (somebody looked at it in this session) or only listed: removal is the same thing
			if len(v.Before.Tref)%2 == 1 {
				if kind == "bug" {
					_, err = c.Bugs().Resolve(T.id)
				} else {
					_, err = c.Identities().Resolve(T.id)
				}
				if err != nil {
					return "resolving the entity before its removal: " + err.Error()
				}
			}
			remove := func() error {
				if kind == "bug" {
					return c.Bugs().Remove(T.id.String())
				}
				return c.Identities().Remove(T.id.String())
			}
			err := remove()
			if v.Via == "cacheflaky" && nRemoved >= failAt {
				// the removal of one ref failed on the way: the call has to say so, and repeating it finishes the job
				if err == nil {
					return fmt.Sprintf("the removal of ref #%d failed and the cache removal reported no error", failAt)
				}
				err = remove()
			}
			if err != nil {
				return "cache removal failed: " + err.Error()
			}
		}
		if why := checkRefs("after cache removal"); why != "" {
			_ = c.Close()
			return why
		}
		if why := cacheView(c, kind, ents, v.After.Cexc, "live cache"); why != "" {
			_ = c.Close()
			return why
		}
		// repeating it finds nothing and harms nothing
		if kind == "bug" {
			err = c.Bugs().Remove(T.id.String())
		} else {
			err = c.Identities().Remove(T.id.String())
		}
		if err == nil {
			_ = c.Close()
			return "second removal of the same entity succeeded"
		}
		if why := checkRefs("after second cache removal"); why != "" {
			_ = c.Close()
			return why
		}
		// merge without a new fetch, then close, reopen (load) and rebuild
		for _, m := range v.Remotes {
			for range c.MergeAll(m) {
			}
		}
		if why := cacheView(c, kind, ents, mergedView(v), "after MergeAll without fetch"); why != "" {
			_ = c.Close()
			return why
		}
		_ = c.Close()
		c, err = hx.OpenCache(repo)
		if err != nil {
			return "reopen: " + err.Error()
		}
		if why := cacheView(c, kind, ents, mergedView(v), "after reopen"); why != "" {
			_ = c.Close()
			return why
		}
		_ = c.Close()
		_ = os.RemoveAll(filepath.Join(dir, ".git", "git-bug", "cache"))
		_ = os.RemoveAll(filepath.Join(dir, ".git", "git-bug", "indexes"))
		c, err = hx.OpenCache(repo)
		if err != nil {
			return "rebuild: " + err.Error()
		}
		why := cacheView(c, kind, ents, mergedView(v), "after rebuild")
		_ = c.Close()
		return why
	case "wipe":
		c, err := hx.OpenCache(repo)
		if err != nil {
			return "cache open: " + err.Error()
		}
		if has(v.Before.Conf, "git-bug.identity") {
			ic, err := c.Identities().Resolve(author.Id())
			hx.Must(err)
			hx.Must(c.SetUserIdentity(ic))
		}
		_ = c.Close()
		// another tool's section whose name begins like git-bug's own
		if out, err := exec.Command("git", "-C", dir, "config", "git-bug-sync.interval", "5").CombinedOutput(); err != nil {
			hx.Die("git config: %v %s", err, out)
		}
		cmd := exec.Command(gitbug, "wipe")
		cmd.Dir = dir
		wout, err := cmd.CombinedOutput()
		if err != nil {
			return fmt.Sprintf("git-bug wipe failed (git-bug configuration before: %v): %v: %s", v.Before.Conf, err, wout)
		}
		have := gitRefs()
		for r := range have {
			if strings.HasPrefix(r, "refs/bugs/") || strings.HasPrefix(r, "refs/identities/") ||
				(strings.HasPrefix(r, "refs/remotes/") && (strings.Contains(r, "/bugs/") || strings.Contains(r, "/identities/"))) {
				_, lerr := os.Stat(filepath.Join(dir, ".git", r))
				pk, _ := os.ReadFile(filepath.Join(dir, ".git", "packed-refs"))
				return fmt.Sprintf("wipe left ref %s (loose file: %v; packed-refs lists it: %v; wipe said: %s)", r, lerr == nil, strings.Contains(string(pk), r), strings.TrimSpace(string(wout)))
			}
		}
		for _, ref := range hostTracking {
			if !have[ref] {
				return "wipe removed the host project's remote-tracking branch " + ref
			}
		}
		if !have["refs/heads/unrelated"] {
			return "wipe removed an unrelated branch"
		}
		out, _ := exec.Command("git", "-C", dir, "config", "--local", "--list").CombinedOutput()
		for _, l := range strings.Split(string(out), "\n") {
			if strings.HasPrefix(l, "git-bug.") {
				return "wipe left configuration " + l
			}
		}
		if !strings.Contains(string(out), "user.name=") || !strings.Contains(string(out), "git-bug-sync.interval=5") {
			return "wipe removed foreign configuration"
		}
		if _, err := os.Stat(filepath.Join(dir, ".git", "git-bug")); err == nil {
			entries, _ := os.ReadDir(filepath.Join(dir, ".git", "git-bug"))
			if len(entries) > 0 {
				var names []string
				for _, e := range entries {
					names = append(names, e.Name())
				}
				return fmt.Sprintf("wipe left local storage behind: %v", names)
			}
		}
	}
	return ""
}

// after a MergeAll without fetch the entities that were only remote-tracked exist locally; the removed one does not come back
func mergedView(v Vec) []string { return v.After.Merged }

func foreign(dir string, repo repository.ClockedRepo, ents map[string]*ent, ns string) string {
	out, err := exec.Command("git", "-C", dir, "for-each-ref", "--format=%(refname)=%(objectname)").Output()
	if err != nil {
		hx.Die("git for-each-ref: %v", err)
	}
	refs := strings.Split(strings.TrimSpace(string(out)), "\n")
	sort.Strings(refs)
	var keep []string
	t := ents["T"].id.String()
	for _, r := range refs {
		if strings.HasSuffix(strings.SplitN(r, "=", 2)[0], "/"+t) {
			continue
		}
		keep = append(keep, r)
	}
	cfg, _ := repo.LocalConfig().ReadAll("")
	var ks []string
	for k, val := range cfg {
		ks = append(ks, k+"="+val)
	}
	sort.Strings(ks)
	return strings.Join(keep, ";") + "|" + strings.Join(ks, ";")
}

func cacheView(c *cache.RepoCache, kind string, ents map[string]*ent, want []string, when string) string {
	var got []string
	for name, e := range ents {
		found := false
		if kind == "bug" {
			_, err := c.Bugs().ResolveExcerpt(e.id)
			found = err == nil
			_, err2 := c.Bugs().ResolvePrefix(e.id.String())
			// by its full id too: this path goes through the loaded instances, not through the excerpts
			if _, errId := c.Bugs().Resolve(e.id); (errId == nil) != found {
				return fmt.Sprintf("%s: the cache disagrees with itself about %s (excerpt %v, resolve by id %v)", when, name, found, errId == nil)
			}
			q, _ := query.Parse("title:zebra" + name)
			res, _ := c.Bugs().Query(q)
			q2, _ := query.Parse("zebra" + name)
			res2, err3 := c.Bugs().Query(q2)
			if (err2 == nil) != found || (len(res) == 1) != found || err3 != nil || (len(res2) == 1) != found {
				return fmt.Sprintf("%s: the cache disagrees with itself about %s (excerpt %v, resolve %v, title query %d, full-text %d)", when, name, found, err2 == nil, len(res), len(res2))
			}
		} else {
			_, err := c.Identities().ResolveExcerpt(e.id)
			found = err == nil
			_, err2 := c.Identities().ResolvePrefix(e.id.String())
			if _, errId := c.Identities().Resolve(e.id); (errId == nil) != found {
				return fmt.Sprintf("%s: the cache disagrees with itself about %s (excerpt %v, resolve by id %v)", when, name, found, errId == nil)
			}
			if (err2 == nil) != found {
				return fmt.Sprintf("%s: the cache disagrees with itself about %s", when, name)
			}
		}
		if found {
			got = append(got, name)
		}
	}
	if sortedKey(got) != sortedKey(want) {
		return fmt.Sprintf("%s: the cache serves %v, specification %v", when, got, want)
	}
	return ""
}

func Worker(args []string) {
	gitbug = args[0]
	hx.Serve(func(item json.RawMessage) interface{} {
		var v Vec
		hx.Must(json.Unmarshal(item, &v))
		if v.Via == "wipe" {
			return map[string]string{"why": one(v, "bug", true)}
		}
		for _, kind := range []string{"bug", "identity"} {
			if why := one(v, kind, false); why != "" {
				return map[string]string{"why": kind + ": " + why}
			}
		}
		if v.Via == "cache" {
			if why := one(v, "bug", true); why != "" {
				return map[string]string{"why": "bug via CLI: " + why}
			}
		}
		return map[string]string{"why": ""}
	})
}

// Run: vh remove <vectors> <out> <git-bug binary>
func Run(args []string) {
	items := hx.ReadLines(args[0])
	out := hx.NewWriter(args[1])
	defer out.Close()
	res := hx.Isolated("remove-worker", items, 0, args[2])
	bad := 0
	for i, r := range res {
		var a map[string]string
		hx.Must(json.Unmarshal(r, &a))
		why := a["why"]
		if c, ok := a["crash"]; ok {
			why = "process crashed: " + c
		}
		if why != "" {
			bad++
			out.Put(map[string]interface{}{"vec": items[i], "why": why})
		}
	}
	out.Put(map[string]interface{}{"stats": map[string]int{"executed": len(items), "mismatches": bad}})
}
