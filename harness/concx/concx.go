// Package concx runs generated mixes of cache calls from several goroutines against one real RepoCache, as the web UI
// server does, records every acknowledged operation and, once the goroutines are done, what is stored (C18).
package concx

import (
	"context"
	"encoding/gob"
	"encoding/json"
	"fmt"
	"github.com/go-git/go-billy/v5"
	"os"
	"os/exec"
	"path/filepath"
	"runtime"
	"sort"
	"strings"
	"sync"
	"sync/atomic"
	"time"

	"github.com/MichaelMure/git-bug/cache"
	"github.com/MichaelMure/git-bug/entities/bug"
	"github.com/MichaelMure/git-bug/entity"
	"github.com/MichaelMure/git-bug/query"
	"github.com/MichaelMure/git-bug/repository"

	"verif/harness/hx"
)

type Config struct {
	Seed     uint64 `json:"seed"`
	Workers  int    `json:"workers"`
	Calls    int    `json:"calls"`
	Shared   int    `json:"shared"`
	Size     int    `json:"size"`
	Procs    int    `json:"procs"`
	ColdOpen bool   `json:"cold"`    // reopen the cache before the run so that shared bugs are not loaded
	Rounds   int    `json:"rounds"`  // rounds of concurrent calls with a barrier (and a consistency check) in between; 0 = 1
	Readers  int    `json:"readers"` // goroutines that only ask (listings, queries, lookups), in a loop, for as long as the others work
	Filler   int    `json:"filler"`  // bugs nobody edits: they make the listings long
	Storm    bool   `json:"storm"`   // every round: all workers stage a comment on the same bug, wait for each other, then CommitAsNeeded at once
}

type Ack struct {
	G   int    `json:"g"`
	Bug int    `json:"bug"`
	Op  string `json:"op"`
}

type BugState struct {
	Bug      int      `json:"bug"`
	Stored   []string `json:"stored"`
	Readable bool     `json:"readable"`
	Valid    bool     `json:"valid"`
	Err      string   `json:"err"`
}

type Result struct {
	Ev        string     `json:"ev"`
	Config    Config     `json:"config"`
	Acks      []Ack      `json:"acks"`
	Maybes    []Ack      `json:"maybes"`   // operations of calls that returned an error after the operation was made
	MayEvict  bool       `json:"mayevict"` // more bugs than the cache may hold: eviction of instances in use is possible
	Bugs      []BugState `json:"bugs"`
	Deadlock  bool       `json:"deadlock"`
	Panics    []string   `json:"panics"`
	Errors    []string   `json:"errors"`
	Agrees    bool       `json:"agrees"`
	Diff      string     `json:"diff"`
	ClockFile int        `json:"clockfile"`
	ClockMem  int        `json:"clockmem"`
	Crash     string     `json:"crash"`
	Stale     string     `json:"stale"` // at a barrier: an excerpt that is not what its instance holds
}

type rng struct{ s uint64 }

func (r *rng) n(k int) int {
	r.s ^= r.s << 13
	r.s ^= r.s >> 7
	r.s ^= r.s << 17
	return int((r.s >> 3) % uint64(k))
}

// slowCreateFS delays the creation of the cache's own files by a few milliseconds, a different amount each time: whatever the code
// under test does between computing what to write and writing it gets room to be overtaken (a scheduler gate: under the locks the
// code holds it changes nothing but the pace)
type slowCreateFS struct {
	billy.Filesystem
	n *int64
}

func (f slowCreateFS) Create(name string) (billy.File, error) {
	if strings.HasPrefix(name, "cache") {
		k := atomic.AddInt64(f.n, 1)
		time.Sleep(time.Duration((k*7)%4) * time.Millisecond)
	}
	return f.Filesystem.Create(name)
}

// excerptFile reads the excerpt file of the bugs as the next process would.
func excerptFile(dir string) (map[entity.Id]*cache.BugExcerpt, error) {
	f, err := os.Open(filepath.Join(dir, ".git", "git-bug", "cache", "bugs"))
	if err != nil {
		return nil, err
	}
	defer f.Close()
	aux := struct {
		Version  uint
		Excerpts map[entity.Id]*cache.BugExcerpt
	}{}
	if err := gob.NewDecoder(f).Decode(&aux); err != nil {
		return nil, err
	}
	return aux.Excerpts, nil
}

// barrierCheck: between two rounds of concurrent calls, the excerpt and the index document of every bug against its instance.
func barrierCheck(c *cache.RepoCache, dir string, mu *sync.Mutex, bugIds *[]entity.Id, round int) string {
	mu.Lock()
	ids := append([]entity.Id{}, (*bugIds)...)
	mu.Unlock()
	onDisk, derr := excerptFile(dir)
	if derr != nil {
		return fmt.Sprintf("after round %d the excerpt file cannot be read: %v", round+1, derr)
	}
	for _, id := range ids {
		e, err1 := c.Bugs().ResolveExcerpt(id)
		b, err2 := c.Bugs().Resolve(id)
		if err1 != nil || err2 != nil {
			continue
		}
		s := b.Snapshot()
		if e.Title != s.Title || e.LenComments != len(s.Comments) || e.EditLamportTime != b.EditLamportTime() {
			return fmt.Sprintf("after round %d the excerpt of bug %s says title=%q comments=%d edit time=%d, its instance title=%q comments=%d edit time=%d",
				round+1, id.Human(), e.Title, e.LenComments, e.EditLamportTime, s.Title, len(s.Comments), b.EditLamportTime())
		}
		// ... and the excerpt file, which is what the next process starts from
		if d, ok := onDisk[id]; !ok || d.Title != s.Title || d.LenComments != len(s.Comments) || d.EditLamportTime != b.EditLamportTime() {
			got := "nothing"
			if ok {
				got = fmt.Sprintf("title=%q comments=%d edit time=%d", d.Title, d.LenComments, d.EditLamportTime)
			}
			return fmt.Sprintf("after round %d the excerpt file holds %s about bug %s, its instance title=%q comments=%d edit time=%d",
				round+1, got, id.Human(), s.Title, len(s.Comments), b.EditLamportTime())
		}
		// ... and what the search index holds about it: the bug is found by the last word of its title
		if f := strings.Fields(s.Title); len(f) > 0 && strings.HasPrefix(f[len(f)-1], "word") {
			q := query.NewQuery()
			q.Search = []string{f[len(f)-1]}
			hits, err := c.Bugs().Query(q)
			found := false
			for _, h := range hits {
				found = found || h == id
			}
			if err != nil || !found {
				return fmt.Sprintf("after round %d the search index does not find bug %s by the word %q of its title %q (hits %v, %v)", round+1, id.Human(), f[len(f)-1], s.Title, hits, err)
			}
		}
	}
	return ""
}

func one(cfg Config) *Result {
	runtime.GOMAXPROCS(cfg.Procs)
	res := &Result{Ev: "Run", Config: cfg, Acks: []Ack{}, Maybes: []Ack{}, Bugs: []BugState{}, Panics: []string{}, Errors: []string{}}
	dir := hx.Scratch("conc")
	defer os.RemoveAll(dir)
	if cfg.Rounds > 1 {
		var created int64
		repository.VerifWrapLocalStorage = func(fs billy.Filesystem) billy.Filesystem { return slowCreateFS{fs, &created} }
	}
	repo := hx.InitRepo(dir)
	c, err := hx.OpenCache(repo)
	hx.Must(err)
	u, err := c.Identities().New("web user", "w@example.org")
	hx.Must(err)
	hx.Must(c.SetUserIdentity(u))
	var mu sync.Mutex
	bugIds := []entity.Id{}
	bugNo := map[entity.Id]int{}
	register := func(id entity.Id) int {
		mu.Lock()
		defer mu.Unlock()
		bugIds = append(bugIds, id)
		bugNo[id] = len(bugIds)
		return len(bugIds)
	}
	for i := 0; i < cfg.Filler; i++ {
		b, op, err := c.Bugs().New(fmt.Sprintf("filler %d", i), "message")
		hx.Must(err)
		n := register(b.Id())
		res.Acks = append(res.Acks, Ack{G: 0, Bug: n, Op: op.Id().String()})
	}
	for i := 0; i < cfg.Shared; i++ {
		b, op, err := c.Bugs().New(fmt.Sprintf("shared %d", i), "message")
		hx.Must(err)
		n := register(b.Id())
		res.Acks = append(res.Acks, Ack{G: 0, Bug: n, Op: op.Id().String()})
	}
	if cfg.ColdOpen {
		hx.Must(c.Close())
		repo, err = repository.OpenGoGitRepo(dir, "git-bug", nil)
		hx.Must(err)
		c, err = hx.OpenCache(repo)
		hx.Must(err)
	}
	c.Bugs().SetCacheSize(cfg.Size)

	ack := func(g, bugN int, id entity.Id) {
		mu.Lock()
		res.Acks = append(res.Acks, Ack{G: g, Bug: bugN, Op: id.String()})
		mu.Unlock()
	}
	maybe := func(g, bugN int, id entity.Id) {
		mu.Lock()
		res.Maybes = append(res.Maybes, Ack{G: g, Bug: bugN, Op: id.String()})
		mu.Unlock()
	}
	fail := func(g int, what string, err error) {
		mu.Lock()
		if len(res.Errors) < 20 {
			res.Errors = append(res.Errors, fmt.Sprintf("g%d %s: %v", g, what, err))
		}
		mu.Unlock()
	}
	var attempted int64 // bugs the workers tried to create
	rounds := cfg.Rounds
	if rounds < 1 {
		rounds = 1
	}
	stuck := false
	for round := 0; round < rounds && !stuck && res.Stale == ""; round++ {
		var wg sync.WaitGroup
		var staged sync.WaitGroup
		staged.Add(cfg.Workers)
		var progress int64
		start := make(chan struct{})
		for g := 1; g <= cfg.Workers; g++ {
			wg.Add(1)
			go func(g int) {
				defer wg.Done()
				defer func() {
					if p := recover(); p != nil {
						mu.Lock()
						res.Panics = append(res.Panics, fmt.Sprintf("g%d: %v", g, p))
						mu.Unlock()
					}
				}()
				r := &rng{s: cfg.Seed*1000003 + uint64(g)*7919 + uint64(round)*104729 + 1}
				var private []entity.Id
				<-start
				if cfg.Storm {
					// everybody stages a comment on the same bug, waits for the others, and commits at the same moment
					id := bugIds[0]
					b, err := c.Bugs().Resolve(id)
					if err != nil {
						fail(g, "Resolve", err)
						staged.Done()
						return
					}
					_, op, err := b.AddComment(fmt.Sprintf("comment g%d round %d", g, round))
					staged.Done()
					staged.Wait()
					if err != nil {
						fail(g, "AddComment", err)
						return
					}
					if err := b.CommitAsNeeded(); err != nil {
						maybe(g, 1, op.Id())
						fail(g, "CommitAsNeeded", err)
						return
					}
					atomic.AddInt64(&progress, 1)
					ack(g, 1, op.Id())
					return
				}
				for k := 0; k < cfg.Calls; k++ {
					atomic.AddInt64(&progress, 1)
					choice := r.n(10)
					var id entity.Id
					if cfg.Shared > 0 && (choice < 6 || len(private) == 0) {
						id = bugIds[r.n(cfg.Shared)]
					} else if len(private) > 0 {
						id = private[r.n(len(private))]
					}
					switch {
					case choice == 9 || (cfg.Shared == 0 && len(private) == 0):
						atomic.AddInt64(&attempted, 1) // a creation that reports an error may have written the bug all the same
						b, op, err := c.Bugs().New(fmt.Sprintf("private g%d k%d", g, k), "message")
						if err != nil {
							fail(g, "New", err)
							continue
						}
						n := register(b.Id())
						private = append(private, b.Id())
						ack(g, n, op.Id())
					case choice == 8:
						// every way of asking the cache something: filters, full-text search (through the index), listings, lookups
						switch r.n(7) {
						case 0:
							q, _ := query.Parse("status:open")
							if _, err := c.Bugs().Query(q); err != nil {
								fail(g, "Query", err)
							}
						case 1, 2:
							q, _ := query.Parse([]string{"message", "shared status:open", "private sort:edit", "comment label:l1"}[r.n(4)])
							if _, err := c.Bugs().Query(q); err != nil {
								fail(g, "Query (full text)", err)
							}
						case 3:
							for _, x := range c.Bugs().AllIds() {
								_, _ = c.Bugs().ResolveExcerpt(x)
							}
						case 4:
							_ = c.Bugs().ValidLabels()
						case 5:
							if id != "" {
								_, _ = c.Bugs().ResolvePrefix(id.String()[:8])
								_, _ = c.Bugs().ResolveExcerptPrefix(id.String()[:8])
							}
						case 6:
							_, _ = c.Bugs().ResolveBugCreateMetadata("no-such-key", "v")
							_ = c.Identities().AllIds()
						}
					default:
						b, err := c.Bugs().Resolve(id)
						if err != nil {
							fail(g, "Resolve", err)
							continue
						}
						mu.Lock()
						n := bugNo[id]
						mu.Unlock()
						// three calls in four are edits that get committed (the share the refused edits must not eat into)
						switch []int{0, 0, 0, 0, 2, 2, 3 + r.n(3), 3 + r.n(3)}[r.n(8)] {
						case 0, 1:
							_, op, err := b.AddComment(fmt.Sprintf("comment g%d k%d", g, k))
							if err != nil && op != nil {
								maybe(g, n, op.Id()) // the call failed after the operation was staged: its fate is open
							}
							if err == nil {
								// the two ways to commit: Commit (an error when another goroutine's commit took the operation along)
								// and CommitAsNeeded (nothing to do in that case)
								if (k+g)%2 == 0 {
									err = b.CommitAsNeeded()
								} else {
									err = b.Commit()
								}
								if err != nil {
									maybe(g, n, op.Id())
								}
							}
							if err != nil {
								fail(g, "AddComment+Commit", err)
								continue
							}
							ack(g, n, op.Id())
						case 2:
							op, err := b.SetTitle(fmt.Sprintf("title g%d k%d word%dx%dx%d", g, k, g, k, round))
							if err != nil && op != nil {
								maybe(g, n, op.Id())
							}
							if err == nil {
								err = b.Commit()
								if err != nil {
									maybe(g, n, op.Id())
								}
							}
							if err != nil {
								fail(g, "SetTitle+Commit", err)
								continue
							}
							ack(g, n, op.Id())
						case 3:
							_ = b.Snapshot()
						case 4:
							// three labels for everybody: the first to add one wins, the others are rightly refused (nothing changes)
							_, op, err := b.ChangeLabels([]string{[]string{"l1", "l2", "l3"}[r.n(3)]}, nil)
							if err != nil {
								if op != nil {
									maybe(g, n, op.Id())
								}
								continue
							}
							if err = b.Commit(); err != nil {
								maybe(g, n, op.Id())
								fail(g, "ChangeLabels+Commit", err)
								continue
							}
							ack(g, n, op.Id())
						case 5:
							// a refused edit leaves the bug as usable as before
							if op, err := b.SetTitle("   "); err == nil {
								maybe(g, n, op.Id())
								fail(g, "SetTitle", fmt.Errorf("an empty title was accepted"))
							}
						}
					}
				}
			}(g)
		}
		done := make(chan struct{})
		go func() { wg.Wait(); close(done) }()
		// readers: every way of asking, in a loop, until the workers of this round are done
		var rwg sync.WaitGroup
		for g := 0; g < cfg.Readers; g++ {
			rwg.Add(1)
			go func(g int) {
				defer rwg.Done()
				defer func() {
					if p := recover(); p != nil {
						mu.Lock()
						res.Panics = append(res.Panics, fmt.Sprintf("reader %d: %v", g, p))
						mu.Unlock()
					}
				}()
				<-start
				for k := 0; ; k++ {
					select {
					case <-done:
						return
					default:
					}
					switch (k + g) % 4 {
					case 0:
						for _, x := range c.Bugs().AllIds() {
							_, _ = c.Bugs().ResolveExcerpt(x)
						}
					case 1:
						_ = c.Identities().AllIds()
						_ = c.Bugs().ValidLabels()
					case 2:
						q, _ := query.Parse("filler sort:edit")
						_, _ = c.Bugs().Query(q)
					case 3:
						q, _ := query.Parse("status:open")
						_, _ = c.Bugs().Query(q)
					}
					// (not counted as progress: the watchdog is about the calls that change something)
				}
			}(g)
		}
		close(start)
		// a deadlock is the absence of progress, not slowness: no call completed anywhere for 15 seconds
		last, idle := int64(-1), 0
	watch:
		for {
			select {
			case <-done:
				break watch
			case <-time.After(time.Second):
				if p := atomic.LoadInt64(&progress); p == last {
					idle++
				} else {
					last, idle = p, 0
				}
				if idle >= 15 {
					stuck = true
					break watch
				}
			}
		}
		if !stuck {
			rdone := make(chan struct{})
			go func() { rwg.Wait(); close(rdone) }()
			select {
			case <-rdone:
			case <-time.After(20 * time.Second):
				stuck = true // a reader that never comes back
			}
		}
		if !stuck && rounds > 1 {
			// everybody is done with this round: what the cache lists about a bug is what its instance holds. The looks themselves
			// go through the cache: when a lock was left behind they never come back, which is a deadlock like any other
			checked := make(chan string, 1)
			go func(round int) { checked <- barrierCheck(c, dir, &mu, &bugIds, round) }(round)
			select {
			case st := <-checked:
				res.Stale = st
			case <-time.After(20 * time.Second):
				stuck = true
			}
		}
	}
	if stuck {
		res.Deadlock = true
		mu.Lock()
		res.MayEvict = cfg.Size < cfg.Shared+cfg.Filler+int(atomic.LoadInt64(&attempted))
		mu.Unlock()
		buf := make([]byte, 1<<16)
		n := runtime.Stack(buf, true)
		res.Diff = string(buf[:n])
		if len(res.Diff) > 4000 {
			res.Diff = res.Diff[:4000]
		}
		return res
	}
	res.MayEvict = cfg.Size < cfg.Shared+cfg.Filler+int(atomic.LoadInt64(&attempted))
	// clocks: what the process holds in memory against what a restart would read
	if clk, err := repo.GetOrCreateClock("bugs-edit"); err == nil {
		res.ClockMem = int(clk.Time())
	}
	if data, err := os.ReadFile(filepath.Join(dir, ".git", "git-bug", "clocks", "bugs-edit")); err == nil {
		fmt.Sscan(strings.TrimSpace(string(data)), &res.ClockFile)
	}
	// what is stored, read independently of the cache
	live := serve(c)
	_ = c.Close()
	repo2, err := repository.OpenGoGitRepo(dir, "git-bug", nil)
	hx.Must(err)
	for n, id := range bugIds {
		st := BugState{Bug: n + 1, Stored: []string{}}
		b, err := bug.Read(repo2, id)
		if err != nil {
			st.Err = err.Error()
		} else {
			st.Readable = true
			for _, op := range b.Operations() {
				st.Stored = append(st.Stored, op.Id().String())
			}
			if verr := b.Validate(); verr != nil {
				st.Err = verr.Error()
			} else {
				st.Valid = true
			}
		}
		res.Bugs = append(res.Bugs, st)
	}
	_ = repo2.Close()
	// the cache as the next process finds it: opened again on the files the goroutines left (excerpts and index as written last)
	reopened := ""
	if repoR, err := repository.OpenGoGitRepo(dir, "git-bug", nil); err == nil {
		if cR, err := hx.OpenCache(repoR); err == nil {
			reopened = serve(cR)
			_ = cR.Close()
		} else {
			reopened = "reopening failed: " + err.Error()
		}
	}
	// a cache rebuilt from scratch
	_ = os.RemoveAll(filepath.Join(dir, ".git", "git-bug", "cache"))
	_ = os.RemoveAll(filepath.Join(dir, ".git", "git-bug", "indexes"))
	repo3, err := repository.OpenGoGitRepo(dir, "git-bug", nil)
	hx.Must(err)
	c3, err := hx.OpenCache(repo3)
	if err != nil {
		res.Diff = "rebuild failed: " + err.Error()
		return res
	}
	rebuilt := serve(c3)
	_ = c3.Close()
	res.Agrees = live == rebuilt && reopened == rebuilt
	if live != rebuilt {
		res.Diff = firstDiff(live, rebuilt)
	} else if reopened != rebuilt {
		res.Diff = "the cache opened again on the files left behind: " + firstDiff(reopened, rebuilt)
	}
	return res
}

func firstDiff(a, b string) string {
	la, lb := strings.Split(a, "\n"), strings.Split(b, "\n")
	for i := 0; i < len(la) && i < len(lb); i++ {
		if la[i] != lb[i] {
			return fmt.Sprintf("live cache: %s\nrebuilt:    %s", la[i], lb[i])
		}
	}
	return fmt.Sprintf("live cache serves %d lines, rebuilt %d", len(la), len(lb))
}

func serve(c *cache.RepoCache) string {
	var sb strings.Builder
	ids := c.Bugs().AllIds()
	sort.Slice(ids, func(i, j int) bool { return ids[i] < ids[j] })
	for _, id := range ids {
		e, err := c.Bugs().ResolveExcerpt(id)
		if err != nil {
			fmt.Fprintf(&sb, "%s excerpt error %v\n", id, err)
			continue
		}
		fmt.Fprintf(&sb, "%s excerpt title=%q comments=%d et=%d status=%s\n", id, e.Title, e.LenComments, e.EditLamportTime, e.Status)
		b, err := c.Bugs().Resolve(id)
		if err != nil {
			fmt.Fprintf(&sb, "%s resolve error %v\n", id, err)
			continue
		}
		s := b.Snapshot()
		fmt.Fprintf(&sb, "%s snapshot title=%q ops=%d comments=%d\n", id, s.Title, len(s.Operations), len(s.Comments))
	}
	for _, word := range []string{"shared", "private", "comment", "title"} {
		q := query.NewQuery()
		q.Search = []string{word}
		res, err := c.Bugs().Query(q)
		sort.Slice(res, func(i, j int) bool { return res[i] < res[j] })
		fmt.Fprintf(&sb, "search %s => %d hits %v\n", word, len(res), err)
	}
	return sb.String()
}

// Child: vh conc-child <config json>: one run in its own process (a deadlock or a fatal error must not take the driver down)
func Child(args []string) {
	var cfg Config
	hx.Must(json.Unmarshal([]byte(args[0]), &cfg))
	res := one(cfg)
	b, _ := json.Marshal(res)
	fmt.Println(string(b))
}

// Run: vh conc <out> <runs>
func Run(args []string) {
	out := hx.NewWriter(args[0])
	defer out.Close()
	runs := 20
	fmt.Sscan(args[1], &runs)
	seed := uint64(hx.Seed())
	var cfgs []Config
	for i := 0; i < runs; i++ {
		cfg := Config{Seed: seed*131 + uint64(i), Workers: []int{2, 3, 4, 8, 16}[i%5], Calls: 6 + i%7, Shared: []int{1, 2, 0, 1}[i%4],
			Size: []int{1000, 1000, 1000, 2, 1000, 1000, 1, 1000}[i%8], Procs: []int{16, 4, 1, 8, 2}[(i/2)%5], ColdOpen: i%3 != 2}
		cfgs = append(cfgs, cfg)
	}
	// hot spots: many workers on one or two shared bugs, no eviction, many short rounds
	for i := 0; i < runs/4+1; i++ {
		cfgs = append(cfgs, Config{Seed: seed*977 + uint64(i), Workers: []int{4, 8, 6}[i%3], Calls: 3 + i%3, Shared: 1 + i%2, Size: 1000,
			Procs: []int{16, 8, 4}[i%3], ColdOpen: false, Rounds: 40, Readers: []int{0, 3, 2}[i%3], Filler: []int{0, 40, 25}[i%3]})
	}
	// listings against edits: readers in a loop over long listings while several workers edit, truly in parallel
	for i := 0; i < 3+runs/100; i++ {
		cfgs = append(cfgs, Config{Seed: seed*7717 + uint64(i), Workers: 6, Calls: 10, Shared: 2, Size: 1000, Procs: 16, ColdOpen: false, Rounds: 12,
			Readers: 6, Filler: 60})
	}
	// commits of one bug by several goroutines at the same moment
	for i := 0; i < 3+runs/100; i++ {
		cfgs = append(cfgs, Config{Seed: seed*5501 + uint64(i), Workers: []int{4, 8, 3}[i%3], Calls: 1, Shared: 1, Size: 1000, Procs: 16, ColdOpen: false, Rounds: 60, Storm: true})
	}
	results := make([]*Result, len(cfgs))
	hx.Parallel(len(cfgs), 4, func(i int) {
		b, _ := json.Marshal(cfgs[i])
		ctx, cancel := context.WithTimeout(context.Background(), 10*time.Minute)
		defer cancel()
		cmd := exec.CommandContext(ctx, os.Args[0], "conc-child", string(b))
		outb, err := cmd.Output()
		var r Result
		if ctx.Err() != nil {
			// the run never ended (the looks at the end go through the cache too: a lock left behind blocks them for good)
			results[i] = &Result{Ev: "Run", Config: cfgs[i], Acks: []Ack{}, Maybes: []Ack{}, Bugs: []BugState{}, Panics: []string{}, Errors: []string{},
				Deadlock: true, MayEvict: cfgs[i].Size < 1000, Diff: "the run did not end within 10 minutes"}
			return
		}
		lines := strings.Split(strings.TrimSpace(string(outb)), "\n")
		if err != nil || json.Unmarshal([]byte(lines[len(lines)-1]), &r) != nil {
			msg := ""
			if ee, ok := err.(*exec.ExitError); ok {
				msg = string(ee.Stderr)
			}
			if idx := strings.Index(msg, "fatal error"); idx >= 0 {
				msg = msg[idx:]
			} else if idx := strings.Index(msg, "panic:"); idx >= 0 {
				msg = msg[idx:]
			}
			if len(msg) > 2500 {
				msg = msg[:2500]
			}
			r = Result{Ev: "Run", Config: cfgs[i], Acks: []Ack{}, Maybes: []Ack{}, Bugs: []BugState{}, Panics: []string{}, Errors: []string{}, Crash: "process died: " + strings.SplitN(msg, "\n", 2)[0], Diff: msg}
		}
		results[i] = &r
	})
	for _, r := range results {
		out.Put(r)
	}
}

// ClockCmd: vh conc-clock <out> <rounds>: goroutines incrementing and witnessing one persisted clock of a repository at once
// (what concurrent commits on different bugs do); afterwards the clock file must hold what the process holds in memory.
func ClockCmd(args []string) {
	out := hx.NewWriter(args[0])
	defer out.Close()
	rounds := 50
	fmt.Sscan(args[1], &rounds)
	for r := 0; r < rounds; r++ {
		dir := hx.Scratch("concclk")
		repo := hx.InitRepo(dir)
		_, err := repo.GetOrCreateClock("bugs-edit")
		hx.Must(err)
		// every other round the goroutines are the first users of the clock in this process: the repository is opened anew
		// (without clock loaders, as the commands open it) on a clock file that holds a value, and all start at once
		cold := r%2 == 1
		if cold {
			for k := 0; k < 1+r%5; k++ {
				_, err := repo.Increment("bugs-edit")
				hx.Must(err)
			}
			hx.Must(repo.Close())
			repo, err = repository.OpenGoGitRepo(dir, "git-bug", nil)
			hx.Must(err)
		}
		var wg sync.WaitGroup
		workers := 2 + r%7
		if cold {
			workers = []int{2, 4, 8, 16}[(r/2)%4]
		}
		issued := make([][]int, workers)
		start := make(chan struct{})
		for g := 0; g < workers; g++ {
			wg.Add(1)
			go func(g int) {
				defer wg.Done()
				<-start
				for k := 0; k < 20; k++ {
					t, err := repo.Increment("bugs-edit")
					hx.Must(err)
					issued[g] = append(issued[g], int(t))
				}
			}(g)
		}
		close(start)
		wg.Wait()
		c, _ := repo.GetOrCreateClock("bugs-edit")
		mem := int(c.Time())
		file := 0
		if data, err := os.ReadFile(filepath.Join(dir, ".git", "git-bug", "clocks", "bugs-edit")); err == nil {
			fmt.Sscan(strings.TrimSpace(string(data)), &file)
		}
		all := []int{}
		for _, x := range issued {
			all = append(all, x...)
		}
		sort.Ints(all)
		unique := true
		for i := 1; i < len(all); i++ {
			if all[i] == all[i-1] {
				unique = false
			}
		}
		out.Put(map[string]interface{}{"ev": "Clock", "cold": cold, "workers": workers, "mem": mem, "file": file, "issued": len(all), "unique": unique, "max": all[len(all)-1]})
		_ = repo.Close()
		_ = os.RemoveAll(dir)
	}
}
