package apix

import (
	"encoding/json"
	"fmt"
	"sort"
	"strconv"
	"strings"
	"sync"
	"time"

	"github.com/MichaelMure/git-bug/entities/bug"
	"github.com/MichaelMure/git-bug/entity"

	"verif/harness/hx"
)

// Sequences of mutation requests against one bug (spec/ApiSeq.tla): after every request the bug as the API returned it,
// the bug as stored in git, the authors of the new operations and whether anything persistent moved are logged.

type SeqReq struct {
	Name string   `json:"name"`
	Auth bool     `json:"auth"`
	I    int      `json:"i"`
	Add  []string `json:"add"`
	Rem  []string `json:"rem"`
	// Race: the (authenticated) request meets the same request sent without a user, at the same time, on a bug the server has
	// not loaded yet (the cache was just reopened): the refused one must have no part in what happens to the other
	Race bool `json:"race"`
}

type SeqSched struct {
	Reqs []SeqReq `json:"reqs"`
}

type BugProj struct {
	Status string   `json:"status"`
	Labels []string `json:"labels"`
	Title  int      `json:"title"`
	Was    int      `json:"was"` // what the last title change says it replaced (-1: the title was never changed)
	Text   []int    `json:"text"`
	Nops   int      `json:"nops"`
}

type SeqEvent struct {
	Ev         string   `json:"ev"`
	Sess       int      `json:"sess"`
	Configured string   `json:"configured"`
	Name       string   `json:"name"`
	Auth       bool     `json:"auth"`
	I          int      `json:"i"`
	Add        []string `json:"add"`
	Rem        []string `json:"rem"`
	Refused    bool     `json:"refused"`
	Detail     string   `json:"detail"`
	Returned   BugProj  `json:"returned"`
	Stored     BugProj  `json:"stored"`
	ByUser     bool     `json:"byuser"`
	Changed    bool     `json:"changed"`
	Race       bool     `json:"race"`
	AnonOK     bool     `json:"anonok"` // Race: the request without a user was refused and returned nothing
	Hung       bool     `json:"hung"`   // the request (or the look at the state around it) did not come back
}

func token(s, prefix string) int {
	if !strings.HasPrefix(s, prefix) {
		return -9
	}
	n, err := strconv.Atoi(strings.TrimPrefix(s, prefix))
	if err != nil {
		return -9
	}
	return n
}

const seqSel = `bug{title status labels{name} comments(first:100){nodes{message}} operations(first:1){totalCount} timeline(first:100){nodes{__typename ... on SetTitleTimelineItem{title was}}}}`

func projReturned(rb map[string]interface{}) BugProj {
	p := BugProj{Labels: []string{}, Text: []int{}, Title: -9, Was: -1}
	if tl, ok := rb["timeline"].(map[string]interface{}); ok {
		for _, n := range tl["nodes"].([]interface{}) {
			if it := n.(map[string]interface{}); it["__typename"] == "SetTitleTimelineItem" {
				p.Was = token(it["was"].(string), "title ")
			}
		}
	}
	if t, ok := rb["title"].(string); ok {
		p.Title = token(t, "title ")
	}
	p.Status, _ = rb["status"].(string)
	if ls, ok := rb["labels"].([]interface{}); ok {
		for _, l := range ls {
			p.Labels = append(p.Labels, l.(map[string]interface{})["name"].(string))
		}
	}
	sort.Strings(p.Labels)
	if cs, ok := rb["comments"].(map[string]interface{}); ok {
		for _, n := range cs["nodes"].([]interface{}) {
			p.Text = append(p.Text, token(n.(map[string]interface{})["message"].(string), "message "))
		}
	}
	if ops, ok := rb["operations"].(map[string]interface{}); ok {
		p.Nops = int(ops["totalCount"].(float64))
	}
	return p
}

func (w *world) projStored(id entity.Id) BugProj {
	p := BugProj{Labels: []string{}, Text: []int{}, Was: -1}
	b, err := bug.Read(w.repo, id)
	if err != nil {
		p.Status = "unreadable: " + err.Error()
		return p
	}
	s := b.Compile()
	p.Title = token(s.Title, "title ")
	p.Status = strings.ToUpper(s.Status.String())
	for _, l := range s.Labels {
		p.Labels = append(p.Labels, string(l))
	}
	sort.Strings(p.Labels)
	for _, c := range s.Comments {
		p.Text = append(p.Text, token(c.Message, "message "))
	}
	p.Nops = len(s.Operations)
	for _, op := range s.Operations {
		if st, ok := op.(*bug.SetTitleOperation); ok {
			p.Was = token(st.Was, "title ")
		}
	}
	return p
}

func orEmpty(x []string) []string {
	if x == nil {
		return []string{}
	}
	return x
}

// SeqCmd: vh api-seq <schedules> <out>
func SeqCmd(args []string) {
	lines := hx.ReadLines(args[0])
	out := hx.NewWriter(args[1])
	defer out.Close()
	results := make([][]SeqEvent, len(lines))
	hx.Parallel(len(lines), 0, func(n int) {
		var sc SeqSched
		hx.Must(json.Unmarshal([]byte(lines[n]), &sc))
		configured := []string{"same", "other", "none"}[n%3]
		w := newWorld(configured)
		hung := false
		defer func() {
			if !hung {
				w.close()
			}
		}()
		u, err := w.rc.Identities().Resolve(w.other)
		hx.Must(err)
		sb, _, err := w.rc.Bugs().NewRaw(u, 1600000100, "title 0", "message 0", nil, nil)
		hx.Must(err)
		id := sb.Id()
		evs := []SeqEvent{{Ev: "Reset", Sess: n, Configured: configured, Add: []string{}, Rem: []string{}, Returned: BugProj{Labels: []string{}, Text: []int{}, Was: -1}, Stored: w.projStored(id)}}
		one := func(k int, r SeqReq) SeqEvent {
			k1 := k + 1
			ev := SeqEvent{Ev: "Request", Sess: n, Configured: configured, Name: r.Name, Auth: r.Auth, I: r.I, Add: orEmpty(r.Add), Rem: orEmpty(r.Rem),
				Returned: BugProj{Labels: []string{}, Text: []int{}, Was: -1}}
			prefix := id.String()[:12]
			field, typ := r.Name, ""
			in := map[string]interface{}{"prefix": prefix}
			switch r.Name {
			case "addComment":
				typ, in["message"] = "AddCommentInput", fmt.Sprintf("message %d", k1)
			case "addCommentAndClose":
				typ, in["message"] = "AddCommentAndCloseBugInput", fmt.Sprintf("message %d", k1)
			case "addCommentAndReopen":
				typ, in["message"] = "AddCommentAndReopenBugInput", fmt.Sprintf("message %d", k1)
			case "editComment":
				typ = "EditCommentInput"
				delete(in, "prefix")
				b, err := w.rc.Bugs().Resolve(id)
				hx.Must(err)
				cs := b.Snapshot().Comments
				if r.I >= 1 && r.I <= len(cs) {
					in["targetPrefix"] = string(cs[r.I-1].CombinedId())
				} else {
					in["targetPrefix"] = strings.Repeat("f", 64)
				}
				in["message"] = fmt.Sprintf("message %d", k1)
			case "editCommentAmbiguous":
				// the first character of a combined id: shared by every comment of the bug
				field, typ = "editComment", "EditCommentInput"
				delete(in, "prefix")
				b, err := w.rc.Bugs().Resolve(id)
				hx.Must(err)
				in["targetPrefix"] = string(b.Snapshot().Comments[0].CombinedId())[:1]
				in["message"] = fmt.Sprintf("message %d", k1)
			case "changeLabels":
				typ = "ChangeLabelInput"
				in["added"], in["Removed"] = orEmpty(r.Add), orEmpty(r.Rem)
			case "openBug":
				typ = "OpenBugInput"
			case "closeBug":
				typ = "CloseBugInput"
			case "setTitle":
				typ, in["title"] = "SetTitleInput", fmt.Sprintf("title %d", k1)
			case "setTitleEmpty":
				field, typ, in["title"] = "setTitle", "SetTitleInput", "   "
			case "addCommentMissingFile":
				field, typ = "addComment", "AddCommentInput"
				in["message"], in["files"] = fmt.Sprintf("message %d", k1), []string{"0123456789abcdef0123456789abcdef01234567"}
			case "unknownBug":
				field, typ = "addComment", "AddCommentInput"
				in["prefix"], in["message"] = "ffffffffffff", fmt.Sprintf("message %d", k1)
			default:
				hx.Die("unknown request %q", r.Name)
			}
			q := fmt.Sprintf("mutation($i:%s!){%s(input:$i){%s}}", typ, field, seqSel)
			if r.Race && r.Auth {
				w.reopen()
			}
			before := w.snapshot()
			h := w.noAuth
			if r.Auth {
				h = w.withAu
			}
			var resp gqlResp
			if r.Race && r.Auth {
				ev.Race = true
				if before2 := w.snapshot(); !before.equal(before2) {
					hx.Die("two looks at the same state differ")
				}
				w.reopen() // the looks loaded the bugs: once more, so that the two requests find nothing loaded
				var anon gqlResp
				start := make(chan struct{})
				var wg sync.WaitGroup
				wg.Add(2)
				go func() { defer wg.Done(); <-start; anon, _ = w.gql(w.noAuth, q, map[string]interface{}{"i": in}) }()
				go func() { defer wg.Done(); <-start; resp, _ = w.gql(w.withAu, q, map[string]interface{}{"i": in}) }()
				close(start)
				wg.Wait()
				ev.AnonOK = len(anon.Errors) > 0 && anon.Data[field] == nil
			} else {
				resp, _ = w.gql(h, q, map[string]interface{}{"i": in})
			}
			after := w.snapshot()
			ev.Refused = len(resp.Errors) > 0
			if ev.Refused {
				ev.Detail = resp.Errors[0].Message
			} else if p, ok := resp.Data[field].(map[string]interface{}); ok {
				if rb, ok := p["bug"].(map[string]interface{}); ok {
					ev.Returned = projReturned(rb)
				}
			}
			ev.Changed = !before.equal(after)
			ev.Stored = w.projStored(id)
			ev.ByUser = true
			if d := after.nops[id] - before.nops[id]; d > 0 {
				b, err := w.rc.Bugs().Resolve(id)
				hx.Must(err)
				ops := b.Snapshot().Operations
				for _, op := range ops[len(ops)-d:] {
					if op.Author().Id() != w.user {
						ev.ByUser = false
					}
				}
			}
			return ev
		}
		for k, r := range sc.Reqs {
			ch := make(chan SeqEvent, 1)
			go func() { ch <- one(k, r) }()
			select {
			case ev := <-ch:
				evs = append(evs, ev)
			case <-time.After(stepTimeout):
				hung = true
				evs = append(evs, SeqEvent{Ev: "Request", Sess: n, Configured: configured, Name: r.Name, Auth: r.Auth, I: r.I, Add: orEmpty(r.Add), Rem: orEmpty(r.Rem), Hung: true,
					Detail: fmt.Sprintf("did not come back within %s", stepTimeout), Returned: BugProj{Labels: []string{}, Text: []int{}, Was: -1}, Stored: BugProj{Labels: []string{}, Text: []int{}, Was: -1}})
			}
			if hung {
				break
			}
		}
		results[n] = evs
	})
	for _, evs := range results {
		for _, e := range evs {
			out.Put(e)
		}
	}
}
