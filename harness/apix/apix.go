// Package apix serves the real GraphQL handler and the upload handler through the same router construction as
// `git-bug webui`, with and without the authentication middleware, discovers every mutation by introspection, sends
// well-formed and ill-formed requests and records what each reported and what it changed (C17).
package apix

import (
	"bytes"
	"encoding/json"
	"fmt"
	"image"
	"image/png"
	"mime/multipart"
	"net/http"
	"net/http/httptest"
	"os"
	"path/filepath"
	"sort"
	"strings"
	"sync"
	"time"

	"github.com/gorilla/mux"

	"github.com/MichaelMure/git-bug/api/auth"
	"github.com/MichaelMure/git-bug/api/graphql"
	httpapi "github.com/MichaelMure/git-bug/api/http"
	"github.com/MichaelMure/git-bug/cache"
	"github.com/MichaelMure/git-bug/entity"
	"github.com/MichaelMure/git-bug/repository"

	"verif/harness/hx"
)

type Obs struct {
	Ev        string `json:"ev"`
	Name      string `json:"name"`
	Auth      bool   `json:"auth"`
	Valid     bool   `json:"valid"`
	Variant   string `json:"variant"`
	Refused   bool   `json:"refused"`
	Changed   bool   `json:"changed"`
	ByUser    bool   `json:"byuser"`
	Reflects  bool   `json:"reflects"`
	NewOps    int    `json:"newops"`
	OtherBugs int    `json:"otherbugs"`
	Stored    bool   `json:"stored"`
	Detail    string `json:"detail"`
	// which identity the repository has configured as its own user, relative to the one attached to the request
	Configured string `json:"configured"`
}

type world struct {
	configured string
	file       repository.Hash // an uploaded file, to be attached
	sentFiles  bool
	dir        string
	repo       *repository.GoGitRepo
	mrc        *cache.MultiRepoCache
	rc         *cache.RepoCache
	user       entity.Id
	other      entity.Id
	bugA       entity.Id // open bug with two comments and a label
	bugB       entity.Id // closed bug
	noAuth     http.Handler
	withAu     http.Handler
}

func router(mrc *cache.MultiRepoCache, user *entity.Id) http.Handler {
	r := mux.NewRouter()
	if user != nil {
		r.Use(auth.Middleware(*user))
	}
	h := graphql.NewHandler(mrc, nil)
	r.Path("/graphql").Handler(h)
	r.Path("/gitfile/{repo}/{hash}").Handler(httpapi.NewGitFileHandler(mrc))
	r.Path("/upload/{repo}").Methods("POST").Handler(httpapi.NewGitUploadFileHandler(mrc))
	return r
}

// configured: which identity the repository has configured as its user (git-bug.identity): the one attached to the
// requests ("same", what `git-bug webui` sets up), another one ("other"), none at all ("none")
func newWorld(configured string) *world {
	w := &world{configured: configured}
	w.dir = hx.Scratch("api")
	w.repo = hx.InitRepo(w.dir)
	w.mrc = cache.NewMultiRepoCache()
	rc, events := w.mrc.RegisterDefaultRepository(w.repo)
	for e := range events {
		hx.Must(e.Err)
	}
	w.rc = rc
	u, err := rc.Identities().New("web user", "web@example.org")
	hx.Must(err)
	o, err := rc.Identities().New("somebody else", "else@example.org")
	hx.Must(err)
	switch configured {
	case "same":
		hx.Must(rc.SetUserIdentity(u))
	case "other":
		hx.Must(rc.SetUserIdentity(o))
	}
	w.user, w.other = u.Id(), o.Id()
	w.file, err = rc.StoreData(pngBytes(7))
	hx.Must(err)
	a, _, err := rc.Bugs().NewRaw(o, 1600000000, "bug A", "first message of A", nil, nil)
	hx.Must(err)
	_, _, err = a.AddCommentRaw(o, 1600000001, "second comment of A", nil, nil)
	hx.Must(err)
	_, _, err = a.ChangeLabelsRaw(o, 1600000002, []string{"existing"}, nil, nil)
	hx.Must(err)
	hx.Must(a.Commit())
	b, _, err := rc.Bugs().NewRaw(o, 1600000003, "bug B", "first message of B", nil, nil)
	hx.Must(err)
	_, err = b.CloseRaw(o, 1600000004, nil)
	hx.Must(err)
	hx.Must(b.Commit())
	w.bugA, w.bugB = a.Id(), b.Id()
	w.noAuth = router(w.mrc, nil)
	w.withAu = router(w.mrc, &w.user)
	return w
}

// reopen closes the cache and opens it again (what a restart of the web UI does): no bug is loaded afterwards.
func (w *world) reopen() {
	hx.Must(w.mrc.Close())
	repo, err := repository.OpenGoGitRepo(w.dir, "git-bug", nil)
	hx.Must(err)
	w.repo = repo
	w.mrc = cache.NewMultiRepoCache()
	rc, events := w.mrc.RegisterDefaultRepository(w.repo)
	for e := range events {
		hx.Must(e.Err)
	}
	w.rc = rc
	w.noAuth = router(w.mrc, nil)
	w.withAu = router(w.mrc, &w.user)
}

func (w *world) close() {
	_ = w.mrc.Close()
	_ = os.RemoveAll(w.dir)
}

// state: refs, number of git objects, and what the cache serves about every bug
type state struct {
	refs    string
	objects int
	bugs    map[entity.Id]string
	nops    map[entity.Id]int
}

func (w *world) snapshot() state {
	s := state{bugs: map[entity.Id]string{}, nops: map[entity.Id]int{}}
	refs, err := w.repo.ListRefs("refs/")
	hx.Must(err)
	sort.Strings(refs)
	for _, r := range refs {
		h, _ := w.repo.ResolveRef(r)
		s.refs += r + "=" + string(h) + ";"
	}
	_ = filepath.Walk(filepath.Join(w.dir, ".git", "objects"), func(p string, info os.FileInfo, err error) error {
		if err == nil && !info.IsDir() {
			s.objects++
		}
		return nil
	})
	for _, id := range w.rc.Bugs().AllIds() {
		e, err := w.rc.Bugs().ResolveExcerpt(id)
		hx.Must(err)
		b, err := w.rc.Bugs().Resolve(id)
		hx.Must(err)
		snap := b.Snapshot()
		s.bugs[id] = fmt.Sprintf("%q %s %v %d et=%d", e.Title, e.Status, e.Labels, e.LenComments, e.EditLamportTime)
		s.nops[id] = len(snap.Operations)
	}
	return s
}

func (a state) equal(b state) bool {
	if a.refs != b.refs || a.objects != b.objects || len(a.bugs) != len(b.bugs) {
		return false
	}
	for id, v := range a.bugs {
		if b.bugs[id] != v || b.nops[id] != a.nops[id] {
			return false
		}
	}
	return true
}

type gqlResp struct {
	Data   map[string]interface{} `json:"data"`
	Errors []struct {
		Message string `json:"message"`
	} `json:"errors"`
}

func (w *world) gql(h http.Handler, query string, vars map[string]interface{}) (gqlResp, int) {
	body, _ := json.Marshal(map[string]interface{}{"query": query, "variables": vars})
	req := httptest.NewRequest("POST", "/graphql", bytes.NewReader(body))
	req.Header.Set("Content-Type", "application/json")
	rec := httptest.NewRecorder()
	h.ServeHTTP(rec, req)
	var r gqlResp
	_ = json.Unmarshal(rec.Body.Bytes(), &r)
	return r, rec.Code
}

// ---- introspection

type typeRef struct {
	Kind   string   `json:"kind"`
	Name   string   `json:"name"`
	OfType *typeRef `json:"ofType"`
}

func (t *typeRef) base() *typeRef {
	for t.OfType != nil {
		t = t.OfType
	}
	return t
}
func (t *typeRef) isList() bool {
	for x := t; x != nil; x = x.OfType {
		if x.Kind == "LIST" {
			return true
		}
	}
	return false
}

type field struct {
	Name string  `json:"name"`
	Type typeRef `json:"type"`
	Args []field `json:"args"`
}

const typeFrag = `kind name ofType{kind name ofType{kind name ofType{kind name}}}`

func (w *world) mutations() []field {
	r, _ := w.gql(w.noAuth, `{__schema{mutationType{fields{name type{`+typeFrag+`} args{name type{`+typeFrag+`}}}}}}`, nil)
	raw, _ := json.Marshal(r.Data["__schema"].(map[string]interface{})["mutationType"].(map[string]interface{})["fields"])
	var fs []field
	hx.Must(json.Unmarshal(raw, &fs))
	if len(fs) == 0 {
		hx.Die("introspection found no mutation")
	}
	return fs
}

func (w *world) typeFields(name string, input bool) []field {
	sel := "fields"
	if input {
		sel = "inputFields"
	}
	r, _ := w.gql(w.noAuth, fmt.Sprintf(`{__type(name:%q){%s{name type{%s}}}}`, name, sel, typeFrag), nil)
	raw, _ := json.Marshal(r.Data["__type"].(map[string]interface{})[sel])
	var fs []field
	_ = json.Unmarshal(raw, &fs)
	return fs
}

// ---- argument generation from the input types

func (w *world) commentOf(id entity.Id, i int) string {
	b, err := w.rc.Bugs().Resolve(id)
	hx.Must(err)
	return string(b.Snapshot().Comments[i].CombinedId())
}

// value for one input field; variant "valid" or an ill-formed one
func (w *world) value(mutation string, f field, variant string, target entity.Id) (interface{}, bool) {
	base := f.Type.base()
	switch f.Name {
	case "clientMutationId":
		return "client-1", true
	case "repoRef":
		return nil, false
	case "prefix":
		if variant == "unknown-bug" {
			return "ffffffffffff", true
		}
		return target.String()[:12], true
	case "title":
		if variant == "empty-title" {
			return "   ", true
		}
		return "title set through the API", true
	case "message":
		return "message sent through the API", true
	case "files":
		// a file uploaded before, as the web UI does when an image is pasted into a comment
		w.sentFiles = true
		return []string{string(w.file)}, true
	case "target", "targetPrefix":
		if variant == "unknown-bug" {
			return strings.Repeat("f", 64), true
		}
		return w.commentOf(target, 1), true
	case "added", "Added":
		return []string{"added-by-api"}, true
	case "Removed", "removed":
		return []string{"existing"}, true
	}
	// unknown field of a future mutation: something of the right type
	switch base.Name {
	case "String", "ID", "CombinedId":
		if f.Type.isList() {
			return []string{"x"}, true
		}
		return "x", true
	case "Int":
		return 1, true
	case "Boolean":
		return true, true
	}
	return nil, false
}

func (w *world) input(mutation string, inputType string, variant string, target entity.Id) map[string]interface{} {
	in := map[string]interface{}{}
	for _, f := range w.typeFields(inputType, true) {
		if v, ok := w.value(mutation, f, variant, target); ok {
			in[f.Name] = v
		}
	}
	return in
}

// which bug a mutation is aimed at so that it is well-formed
func (w *world) targetFor(m string) entity.Id {
	switch m {
	case "openBug", "addCommentAndReopen":
		return w.bugB
	}
	return w.bugA
}

// addressesBug tells whether a mutation names an existing bug or comment (so that an unknown one makes it ill-formed)
func (w *world) addressesBug(m field) bool {
	for _, a := range m.Args {
		if b := a.Type.base(); b.Kind == "INPUT_OBJECT" {
			for _, f := range w.typeFields(b.Name, true) {
				if f.Name == "prefix" || f.Name == "target" || f.Name == "targetPrefix" {
					return true
				}
			}
		}
	}
	return false
}

func (w *world) mutate(m field, authed bool, variant string) Obs {
	o := Obs{Ev: "Mutation", Name: m.Name, Auth: authed, Variant: variant, Valid: variant == "valid", Configured: w.configured}
	stepBegin(o)
	if len(m.Args) != 1 {
		o.Detail = "mutation without a single input argument: only the gate is checked"
	}
	target := w.targetFor(m.Name)
	payload := m.Type.base().Name
	sel := "clientMutationId"
	for _, f := range w.typeFields(payload, false) {
		if f.Name == "bug" {
			sel += " bug{id title status labels{name} comments(first:50){nodes{message files}} operations(first:100){totalCount nodes{author{id}}}}"
		}
	}
	var args, decl string
	vars := map[string]interface{}{}
	for _, a := range m.Args {
		base := a.Type.base()
		gqlType := base.Name
		if a.Type.Kind == "NON_NULL" {
			gqlType += "!"
		}
		decl += fmt.Sprintf("$%s:%s ", a.Name, gqlType)
		args += fmt.Sprintf("%s:$%s ", a.Name, a.Name)
		if base.Kind == "INPUT_OBJECT" {
			vars[a.Name] = w.input(m.Name, base.Name, variant, target)
		}
	}
	q := fmt.Sprintf("mutation(%s){%s(%s){%s}}", decl, m.Name, args, sel)
	sentFiles := w.sentFiles
	w.sentFiles = false
	before := w.snapshot()
	h := w.noAuth
	if authed {
		h = w.withAu
	}
	resp, _ := w.gql(h, q, vars)
	after := w.snapshot()
	o.Refused = len(resp.Errors) > 0
	if o.Refused {
		o.Detail = resp.Errors[0].Message
	}
	o.Changed = !before.equal(after)
	// what changed, and by whom
	o.ByUser = true
	affected := target
	if m.Name == "newBug" {
		for id := range after.bugs {
			if _, ok := before.bugs[id]; !ok {
				affected = id
			}
		}
	}
	for id, n := range after.nops {
		d := n - before.nops[id]
		if id == affected {
			o.NewOps = d
			if d > 0 {
				b, err := w.rc.Bugs().Resolve(id)
				hx.Must(err)
				ops := b.Snapshot().Operations
				for _, op := range ops[len(ops)-d:] {
					if op.Author().Id() != w.user {
						o.ByUser = false
					}
				}
			}
		} else if d != 0 || after.bugs[id] != before.bugs[id] {
			o.OtherBugs++
		}
	}
	// the returned bug reflects the change
	if !o.Refused && resp.Data != nil {
		if p, ok := resp.Data[m.Name].(map[string]interface{}); ok {
			if rb, ok := p["bug"].(map[string]interface{}); ok {
				raw, _ := json.Marshal(rb)
				s := string(raw)
				switch m.Name {
				case "newBug", "setTitle":
					o.Reflects = strings.Contains(s, "title set through the API")
				case "addComment", "editComment":
					o.Reflects = strings.Contains(s, "message sent through the API")
				case "addCommentAndClose":
					o.Reflects = strings.Contains(s, "message sent through the API") && strings.Contains(s, `"status":"CLOSED"`)
				case "addCommentAndReopen":
					o.Reflects = strings.Contains(s, "message sent through the API") && strings.Contains(s, `"status":"OPEN"`)
				case "changeLabels":
					o.Reflects = strings.Contains(s, "added-by-api") && !strings.Contains(s, `"existing"`)
				case "openBug":
					o.Reflects = strings.Contains(s, `"status":"OPEN"`)
				case "closeBug":
					o.Reflects = strings.Contains(s, `"status":"CLOSED"`)
				default:
					o.Reflects = true
				}
				// the attached file is part of the change
				if sentFiles && !strings.Contains(s, string(w.file)) {
					o.Reflects = false
				}
				// the operations the API lists for the returned bug are the stored ones
				if ops, ok := rb["operations"].(map[string]interface{}); ok && m.Name != "newBug" {
					if int(ops["totalCount"].(float64)) != after.nops[affected] {
						o.Reflects = false
					}
				}
			} else {
				o.Reflects = true
			}
		}
	}
	return o
}

func (w *world) query(authed bool) Obs {
	o := Obs{Ev: "Query", Name: "allBugs+bug+identities", Auth: authed, Valid: true, Variant: "valid", Configured: w.configured}
	stepBegin(o)
	before := w.snapshot()
	h := w.noAuth
	if authed {
		h = w.withAu
	}
	resp, _ := w.gql(h, fmt.Sprintf(`{repository{allBugs(first:10){totalCount nodes{id title}} bug(prefix:%q){title comments(first:5){nodes{message}}} allIdentities(first:5){totalCount} validLabels{totalCount}}}`, w.bugA.String()[:10]), nil)
	o.Refused = len(resp.Errors) > 0 || resp.Data == nil
	if len(resp.Errors) > 0 {
		o.Detail = resp.Errors[0].Message
	}
	o.Changed = !before.equal(w.snapshot())
	return o
}

func pngBytes(seed int) []byte {
	img := image.NewRGBA(image.Rect(0, 0, 2+seed%3, 2))
	for i := range img.Pix {
		img.Pix[i] = byte(seed*31 + i) // every seed another picture
		if i%4 == 3 {
			img.Pix[i] = 255 // opaque: the encoder keeps the colours
		}
	}
	var buf bytes.Buffer
	hx.Must(png.Encode(&buf, img))
	return buf.Bytes()
}

func (w *world) upload(authed bool, valid bool, seed int) Obs {
	o := Obs{Ev: "Upload", Name: "upload", Configured: w.configured, Auth: authed, Valid: valid, Variant: map[bool]string{true: "png", false: "not-an-image"}[valid]}
	stepBegin(o)
	data := pngBytes(seed)
	if !valid {
		data = []byte("plain text is not an accepted upload")
	}
	var body bytes.Buffer
	mw := multipart.NewWriter(&body)
	fw, err := mw.CreateFormFile("uploadfile", "x.png")
	hx.Must(err)
	_, _ = fw.Write(data)
	_ = mw.Close()
	req := httptest.NewRequest("POST", "/upload/"+"__default", &body)
	req.Header.Set("Content-Type", mw.FormDataContentType())
	before := w.snapshot()
	h := w.noAuth
	if authed {
		h = w.withAu
	}
	rec := httptest.NewRecorder()
	h.ServeHTTP(rec, req)
	after := w.snapshot()
	o.Refused = rec.Code != 200
	o.Detail = fmt.Sprintf("HTTP %d %s", rec.Code, strings.TrimSpace(rec.Body.String()))
	o.Changed = !before.equal(after)
	if rec.Code == 200 {
		var r struct {
			Hash string `json:"hash"`
		}
		_ = json.Unmarshal(rec.Body.Bytes(), &r)
		got, err := w.rc.ReadData(repository.Hash(r.Hash))
		o.Stored = err == nil && bytes.Equal(got, data)
	}
	return o
}

// stepTimeout: a request against a repository of three bugs answers in milliseconds; one that has not come back after this long
// (together with the looks at the state before and after it) never will
const stepTimeout = 120 * time.Second

// the step under way in Run, for the watchdog
var (
	stepMu    sync.Mutex
	stepWhat  Obs
	stepSince time.Time
)

func stepBegin(o Obs) {
	stepMu.Lock()
	stepWhat, stepSince = o, time.Now()
	stepMu.Unlock()
}

// Run: vh api <out>
func Run(args []string) {
	out := hx.NewWriter(args[0])
	defer out.Close()
	go func() {
		for {
			time.Sleep(time.Second)
			stepMu.Lock()
			o, since := stepWhat, stepSince
			stepMu.Unlock()
			if !since.IsZero() && time.Since(since) > stepTimeout {
				o.Ev, o.Detail = "Hung", fmt.Sprintf("%s %s (%s) did not come back within %s", o.Ev, o.Name, o.Variant, stepTimeout)
				out.Put(o)
				out.Close()
				os.Exit(0)
			}
		}
	}()
	w := newWorld("same")
	defer w.close()
	muts := w.mutations()
	names := []string{}
	for _, m := range muts {
		names = append(names, m.Name)
	}
	out.Put(map[string]interface{}{"ev": "Schema", "mutations": names})
	// unauthenticated first: nothing may change, so the same world serves all of them
	for _, m := range muts {
		out.Put(w.mutate(m, false, "valid"))
		if w.addressesBug(m) {
			out.Put(w.mutate(m, false, "unknown-bug"))
		}
	}
	out.Put(w.query(false))
	out.Put(w.upload(false, true, 1))
	out.Put(w.upload(false, false, 2))
	// authenticated: ill-formed requests change nothing; well-formed ones are run in fresh worlds
	for _, m := range muts {
		if w.addressesBug(m) {
			out.Put(w.mutate(m, true, "unknown-bug"))
		}
		if m.Name == "newBug" || m.Name == "setTitle" {
			out.Put(w.mutate(m, true, "empty-title"))
		}
	}
	out.Put(w.query(true))
	out.Put(w.upload(true, false, 3))
	out.Put(w.upload(true, true, 4))
	for _, m := range muts {
		for _, configured := range []string{"same", "other", "none"} {
			w2 := newWorld(configured)
			out.Put(w2.mutate(m, true, "valid"))
			// and again without a user on the changed world
			out.Put(w2.mutate(m, false, "valid"))
			if configured != "same" && w2.addressesBug(m) {
				out.Put(w2.mutate(m, true, "unknown-bug"))
			}
			w2.close()
		}
	}
}
