// vh is the conformance harness: it executes TLC-generated vectors and schedules against the real
// git-bug packages (built from /repo's working tree) and records traces for TLC to validate.
package main

import (
	"fmt"
	"os"

	"verif/harness/apix"
	"verif/harness/bridgex"
	"verif/harness/cachex"
	"verif/harness/clockx"
	"verif/harness/concx"
	"verif/harness/crashx"
	"verif/harness/fidx"
	"verif/harness/forge"
	"verif/harness/hostilex"
	"verif/harness/hostx"
	"verif/harness/identx"
	"verif/harness/idsx"
	"verif/harness/lockx"
	"verif/harness/page"
	"verif/harness/queryx"
	"verif/harness/removex"
	"verif/harness/sigx"
	"verif/harness/snapx"
	"verif/harness/world"
)

var commands = map[string]func(args []string){}

func init() {
	commands["bridge"] = bridgex.Run
	commands["bridge-worker"] = bridgex.Worker
	commands["host"] = hostx.Run
	commands["api"] = apix.Run
	commands["api-seq"] = apix.SeqCmd
	commands["conc"] = concx.Run
	commands["conc-clock"] = concx.ClockCmd
	commands["conc-child"] = concx.Child
	commands["lock"] = lockx.Run
	commands["lock-close"] = lockx.CloseWindow
	commands["lock-window"] = lockx.LockWindow
	commands["lock-other-user"] = lockx.OtherUser
	commands["lock-bigpid"] = lockx.BigPid
	commands["lock-bigpid-inner"] = lockx.BigPidInner
	commands["lock-window-child"] = lockx.LockWindowChild
	commands["lock-worker"] = lockx.Worker
	commands["fidelity"] = fidx.Run
	commands["fidelity-worker"] = fidx.Worker
	commands["page"] = page.Run
	commands["cache"] = cachex.Run
	commands["cache-worker"] = cachex.Worker
	commands["crash"] = crashx.Run
	commands["crash-child"] = crashx.Child
	commands["crash-errors"] = crashx.RunErrors
	commands["clock"] = clockx.Run
	commands["clock-conc"] = clockx.Conc
	commands["forge"] = forge.Run
	commands["forge-worker"] = forge.Worker
	commands["ids-vectors"] = idsx.Vectors
	commands["ids-trace"] = idsx.Trace
	commands["snapshot"] = snapx.Run
	commands["snapshot-trace"] = snapx.TraceCmd
	commands["query-parse"] = queryx.ParseCmd
	commands["query-trace"] = queryx.EvalCmd
	commands["query-parse-trace"] = queryx.ParseTraceCmd
	commands["hostile"] = hostilex.Run
	commands["hostile-worker"] = hostilex.Worker
	commands["ident"] = identx.Run
	commands["ident-worker"] = identx.Worker
	commands["ident-fields"] = identx.FieldsCmd
	commands["ident-fields-worker"] = identx.FieldsWorker
	commands["remove"] = removex.Run
	commands["remove-worker"] = removex.Worker
	commands["sig"] = sigx.Run
	commands["sig-worker"] = sigx.Worker
	commands["world"] = world.RunCmd
	commands["world-worker"] = world.WorkerCmd
	commands["hostile-fuzz"] = hostilex.FuzzCmd
	commands["hostile-fuzz-worker"] = hostilex.FuzzWorker
}

func main() {
	// the file keyring of git-bug lives under the user's configuration directory: keep it inside the scratch space
	if os.Getenv("VERIF_SCRATCH") != "" {
		os.Setenv("XDG_CONFIG_HOME", os.Getenv("VERIF_SCRATCH")+"/xdg")
	}
	if len(os.Args) < 2 {
		fmt.Fprintln(os.Stderr, "usage: vh <command> ...")
		os.Exit(3)
	}
	f, ok := commands[os.Args[1]]
	if !ok {
		fmt.Fprintln(os.Stderr, "unknown command", os.Args[1])
		os.Exit(3)
	}
	f(os.Args[2:])
}
