// vh is the conformance harness: it executes TLC-generated vectors and schedules against the real
// git-bug packages (built from /repo's working tree) and records traces for TLC to validate.
package main

import (
	"fmt"
	"os"

	"verif/harness/cachex"
	"verif/harness/clockx"
	"verif/harness/crashx"
	"verif/harness/forge"
	"verif/harness/identx"
	"verif/harness/idsx"
	"verif/harness/page"
	"verif/harness/queryx"
	"verif/harness/removex"
	"verif/harness/sigx"
	"verif/harness/snapx"
	"verif/harness/world"
)

var commands = map[string]func(args []string){
	"page":                page.Run,
	"cache":               cachex.Run,
	"cache-worker":        cachex.Worker,
	"crash":               crashx.Run,
	"crash-child":         crashx.Child,
	"clock":               clockx.Run,
	"forge":               forge.Run,
	"forge-worker":        forge.Worker,
	"ids-vectors":         idsx.Vectors,
	"ids-trace":           idsx.Trace,
	"snapshot":            snapx.Run,
	"snapshot-trace":      snapx.TraceCmd,
	"query-parse":         queryx.ParseCmd,
	"query-trace":         queryx.EvalCmd,
	"query-parse-trace":   queryx.ParseTraceCmd,
	"ident":               identx.Run,
	"ident-worker":        identx.Worker,
	"ident-fields":        identx.FieldsCmd,
	"ident-fields-worker": identx.FieldsWorker,
	"remove":              removex.Run,
	"remove-worker":       removex.Worker,
	"sig":                 sigx.Run,
	"sig-worker":          sigx.Worker,
	"world":               world.RunCmd,
	"world-worker":        world.WorkerCmd,
}

func main() {
	// the file keyring of git-bug lives under the user's configuration directory: keep it inside the scratch space
	if os.Getenv("VERIF_SCRATCH") != "" {
		os.Setenv("XDG_CONFIG_HOME", os.Getenv("VERIF_SCRATCH")+"/xdg")
	}
	if len(os.Args) < 2 {
		fmt.Fprintln(os.Stderr, "usage: vh <command> ...")
		os.Exit(3)
	}
	f, ok := commands[os.Args[1]]
	if !ok {
		fmt.Fprintln(os.Stderr, "unknown command", os.Args[1])
		os.Exit(3)
	}
	f(os.Args[2:])
}
