package main

import (
	"fmt"
	"os"

	"github.com/MichaelMure/git-bug/entity"
)

func main() {
	fmt.Println(entity.UnsetId, os.Args)
}
