// Package idsx binds spec/Ids.tla to entity.CombineIds / SeparateIds (vectors) and to prefix resolution in the
// cache (trace), on populations of real ids engineered to share prefixes (C13).
package idsx

import (
	"crypto/rand"
	"crypto/sha256"
	"encoding/hex"
	"encoding/json"
	"fmt"
	"github.com/MichaelMure/git-bug/cache"
	_select "github.com/MichaelMure/git-bug/commands/select"
	"os"
	"os/exec"
	"path/filepath"
	"regexp"
	"strings"

	"github.com/MichaelMure/git-bug/entities/bug"
	"github.com/MichaelMure/git-bug/entities/common"
	"github.com/MichaelMure/git-bug/entities/identity"
	"github.com/MichaelMure/git-bug/entity"
	"github.com/MichaelMure/git-bug/repository"

	"verif/harness/hx"
)

type SplitVec struct {
	L      int   `json:"L"`
	NPri   int   `json:"npri"`
	NSec   int   `json:"nsec"`
	Layout []int `json:"layout"`
}

func randomId() entity.Id {
	b := make([]byte, 32)
	_, _ = rand.Read(b)
	h := sha256.Sum256(b)
	return entity.Id(hex.EncodeToString(h[:]))
}

func digits(s string) []int {
	r := make([]int, len(s))
	for i, c := range s {
		switch {
		case c >= '0' && c <= '9':
			r[i] = int(c - '0')
		case c >= 'a' && c <= 'z':
			r[i] = int(c-'a') + 10
		default:
			r[i] = 99
		}
	}
	return r
}

// Vectors: vh ids-vectors <vectors> <out>
func Vectors(args []string) {
	lines := hx.ReadLines(args[0])
	out := hx.NewWriter(args[1])
	defer out.Close()
	n := 0
	for _, l := range lines {
		var v SplitVec
		hx.Must(json.Unmarshal(l, &v))
		for k := 0; k < 20; k++ {
			p, s := randomId(), randomId()
			c := string(entity.CombineIds(p, s))
			why := ""
			if len(c) != 64 {
				why = fmt.Sprintf("combined id has length %d", len(c))
			}
			for i := 0; i < v.L && why == ""; i++ {
				var want byte
				if v.Layout[i] > 1000 {
					want = s[v.Layout[i]-1001]
				} else {
					want = p[v.Layout[i]-1]
				}
				if c[i] != want {
					why = fmt.Sprintf("position %d of the combined id is not symbol %d", i, v.Layout[i])
				}
			}
			if why == "" {
				pp, sp := entity.SeparateIds(c[:v.L])
				if pp != string(p[:v.NPri]) || sp != string(s[:v.NSec]) {
					why = fmt.Sprintf("SeparateIds(prefix of length %d) = (%q,%q), specification (%q,%q)", v.L, pp, sp, p[:v.NPri], s[:v.NSec])
				}
				ci := entity.CombinedId(c[:v.L])
				if ci.PrimaryPrefix() != string(p[:v.NPri]) || ci.SecondaryPrefix() != string(s[:v.NSec]) {
					why = "PrimaryPrefix/SecondaryPrefix disagree with the specification"
				}
			}
			n++
			if why != "" {
				out.Put(map[string]interface{}{"vec": v, "why": why, "primary": p, "secondary": s})
				break
			}
		}
	}
	out.Put(map[string]interface{}{"stats": map[string]int{"executed": n}})
}

type comment struct {
	Bug int   `json:"bug"`
	Op  []int `json:"op"`
}

// Trace: vh ids-trace <out> <rounds>
var gitbug string

func Trace(args []string) {
	out := hx.NewWriter(args[0])
	defer out.Close()
	rounds := 1
	if len(args) > 1 {
		fmt.Sscan(args[1], &rounds)
	}
	if len(args) > 2 {
		gitbug = args[2]
	}
	for r := 0; r < rounds; r++ {
		session(out, r)
	}
}

func sharePrefix(a, b string, n int) bool { return a[:n] == b[:n] && a[n] != b[n] }

func session(out *hx.Writer, round int) {
	dir := hx.Scratch("ids")
	defer os.RemoveAll(dir)
	repo := hx.InitRepo(dir)
	// identities with engineered prefixes: [X, shares 2 with X, shares 1 with X, unrelated]
	var idents []*identity.Identity
	firstId := ""
	grindIdent := func(ok func(id string) bool) *identity.Identity {
		for {
			// some names contain the first characters of the first identity's id: a name is not an id
			name := fmt.Sprintf("user%d", len(idents))
			switch {
			case len(idents) == 3:
				name = firstId[:7]
			case len(idents) == 5:
				name = "Ms " + firstId[:3]
			case len(idents) == 6:
				name = strings.ToUpper(firstId[:2])
			}
			i, err := identity.NewIdentity(repo, name, "u@example.org")
			hx.Must(err)
			if ok(i.Id().String()) {
				hx.Must(i.Commit(repo))
				idents = append(idents, i)
				return i
			}
		}
	}
	x := grindIdent(func(string) bool { return true }).Id().String()
	firstId = x
	grindIdent(func(id string) bool { return sharePrefix(id, x, 2+round%2) })
	grindIdent(func(id string) bool { return sharePrefix(id, x, 1) })
	grindIdent(func(id string) bool { return id[0] != x[0] })
	// enough of them that a short prefix (and the empty one) matches more than a handful
	for k := 0; k < 4; k++ {
		grindIdent(func(id string) bool { return k%2 == 1 || id[0] == x[0] })
	}
	author := idents[0]

	// bugs: [Y, shares 3 with Y, shares 1 with Y, unrelated]; bug 0 and 1 get comments with engineered operation ids
	var bugs []*bug.Bug
	var unix int64 = 1_600_000_000
	grindBug := func(ok func(id string) bool) *bug.Bug {
		for {
			unix++
			b, _, err := bug.Create(author, unix, "ids", "first", nil, nil)
			hx.Must(err)
			if ok(b.Id().String()) {
				bugs = append(bugs, b)
				return b
			}
		}
	}
	y := grindBug(func(string) bool { return true }).Id().String()
	grindBug(func(id string) bool { return sharePrefix(id, y, 3) })
	grindBug(func(id string) bool { return sharePrefix(id, y, 1) })
	grindBug(func(id string) bool { return id[0] != y[0] })
	for k := 0; k < 5; k++ {
		grindBug(func(id string) bool { return k%2 == 1 || id[0] == y[0] })
	}
	grindComment := func(b *bug.Bug, ok func(id string) bool) string {
		for {
			unix++
			op := bug.NewAddCommentOp(author, unix, fmt.Sprintf("c%d", unix), nil)
			if ok(op.Id().String()) {
				b.Append(op)
				return op.Id().String()
			}
		}
	}
	z := grindComment(bugs[0], func(string) bool { return true })
	grindComment(bugs[0], func(id string) bool { return sharePrefix(id, z, 2) })
	grindComment(bugs[0], func(id string) bool { return sharePrefix(id, z, 1) })
	grindComment(bugs[1], func(id string) bool { return sharePrefix(id, z, 2) }) // other bug sharing 3 chars, comment sharing 2
	grindComment(bugs[1], func(id string) bool { return id[0] != z[0] })
	grindComment(bugs[3], func(id string) bool { return true })
	// operations that are no comments (title, status and label changes have combined ids built the same way, and items in the
	// timeline), some sharing their first characters with a comment of the same bug: they are nobody's comment
	var others []string
	grindOther := func(b *bug.Bug, kind int, ok func(id string) bool) {
		for {
			unix++
			var op bug.Operation
			switch kind {
			case 0:
				op = bug.NewSetTitleOp(author, unix, fmt.Sprintf("t%d", unix), "ids")
			case 1:
				op = bug.NewSetStatusOp(author, unix, common.ClosedStatus)
			default:
				op = bug.NewLabelChangeOperation(author, unix, []bug.Label{bug.Label(fmt.Sprintf("l%d", unix))}, nil)
			}
			if ok(op.Id().String()) {
				b.Append(op)
				others = append(others, entity.CombineIds(b.Id(), op.Id()).String())
				return
			}
		}
	}
	grindOther(bugs[0], 0, func(id string) bool { return sharePrefix(id, z, 3) })
	grindOther(bugs[0], 1, func(id string) bool { return sharePrefix(id, z, 2) })
	grindOther(bugs[0], 2, func(id string) bool { return sharePrefix(id, z, 1) })
	grindOther(bugs[1], 0, func(id string) bool { return sharePrefix(id, z, 2) })
	grindOther(bugs[3], 2, func(id string) bool { return true })
	for _, b := range bugs {
		hx.Must(b.Commit(repo))
	}

	c, err := hx.OpenCache(repo)
	hx.Must(err)
	defer func() { _ = c.Close() }()

	// populations as the cache sees them
	bugIdx := map[string]int{}
	var bugPop [][]int
	var comments []comment
	type cref struct {
		combined string
		idx      int
	}
	var crefs []cref
	for i, b := range bugs {
		bugIdx[b.Id().String()] = i + 1
		bugPop = append(bugPop, digits(b.Id().String()))
	}
	for i, b := range bugs {
		snap := b.Compile()
		for _, cm := range snap.Comments {
			comments = append(comments, comment{Bug: i + 1, Op: digits(cm.TargetId().String())})
			crefs = append(crefs, cref{combined: cm.CombinedId().String(), idx: len(comments)})
		}
	}
	identIdx := map[string]int{}
	var identPop [][]int
	for i, id := range idents {
		identIdx[id.Id().String()] = i + 1
		identPop = append(identPop, digits(id.Id().String()))
	}
	out.Put(map[string]interface{}{"ev": "Pop", "bugs": bugPop, "idents": identPop, "comments": comments})
	for _, cr := range crefs {
		out.Put(map[string]interface{}{"ev": "Combined", "comment": cr.idx, "combined": digits(cr.combined)})
	}

	emit := func(kind, prefix, outcome string, matching []int, bugsOf []int) {
		if matching == nil {
			matching = []int{}
		}
		if bugsOf == nil {
			bugsOf = []int{}
		}
		out.Put(map[string]interface{}{"ev": "Resolve", "kind": kind, "prefix": digits(prefix), "outcome": outcome, "matching": matching, "bugs": bugsOf})
	}
	classify := func(err error, idx map[string]int) (string, []int) {
		if entity.IsErrMultipleMatch(err) {
			var m []int
			for _, id := range err.(*entity.ErrMultipleMatch).Matching {
				m = append(m, idx[id.String()])
			}
			return "multiple", m
		}
		if entity.IsErrNotFound(err) {
			return "notfound", nil
		}
		return "error:" + err.Error(), nil
	}
	alter := func(s string) string { // same length, last character changed: a prefix that (almost surely) matches less
		if s == "" {
			return "g"
		}
		last := s[len(s)-1]
		repl := byte('0')
		if last == '0' {
			repl = '1'
		}
		return s[:len(s)-1] + string(repl)
	}
	queryEntity := func(p string) {
		if b, err := c.Bugs().ResolvePrefix(p); err == nil {
			emit("bug", p, "found", []int{bugIdx[b.Id().String()]}, nil)
		} else {
			o, m := classify(err, bugIdx)
			emit("bug", p, o, m, nil)
		}
		if e, err := c.Bugs().ResolveExcerptPrefix(p); err == nil {
			emit("bugexcerpt", p, "found", []int{bugIdx[e.Id().String()]}, nil)
		} else {
			o, m := classify(err, bugIdx)
			emit("bugexcerpt", p, o, m, nil)
		}
	}
	queryIdent := func(p string) {
		if i, err := c.Identities().ResolvePrefix(p); err == nil {
			emit("identity", p, "found", []int{identIdx[i.Id().String()]}, nil)
		} else {
			o, m := classify(err, identIdx)
			emit("identity", p, o, m, nil)
		}
		if e, err := c.Identities().ResolveExcerptPrefix(p); err == nil {
			emit("identityexcerpt", p, "found", []int{identIdx[e.Id().String()]}, nil)
		} else {
			o, m := classify(err, identIdx)
			emit("identityexcerpt", p, o, m, nil)
		}
	}
	commentIdx := map[string]int{}
	for _, cr := range crefs {
		commentIdx[cr.combined] = cr.idx
	}
	queryComment := func(p string) {
		b, cid, err := c.Bugs().ResolveComment(p)
		if err == nil {
			emit("comment", p, "found", []int{commentIdx[cid.String()]}, []int{bugIdx[b.Id().String()]})
			return
		}
		if entity.IsErrMultipleMatch(err) {
			var m []int
			for _, id := range err.(*entity.ErrMultipleMatch).Matching {
				m = append(m, bugIdx[id.String()])
			}
			emit("comment", p, "multiple", nil, m)
			return
		}
		// neither found nor ambiguous: the comment does not exist (the wording of the error is free)
		emit("comment", p, "notfound", nil, nil)
	}
	for _, b := range bugs {
		id := b.Id().String()
		for L := 0; L <= 64; L++ {
			queryEntity(id[:L])
			if L > 0 && L <= 6 {
				queryEntity(alter(id[:L]))
			}
		}
	}
	for _, i := range idents {
		id := i.Id().String()
		for L := 0; L <= 64; L++ {
			queryIdent(id[:L])
			if L > 0 && L <= 6 {
				queryIdent(alter(id[:L]))
			}
		}
	}
	// what a prefix resolves to is a matter of the population, not of which entities happen to be in memory: the same questions
	// again with nothing loaded (the cache reopened), and with exactly one entity loaded, each in turn
	reopen := func() {
		hx.Must(c.Close())
		r2, err := repository.OpenGoGitRepo(dir, "git-bug", nil)
		hx.Must(err)
		c, err = hx.OpenCache(r2)
		hx.Must(err)
	}
	short := func(q func(string), ids []string) {
		for _, id := range ids {
			for _, L := range []int{0, 1, 2, 3, 4, 7, 64} {
				q(id[:L])
				if L > 0 && L < 64 {
					q(alter(id[:L]))
				}
			}
		}
	}
	var bugIds, identIds []string
	for _, b := range bugs {
		bugIds = append(bugIds, b.Id().String())
	}
	for _, i := range idents {
		identIds = append(identIds, i.Id().String())
	}
	reopen()
	short(queryEntity, bugIds)
	short(queryIdent, identIds)
	for k := range bugIds {
		reopen()
		_, err := c.Bugs().Resolve(entity.Id(bugIds[k]))
		hx.Must(err)
		short(queryEntity, bugIds)
	}
	for k := range identIds {
		reopen()
		_, err := c.Identities().Resolve(entity.Id(identIds[k]))
		hx.Must(err)
		short(queryIdent, identIds)
	}
	// the command line's resolution (commands/select): no selection, a selected bug, a selection that no longer exists
	selEmit := func(p string, hasArg bool, sel int) {
		args := []string{}
		if hasArg {
			args = []string{p, "rest"}
		}
		ev := map[string]interface{}{"ev": "ResolveSelected", "prefix": digits(p), "hasarg": hasArg, "sel": sel, "matching": []int{}, "used": false, "cleared": false}
		b, rest, err := _select.Resolve[*cache.BugCache](c, bug.Typename, bug.Namespace, c.Bugs(), args)
		switch {
		case err == nil:
			ev["outcome"], ev["matching"], ev["used"] = "found", []int{bugIdx[b.Id().String()]}, len(rest) < len(args)
		case _select.IsErrNoValidId(err):
			ev["outcome"] = "novalid"
		default:
			o, m := classify(err, bugIdx)
			if m == nil {
				m = []int{}
			}
			ev["outcome"], ev["matching"] = o, m
		}
		if _, serr := c.LocalStorage().Stat("select/" + bug.Namespace); serr != nil {
			ev["cleared"] = true
		}
		out.Put(ev)
	}
	for _, sel := range []int{0, 2, -1} {
		setSel := func() {
			switch sel {
			case 0:
				_ = _select.Clear(c, bug.Namespace)
			case -1:
				hx.Must(_select.Select(c, bug.Namespace, entity.Id(strings.Repeat("e", 64))))
			default:
				hx.Must(_select.Select(c, bug.Namespace, bugs[sel-1].Id()))
			}
		}
		setSel()
		selEmit("", false, sel)
		for bi, b := range bugs {
			if bi > 3 {
				break
			}
			id := b.Id().String()
			for _, L := range []int{0, 1, 2, 3, 4, 5, 7, 10, 64} {
				for _, p := range []string{id[:L], alter(id[:L])} {
					if sel == -1 {
						setSel() // a resolution that falls back on it forgets it
					}
					selEmit(p, true, sel)
				}
			}
		}
	}
	_ = _select.Clear(c, bug.Namespace)
	for _, o := range others {
		for L := 1; L <= 64; L++ {
			queryComment(o[:L])
		}
	}
	for _, cr := range crefs {
		for L := 0; L <= 64; L++ {
			queryComment(cr.combined[:L])
			if L > 0 && L <= 12 {
				queryComment(alter(cr.combined[:L]))
			}
		}
	}
	// a bug goes away behind the cache's back (removed below it while it was closed) and the cache is rebuilt because one of its
	// files is missing: the population is what git holds now, and a prefix the gone bug shared with another names that one alone
	hx.Must(c.Close())
	gone := bugs[1]
	r3, err := repository.OpenGoGitRepo(dir, "git-bug", nil)
	hx.Must(err)
	hx.Must(bug.Remove(r3, gone.Id()))
	hx.Must(r3.Close())
	_ = os.Remove(filepath.Join(dir, ".git", "git-bug", "cache", "identities"))
	r4, err := repository.OpenGoGitRepo(dir, "git-bug", nil)
	hx.Must(err)
	c, err = hx.OpenCache(r4)
	hx.Must(err)
	var left []*bug.Bug
	for _, b := range bugs {
		if b.Id() != gone.Id() {
			left = append(left, b)
		}
	}
	for k := range bugIdx {
		delete(bugIdx, k)
	}
	for k := range commentIdx {
		delete(commentIdx, k)
	}
	bugPop, comments = nil, nil
	var crefs2 []cref
	for i, b := range left {
		bugIdx[b.Id().String()] = i + 1
		bugPop = append(bugPop, digits(b.Id().String()))
	}
	for i, b := range left {
		for _, cm := range b.Compile().Comments {
			comments = append(comments, comment{Bug: i + 1, Op: digits(cm.TargetId().String())})
			crefs2 = append(crefs2, cref{combined: cm.CombinedId().String(), idx: len(comments)})
			commentIdx[cm.CombinedId().String()] = len(comments)
		}
	}
	out.Put(map[string]interface{}{"ev": "Pop", "bugs": bugPop, "idents": identPop, "comments": comments})
	for _, cr := range crefs2 {
		out.Put(map[string]interface{}{"ev": "Combined", "comment": cr.idx, "combined": digits(cr.combined)})
	}
	short(queryEntity, bugIds)
	for _, cr := range crefs { // the comments of before, those of the gone bug among them
		for _, L := range []int{1, 2, 3, 4, 6, 7, 10, 64} {
			queryComment(cr.combined[:L])
		}
	}
	// a bug addressed by a prefix that names it alone is removed: it is that bug which goes, from git too, and from then on neither
	// its id nor any prefix of it finds anything (also after the cache was opened anew)
	victim := left[len(left)-1]
	vid := victim.Id().String()
	n := 1
	for clash := true; clash; {
		clash = false
		for _, b := range left {
			if b.Id() != victim.Id() && strings.HasPrefix(b.Id().String(), vid[:n]) {
				clash = true
			}
		}
		if clash {
			n++
		}
	}
	rerr := c.Bugs().Remove(vid[:n])
	still, _ := r4.RefExist("refs/bugs/" + vid)
	out.Put(map[string]interface{}{"ev": "RemovedByPrefix", "prefix": digits(vid[:n]), "refused": rerr != nil, "refleft": still})
	hx.Must(c.Close())
	r5, err := repository.OpenGoGitRepo(dir, "git-bug", nil)
	hx.Must(err)
	c, err = hx.OpenCache(r5)
	hx.Must(err)
	left = left[:len(left)-1]
	for k := range bugIdx {
		delete(bugIdx, k)
	}
	for k := range commentIdx {
		delete(commentIdx, k)
	}
	bugPop, comments = nil, nil
	for i, b := range left {
		bugIdx[b.Id().String()] = i + 1
		bugPop = append(bugPop, digits(b.Id().String()))
	}
	var crefs3 []cref
	for i, b := range left {
		for _, cm := range b.Compile().Comments {
			comments = append(comments, comment{Bug: i + 1, Op: digits(cm.TargetId().String())})
			crefs3 = append(crefs3, cref{combined: cm.CombinedId().String(), idx: len(comments)})
			commentIdx[cm.CombinedId().String()] = len(comments)
		}
	}
	out.Put(map[string]interface{}{"ev": "Pop", "bugs": bugPop, "idents": identPop, "comments": comments})
	for _, cr := range crefs3 {
		out.Put(map[string]interface{}{"ev": "Combined", "comment": cr.idx, "combined": digits(cr.combined)})
	}
	short(queryEntity, bugIds)
	// the command line addressing an identity: `git-bug user user <prefix>` (declared as "user show") names what the prefix of an id resolves to
	if gitbug == "" {
		return
	}
	hx.Must(c.Close())
	hx.Must(identity.SetUserIdentity(r5, idents[0]))
	hex64 := regexp.MustCompile(`[0-9a-f]{64}`)
	cli := func(p string) {
		cmd := exec.Command(gitbug, "user", "user", p, "--field", "id") // the sub-command declared as "user show [USER_ID]" is named by the first word of that
		cmd.Dir = dir
		cmd.Env = append(os.Environ(), "HOME="+dir, "XDG_CONFIG_HOME="+filepath.Join(dir, "xdg"), "GIT_CONFIG_GLOBAL=/dev/null")
		outb, err := cmd.CombinedOutput()
		found := hex64.FindAllString(string(outb), -1)
		switch {
		case err == nil && len(found) == 1:
			emit("identity", p, "found", []int{identIdx[found[0]]}, nil)
		case err != nil && len(found) > 0:
			var m []int
			for _, id := range found {
				m = append(m, identIdx[id])
			}
			emit("identity", p, "multiple", m, nil)
		case err != nil && strings.Contains(string(outb), "doesn't exist"):
			emit("identity", p, "notfound", nil, nil)
		default:
			emit("identity", p, "error:"+strings.TrimSpace(string(outb)), nil, nil)
		}
	}
	for _, id := range []string{identIds[0], identIds[3]} {
		for _, L := range []int{1, 2, 3, 4, 7, 16, 64} {
			cli(id[:L])
			if L < 64 {
				cli(alter(id[:L]))
			}
		}
	}
	var err2 error
	c, err2 = hx.OpenCache(r5) // for the deferred Close
	hx.Must(err2)
}
