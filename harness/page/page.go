// Package page executes the vectors generated from spec/Page.tla (C20) against the seven generated
// connection functions and, end to end, against the real GraphQL handler.
package page

import (
	"bytes"
	"encoding/base64"
	"encoding/json"
	"fmt"
	"net/http/httptest"
	"sort"
	"strings"

	"github.com/MichaelMure/git-bug/api/graphql"
	"github.com/MichaelMure/git-bug/api/graphql/connections"
	"github.com/MichaelMure/git-bug/api/graphql/models"
	"github.com/MichaelMure/git-bug/cache"
	"github.com/MichaelMure/git-bug/entities/bug"
	"github.com/MichaelMure/git-bug/entities/identity"
	"github.com/MichaelMure/git-bug/entity"
	"github.com/MichaelMure/git-bug/entity/dag"
	"github.com/MichaelMure/git-bug/repository"

	"verif/harness/hx"
)

const (
	none      = -2
	foreign   = 100
	malformed = 101
)

type Exp struct {
	Err     bool  `json:"err"`
	Edges   []int `json:"edges"`
	HasNext bool  `json:"hasNext"`
	HasPrev bool  `json:"hasPrev"`
	Start   int   `json:"start"`
	End     int   `json:"end"`
	Total   int   `json:"total"`
}

type Vec struct {
	N      int `json:"n"`
	First  int `json:"first"`
	After  int `json:"after"`
	Last   int `json:"last"`
	Before int `json:"before"`
	Exp    Exp `json:"exp"`
}

type Walk struct {
	Walk  string `json:"walk"`
	N     int    `json:"n"`
	K     int    `json:"k"`
	Got   []int  `json:"got"`
	Steps int    `json:"steps"`
}

// Out is what one connection call returned, projected on positions.
type Out struct {
	Err     bool     `json:"err"`
	ErrMsg  string   `json:"errmsg,omitempty"`
	Edges   []string `json:"edges"`   // node keys of edges
	Nodes   []string `json:"nodes"`   // node keys of nodes
	Cursors []string `json:"cursors"` // cursor of every edge
	HasNext bool     `json:"hasNext"`
	HasPrev bool     `json:"hasPrev"`
	Start   string   `json:"start"`
	End     string   `json:"end"`
	Total   int      `json:"total"`
}

type Mismatch struct {
	List string          `json:"list"`
	Kind string          `json:"kind"` // "vector" | "walk"
	Vec  json.RawMessage `json:"vec"`
	Got  interface{}     `json:"got"`
	Why  string          `json:"why"`
}

// the instances of the two classes of cursors that designate nothing: well-formed ones (an offset no element has: far beyond the
// end, negative) and undecodable ones
var foreignCursors = []string{connections.OffsetToCursor(1000003), connections.OffsetToCursor(-1), connections.OffsetToCursor(-3), connections.OffsetToCursor(1 << 40)}
var malformedCursors = []string{"%%%not-a-cursor", base64.StdEncoding.EncodeToString([]byte("cursor:")), base64.StdEncoding.EncodeToString([]byte("cursor:1x")),
	base64.StdEncoding.EncodeToString([]byte("nocursor:1")), base64.StdEncoding.EncodeToString([]byte("cursor:99999999999999999999")), "Y3Vyc29yOjE"}

const cursorVariants = 6

func cursorArg(c int, cursorOf func(int) string) *string { return cursorArgV(c, cursorOf, 0) }

func cursorArgV(c int, cursorOf func(int) string, variant int) *string {
	switch {
	case c == none:
		return nil
	case c == foreign:
		s := foreignCursors[variant%len(foreignCursors)]
		return &s
	case c == malformed:
		s := malformedCursors[variant%len(malformedCursors)]
		return &s
	default:
		s := cursorOf(c)
		return &s
	}
}

func sizeArg(k int) *int {
	if k == none {
		return nil
	}
	return &k
}

// compare checks a result against the specification's expectation. keys[p] is the node key of position p.
func compare(v Vec, o Out, keys []string, cursorOf func(int) string) string {
	e := v.Exp
	if strings.HasPrefix(o.ErrMsg, "CRASHED") {
		return "the code panicked: " + o.ErrMsg
	}
	if e.Err {
		if !o.Err {
			return "spec: request must be rejected; code returned a page"
		}
		return ""
	}
	if o.Err {
		return "spec: request must be served; code returned error " + o.ErrMsg
	}
	if len(o.Edges) != len(e.Edges) {
		return fmt.Sprintf("edge count: spec %d, code %d", len(e.Edges), len(o.Edges))
	}
	if len(o.Nodes) != len(e.Edges) {
		return fmt.Sprintf("node count: spec %d, code %d", len(e.Edges), len(o.Nodes))
	}
	for i, p := range e.Edges {
		if o.Edges[i] != keys[p] {
			return fmt.Sprintf("edge %d: spec position %d (%s), code %s", i, p, keys[p], o.Edges[i])
		}
		if o.Nodes[i] != keys[p] {
			return fmt.Sprintf("node %d: spec position %d (%s), code %s", i, p, keys[p], o.Nodes[i])
		}
		if o.Cursors[i] != cursorOf(p) {
			return fmt.Sprintf("cursor of edge %d does not designate position %d", i, p)
		}
	}
	if o.HasNext != e.HasNext {
		return fmt.Sprintf("hasNextPage: spec %v, code %v", e.HasNext, o.HasNext)
	}
	if o.HasPrev != e.HasPrev {
		return fmt.Sprintf("hasPreviousPage: spec %v, code %v", e.HasPrev, o.HasPrev)
	}
	ws, we := "", ""
	if e.Start != none {
		ws, we = cursorOf(e.Start), cursorOf(e.End)
	}
	if o.Start != ws || o.End != we {
		return fmt.Sprintf("start/end cursor: spec (%q,%q), code (%q,%q)", ws, we, o.Start, o.End)
	}
	if o.Total != e.Total {
		return fmt.Sprintf("totalCount: spec %d, code %d", e.Total, o.Total)
	}
	return ""
}

// ---------------------------------------------------------------------------------------------------------------
// direct calls of the generated connections

type fixture struct {
	ids      []entity.Id
	comments []bug.Comment
	ops      []dag.Operation
	timeline []bug.TimelineItem
	idents   []models.IdentityWrapper
	labels   []bug.Label
}

func makeFixture(n int) fixture {
	var f fixture
	repo := repository.NewMockRepo()
	var authors []*identity.Identity
	for i := 0; i < n; i++ {
		a, err := identity.NewIdentity(repo, fmt.Sprintf("author%d", i), fmt.Sprintf("a%d@example.org", i))
		hx.Must(err)
		hx.Must(a.Commit(repo))
		authors = append(authors, a)
		f.idents = append(f.idents, models.NewLoadedIdentity(a))
		f.ids = append(f.ids, a.Id())
		f.labels = append(f.labels, bug.Label(fmt.Sprintf("label%02d", i)))
	}
	if n > 0 {
		b, _, err := bug.Create(authors[0], 1000, "title", "message0", nil, nil)
		hx.Must(err)
		for i := 1; i < n; i++ {
			_, _, err := bug.AddComment(b, authors[i], int64(1000+i), fmt.Sprintf("message%d", i), nil, nil)
			hx.Must(err)
		}
		snap := b.Compile()
		f.comments = snap.Comments
		f.timeline = snap.Timeline
		f.ops = snap.Operations
		if len(f.comments) != n || len(f.timeline) != n || len(f.ops) != n {
			hx.Die("fixture: unexpected snapshot sizes")
		}
	}
	return f
}

func pageInfo(o *Out, pi *models.PageInfo, total int) {
	o.HasNext, o.HasPrev, o.Start, o.End, o.Total = pi.HasNextPage, pi.HasPreviousPage, pi.StartCursor, pi.EndCursor, total
}

type direct struct {
	name string
	keys func(f fixture) []string
	call func(f fixture, in models.ConnectionInput) (o Out)
}

func oc(i int) string { return connections.OffsetToCursor(i) }

func directLists() []direct {
	errOut := func(err error) Out { return Out{Err: true, ErrMsg: err.Error()} }
	return []direct{
		{"LazyBugCon", func(f fixture) []string { return idKeys(f.ids) },
			func(f fixture, in models.ConnectionInput) (o Out) {
				edger := func(id entity.Id, offset int) connections.Edge {
					return connections.LazyBugEdge{Id: id, Cursor: oc(offset)}
				}
				var out Out
				con := func(edges []*connections.LazyBugEdge, nodes []entity.Id, info *models.PageInfo, total int) (*models.BugConnection, error) {
					out = Out{}
					for _, e := range edges {
						out.Edges = append(out.Edges, e.Id.String())
						out.Cursors = append(out.Cursors, e.Cursor)
					}
					out.Nodes = idKeys(nodes)
					pageInfo(&out, info, total)
					return &models.BugConnection{}, nil
				}
				if _, err := connections.LazyBugCon(f.ids, edger, con, in); err != nil {
					return errOut(err)
				}
				return out
			}},
		{"LazyIdentityCon", func(f fixture) []string { return idKeys(f.ids) },
			func(f fixture, in models.ConnectionInput) (o Out) {
				edger := func(id entity.Id, offset int) connections.Edge {
					return connections.LazyIdentityEdge{Id: id, Cursor: oc(offset)}
				}
				var out Out
				con := func(edges []*connections.LazyIdentityEdge, nodes []entity.Id, info *models.PageInfo, total int) (*models.IdentityConnection, error) {
					out = Out{}
					for _, e := range edges {
						out.Edges = append(out.Edges, e.Id.String())
						out.Cursors = append(out.Cursors, e.Cursor)
					}
					out.Nodes = idKeys(nodes)
					pageInfo(&out, info, total)
					return &models.IdentityConnection{}, nil
				}
				if _, err := connections.LazyIdentityCon(f.ids, edger, con, in); err != nil {
					return errOut(err)
				}
				return out
			}},
		{"IdentityCon", func(f fixture) []string {
			var k []string
			for _, i := range f.idents {
				k = append(k, i.Id().String())
			}
			return k
		},
			func(f fixture, in models.ConnectionInput) (o Out) {
				edger := func(v models.IdentityWrapper, offset int) connections.Edge {
					return models.IdentityEdge{Node: v, Cursor: oc(offset)}
				}
				var out Out
				con := func(edges []*models.IdentityEdge, nodes []models.IdentityWrapper, info *models.PageInfo, total int) (*models.IdentityConnection, error) {
					out = Out{}
					for _, e := range edges {
						out.Edges = append(out.Edges, e.Node.Id().String())
						out.Cursors = append(out.Cursors, e.Cursor)
					}
					for _, n := range nodes {
						out.Nodes = append(out.Nodes, n.Id().String())
					}
					pageInfo(&out, info, total)
					return &models.IdentityConnection{}, nil
				}
				if _, err := connections.IdentityCon(f.idents, edger, con, in); err != nil {
					return errOut(err)
				}
				return out
			}},
		{"OperationCon", func(f fixture) []string {
			var k []string
			for _, op := range f.ops {
				k = append(k, op.Id().String())
			}
			return k
		},
			func(f fixture, in models.ConnectionInput) (o Out) {
				edger := func(v dag.Operation, offset int) connections.Edge {
					return models.OperationEdge{Node: v, Cursor: oc(offset)}
				}
				var out Out
				con := func(edges []*models.OperationEdge, nodes []dag.Operation, info *models.PageInfo, total int) (*models.OperationConnection, error) {
					out = Out{}
					for _, e := range edges {
						out.Edges = append(out.Edges, e.Node.Id().String())
						out.Cursors = append(out.Cursors, e.Cursor)
					}
					for _, n := range nodes {
						out.Nodes = append(out.Nodes, n.Id().String())
					}
					pageInfo(&out, info, total)
					return &models.OperationConnection{}, nil
				}
				if _, err := connections.OperationCon(f.ops, edger, con, in); err != nil {
					return errOut(err)
				}
				return out
			}},
		{"CommentCon", func(f fixture) []string {
			var k []string
			for _, c := range f.comments {
				k = append(k, c.Message)
			}
			return k
		},
			func(f fixture, in models.ConnectionInput) (o Out) {
				edger := func(v bug.Comment, offset int) connections.Edge {
					return models.CommentEdge{Node: &v, Cursor: oc(offset)}
				}
				var out Out
				con := func(edges []*models.CommentEdge, nodes []bug.Comment, info *models.PageInfo, total int) (*models.CommentConnection, error) {
					out = Out{}
					for _, e := range edges {
						out.Edges = append(out.Edges, e.Node.Message)
						out.Cursors = append(out.Cursors, e.Cursor)
					}
					for _, n := range nodes {
						out.Nodes = append(out.Nodes, n.Message)
					}
					pageInfo(&out, info, total)
					return &models.CommentConnection{}, nil
				}
				if _, err := connections.CommentCon(f.comments, edger, con, in); err != nil {
					return errOut(err)
				}
				return out
			}},
		{"TimelineItemCon", func(f fixture) []string {
			var k []string
			for _, t := range f.timeline {
				k = append(k, string(t.CombinedId()))
			}
			return k
		},
			func(f fixture, in models.ConnectionInput) (o Out) {
				edger := func(v bug.TimelineItem, offset int) connections.Edge {
					return models.TimelineItemEdge{Node: v, Cursor: oc(offset)}
				}
				var out Out
				con := func(edges []*models.TimelineItemEdge, nodes []bug.TimelineItem, info *models.PageInfo, total int) (*models.TimelineItemConnection, error) {
					out = Out{}
					for _, e := range edges {
						out.Edges = append(out.Edges, string(e.Node.CombinedId()))
						out.Cursors = append(out.Cursors, e.Cursor)
					}
					for _, n := range nodes {
						out.Nodes = append(out.Nodes, string(n.CombinedId()))
					}
					pageInfo(&out, info, total)
					return &models.TimelineItemConnection{}, nil
				}
				if _, err := connections.TimelineItemCon(f.timeline, edger, con, in); err != nil {
					return errOut(err)
				}
				return out
			}},
		{"LabelCon", func(f fixture) []string {
			var k []string
			for _, l := range f.labels {
				k = append(k, string(l))
			}
			return k
		},
			func(f fixture, in models.ConnectionInput) (o Out) {
				edger := func(v bug.Label, offset int) connections.Edge {
					return models.LabelEdge{Node: v, Cursor: oc(offset)}
				}
				var out Out
				con := func(edges []*models.LabelEdge, nodes []bug.Label, info *models.PageInfo, total int) (*models.LabelConnection, error) {
					out = Out{}
					for _, e := range edges {
						out.Edges = append(out.Edges, string(e.Node))
						out.Cursors = append(out.Cursors, e.Cursor)
					}
					for _, n := range nodes {
						out.Nodes = append(out.Nodes, string(n))
					}
					pageInfo(&out, info, total)
					return &models.LabelConnection{}, nil
				}
				if _, err := connections.LabelCon(f.labels, edger, con, in); err != nil {
					return errOut(err)
				}
				return out
			}},
	}
}

func idKeys(ids []entity.Id) []string {
	var k []string
	for _, i := range ids {
		k = append(k, i.String())
	}
	return k
}

// ---------------------------------------------------------------------------------------------------------------
// end to end through the GraphQL handler

type gqlList struct {
	name  string
	query string // with %ARGS% placeholder and node key selection
	path  []string
	key   string
}

const pageSel = `{totalCount pageInfo{hasNextPage hasPreviousPage startCursor endCursor} edges{cursor node{%KEY%}} nodes{%KEY%}}`

func gqlLists(bugPrefix string) []gqlList {
	mk := func(name, field, key string, inBug bool, extra string) gqlList {
		sel := strings.ReplaceAll(pageSel, "%KEY%", key)
		args := "(after:$after,before:$before,first:$first,last:$last" + extra + ")"
		q := "query($ref:String,$after:String,$before:String,$first:Int,$last:Int){repository(ref:$ref){"
		path := []string{"repository"}
		if inBug {
			q += fmt.Sprintf("bug(prefix:%q){%s%s %s}", bugPrefix, field, args, sel)
			path = append(path, "bug")
		} else {
			q += field + args + " " + sel
		}
		q += "}}"
		return gqlList{name: name, query: q, path: append(path, field), key: key}
	}
	return []gqlList{
		mk("allBugs", "allBugs", "id", false, `,query:"no:label"`),
		mk("allIdentities", "allIdentities", "id", false, ""),
		mk("validLabels", "validLabels", "name", false, ""),
		mk("bug.comments", "comments", "id", true, ""),
		mk("bug.timeline", "timeline", "id", true, ""),
		mk("bug.operations", "operations", "id", true, ""),
		mk("bug.actors", "actors", "id", true, ""),
		mk("bug.participants", "participants", "id", true, ""),
	}
}

type world struct {
	n       int
	ref     string
	lists   []gqlList
	handler graphql.Handler
	full    map[string]Out // full listing per list
}

func buildWorld(mrc *cache.MultiRepoCache, n int) (string, string) {
	dir := hx.Scratch(fmt.Sprintf("page-r%d", n))
	repo := hx.InitRepo(dir)
	name := fmt.Sprintf("r%d", n)
	rc, events := mrc.RegisterRepository(repo, name)
	for ev := range events {
		if ev.Err != nil {
			hx.Die("register: %v", ev.Err)
		}
	}
	var authors []*cache.IdentityCache
	for i := 0; i < n; i++ {
		a, err := rc.Identities().New(fmt.Sprintf("author%d", i), fmt.Sprintf("a%d@example.org", i))
		hx.Must(err)
		authors = append(authors, a)
	}
	hx.Must(rc.SetUserIdentity(authors[0]))
	b0, _, err := rc.Bugs().NewRaw(authors[0], 1000, "page bug 0", "message0", nil, nil)
	hx.Must(err)
	for i := 1; i < n; i++ {
		_, _, err := b0.AddCommentRaw(authors[i], int64(1000+i), fmt.Sprintf("message%d", i), nil, nil)
		hx.Must(err)
	}
	hx.Must(b0.CommitAsNeeded())
	for i := 1; i < n; i++ {
		b, _, err := rc.Bugs().NewRaw(authors[i], int64(2000+i), fmt.Sprintf("page bug %d", i), "m", nil, nil)
		hx.Must(err)
		hx.Must(b.CommitAsNeeded())
	}
	bl, _, err := rc.Bugs().NewRaw(authors[0], 3000, "label holder", "m", nil, nil)
	hx.Must(err)
	var labels []string
	for i := 0; i < n; i++ {
		labels = append(labels, fmt.Sprintf("label%02d", i))
	}
	_, _, err = bl.ChangeLabelsRaw(authors[0], 3001, labels, nil, nil)
	hx.Must(err)
	hx.Must(bl.CommitAsNeeded())
	return name, b0.Id().String()
}

type gqlResp struct {
	Data   json.RawMessage `json:"data"`
	Errors []struct {
		Message string `json:"message"`
	} `json:"errors"`
}

func (w *world) request(l gqlList, after, before *string, first, last *int) Out {
	vars := map[string]interface{}{"ref": w.ref}
	if after != nil {
		vars["after"] = *after
	}
	if before != nil {
		vars["before"] = *before
	}
	if first != nil {
		vars["first"] = *first
	}
	if last != nil {
		vars["last"] = *last
	}
	body, _ := json.Marshal(map[string]interface{}{"query": l.query, "variables": vars})
	req := httptest.NewRequest("POST", "/graphql", bytes.NewReader(body))
	req.Header.Set("Content-Type", "application/json")
	rec := httptest.NewRecorder()
	w.handler.ServeHTTP(rec, req)
	var resp gqlResp
	if err := json.Unmarshal(rec.Body.Bytes(), &resp); err != nil {
		return Out{Err: true, ErrMsg: "undecodable response: " + rec.Body.String()}
	}
	if len(resp.Errors) > 0 {
		return Out{Err: true, ErrMsg: resp.Errors[0].Message}
	}
	var cur interface{}
	if err := json.Unmarshal(resp.Data, &cur); err != nil {
		return Out{Err: true, ErrMsg: "undecodable data"}
	}
	for _, p := range l.path {
		m, ok := cur.(map[string]interface{})
		if !ok {
			return Out{Err: true, ErrMsg: "null on path " + p}
		}
		cur = m[p]
	}
	m, ok := cur.(map[string]interface{})
	if !ok {
		return Out{Err: true, ErrMsg: "null connection"}
	}
	var o Out
	o.Total = int(m["totalCount"].(float64))
	pi := m["pageInfo"].(map[string]interface{})
	o.HasNext = pi["hasNextPage"].(bool)
	o.HasPrev = pi["hasPreviousPage"].(bool)
	o.Start = pi["startCursor"].(string)
	o.End = pi["endCursor"].(string)
	for _, e := range m["edges"].([]interface{}) {
		em := e.(map[string]interface{})
		o.Cursors = append(o.Cursors, em["cursor"].(string))
		o.Edges = append(o.Edges, fmt.Sprint(em["node"].(map[string]interface{})[l.key]))
	}
	for _, e := range m["nodes"].([]interface{}) {
		o.Nodes = append(o.Nodes, fmt.Sprint(e.(map[string]interface{})[l.key]))
	}
	return o
}

// Run is the entry point: vh page <vectors.ndjson> <out.ndjson> <e2e: 0|1> <e2e sample modulus>
func Run(args []string) {
	if len(args) < 4 {
		hx.Die("usage: page <vectors> <out> <e2e 0|1> <modulus>")
	}
	lines := hx.ReadLines(args[0])
	out := hx.NewWriter(args[1])
	defer out.Close()
	e2e := args[2] == "1"
	var mod int
	fmt.Sscan(args[3], &mod)
	if mod < 1 {
		mod = 1
	}

	var vecs []Vec
	var raws []json.RawMessage
	var walks []Walk
	maxN := 0
	for _, l := range lines {
		if bytes.Contains(l, []byte(`"walk"`)) {
			var w Walk
			hx.Must(json.Unmarshal(l, &w))
			walks = append(walks, w)
			continue
		}
		var v Vec
		hx.Must(json.Unmarshal(l, &v))
		vecs = append(vecs, v)
		raws = append(raws, l)
		if v.N > maxN {
			maxN = v.N
		}
	}
	// deterministic order whatever TLC's worker interleaving was
	idx := make([]int, len(vecs))
	for i := range idx {
		idx[i] = i
	}
	sort.Slice(idx, func(a, b int) bool { return bytes.Compare(raws[idx[a]], raws[idx[b]]) < 0 })

	stats := map[string]int{}
	var smu = make(chan struct{}, 1)
	bump := func(k string, d int) { smu <- struct{}{}; stats[k] += d; <-smu }

	// ---- direct
	fixtures := make([]fixture, maxN+1)
	for n := 0; n <= maxN; n++ {
		fixtures[n] = makeFixture(n)
	}
	dl := directLists()
	// a panic of the code under test is an outcome ("crashed"), not the end of the driver
	for i := range dl {
		inner := dl[i].call
		dl[i].call = func(f fixture, in models.ConnectionInput) (o Out) {
			defer func() {
				if p := recover(); p != nil {
					o = Out{Err: false, ErrMsg: fmt.Sprintf("CRASHED: %v", p), Total: -1}
				}
			}()
			return inner(f, in)
		}
	}
	hx.Parallel(len(idx), 0, func(j int) {
		v := vecs[idx[j]]
		f := fixtures[v.N]
		variants := 1
		if v.After == foreign || v.After == malformed || v.Before == foreign || v.Before == malformed {
			variants = cursorVariants // every instance of the classes
		}
		for variant := 0; variant < variants; variant++ {
			in := models.ConnectionInput{After: cursorArgV(v.After, oc, variant), Before: cursorArgV(v.Before, oc, variant), First: sizeArg(v.First), Last: sizeArg(v.Last)}
			for _, d := range dl {
				o := d.call(f, in)
				if why := compare(v, o, d.keys(f), oc); why != "" {
					out.Put(Mismatch{List: d.name, Kind: "vector", Vec: raws[idx[j]], Got: o, Why: fmt.Sprintf("%s (cursor instance %d)", why, variant)})
					bump("mismatch", 1)
				}
				bump("direct", 1)
			}
		}
	})
	// walks, direct: the client's loop against the code must produce what the specification's walk produced
	for _, w := range walks {
		f := fixtures[w.N]
		for _, d := range dl {
			got, steps, why := runWalk(w, d.keys(f), func(after, before *string, first, last *int) Out {
				return d.call(f, models.ConnectionInput{After: after, Before: before, First: first, Last: last})
			})
			if why == "" && (!equalInts(got, w.Got) || steps != w.Steps) {
				why = fmt.Sprintf("walk: spec got %v in %d steps, code got %v in %d steps", w.Got, w.Steps, got, steps)
			}
			if why != "" {
				raw, _ := json.Marshal(w)
				out.Put(Mismatch{List: d.name, Kind: "walk", Vec: raw, Got: got, Why: why})
				bump("mismatch", 1)
			}
			bump("direct_walks", 1)
		}
	}

	// ---- end to end
	if e2e {
		mrc := cache.NewMultiRepoCache()
		worlds := map[int]*world{}
		for n := 1; n <= maxN; n++ {
			ref, b0 := buildWorld(mrc, n)
			worlds[n] = &world{n: n, ref: ref, lists: gqlLists(b0)}
		}
		h := graphql.NewHandler(mrc, nil)
		for n := 1; n <= maxN; n++ {
			w := worlds[n]
			w.handler = h
			w.full = map[string]Out{}
			for _, l := range w.lists {
				o := w.request(l, nil, nil, nil, nil)
				if o.Err || len(o.Edges) != n || o.Total != n {
					raw, _ := json.Marshal(map[string]interface{}{"n": n, "list": l.name})
					out.Put(Mismatch{List: l.name, Kind: "vector", Vec: raw, Got: o, Why: fmt.Sprintf("full listing of a list of %d elements is wrong", n)})
					bump("mismatch", 1)
					o = Out{Err: true}
				}
				w.full[l.name] = o
			}
		}
		hx.Parallel(len(idx), 0, func(j int) {
			v := vecs[idx[j]]
			if v.N == 0 || j%mod != int(hx.Seed())%mod {
				return
			}
			w := worlds[v.N]
			for _, l := range w.lists {
				full := w.full[l.name]
				if full.Err {
					continue
				}
				cur := func(p int) string { return full.Cursors[p] }
				o := w.request(l, cursorArgV(v.After, cur, j), cursorArgV(v.Before, cur, j), sizeArg(v.First), sizeArg(v.Last))
				if why := compare(v, o, full.Edges, cur); why != "" {
					out.Put(Mismatch{List: l.name, Kind: "vector", Vec: raws[idx[j]], Got: o, Why: why})
					bump("mismatch", 1)
				}
				bump("e2e", 1)
			}
		})
		for _, wk := range walks {
			if wk.N == 0 {
				continue
			}
			w := worlds[wk.N]
			for _, l := range w.lists {
				full := w.full[l.name]
				if full.Err {
					continue
				}
				l := l
				got, steps, why := runWalk(wk, full.Edges, func(after, before *string, first, last *int) Out {
					return w.request(l, after, before, first, last)
				})
				if why == "" && (!equalInts(got, wk.Got) || steps != wk.Steps) {
					why = fmt.Sprintf("walk: spec got %v in %d steps, code got %v in %d steps", wk.Got, wk.Steps, got, steps)
				}
				if why != "" {
					raw, _ := json.Marshal(wk)
					out.Put(Mismatch{List: l.name, Kind: "walk", Vec: raw, Got: got, Why: why})
					bump("mismatch", 1)
				}
				bump("e2e_walks", 1)
			}
		}
		_ = mrc.Close()
	}
	out.Put(map[string]interface{}{"stats": stats, "vectors": len(vecs), "walks": len(walks)})
}

func equalInts(a, b []int) bool {
	if len(a) != len(b) {
		return false
	}
	for i := range a {
		if a[i] != b[i] {
			return false
		}
	}
	return true
}

// runWalk pages through a list the way a client does, using only cursors returned by the server.
func runWalk(w Walk, keys []string, call func(after, before *string, first, last *int) Out) ([]int, int, string) {
	pos := map[string]int{}
	for i, k := range keys {
		pos[k] = i
	}
	var got []int
	var cur *string
	steps := 0
	for {
		var o Out
		k := w.K
		if w.Walk == "fwd" {
			o = call(cur, nil, &k, nil)
		} else {
			o = call(nil, cur, nil, &k)
		}
		steps++
		if o.Err {
			return got, steps, "walk: request failed: " + o.ErrMsg
		}
		var page []int
		for _, e := range o.Edges {
			p, ok := pos[e]
			if !ok {
				return got, steps, "walk: unknown element " + e
			}
			page = append(page, p)
		}
		if w.Walk == "fwd" {
			got = append(got, page...)
			if !o.HasNext {
				return got, steps, ""
			}
			c := o.End
			cur = &c
		} else {
			got = append(page, got...)
			if !o.HasPrev {
				return got, steps, ""
			}
			c := o.Start
			cur = &c
		}
		if steps > w.N+3 {
			return got, steps, "walk: does not terminate"
		}
	}
}
