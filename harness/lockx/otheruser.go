package lockx

import (
	"bytes"
	"os"
	"os/exec"
	"path/filepath"
	"strconv"
	"strings"
	"syscall"
	"time"

	"github.com/MichaelMure/git-bug/entities/bug"
	"github.com/MichaelMure/git-bug/entities/identity"

	"verif/harness/hx"
)

// A holder owned by another user: the second process may not signal it (kill(pid, 0) answers EPERM), which still means the
// holder is alive. Needs root (to start the second process under another uid); skipped otherwise.

// OtherUser: vh lock-other-user <out> <git-bug binary>
func OtherUser(args []string) {
	out := hx.NewWriter(args[0])
	defer out.Close()
	gitbug := args[1]
	rec := map[string]interface{}{"ev": "OtherUser", "skipped": false}
	if os.Geteuid() != 0 {
		rec["skipped"] = true
		out.Put(rec)
		return
	}
	base, err := os.MkdirTemp("/dev/shm", "lockuser-")
	hx.Must(err)
	defer os.RemoveAll(base)
	dir := filepath.Join(base, "repo")
	repo := hx.InitRepo(dir)
	a, err := identity.NewIdentity(repo, "somebody", "s@example.org")
	hx.Must(err)
	hx.Must(a.Commit(repo))
	hx.Must(identity.SetUserIdentity(repo, a))
	b, _, err := bug.Create(a, 1600000000, "a bug", "message", nil, nil)
	hx.Must(err)
	hx.Must(b.Commit(repo))
	_ = repo.Close()
	// the other user needs the binary and the repository
	bin := filepath.Join(base, "git-bug")
	data, err := os.ReadFile(gitbug)
	hx.Must(err)
	hx.Must(os.WriteFile(bin, data, 0o755))
	hx.Must(exec.Command("chmod", "-R", "a+rwX", base).Run())
	env := append(os.Environ(), "XDG_CONFIG_HOME="+filepath.Join(base, "xdg"), "HOME="+base, "GIT_CONFIG_GLOBAL=/dev/null")
	// the holder, as root
	holder := exec.Command(bin, "webui", "--no-open", "--host", "127.0.0.1", "--port", strconv.Itoa(20000+(os.Getpid()%2500)*16+15))
	holder.Dir, holder.Env = dir, env
	hb := &bytes.Buffer{}
	holder.Stdout, holder.Stderr = hb, hb
	hx.Must(holder.Start())
	done := make(chan error, 1)
	go func() { done <- holder.Wait() }()
	defer func() {
		_ = holder.Process.Signal(syscall.SIGINT)
		select {
		case <-done:
		case <-time.After(10 * time.Second):
			_ = holder.Process.Kill()
			<-done
		}
	}()
	opened := false
	for i := 0; i < 4000 && !opened; i++ {
		select {
		case err := <-done:
			hx.Die("the holder exited by itself: %v: %s", err, hb.String())
		default:
		}
		opened = lockContent(dir) == strconv.Itoa(holder.Process.Pid) && strings.Contains(hb.String(), "Web UI")
		time.Sleep(5 * time.Millisecond)
	}
	if !opened {
		hx.Die("the holder did not open within 20 s: %s", hb.String())
	}
	_ = exec.Command("chmod", "-R", "a+rwX", base).Run() // what the holder created meanwhile
	rec["holder_pid"] = holder.Process.Pid
	rec["lock_before"] = lockContent(dir)
	probe := exec.Command(bin, "bug")
	probe.Dir, probe.Env = dir, env
	probe.SysProcAttr = &syscall.SysProcAttr{Credential: &syscall.Credential{Uid: 65534, Gid: 65534}}
	var pb bytes.Buffer
	probe.Stdout, probe.Stderr = &pb, &pb
	hx.Must(probe.Start())
	pdone := make(chan error, 1)
	go func() { pdone <- probe.Wait() }()
	admitted, finished := false, false
	var perr error
	for i := 0; i < 300 && !finished; i++ {
		select {
		case perr = <-pdone:
			finished = true
		case <-time.After(50 * time.Millisecond):
			if lc := lockContent(dir); lc != "" && lc != strconv.Itoa(holder.Process.Pid) {
				admitted = true // the lock changed hands while the holder lives
			}
		}
		if admitted && !finished {
			_ = probe.Process.Kill()
			<-pdone
			finished = true
		}
	}
	if !finished {
		_ = probe.Process.Kill()
		<-pdone
	}
	rec["probe_out"] = strings.TrimSpace(pb.String())
	rec["probe_failed"] = perr != nil
	rec["admitted"] = admitted || (finished && perr == nil)
	rec["names_holder"] = namesPid(pb.String(), holder.Process.Pid)
	rec["lock_after"] = lockContent(dir)
	out.Put(rec)
}
