package lockx

import (
	"fmt"
	"os"
	"os/exec"
	"path/filepath"
	"strconv"
	"strings"
	"time"

	"github.com/go-git/go-billy/v5"

	"github.com/MichaelMure/git-bug/cache"
	"github.com/MichaelMure/git-bug/entities/bug"
	"github.com/MichaelMure/git-bug/entities/identity"
	"github.com/MichaelMure/git-bug/repository"

	"verif/harness/hx"
)

// The window of lock() (spec/MC_LockOpen.tla): taking the lock is "create the file, write the pid". A holder that dies
// in between leaves a lock without a live owner: the next open must succeed. A holder that is merely slow in between is
// alive: nobody may take its lock away.

type lockGateFS struct {
	billy.Filesystem
	mode   string // "die": exit at the chosen point of taking the lock; "stall": wait there
	target int    // the k-th point: every write to the lock file (or to the temporary file that becomes it), and its renaming
	n      int
	hit    chan struct{}
	cont   chan struct{}
}

type gateFile struct {
	billy.File
	fs *lockGateFS
}

func isLock(name string) bool { return strings.HasPrefix(filepath.Base(name), "lock") }

func (f *lockGateFS) gate() {
	f.n++
	if f.n != f.target {
		return
	}
	switch f.mode {
	case "die":
		os.Exit(77)
	case "stall":
		f.hit <- struct{}{}
		<-f.cont
	}
}

func (f *lockGateFS) Create(name string) (billy.File, error) {
	file, err := f.Filesystem.Create(name)
	if err == nil && isLock(name) {
		return &gateFile{file, f}, nil
	}
	return file, err
}
func (f *lockGateFS) TempFile(dir, prefix string) (billy.File, error) {
	file, err := f.Filesystem.TempFile(dir, prefix)
	if err == nil && isLock(prefix) {
		return &gateFile{file, f}, nil
	}
	return file, err
}
func (f *lockGateFS) Rename(from, to string) error {
	if isLock(to) {
		f.gate()
	}
	return f.Filesystem.Rename(from, to)
}
func (f *lockGateFS) OpenFile(name string, flag int, perm os.FileMode) (billy.File, error) {
	file, err := f.Filesystem.OpenFile(name, flag, perm)
	if err == nil && isLock(name) && flag&(os.O_WRONLY|os.O_RDWR) != 0 {
		return &gateFile{file, f}, nil
	}
	return file, err
}

// the first write to the lock file is where the holder dies or stalls: the file exists, its content does not yet
func (g *gateFile) Write(p []byte) (int, error) {
	g.fs.gate()
	return g.File.Write(p)
}

// LockWindowChild: vh lock-window-child <dir> <die|stall> <k>: opens the cache and is interrupted at the k-th point of taking the lock
func LockWindowChild(args []string) {
	dir, mode := args[0], args[1]
	k, _ := strconv.Atoi(args[2])
	g := &lockGateFS{mode: mode, target: k, hit: make(chan struct{}, 1), cont: make(chan struct{})}
	repository.VerifWrapLocalStorage = func(fs billy.Filesystem) billy.Filesystem { g.Filesystem = fs; return g }
	repo, err := repository.OpenGoGitRepo(dir, "git-bug", []repository.ClockLoader{bug.ClockLoader})
	hx.Must(err)
	if mode == "stall" {
		go func() {
			<-g.hit
			fmt.Println("STALLED")
			time.Sleep(4 * time.Second) // the parent probes meanwhile
			g.cont <- struct{}{}
		}()
	}
	c, events := cache.NewRepoCache(repo)
	for e := range events {
		hx.Must(e.Err)
	}
	fmt.Println("OPENED", lockContent(dir))
	time.Sleep(1500 * time.Millisecond)
	hx.Must(c.Close())
	fmt.Println("CLOSED")
}

func probeOpen(gitbug, dir string) (admitted bool, out string) {
	cmd := exec.Command(gitbug, "bug")
	cmd.Dir = dir
	cmd.Env = append(os.Environ(), "XDG_CONFIG_HOME="+filepath.Join(dir, "xdg"))
	o, err := cmd.CombinedOutput()
	return err == nil, strings.TrimSpace(string(o))
}

// LockWindow: vh lock-window <out> <git-bug binary>
func LockWindow(args []string) {
	out := hx.NewWriter(args[0])
	defer out.Close()
	gitbug := args[1]
	for _, mk := range []string{"die 1", "die 2", "stall 1", "stall 2"} {
		mode, k := strings.Fields(mk)[0], strings.Fields(mk)[1]
		dir := hx.Scratch("lockwin")
		repo := hx.InitRepo(dir)
		a, err := identity.NewIdentity(repo, "somebody", "s@example.org")
		hx.Must(err)
		hx.Must(a.Commit(repo))
		hx.Must(identity.SetUserIdentity(repo, a))
		b, _, err := bug.Create(a, 1600000000, "a bug", "message", nil, nil)
		hx.Must(err)
		hx.Must(b.Commit(repo))
		_ = repo.Close()
		rec := map[string]interface{}{"ev": "LockWindow", "mode": mode, "point": k}
		child := exec.Command(os.Args[0], "lock-window-child", dir, mode, k)
		child.Env = append(os.Environ(), "VERIF_SCRATCH="+os.Getenv("VERIF_SCRATCH"))
		stdout, err := child.StdoutPipe()
		hx.Must(err)
		hx.Must(child.Start())
		switch mode {
		case "die":
			err := child.Wait()
			code := -1
			if ee, ok := err.(*exec.ExitError); ok {
				code = ee.ExitCode()
			}
			rec["child_exit"] = code
			rec["lock_left"] = lockContent(dir)
			_, statErr := os.Stat(filepath.Join(dir, ".git", "git-bug", "lock"))
			rec["lock_file_exists"] = statErr == nil
			// the holder is dead: whatever it left, the next open must succeed (and a second one too)
			ok1, o1 := probeOpen(gitbug, dir)
			ok2, o2 := probeOpen(gitbug, dir)
			rec["next_open_ok"], rec["next_open_out"] = ok1 && ok2, o1+" / "+o2
		case "stall":
			buf := make([]byte, 64)
			n, _ := stdout.Read(buf) // "STALLED"
			rec["stalled"] = strings.Contains(string(buf[:n]), "STALLED")
			rec["lock_while_stalled"] = lockContent(dir)
			_, statErr := os.Stat(filepath.Join(dir, ".git", "git-bug", "lock"))
			rec["lock_file_exists_while_stalled"] = statErr == nil
			admitted, o := probeOpen(gitbug, dir)
			rec["probe_admitted"], rec["probe_out"] = admitted, o
			rec["lock_after_probe"] = lockContent(dir)
			rest := make([]byte, 4096)
			var all string
			for {
				n, err := stdout.Read(rest)
				all += string(rest[:n])
				if err != nil {
					break
				}
			}
			_ = child.Wait()
			rec["holder_pid"] = child.Process.Pid
			rec["holder_out"] = strings.TrimSpace(all)
			rec["holder_saw_own_lock"] = strings.Contains(all, "OPENED "+strconv.Itoa(child.Process.Pid))
			rec["lock_at_end"] = lockContent(dir)
		}
		out.Put(rec)
		_ = os.RemoveAll(dir)
	}
}
