package lockx

import (
	"bytes"
	"encoding/json"
	"os"
	"os/exec"
	"path/filepath"
	"strconv"
	"strings"
	"sync"
	"sync/atomic"
	"syscall"
	"time"

	"github.com/MichaelMure/git-bug/entities/bug"
	"github.com/MichaelMure/git-bug/entities/identity"

	"verif/harness/hx"
)

// A holder whose process id has more digits than the ones a small machine hands out (pid_max defaults to 4194304 on 64-bit
// hosts: seven digits). The scenario runs in a process-id namespace of its own, raises that namespace's pid_max, uses process
// ids up to 100000 and then starts the holder; needs root, unshare(1) and a kernel with per-namespace pid_max (6.14),
// skipped otherwise.

// BigPid: vh lock-bigpid <out> <git-bug binary>
func BigPid(args []string) {
	out := hx.NewWriter(args[0])
	defer out.Close()
	gitbug := args[1]
	rec := map[string]interface{}{"ev": "BigPid", "skipped": false}
	skip := func(why string) {
		rec["skipped"], rec["why"] = true, why
		out.Put(rec)
	}
	if os.Geteuid() != 0 {
		skip("not running as root")
		return
	}
	unshare, err := exec.LookPath("unshare")
	if err != nil {
		skip("no unshare(1)")
		return
	}
	base, err := os.MkdirTemp("/dev/shm", "lockbig-")
	hx.Must(err)
	defer os.RemoveAll(base)
	dir := filepath.Join(base, "repo")
	repo := hx.InitRepo(dir)
	a, err := identity.NewIdentity(repo, "somebody", "s@example.org")
	hx.Must(err)
	hx.Must(a.Commit(repo))
	hx.Must(identity.SetUserIdentity(repo, a))
	b, _, err := bug.Create(a, 1600000000, "a bug", "message", nil, nil)
	hx.Must(err)
	hx.Must(b.Commit(repo))
	_ = repo.Close()
	self, err := os.Executable()
	hx.Must(err)
	res := filepath.Join(base, "result.json")
	cmd := exec.Command(unshare, "--pid", "--fork", "--mount-proc", self, "lock-bigpid-inner", dir, gitbug, res)
	cmd.Env = append(os.Environ(), "XDG_CONFIG_HOME="+filepath.Join(base, "xdg"), "HOME="+base, "GIT_CONFIG_GLOBAL=/dev/null")
	var cb bytes.Buffer
	cmd.Stdout, cmd.Stderr = &cb, &cb
	hx.Must(cmd.Start())
	done := make(chan error, 1)
	go func() { done <- cmd.Wait() }()
	select {
	case <-done:
	case <-time.After(5 * time.Minute):
		_ = cmd.Process.Kill()
		<-done
		hx.Die("the big-pid scenario did not finish within 5 minutes: %s", cb.String())
	}
	data, err := os.ReadFile(res)
	if err != nil {
		skip("no process-id namespace here: " + strings.TrimSpace(cb.String()))
		return
	}
	hx.Must(json.Unmarshal(data, &rec))
	rec["ev"] = "BigPid"
	out.Put(rec)
}

// BigPidInner runs as process 1 of the new namespace: vh lock-bigpid-inner <repo dir> <git-bug binary> <result file>
func BigPidInner(args []string) {
	dir, bin, res := args[0], args[1], args[2]
	rec := map[string]interface{}{"skipped": false}
	put := func() {
		data, err := json.Marshal(rec)
		hx.Must(err)
		hx.Must(os.WriteFile(res, data, 0o644))
	}
	if os.Getpid() != 1 {
		rec["skipped"], rec["why"] = true, "not in a process-id namespace of its own"
		put()
		return
	}
	if err := os.WriteFile("/proc/sys/kernel/pid_max", []byte("4194304\n"), 0o644); err != nil {
		rec["skipped"], rec["why"] = true, "pid_max of the namespace cannot be raised: "+err.Error()
		put()
		return
	}
	// use process ids up to 100000
	var last int64
	var wg sync.WaitGroup
	deadline := time.Now().Add(3 * time.Minute)
	for w := 0; w < 16; w++ {
		wg.Add(1)
		go func() {
			defer wg.Done()
			for atomic.LoadInt64(&last) < 100050 && time.Now().Before(deadline) {
				c := exec.Command("/bin/true")
				if c.Start() == nil {
					p := int64(c.Process.Pid)
					for {
						l := atomic.LoadInt64(&last)
						if p <= l || atomic.CompareAndSwapInt64(&last, l, p) {
							break
						}
					}
					_ = c.Wait()
				}
			}
		}()
	}
	wg.Wait()
	holder := exec.Command(bin, "webui", "--no-open", "--host", "127.0.0.1", "--port", strconv.Itoa(61000+int(time.Now().UnixNano()%3000)))
	holder.Dir = dir
	hb := &bytes.Buffer{}
	holder.Stdout, holder.Stderr = hb, hb
	hx.Must(holder.Start())
	done := make(chan error, 1)
	go func() { done <- holder.Wait() }()
	stopped := false
	stop := func() {
		if stopped {
			return
		}
		stopped = true
		_ = holder.Process.Signal(syscall.SIGINT)
		select {
		case <-done:
		case <-time.After(10 * time.Second):
			_ = holder.Process.Kill()
			<-done
		}
	}
	defer stop()
	pid := holder.Process.Pid
	rec["holder_pid"] = pid
	if pid < 100000 {
		rec["skipped"], rec["why"] = true, "the holder got process id "+strconv.Itoa(pid)
		put()
		return
	}
	opened := false
	for i := 0; i < 4000 && !opened; i++ {
		select {
		case err := <-done:
			stopped = true
			hx.Die("the holder exited by itself: %v: %s", err, hb.String())
		default:
		}
		opened = lockContent(dir) == strconv.Itoa(pid) && strings.Contains(hb.String(), "Web UI")
		time.Sleep(5 * time.Millisecond)
	}
	if !opened {
		hx.Die("the holder did not open within 20 s: lock %q: %s", lockContent(dir), hb.String())
	}
	rec["lock_before"] = lockContent(dir)
	probe := exec.Command(bin, "bug")
	probe.Dir = dir
	var pb bytes.Buffer
	probe.Stdout, probe.Stderr = &pb, &pb
	hx.Must(probe.Start())
	pdone := make(chan error, 1)
	go func() { pdone <- probe.Wait() }()
	admitted, finished := false, false
	var perr error
	for i := 0; i < 300 && !finished; i++ {
		select {
		case perr = <-pdone:
			finished = true
		case <-time.After(50 * time.Millisecond):
			if lc := lockContent(dir); lc != "" && lc != strconv.Itoa(pid) {
				admitted = true // the lock changed hands while the holder lives
			}
		}
		if admitted && !finished {
			_ = probe.Process.Kill()
			<-pdone
			finished = true
		}
	}
	if !finished {
		_ = probe.Process.Kill()
		<-pdone
	}
	holderAlive := true
	select {
	case <-done:
		holderAlive, stopped = false, true
	default:
	}
	rec["holder_alive"] = holderAlive
	rec["probe_out"] = strings.TrimSpace(pb.String())
	rec["probe_failed"] = perr != nil
	rec["admitted"] = admitted || (finished && perr == nil)
	rec["names_holder"] = namesPid(pb.String(), pid)
	rec["lock_after"] = lockContent(dir)
	// once the holder is gone the next command takes the lock over
	stop()
	next := exec.Command(bin, "bug")
	next.Dir = dir
	nout, nerr := next.CombinedOutput()
	rec["next_ok"] = nerr == nil
	rec["next_out"] = strings.TrimSpace(string(nout))
	put()
}
