// Package lockx executes the schedules of spec/MC_Lock.tla with real git-bug processes on one repository: long-lived
// holders (`git-bug webui`), short commands that succeed or fail, clean exits and kills (C19).
package lockx

import (
	"bytes"
	"encoding/json"
	"fmt"
	"os"
	"os/exec"
	"path/filepath"
	"strconv"
	"strings"
	"syscall"
	"time"

	"github.com/MichaelMure/git-bug/entities/bug"
	"github.com/MichaelMure/git-bug/entities/identity"

	"verif/harness/hx"
)

type Step struct {
	Act  string `json:"act"`
	H    int    `json:"h"`
	Kind string `json:"kind"`
	Out  string `json:"out"`
	By   int    `json:"by"`
	Lock int    `json:"lock"`
}
type Schedule struct {
	Steps []Step `json:"steps"`
}

type holder struct {
	cmd    *exec.Cmd
	stderr *bytes.Buffer
	done   chan error
}

// namesPid: the refusal names the holder - its pid appears as a number of its own in the message (the wording is free)
func namesPid(msg string, pid int) bool {
	for _, f := range strings.FieldsFunc(msg, func(r rune) bool { return r < '0' || r > '9' }) {
		if f == strconv.Itoa(pid) {
			return true
		}
	}
	return false
}

func lockContent(dir string) string {
	b, err := os.ReadFile(filepath.Join(dir, ".git", "git-bug", "lock"))
	if err != nil {
		return ""
	}
	return strings.TrimSpace(string(b))
}

func run(gitbug string, s Schedule) string {
	dir := hx.Scratch("lock")
	defer os.RemoveAll(dir)
	repo := hx.InitRepo(dir)
	a, err := identity.NewIdentity(repo, "somebody", "s@example.org")
	hx.Must(err)
	hx.Must(a.Commit(repo))
	hx.Must(identity.SetUserIdentity(repo, a))
	b, _, err := bug.Create(a, 1600000000, "a bug", "message", nil, nil)
	hx.Must(err)
	hx.Must(b.Commit(repo))
	_ = repo.Close()
	env := append(os.Environ(), "HOME="+dir, "XDG_CONFIG_HOME="+filepath.Join(dir, "xdg"))

	holders := map[int]*holder{}
	defer func() {
		for _, h := range holders {
			if h != nil {
				_ = h.cmd.Process.Kill()
				<-h.done
			}
		}
	}()
	pidOf := func(h int) int {
		if holders[h] == nil {
			return 0
		}
		return holders[h].cmd.Process.Pid
	}
	deadPid := map[int]int{}
	checkLock := func(i int, st Step) string {
		got := lockContent(dir)
		want := ""
		if st.Lock != 0 {
			p := pidOf(st.Lock)
			if p == 0 {
				p = deadPid[st.Lock]
			}
			want = strconv.Itoa(p)
		}
		if got != want {
			return fmt.Sprintf("step %d %s(%d,%s): lock file holds %q, specification %q", i+1, st.Act, st.H, st.Kind, got, want)
		}
		return ""
	}
	nport := 0
	for i, st := range s.Steps {
		// a holder that went away by itself (its web server could not listen, say) is a failure of this driver, not of the lock
		for hn, h := range holders {
			if h == nil {
				continue
			}
			select {
			case err := <-h.done:
				return fmt.Sprintf("DRIVER: holder %d (pid %d) exited by itself before step %d: %v: %s", hn, h.cmd.Process.Pid, i+1, err, h.stderr.String())
			default:
			}
		}
		before := lockContent(dir)
		switch st.Act {
		case "Open":
			// a port of this process's own range: the "free port" the command would pick by itself is found by binding and
			// releasing it, which two holders started at the same moment can both win
			nport++
			port := 20000 + (os.Getpid()%2500)*16 + nport%16
			cmd := exec.Command(gitbug, "webui", "--no-open", "--host", "127.0.0.1", "--port", strconv.Itoa(port))
			cmd.Dir, cmd.Env = dir, env
			eb := &bytes.Buffer{}
			cmd.Stderr, cmd.Stdout = eb, eb
			hx.Must(cmd.Start())
			h := &holder{cmd: cmd, stderr: eb, done: make(chan error, 1)}
			go func() { h.done <- cmd.Wait() }()
			opened, exited := false, false
			deadline := time.Now().Add(20 * time.Second)
			for time.Now().Before(deadline) {
				select {
				case <-h.done:
					exited = true
				default:
				}
				if exited {
					break
				}
				if lockContent(dir) == strconv.Itoa(cmd.Process.Pid) && strings.Contains(eb.String(), "Web UI") {
					opened = true
					break
				}
				time.Sleep(5 * time.Millisecond)
			}
			if !opened && !exited {
				_ = cmd.Process.Kill()
				<-h.done
				hx.Die("holder neither opened nor exited within 20 s: %s", eb.String())
			}
			if st.Out == "opened" {
				if !opened {
					return fmt.Sprintf("step %d Open(%d): specification: the holder opens the cache; it exited: %s", i+1, st.H, eb.String())
				}
				holders[st.H] = h
			} else {
				if opened {
					holders[st.H] = h
					return fmt.Sprintf("step %d Open(%d): specification: refused while pid %d holds the lock; a second process opened the cache", i+1, st.H, pidOf(st.By))
				}
				if !namesPid(eb.String(), pidOf(st.By)) {
					return fmt.Sprintf("step %d Open(%d): refusal does not name the holder (pid %d): %s", i+1, st.H, pidOf(st.By), eb.String())
				}
				if lockContent(dir) != before {
					return fmt.Sprintf("step %d Open(%d): a refused open changed the lock file", i+1, st.H)
				}
			}
		case "Close":
			h := holders[st.H]
			_ = h.cmd.Process.Signal(syscall.SIGINT)
			select {
			case <-h.done:
			case <-time.After(20 * time.Second):
				_ = h.cmd.Process.Kill()
				<-h.done
				return fmt.Sprintf("DRIVER: step %d Close(%d): the holder did not exit within 20 s of SIGINT", i+1, st.H)
			}
			deadPid[st.H] = h.cmd.Process.Pid
			holders[st.H] = nil
		case "Kill":
			h := holders[st.H]
			_ = h.cmd.Process.Kill()
			<-h.done // reaped: the pid is gone
			deadPid[st.H] = h.cmd.Process.Pid
			holders[st.H] = nil
		case "Cmd":
			var args []string
			switch st.Kind {
			case "ok":
				args = []string{"bug"}
			case "fail-after-open":
				args = []string{"bug", "show", "0123456"}
			case "fail-no-identity":
				args = []string{"bug", "rm", b.Id().String()[:8]}
			}
			if st.Kind == "fail-no-identity" {
				// the user's identity configuration is gone: commands that insist on one fail after the cache was opened
				_ = exec.Command("git", "-C", dir, "config", "--local", "--unset", "git-bug.identity").Run()
			}
			cmd := exec.Command(gitbug, args...)
			cmd.Dir, cmd.Env = dir, env
			out, err := cmd.CombinedOutput()
			if st.Kind == "fail-no-identity" {
				_ = exec.Command("git", "-C", dir, "config", "--local", "git-bug.identity", a.Id().String()).Run()
			}
			failed := err != nil
			locked := strings.Contains(string(out), "locked")
			switch st.Out {
			case "refused":
				if !failed || !namesPid(string(out), pidOf(st.By)) {
					return fmt.Sprintf("step %d Cmd(%s): specification: refused, naming pid %d; got exit error=%v output %q", i+1, st.Kind, pidOf(st.By), failed, string(out))
				}
				if lockContent(dir) != before {
					return fmt.Sprintf("step %d Cmd(%s): a refused command changed the lock file", i+1, st.Kind)
				}
			case "ok":
				if failed {
					return fmt.Sprintf("step %d Cmd(ok): specification: the command runs; it failed: %s", i+1, string(out))
				}
			default:
				if !failed || locked {
					return fmt.Sprintf("step %d Cmd(%s): specification: the command opens the cache and then fails on its own; got exit error=%v output %q", i+1, st.Kind, failed, string(out))
				}
			}
		}
		if why := checkLock(i, st); why != "" {
			return why
		}
	}
	return ""
}

func Worker(args []string) {
	gitbug := args[0]
	hx.Serve(func(item json.RawMessage) interface{} {
		var s Schedule
		hx.Must(json.Unmarshal(item, &s))
		return map[string]string{"why": run(gitbug, s)}
	})
}

// Run: vh lock <schedules> <out> <git-bug binary>
func Run(args []string) {
	items := hx.ReadLines(args[0])
	out := hx.NewWriter(args[1])
	defer out.Close()
	res := hx.Isolated("lock-worker", items, 12, args[2])
	bad := 0
	for i, r := range res {
		var a map[string]string
		hx.Must(json.Unmarshal(r, &a))
		why := a["why"]
		if c, ok := a["crash"]; ok {
			why = "harness worker crashed: " + c
		}
		if why != "" {
			bad++
			out.Put(map[string]interface{}{"schedule": items[i], "why": why})
		}
	}
	out.Put(map[string]interface{}{"stats": map[string]int{"executed": len(items), "mismatches": bad}})
}
