package lockx

import (
	"bytes"
	"fmt"
	"os"
	"os/exec"
	"path/filepath"
	"strconv"
	"strings"
	"sync"
	"time"

	"github.com/go-git/go-billy/v5"

	"github.com/MichaelMure/git-bug/cache"
	"github.com/MichaelMure/git-bug/entities/bug"
	"github.com/MichaelMure/git-bug/entities/identity"
	"github.com/MichaelMure/git-bug/repository"

	"verif/harness/hx"
)

// The window of Close (spec/MC_LockClose.tla): this process is the holder. Through the local-storage hook every write it makes to
// .git/git-bug between opening the cache and the return of Close is observed; at each of them the lock file must exist and
// name this process. At the first write made during Close a real `git-bug bug` process is started: it must be refused and
// name the holder.

type watchFS struct {
	billy.Filesystem
	w *watch
}

type watch struct {
	mu       sync.Mutex
	dir      string
	active   bool // between the open of the cache and the return of Close
	closing  bool
	writes   int
	unlocked []string
	probe    func() string
	probed   bool
	probeRes string
}

func (w *watch) note(op, name string) {
	w.mu.Lock()
	defer w.mu.Unlock()
	if !w.active || isLock(name) { // taking and releasing the lock itself (the file, or the temporary file that becomes it)
		return
	}
	w.writes++
	if lockContent(w.dir) != strconv.Itoa(os.Getpid()) {
		w.unlocked = append(w.unlocked, fmt.Sprintf("%s %s (closing=%v, lock file: %q)", op, name, w.closing, lockContent(w.dir)))
	}
	if w.closing && !w.probed && w.probe != nil {
		w.probed = true
		w.probeRes = w.probe()
	}
}

func (f watchFS) Create(name string) (billy.File, error) {
	f.w.note("create", name)
	return f.Filesystem.Create(name)
}
func (f watchFS) OpenFile(name string, flag int, perm os.FileMode) (billy.File, error) {
	if flag&(os.O_WRONLY|os.O_RDWR|os.O_CREATE|os.O_TRUNC) != 0 {
		f.w.note("open for writing", name)
	}
	return f.Filesystem.OpenFile(name, flag, perm)
}
func (f watchFS) Rename(from, to string) error {
	f.w.note("rename", to)
	return f.Filesystem.Rename(from, to)
}
func (f watchFS) Remove(name string) error {
	f.w.note("remove", name)
	return f.Filesystem.Remove(name)
}
func (f watchFS) TempFile(dir, prefix string) (billy.File, error) {
	f.w.note("tempfile", dir)
	return f.Filesystem.TempFile(dir, prefix)
}
func (f watchFS) MkdirAll(name string, perm os.FileMode) error {
	f.w.note("mkdir", name)
	return f.Filesystem.MkdirAll(name, perm)
}

// closeWatch: the repository handed to the cache; the cache closes it as part of its own Close, which is the moment observed
type closeWatch struct {
	repository.ClockedRepo
	w *watch
}

func (c closeWatch) Close() error {
	c.w.note("close of the repository", "(inside RepoCache.Close)")
	return c.ClockedRepo.Close()
}

// CloseWindow: vh lock-close <out> <git-bug binary>
func CloseWindow(args []string) {
	out := hx.NewWriter(args[0])
	defer out.Close()
	gitbug := args[1]
	dir := hx.Scratch("lockclose")
	defer os.RemoveAll(dir)
	w := &watch{dir: dir}
	repository.VerifWrapLocalStorage = func(fs billy.Filesystem) billy.Filesystem { return watchFS{fs, w} }
	repo := hx.InitRepo(dir)
	a, err := identity.NewIdentity(repo, "somebody", "s@example.org")
	hx.Must(err)
	hx.Must(a.Commit(repo))
	hx.Must(identity.SetUserIdentity(repo, a))
	for i := 0; i < 5; i++ {
		b, _, err := bug.Create(a, 1600000000+int64(i), fmt.Sprintf("bug %d", i), "message", nil, nil)
		hx.Must(err)
		hx.Must(b.Commit(repo))
	}
	// the hook is applied by OpenGoGitRepo
	hx.Must(repo.Close())
	repo, err = repository.OpenGoGitRepo(dir, "git-bug", []repository.ClockLoader{bug.ClockLoader})
	hx.Must(err)
	w.probe = func() string {
		cmd := exec.Command(gitbug, "bug")
		cmd.Dir = dir
		cmd.Env = append(os.Environ(), "XDG_CONFIG_HOME="+filepath.Join(dir, "xdg"))
		var buf bytes.Buffer
		cmd.Stdout, cmd.Stderr = &buf, &buf
		hx.Must(cmd.Start())
		done := make(chan error, 1)
		go func() { done <- cmd.Wait() }()
		// an admitted process may then wait for files the holder still has open (the holder waits for this probe): taking
		// the lock is what counts
		for i := 0; i < 200; i++ {
			select {
			case err := <-done:
				o := strings.TrimSpace(buf.String())
				if err == nil {
					return "admitted: " + o
				}
				if namesPid(o, os.Getpid()) {
					return "refused"
				}
				return "failed otherwise: " + o
			case <-time.After(50 * time.Millisecond):
			}
			if lockContent(dir) == strconv.Itoa(cmd.Process.Pid) {
				_ = cmd.Process.Kill()
				<-done
				return fmt.Sprintf("admitted: process %d took the lock while the holder %d was still closing", cmd.Process.Pid, os.Getpid())
			}
		}
		_ = cmd.Process.Kill()
		<-done
		return "neither refused nor finished within 10 s: " + strings.TrimSpace(buf.String())
	}
	w.mu.Lock()
	w.active = true
	w.mu.Unlock()
	c, events := cache.NewRepoCache(closeWatch{repo, w})
	for e := range events {
		hx.Must(e.Err)
	}
	b, _, err := c.Bugs().New("through the cache", "message")
	hx.Must(err)
	_, _, err = b.AddComment("a comment")
	hx.Must(err)
	hx.Must(b.Commit())
	beforeClose := lockContent(dir)
	w.mu.Lock()
	w.closing = true
	w.mu.Unlock()
	cerr := c.Close()
	w.mu.Lock()
	w.active = false
	w.mu.Unlock()
	rec := map[string]interface{}{"ev": "CloseWindow", "pid": os.Getpid(), "lock_before_close": beforeClose, "writes": w.writes,
		"unlocked": w.unlocked, "probe": w.probeRes, "probed": w.probed, "lock_after_close": lockContent(dir), "close_err": ""}
	if w.unlocked == nil {
		rec["unlocked"] = []string{}
	}
	if cerr != nil {
		rec["close_err"] = cerr.Error()
	}
	out.Put(rec)
}
