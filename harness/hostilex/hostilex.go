// Package hostilex serves the structurally mutated histories enumerated by spec/Format.tla to a victim repository
// (as remote-tracking refs, and as locally stored data) and checks what merging and reading make of them (C07).
package hostilex

import (
	"crypto/sha256"
	"encoding/hex"
	"encoding/json"
	"fmt"
	gogit "github.com/go-git/go-git/v5"
	"github.com/go-git/go-git/v5/plumbing"
	"github.com/go-git/go-git/v5/plumbing/object"
	"os"
	"path/filepath"
	"sort"
	"strings"
	"time"

	"github.com/MichaelMure/git-bug/entities/bug"
	"github.com/MichaelMure/git-bug/entities/common"
	"github.com/MichaelMure/git-bug/entities/identity"
	"github.com/MichaelMure/git-bug/entity"
	"github.com/MichaelMure/git-bug/entity/dag"
	"github.com/MichaelMure/git-bug/repository"

	"verif/harness/hx"
)

type Case struct {
	Kind    string `json:"kind"`
	M       string `json:"m"`
	Pos     string `json:"pos"`
	Local   string `json:"local"`
	Class   string `json:"class"`
	Verdict string `json:"verdict"`
	Status  string `json:"status"`
}

func sha(b []byte) string {
	h := sha256.Sum256(b)
	return hex.EncodeToString(h[:])
}

type entry struct {
	name string
	kind string // "empty" (empty blob), "blob" (content), "tree" (a tree holding one empty blob)
	data []byte
}

// packSpec is one operation pack before it is written.
type packSpec struct {
	entries   []entry // besides the ops entry
	author    interface{}
	hasAuthor bool
	ops       interface{} // []json.RawMessage or something else
	rawBlob   []byte      // overrides author/ops when set
	opsEntry  string      // "blob", "missing", "tree"
	parents   []int       // indexes of parent packs in the chain (-1 = none)
}

func (p *packSpec) blob() []byte {
	if p.rawBlob != nil {
		return p.rawBlob
	}
	m := map[string]interface{}{"ops": p.ops}
	if p.hasAuthor {
		m["author"] = p.author
	}
	b, err := json.Marshal(m)
	hx.Must(err)
	return b
}

func (p *packSpec) setEntry(prefix, name string) {
	for i, e := range p.entries {
		if strings.HasPrefix(e.name, prefix) {
			if name == "" {
				p.entries = append(p.entries[:i], p.entries[i+1:]...)
			} else {
				p.entries[i].name = name
			}
			return
		}
	}
	if name != "" {
		p.entries = append(p.entries, entry{name: name, kind: "empty"})
	}
}

func rawOps(ops ...interface{}) []json.RawMessage {
	var r []json.RawMessage
	for _, op := range ops {
		b, err := json.Marshal(op)
		hx.Must(err)
		r = append(r, b)
	}
	return r
}

func validPack(authorId string, et, ct int, ops []json.RawMessage, parents ...int) *packSpec {
	p := &packSpec{author: map[string]string{"id": authorId}, hasAuthor: true, ops: ops, opsEntry: "blob", parents: parents}
	p.entries = []entry{{name: "version-4", kind: "empty"}, {name: fmt.Sprintf("edit-clock-%d", et), kind: "empty"}}
	if ct > 0 {
		p.entries = append(p.entries, entry{name: fmt.Sprintf("create-clock-%d", ct), kind: "empty"})
	}
	return p
}

func editOp(raw json.RawMessage, f func(m map[string]interface{})) json.RawMessage {
	var m map[string]interface{}
	hx.Must(json.Unmarshal(raw, &m))
	f(m)
	b, err := json.Marshal(m)
	hx.Must(err)
	return b
}

// mutateBug applies one named mutation to the pack at index i of the chain.
func mutateBug(chain []*packSpec, i int, m string, author identity.Interface) []*packSpec {
	p := chain[i]
	ops, _ := p.ops.([]json.RawMessage)
	switch m {
	case "none":
	case "ver_missing":
		p.setEntry("version-", "")
	case "ver_other":
		p.setEntry("version-", "version-3")
	case "ver_garbage":
		p.setEntry("version-", "version-x")
	case "ver_huge":
		p.setEntry("version-", "version-99999")
	case "ver_zero":
		p.setEntry("version-", "version-0")
	case "ver_dup":
		p.entries = append(p.entries, entry{name: "version-5", kind: "empty"})
	case "ops_missing":
		p.opsEntry = "missing"
	case "ops_is_tree":
		p.opsEntry = "tree"
	case "editclock_missing":
		p.setEntry("edit-clock-", "")
	case "editclock_garbage":
		p.setEntry("edit-clock-", "edit-clock-x")
	case "editclock_zero":
		p.setEntry("edit-clock-", "edit-clock-0")
	case "editclock_two":
		for _, e := range p.entries {
			if strings.HasPrefix(e.name, "edit-clock-") {
				p.entries = append(p.entries, entry{name: e.name + "0", kind: "empty"}) // ten times later: still within the hop limit? no: use a sibling
				break
			}
		}
	case "createclock_missing":
		p.setEntry("create-clock-", "")
	case "createclock_garbage":
		p.setEntry("create-clock-", "create-clock-x")
	case "extra_file":
		p.entries = append(p.entries, entry{name: "README", kind: "blob", data: []byte("hello")})
	case "extra_tree":
		p.entries = append(p.entries, entry{name: "extra", kind: "tree"})
	case "json_broken":
		p.rawBlob = []byte(`{"author":{"id":`)
	case "json_array":
		p.rawBlob = []byte(`[]`)
	case "json_string":
		p.rawBlob = []byte(`"ops"`)
	case "json_empty":
		p.rawBlob = []byte{}
	case "author_missing":
		p.hasAuthor = false
	case "author_null":
		p.author = nil
	case "author_number":
		p.author = 5
	case "author_unknown":
		p.author = map[string]string{"id": strings.Repeat("ab", 32)}
	case "author_emptyid":
		p.author = map[string]string{"id": ""}
	case "ops_null":
		p.ops = nil
	case "ops_emptylist":
		p.ops = []json.RawMessage{}
	case "ops_object":
		p.ops = map[string]int{}
	case "ops_string":
		p.ops = "ops"
	case "op_unknown_type":
		ops[len(ops)-1] = editOp(ops[len(ops)-1], func(m map[string]interface{}) { m["type"] = 99 })
	case "op_zero_type":
		ops[len(ops)-1] = editOp(ops[len(ops)-1], func(m map[string]interface{}) { m["type"] = 0 })
	case "op_string_type":
		ops[len(ops)-1] = editOp(ops[len(ops)-1], func(m map[string]interface{}) { m["type"] = "comment" })
	case "op_null":
		p.ops = append(ops, json.RawMessage("null"))
	case "op_number":
		p.ops = append(ops, json.RawMessage("5"))
	case "op_missing_type":
		ops[len(ops)-1] = editOp(ops[len(ops)-1], func(m map[string]interface{}) { delete(m, "type") })
	case "op_bad_title":
		b, err := json.Marshal(bug.NewSetTitleOp(author, 1600000900, "  ", "was"))
		hx.Must(err)
		p.ops = append(ops, b)
	case "op_control_chars":
		b, err := json.Marshal(bug.NewSetTitleOp(author, 1600000900, "ti\x00tle\x1b[31m", "was"))
		hx.Must(err)
		p.ops = append(ops, b)
	case "edit_target_short", "edit_target_empty", "edit_target_long", "edit_target_badchars", "meta_target_short":
		// an operation designating another one by an id that is none
		tgt := map[string]string{"edit_target_short": "abc", "edit_target_empty": "", "edit_target_long": strings.Repeat("a", 70),
			"edit_target_badchars": strings.Repeat("G!", 32), "meta_target_short": "abcdef"}[m]
		var b []byte
		var err error
		if m == "meta_target_short" {
			b, err = json.Marshal(dag.NewSetMetadataOp[*bug.Snapshot](bug.SetMetadataOp, author, 1600000900, entity.Id(tgt), map[string]string{"k": "v"}))
		} else {
			b, err = json.Marshal(bug.NewEditCommentOp(author, 1600000900, entity.Id(tgt), "edited", nil))
		}
		hx.Must(err)
		p.ops = append(ops, b)
	case "odd_label_dup_removed", "odd_label_dup", "odd_label_remove_absent", "odd_label_add_remove", "odd_status_same", "odd_title_same",
		"odd_edit_non_comment", "odd_edit_unknown", "odd_meta_unknown", "odd_comment_huge", "odd_time_before_create", "odd_time_negative", "odd_many_labels":
		// operations no honest client writes but whose form is impeccable: they may be accepted or refused; accepted, the bug
		// has to compile (that is what builds its excerpt), read back and validate
		L := func(ls ...string) []bug.Label {
			var out []bug.Label
			for _, l := range ls {
				out = append(out, bug.Label(l))
			}
			return out
		}
		unknown := entity.Id(strings.Repeat("0123456789abcdef", 4))
		var op dag.Operation
		var more []dag.Operation
		switch m {
		case "odd_label_dup_removed":
			op = bug.NewLabelChangeOperation(author, 1600000900, L("x", "x"), L("x"))
		case "odd_label_dup":
			op = bug.NewLabelChangeOperation(author, 1600000900, L("y", "y", "y"), nil)
			more = append(more, bug.NewLabelChangeOperation(author, 1600000901, nil, L("y")))
		case "odd_label_remove_absent":
			op = bug.NewLabelChangeOperation(author, 1600000900, nil, L("never added", "never added"))
		case "odd_label_add_remove":
			op = bug.NewLabelChangeOperation(author, 1600000900, L("w", "v"), L("w", "v", "w"))
		case "odd_many_labels":
			var many []string
			for k := 0; k < 300; k++ {
				many = append(many, fmt.Sprintf("label-%03d", k%150))
			}
			op = bug.NewLabelChangeOperation(author, 1600000900, L(many...), L(many[:100]...))
		case "odd_status_same":
			op = bug.NewSetStatusOp(author, 1600000900, common.OpenStatus)
			more = append(more, bug.NewSetStatusOp(author, 1600000901, common.ClosedStatus), bug.NewSetStatusOp(author, 1600000902, common.ClosedStatus))
		case "odd_title_same":
			op = bug.NewSetTitleOp(author, 1600000900, "same title", "never was")
			more = append(more, bug.NewSetTitleOp(author, 1600000901, "same title", "same title"))
		case "odd_edit_non_comment":
			t := bug.NewSetTitleOp(author, 1600000900, "a title to aim at", "was")
			op = t
			more = append(more, bug.NewEditCommentOp(author, 1600000901, t.Id(), "edits a title change", nil))
		case "odd_edit_unknown":
			op = bug.NewEditCommentOp(author, 1600000900, unknown, "edits nothing", nil)
		case "odd_meta_unknown":
			op = bug.NewSetMetadataOp(author, 1600000900, unknown, map[string]string{"k": "v"})
		case "odd_comment_huge":
			op = bug.NewAddCommentOp(author, 1600000900, strings.Repeat("long line of a long comment\n", 8000), nil)
		case "odd_time_before_create":
			op = bug.NewAddCommentOp(author, 5, "written before the bug", nil)
			more = append(more, bug.NewEditCommentOp(author, 4, op.Id(), "edited even earlier", nil))
		case "odd_time_negative":
			op = bug.NewAddCommentOp(author, -1600000900, "negative time", nil)
		}
		for _, o := range append([]dag.Operation{op}, more...) {
			b, err := json.Marshal(o)
			hx.Must(err)
			ops = append(ops, b)
		}
		p.ops = ops
	case "op_short_nonce":
		ops[len(ops)-1] = editOp(ops[len(ops)-1], func(m map[string]interface{}) { m["nonce"] = "AAAA" })
	case "op_no_nonce":
		ops[len(ops)-1] = editOp(ops[len(ops)-1], func(m map[string]interface{}) { delete(m, "nonce") })
	case "op_extra_field":
		ops[len(ops)-1] = editOp(ops[len(ops)-1], func(m map[string]interface{}) { m["unknown_field"] = "x" })
	case "op_dup":
		p.ops = append(ops, ops[len(ops)-1])
	case "create_not_first":
		// the root pack opens with a comment, its one create operation comes second; everything else is by the book (the ref is
		// named after the first operation)
		b, err := json.Marshal(bug.NewAddCommentOp(author, 1600000000, "before the beginning", nil))
		hx.Must(err)
		p.ops = append([]json.RawMessage{b}, ops...)
	case "create_missing":
		b, err := json.Marshal(bug.NewAddCommentOp(author, 1600000000, "no beginning at all", nil))
		hx.Must(err)
		p.ops = append([]json.RawMessage{b}, ops[1:]...)
	case "second_create":
		b, err := json.Marshal(bug.NewCreateOp(author, 1600000901, "another create", "message", nil))
		hx.Must(err)
		p.ops = append(ops, b)
	case "merge_with_ops":
		// a second parent: an extra valid pack hanging off the root
		side := validPack(author.Id().String(), 11, 0, rawOps(bug.NewAddCommentOp(author, 1600000902, "side branch", nil)), 0)
		chain = append(chain, side)
		p.parents = append(p.parents, len(chain)-1)
	case "second_root":
		// a second parent that is itself a root
		side := validPack(author.Id().String(), 9, 3, rawOps(bug.NewAddCommentOp(author, 1600000903, "foreign root", nil)))
		chain = append(chain, side)
		p.parents = append(p.parents, len(chain)-1)
		p.ops = []json.RawMessage{}
	case "clock_back":
		p.setEntry("edit-clock-", "edit-clock-1")
	case "clock_jump":
		p.setEntry("edit-clock-", "edit-clock-5000000")
	case "empty_history":
		// handled by the caller (a single pack without operations)
	case "ref_other_id", "ref_bad_name":
		// handled by the caller
	default:
		hx.Die("unknown bug mutation %q", m)
	}
	return chain
}

func writePack(repo repository.ClockedRepo, p *packSpec, parents []repository.Hash) repository.Hash {
	empty, err := repo.StoreData([]byte{})
	hx.Must(err)
	var tree []repository.TreeEntry
	for _, e := range p.entries {
		switch e.kind {
		case "empty":
			tree = append(tree, repository.TreeEntry{ObjectType: repository.Blob, Hash: empty, Name: e.name})
		case "blob":
			h, err := repo.StoreData(e.data)
			hx.Must(err)
			tree = append(tree, repository.TreeEntry{ObjectType: repository.Blob, Hash: h, Name: e.name})
		case "tree":
			h, err := repo.StoreTree([]repository.TreeEntry{{ObjectType: repository.Blob, Hash: empty, Name: "file0"}})
			hx.Must(err)
			tree = append(tree, repository.TreeEntry{ObjectType: repository.Tree, Hash: h, Name: e.name})
		}
	}
	switch p.opsEntry {
	case "blob":
		h, err := repo.StoreData(p.blob())
		hx.Must(err)
		tree = append(tree, repository.TreeEntry{ObjectType: repository.Blob, Hash: h, Name: "ops"})
	case "tree":
		h, err := repo.StoreTree([]repository.TreeEntry{{ObjectType: repository.Blob, Hash: empty, Name: "file0"}})
		hx.Must(err)
		tree = append(tree, repository.TreeEntry{ObjectType: repository.Tree, Hash: h, Name: "ops"})
	}
	th, err := repo.StoreTree(tree)
	hx.Must(err)
	c, err := hx.CommitOnce(repo, th, parents...)
	hx.Must(err)
	return c
}

// writeChain writes packs in an order where parents come first; the head is pack `head`.
func writeChain(repo repository.ClockedRepo, chain []*packSpec, head int) repository.Hash {
	done := map[int]repository.Hash{}
	var write func(i int) repository.Hash
	write = func(i int) repository.Hash {
		if h, ok := done[i]; ok {
			return h
		}
		var parents []repository.Hash
		for _, p := range chain[i].parents {
			parents = append(parents, write(p))
		}
		done[i] = writePack(repo, chain[i], parents)
		return done[i]
	}
	return write(head)
}

func refsSnapshot(repo repository.RepoData) string {
	refs, err := repo.ListRefs("refs/")
	hx.Must(err)
	sort.Strings(refs)
	var sb strings.Builder
	for _, r := range refs {
		if strings.HasPrefix(r, "refs/remotes/") {
			continue
		}
		h, _ := repo.ResolveRef(r)
		fmt.Fprintf(&sb, "%s=%s;", r, h)
	}
	return sb.String()
}

func statusName(s entity.MergeStatus) string {
	switch s {
	case entity.MergeStatusNew:
		return "new"
	case entity.MergeStatusInvalid:
		return "invalid"
	case entity.MergeStatusUpdated:
		return "updated"
	case entity.MergeStatusNothing:
		return "nothing"
	case entity.MergeStatusError:
		return "error"
	}
	return "none"
}

type Outcome struct {
	Status     string `json:"status"`
	Reason     string `json:"reason"`
	Untouched  bool   `json:"untouched"`
	Readable   bool   `json:"readable"`
	ReadErr    string `json:"readerr"`
	LocalRead  string `json:"localread"` // "error" | "ok" | "panic: ..." when the served data is stored under the local ref and read
	Crashed    bool   `json:"crashed"`
	CacheBuild string `json:"cachebuild"`
}

func posIndex(pos string) int { return map[string]int{"root": 0, "middle": 1, "head": 2}[pos] }

func bugCase(c Case) Outcome { return bugCaseWith(c, nil) }

func bugCaseWith(c Case, tweak func(chain []*packSpec)) Outcome {
	dir := hx.Scratch("hostile")
	defer os.RemoveAll(dir)
	repo := hx.InitRepo(dir)
	defer repo.Close()
	alice, err := identity.NewIdentity(repo, "alice", "alice@example.org")
	hx.Must(err)
	hx.Must(alice.Commit(repo))
	reader, err := identity.NewIdentity(repo, "reader", "reader@example.org")
	hx.Must(err)
	hx.Must(reader.Commit(repo))
	aid := alice.Id().String()

	create := bug.NewCreateOp(alice, 1600000000, "a bug", "first message", nil)
	// the operations of the valid history are created once: every chain built from them is byte-identical
	r1 := rawOps(create, bug.NewAddCommentOp(alice, 1600000001, "comment in root pack", nil))
	r2 := rawOps(bug.NewAddCommentOp(alice, 1600000002, "second pack", nil))
	r3 := rawOps(bug.NewSetTitleOp(alice, 1600000003, "retitled", "a bug"))
	cp := func(x []json.RawMessage) []json.RawMessage { return append([]json.RawMessage(nil), x...) }
	mk := func() []*packSpec {
		return []*packSpec{validPack(aid, 10, 5, cp(r1)), validPack(aid, 11, 0, cp(r2), 0), validPack(aid, 12, 0, cp(r3), 1)}
	}
	origRaw, _ := json.Marshal(create)
	origId := sha(origRaw)

	// local situation, built from the unmutated history
	local := mk()
	localRef := "refs/bugs/" + origId
	switch c.Local {
	case "equal":
		hx.Must(repo.UpdateRef(localRef, writeChain(repo, local, 2)))
	case "ahead":
		local = append(local, validPack(aid, 13, 0, rawOps(bug.NewAddCommentOp(alice, 1600000004, "local only", nil)), 2))
		hx.Must(repo.UpdateRef(localRef, writeChain(repo, local, 3)))
	case "behind":
		hx.Must(repo.UpdateRef(localRef, writeChain(repo, local, 0)))
	case "diverged":
		local[1] = validPack(aid, 11, 0, rawOps(bug.NewAddCommentOp(alice, 1600000005, "local branch", nil)), 0)
		hx.Must(repo.UpdateRef(localRef, writeChain(repo, local, 1)))
	}

	// what the remote serves
	remote := mk()
	head := 2
	if c.M == "empty_history" {
		remote = []*packSpec{validPack(aid, 10, 5, []json.RawMessage{})}
		head = 0
	} else {
		remote = mutateBug(remote, posIndex(c.Pos), c.M, alice)
	}
	if tweak != nil {
		tweak(remote)
	}
	remoteHead := writeChain(repo, remote, head)
	refId := origId
	if ops, ok := remote[0].ops.([]json.RawMessage); ok && len(ops) > 0 && remote[0].rawBlob == nil {
		refId = sha(ops[0])
	}
	switch c.M {
	case "ref_other_id":
		refId = strings.Repeat("cd", 32)
	case "ref_bad_name":
		refId = "not-an-id"
	}
	hx.Must(repo.UpdateRef("refs/remotes/origin/bugs/"+refId, remoteHead))

	before := refsSnapshot(repo)
	var out Outcome
	resolvers := entity.Resolvers{&identity.Identity{}: identity.NewSimpleResolver(repo)}
	n := 0
	for res := range bug.MergeAll(repo, resolvers, "origin", reader) {
		out.Status, out.Reason = statusName(res.Status), res.Reason
		if res.Err != nil {
			out.Reason = res.Err.Error()
		}
		n++
	}
	if n != 1 {
		out.Status = fmt.Sprintf("%d results", n)
	}
	out.Untouched = refsSnapshot(repo) == before
	// whatever is local now must read back and validate
	out.Readable = true
	refs, _ := repo.ListRefs("refs/bugs/")
	for _, ref := range refs {
		b, err := safeReadBug(repo, entity.RefToId(ref))
		if err == nil {
			err = b.Validate()
		}
		if err != nil {
			out.Readable, out.ReadErr = false, err.Error()
		}
	}
	// the same data stored locally: reading it is an error, not a crash
	hx.Must(repo.UpdateRef("refs/bugs/"+strings.Repeat("ef", 32), remoteHead))
	_, err = safeReadBug(repo, entity.Id(strings.Repeat("ef", 32)))
	switch {
	case err == nil:
		out.LocalRead = "ok"
	case strings.HasPrefix(err.Error(), "panic:"):
		out.LocalRead = err.Error()
	default:
		out.LocalRead = "error"
	}
	// a cache built over it reports an error at worst
	out.CacheBuild = cacheBuild(repo)
	return out
}

func cacheBuild(repo repository.ClockedRepo) (res string) {
	defer func() {
		if p := recover(); p != nil {
			res = fmt.Sprintf("panic: %v", p)
		}
	}()
	c, err := hx.OpenCache(repo)
	if err != nil {
		return "error"
	}
	_ = c.Close()
	return "ok"
}

func safeReadBug(repo repository.ClockedRepo, id entity.Id) (b *bug.Bug, err error) {
	defer func() {
		if p := recover(); p != nil {
			err = fmt.Errorf("panic: %v", p)
		}
	}()
	return bug.Read(repo, id)
}

// ---------------------------------------------------------------------------------------------------- identities

type verSpec struct {
	fields  map[string]interface{}
	raw     []byte
	entries string // "ok", "missing", "renamed", "extra", "tree"
	parents []int
	foreign bool // committed by somebody else: same tree and parents give another commit hash
}

func validVersion(name string, edit int, parents ...int) *verSpec {
	return &verSpec{entries: "ok", parents: parents, fields: map[string]interface{}{"version": 2, "times": map[string]int{"bugs-edit": edit, "bugs-create": 1},
		"unix_time": 1600000000, "name": name, "email": "x@example.org", "nonce": make([]byte, 20)}}
}

func (v *verSpec) blob() []byte {
	if v.raw != nil {
		return v.raw
	}
	b, err := json.Marshal(v.fields)
	hx.Must(err)
	return b
}

func mutateIdentity(chain []*verSpec, i int, m string) []*verSpec {
	v := chain[i]
	switch m {
	case "none":
	case "entry_missing":
		v.entries = "missing"
	case "entry_renamed":
		v.entries = "renamed"
	case "entry_extra":
		v.entries = "extra"
	case "entry_is_tree":
		v.entries = "tree"
	case "json_broken":
		v.raw = []byte(`{"version":`)
	case "json_array":
		v.raw = []byte(`[1]`)
	case "format_other":
		v.fields["version"] = 1
	case "format_missing":
		delete(v.fields, "version")
	case "format_string":
		v.fields["version"] = "2"
	case "no_name_login":
		delete(v.fields, "name")
	case "name_control":
		v.fields["name"] = "ali\x00ce"
	case "nonce_short":
		v.fields["nonce"] = make([]byte, 4)
	case "nonce_missing":
		delete(v.fields, "nonce")
	case "avatar_bad":
		v.fields["avatar_url"] = "not an url"
	case "clock_back":
		v.fields["times"] = map[string]int{"bugs-edit": 0, "bugs-create": 1}
	case "clock_dropped":
		v.fields["times"] = map[string]int{"bugs-edit": 9}
	case "clock_all_dropped":
		v.fields["times"] = map[string]int{}
	case "clock_none":
		delete(v.fields, "times")
	case "keys_garbage":
		v.fields["pub_keys"] = []string{"-----BEGIN PGP PUBLIC KEY BLOCK-----\n\nAAAA\n-----END PGP PUBLIC KEY BLOCK-----"}
	case "keys_wrongtype":
		v.fields["pub_keys"] = "key"
	case "keys_null":
		v.fields["pub_keys"] = []interface{}{nil}
	case "keys_number":
		v.fields["pub_keys"] = []interface{}{7}
	case "recommitted":
		for _, x := range chain {
			x.foreign = true
		}
		top := validVersion("mallory", 3, 1)
		top.foreign = true
		chain = append(chain, top)
	case "merge_commit":
		side := validVersion("side", 1)
		chain = append(chain, side)
		v.parents = append(v.parents, len(chain)-1)
	case "ref_other_id", "ref_bad_name":
	default:
		hx.Die("unknown identity mutation %q", m)
	}
	return chain
}

func writeVersions(repo repository.ClockedRepo, chain []*verSpec, head int) repository.Hash {
	done := map[int]repository.Hash{}
	empty, err := repo.StoreData([]byte{})
	hx.Must(err)
	var write func(i int) repository.Hash
	write = func(i int) repository.Hash {
		if h, ok := done[i]; ok {
			return h
		}
		v := chain[i]
		var parents []repository.Hash
		for _, p := range v.parents {
			parents = append(parents, write(p))
		}
		bh, err := repo.StoreData(v.blob())
		hx.Must(err)
		var tree []repository.TreeEntry
		switch v.entries {
		case "ok":
			tree = []repository.TreeEntry{{ObjectType: repository.Blob, Hash: bh, Name: "version"}}
		case "missing":
			tree = []repository.TreeEntry{}
		case "renamed":
			tree = []repository.TreeEntry{{ObjectType: repository.Blob, Hash: bh, Name: "versions"}}
		case "extra":
			tree = []repository.TreeEntry{{ObjectType: repository.Blob, Hash: bh, Name: "version"}, {ObjectType: repository.Blob, Hash: empty, Name: "zzz"}}
		case "tree":
			th, err := repo.StoreTree([]repository.TreeEntry{{ObjectType: repository.Blob, Hash: bh, Name: "version"}})
			hx.Must(err)
			tree = []repository.TreeEntry{{ObjectType: repository.Tree, Hash: th, Name: "version"}}
		}
		th, err := repo.StoreTree(tree)
		hx.Must(err)
		var c repository.Hash
		if v.foreign {
			c = foreignCommit(repo, th, parents)
		} else {
			c, err = hx.CommitOnce(repo, th, parents...)
			hx.Must(err)
		}
		done[i] = c
		return c
	}
	return write(head)
}

// foreignCommit stores a commit with another author and date than StoreCommit would: the same content under another hash
func foreignCommit(repo repository.ClockedRepo, tree repository.Hash, parents []repository.Hash) repository.Hash {
	g, ok := repo.(*repository.GoGitRepo)
	if !ok {
		hx.Die("foreign commits need a go-git repository")
	}
	r, err := gogit.PlainOpenWithOptions(g.GetLocalRemote(), &gogit.PlainOpenOptions{DetectDotGit: true})
	hx.Must(err)
	sig := object.Signature{Name: "mallory", Email: "m@example.org", When: time.Unix(1500000000, 0)}
	cm := object.Commit{Author: sig, Committer: sig, Message: "", TreeHash: plumbing.NewHash(tree.String())}
	for _, p := range parents {
		cm.ParentHashes = append(cm.ParentHashes, plumbing.NewHash(p.String()))
	}
	obj := r.Storer.NewEncodedObject()
	obj.SetType(plumbing.CommitObject)
	hx.Must(cm.Encode(obj))
	h, err := r.Storer.SetEncodedObject(obj)
	hx.Must(err)
	return repository.Hash(h.String())
}

func identityCase(c Case) Outcome { return identityCaseWith(c, nil) }

func identityCaseWith(c Case, tweak func(chain []*verSpec)) Outcome {
	dir := hx.Scratch("hostile")
	defer os.RemoveAll(dir)
	repo := hx.InitRepo(dir)
	defer repo.Close()
	mk := func() []*verSpec {
		return []*verSpec{validVersion("alice", 1), validVersion("alice two", 2, 0)}
	}
	origId := sha(mk()[0].blob())
	// nonces are zero bytes: the first version is identical in every chain built by mk()
	local := mk()
	localRef := "refs/identities/" + origId
	switch c.Local {
	case "equal":
		hx.Must(repo.UpdateRef(localRef, writeVersions(repo, local, 1)))
	case "ahead":
		local = append(local, validVersion("alice three", 3, 1))
		hx.Must(repo.UpdateRef(localRef, writeVersions(repo, local, 2)))
	case "behind":
		hx.Must(repo.UpdateRef(localRef, writeVersions(repo, local, 0)))
	case "diverged":
		local[1] = validVersion("alice local", 2, 0)
		hx.Must(repo.UpdateRef(localRef, writeVersions(repo, local, 1)))
	}
	remote := mk()
	idx := map[string]int{"root": 0, "middle": 0, "head": 1}[c.Pos]
	remote = mutateIdentity(remote, idx, c.M)
	if tweak != nil {
		tweak(remote)
	}
	head := 1
	if c.M == "recommitted" {
		head = 2
	}
	remoteHead := writeVersions(repo, remote, head)
	refId := origId
	if remote[0].raw == nil {
		refId = sha(remote[0].blob())
	}
	switch c.M {
	case "ref_other_id":
		refId = strings.Repeat("cd", 32)
	case "ref_bad_name":
		refId = "not-an-id"
	}
	hx.Must(repo.UpdateRef("refs/remotes/origin/identities/"+refId, remoteHead))
	before := refsSnapshot(repo)
	var out Outcome
	n := 0
	for res := range identity.MergeAll(repo, "origin") {
		out.Status, out.Reason = statusName(res.Status), res.Reason
		if res.Err != nil {
			out.Reason = res.Err.Error()
		}
		n++
	}
	if n != 1 {
		out.Status = fmt.Sprintf("%d results", n)
	}
	out.Untouched = refsSnapshot(repo) == before
	out.Readable = true
	refs, _ := repo.ListRefs("refs/identities/")
	for _, ref := range refs {
		i, err := safeReadIdentity(repo, entity.RefToId(ref))
		if err == nil {
			err = i.Validate()
		}
		if err != nil {
			out.Readable, out.ReadErr = false, err.Error()
		}
	}
	hx.Must(repo.UpdateRef("refs/identities/"+strings.Repeat("ef", 32), remoteHead))
	_, err := safeReadIdentity(repo, entity.Id(strings.Repeat("ef", 32)))
	switch {
	case err == nil:
		out.LocalRead = "ok"
	case strings.HasPrefix(err.Error(), "panic:"):
		out.LocalRead = err.Error()
	default:
		out.LocalRead = "error"
	}
	out.CacheBuild = cacheBuild(repo)
	return out
}

func safeReadIdentity(repo repository.ClockedRepo, id entity.Id) (i *identity.Identity, err error) {
	defer func() {
		if p := recover(); p != nil {
			err = fmt.Errorf("panic: %v", p)
		}
	}()
	return identity.ReadLocal(repo, id)
}

// judge compares an outcome with the specification's verdict.
func judge(c Case, o Outcome) string {
	if strings.HasPrefix(o.LocalRead, "panic") {
		return "reading the data stored locally crashed: " + o.LocalRead
	}
	accepted := o.Status == "new" || o.Status == "updated" || o.Status == "nothing"
	switch c.Verdict {
	case "invalid":
		if o.Status != "invalid" {
			return fmt.Sprintf("specification: must be reported invalid (%s); merge reported %q %s", c.Class, o.Status, o.Reason)
		}
		if !o.Untouched {
			return "reported invalid but local refs changed"
		}
		// data that cannot even be decoded must be an error when read from a local ref; data that decodes but does
		// not validate (op-valid, op-list) is only required not to crash the reader
		if o.LocalRead == "ok" && c.Class != "ref" && c.Class != "op-valid" && c.Class != "op-list" {
			return "the same data stored locally reads without error"
		}
		if strings.HasPrefix(o.CacheBuild, "panic") {
			return "building the cache over the data stored locally crashed: " + o.CacheBuild
		}
	case "valid":
		if o.Status != c.Status {
			return fmt.Sprintf("specification: valid history, merge must report %q in situation %s; reported %q %s", c.Status, c.Local, o.Status, o.Reason)
		}
		if !o.Readable {
			return "valid history merged but the local entity does not read back: " + o.ReadErr
		}
	case "either":
		if o.Status == "invalid" {
			if !o.Untouched {
				return "reported invalid but local refs changed"
			}
		} else if !accepted {
			return fmt.Sprintf("merge reported %q %s", o.Status, o.Reason)
		} else if !o.Readable {
			return "accepted, but the local entity does not read back or validate: " + o.ReadErr
		}
	}
	if !o.Readable && o.Status == "invalid" {
		return "reported invalid, yet a local entity no longer reads: " + o.ReadErr
	}
	return ""
}

func Worker(args []string) {
	hx.Serve(func(item json.RawMessage) interface{} {
		var c Case
		hx.Must(json.Unmarshal(item, &c))
		var o Outcome
		if c.Kind == "bug" {
			o = bugCase(c)
		} else {
			o = identityCase(c)
		}
		return map[string]interface{}{"why": judge(c, o), "outcome": o}
	})
}

// Run: vh hostile <cases> <out>
func Run(args []string) {
	items := hx.ReadLines(args[0])
	out := hx.NewWriter(args[1])
	defer out.Close()
	res := hx.Isolated("hostile-worker", items, 0)
	bad := 0
	for i, r := range res {
		var a struct {
			Why     string          `json:"why"`
			Crash   string          `json:"crash"`
			Outcome json.RawMessage `json:"outcome"`
		}
		hx.Must(json.Unmarshal(r, &a))
		why := a.Why
		if a.Crash != "" {
			why = "process crashed: " + a.Crash
		}
		if why != "" {
			bad++
			out.Put(map[string]interface{}{"case": items[i], "why": why, "outcome": a.Outcome})
		}
	}
	out.Put(map[string]interface{}{"stats": map[string]int{"executed": len(items), "mismatches": bad}})
	_ = filepath.Join
}

// ---------------------------------------------------------------------------------------------------- byte-level fuzz

type xorshift struct{ s uint64 }

func (r *xorshift) n(k int) int {
	r.s ^= r.s << 13
	r.s ^= r.s >> 7
	r.s ^= r.s << 17
	return int((r.s >> 3) % uint64(k))
}

func fuzzBytes(r *xorshift, b []byte) []byte {
	b = append([]byte(nil), b...)
	for k := 0; k < 1+r.n(3); k++ {
		if len(b) == 0 {
			return []byte{byte(r.n(256))}
		}
		switch r.n(6) {
		case 0: // flip a bit
			i := r.n(len(b))
			b[i] ^= 1 << uint(r.n(8))
		case 1: // truncate
			b = b[:r.n(len(b))]
		case 2: // replace a byte by a structural character
			b[r.n(len(b))] = []byte(`{}[]",:0n\`)[r.n(10)]
		case 3: // duplicate a slice
			i := r.n(len(b))
			j := i + r.n(len(b)-i)
			b = append(b[:j], append(append([]byte(nil), b[i:j]...), b[j:]...)...)
		case 4: // insert random bytes
			i := r.n(len(b))
			ins := make([]byte, 1+r.n(4))
			for x := range ins {
				ins[x] = byte(r.n(256))
			}
			b = append(b[:i], append(ins, b[i:]...)...)
		case 5: // delete a slice
			i := r.n(len(b))
			j := i + r.n(len(b)-i)
			b = append(b[:i], b[j:]...)
		}
	}
	return b
}

type FuzzItem struct {
	Kind string `json:"kind"`
	Seed uint64 `json:"seed"`
	Pos  int    `json:"pos"`
	Loc  string `json:"local"`
	// Struct >= 0: instead of random bytes, the Struct-th structural variant of the JSON document (every node replaced by
	// null, a number, a string, a boolean, an empty / one-null list, an empty object, or removed, and every list element
	// doubled); the worker answers "skip" when there are fewer variants
	Struct int `json:"struct"`
}

// structVariant returns the k-th structural variant of a JSON document, or nil when there are not that many.
func structVariant(doc []byte, k int) []byte {
	var root interface{}
	dec := json.NewDecoder(strings.NewReader(string(doc)))
	dec.UseNumber()
	if dec.Decode(&root) != nil {
		return nil
	}
	repl := []interface{}{nil, json.Number("0"), json.Number("-1"), "", "x", true, []interface{}{}, []interface{}{nil}, map[string]interface{}{}}
	n := 0
	var res []byte
	emit := func() bool { // called with the document modified in place
		if n == k {
			res, _ = json.Marshal(root)
		}
		n++
		return res != nil
	}
	var walk func(get func() interface{}, set func(interface{}), del func()) bool
	walk = func(get func() interface{}, set func(interface{}), del func()) bool {
		orig := get()
		for _, r := range repl {
			set(r)
			done := emit()
			set(orig)
			if done {
				return true
			}
		}
		if del != nil {
			del()
			done := emit()
			set(orig)
			if done {
				return true
			}
		}
		switch v := orig.(type) {
		case map[string]interface{}:
			keys := make([]string, 0, len(v))
			for key := range v {
				keys = append(keys, key)
			}
			sort.Strings(keys)
			for _, key := range keys {
				key := key
				if walk(func() interface{} { return v[key] }, func(x interface{}) { v[key] = x }, func() { delete(v, key) }) {
					return true
				}
			}
		case []interface{}:
			for i := range v {
				i := i
				if walk(func() interface{} { return v[i] }, func(x interface{}) { v[i] = x }, nil) {
					return true
				}
				// the element twice
				dup := append(append(append([]interface{}{}, v[:i+1]...), v[i]), v[i+1:]...)
				set(dup)
				done := emit()
				set(orig)
				if done {
					return true
				}
			}
		}
		return false
	}
	walk(func() interface{} { return root }, func(x interface{}) { root = x }, nil)
	return res
}

func fuzzOne(it FuzzItem) Outcome {
	r := &xorshift{s: it.Seed*2685821657736338717 + 1}
	skip := false
	var o Outcome
	if it.Kind == "bug" {
		o = bugCaseWith(Case{Kind: "bug", M: "none", Pos: "head", Local: it.Loc}, func(chain []*packSpec) {
			if it.Struct >= 0 {
				if v := structVariant(chain[it.Pos].blob(), it.Struct); v != nil {
					chain[it.Pos].rawBlob = v
				} else {
					skip = true
				}
				return
			}
			chain[it.Pos].rawBlob = fuzzBytes(r, chain[it.Pos].blob())
		})
	} else {
		o = identityCaseWith(Case{Kind: "identity", M: "none", Pos: "head", Local: it.Loc}, func(chain []*verSpec) {
			if it.Struct >= 0 {
				v := chain[it.Pos%2]
				if _, ok := v.fields["pub_keys"]; !ok {
					v.fields["pub_keys"] = []interface{}{}
					v.fields["metadata"] = map[string]string{"k": "v"}
				}
				if b := structVariant(v.blob(), it.Struct); b != nil {
					v.raw = b
				} else {
					skip = true
				}
				return
			}
			chain[it.Pos%2].raw = fuzzBytes(r, chain[it.Pos%2].blob())
		})
	}
	if skip {
		o.Reason = "skip"
	}
	return o
}

func FuzzWorker(args []string) {
	hx.Serve(func(item json.RawMessage) interface{} {
		var it FuzzItem
		hx.Must(json.Unmarshal(item, &it))
		return fuzzOne(it)
	})
}

// FuzzCmd: vh hostile-fuzz <out> <count of byte-level items> [<upper bound on structural variants per document>]
func FuzzCmd(args []string) {
	out := hx.NewWriter(args[0])
	defer out.Close()
	count := 200
	fmt.Sscan(args[1], &count)
	var items []json.RawMessage
	var its []FuzzItem
	for i := 0; i < count; i++ {
		it := FuzzItem{Kind: []string{"bug", "identity"}[i%2], Seed: uint64(hx.Seed())*1000003 + uint64(i), Pos: i % 3, Loc: []string{"absent", "behind", "equal", "diverged"}[(i/2)%4], Struct: -1}
		b, _ := json.Marshal(it)
		items = append(items, b)
		its = append(its, it)
	}
	// every structural variant of the JSON documents; quick: at the head, two local situations in turn; thorough: everywhere
	nstruct := 0
	if len(args) > 2 {
		fmt.Sscan(args[2], &nstruct)
	}
	thorough := os.Getenv("VERIF_TIER") == "thorough"
	for _, kind := range []string{"bug", "identity"} {
		for k := 0; k < nstruct; k++ {
			poss, locs := []int{2}, []string{[]string{"absent", "behind"}[k%2]}
			if kind == "identity" {
				poss = []int{1}
			}
			if thorough {
				poss, locs = []int{0, 1, 2}, []string{"absent", "behind", "equal", "diverged"}
				if kind == "identity" {
					poss = []int{0, 1}
				}
			}
			for _, pos := range poss {
				for _, loc := range locs {
					it := FuzzItem{Kind: kind, Pos: pos, Loc: loc, Struct: k}
					b, _ := json.Marshal(it)
					items = append(items, b)
					its = append(its, it)
				}
			}
		}
	}
	res := hx.Isolated("hostile-fuzz-worker", items, 0)
	for i, r := range res {
		var o Outcome
		var c map[string]string
		if json.Unmarshal(r, &c) == nil && c["crash"] != "" {
			o = Outcome{Crashed: true, Reason: c["crash"], Status: "none"}
		} else {
			hx.Must(json.Unmarshal(r, &o))
			if strings.HasPrefix(o.LocalRead, "panic") || strings.HasPrefix(o.CacheBuild, "panic") {
				o.Crashed = true
				o.Reason = o.LocalRead + " " + o.CacheBuild
			}
		}
		if o.Reason == "skip" {
			continue
		}
		out.Put(map[string]interface{}{"item": its[i], "o": o})
	}
}
