// Package bridgex imports from a simulated GitLab server with the real GitLab importer (bridge.LoadBridge + ImportAll),
// in rounds, while the simulated tracker grows and chosen requests fail, and records what every round left behind (C16).
package bridgex

import (
	"context"
	"encoding/json"
	"fmt"
	"net"
	"net/http"
	"net/http/httptest"
	"os"
	"sort"
	"strconv"
	"strings"
	"sync"
	"time"

	"github.com/MichaelMure/git-bug/bridge"
	"github.com/MichaelMure/git-bug/bridge/core"
	"github.com/MichaelMure/git-bug/bridge/core/auth"
	"github.com/MichaelMure/git-bug/cache"
	"github.com/MichaelMure/git-bug/entities/bug"
	"github.com/MichaelMure/git-bug/entity/dag"

	"verif/harness/hx"
)

// ---------------------------------------------------------------------------------------------------- the tracker

type event struct {
	Id   int
	Kind string // comment | title | label | state | desc
	T    int    // logical time
	Body int    // version of the body (comments)
	Seq  int    // per-issue sequence (labels alternate add / remove, states close / reopen)
	Cls  int    // text class of a comment: the comments of a session walk through all of them
}

type issue struct {
	Iid    int
	Upd    int
	Born   int
	Events []*event
	DescV  int
	Text   int // text class of title / description
}

type round struct {
	start, end time.Time
	n          int // logical start time
}

type tracker struct {
	mu        sync.Mutex
	issues    map[int]*issue
	now       int
	nextid    int
	margin    int
	rounds    []round
	cur       *round
	fail      string // request class to fail in the current round
	drop      bool   // fail by dropping the connection instead of answering 400
	reqs      []string
	overlap   bool // note / label / state ids come from separate counters (as on a real GitLab)
	perKind   map[string]int
	ncomments int
}

func texts(class int, what string, v int) string {
	if what == "comment" {
		// comments written by people that read like the notes the tracker generates itself (what tells them apart is the
		// `system` flag, not the text)
		sys := []string{"closed", "reopened", "changed the description", "assigned to @user2", "changed title from **a** to **b**",
			"mentioned in issue #2", "changed title from here on", "added ~7 label", "locked this issue"}
		if k := class % 13; k >= 4 {
			if v == 0 {
				return sys[k-4]
			}
			return fmt.Sprintf("%s (edited %d times, still no answer)", sys[k-4], v)
		}
	}
	switch class % 4 {
	case 0:
		return fmt.Sprintf("%s v%d", what, v)
	case 1:
		return fmt.Sprintf("%s v%d \x00with\x1b[31m control\x07 chars, C1 ones too: \u0085 (NEL) \u009b31m (CSI) \u0090", what, v)
	case 2:
		return fmt.Sprintf("  %s v%d é世界 ‮ \r\nsecond line\ttab  ", what, v)
	}
	return fmt.Sprintf("%s v%d <script>alert(1)</script> %s", what, v, strings.Repeat("long ", 50))
}

// titleAt is the title of an issue after its first n events: the one it was born with or the one its last title event gave it
// (the tracker is consistent: what the listing shows is what the notes lead to).
func (tr *tracker) titleAt(is *issue, n int) string {
	title := texts(is.Text, "title", 0)
	for _, e := range is.Events[:n] {
		if e.Kind == "title" {
			title = fmt.Sprintf("new title %d", e.Id)
		}
	}
	return title
}

func ts(t int) string {
	return time.Date(2001, 1, 1, 0, 0, 0, 0, time.UTC).Add(time.Duration(t) * time.Second).Format(time.RFC3339)
}

// The stored cursor has a resolution of one second while rounds take milliseconds: after every round that stored a
// cursor the harness replaces the stored value by a synthetic one (2030-01-01 plus the round number in seconds) that
// identifies the round; the importer only ever hands it back as updated_after.
func syntheticCursor(k int) time.Time {
	return time.Date(2030, 1, 1, 0, 0, 0, 0, time.UTC).Add(time.Duration(k) * time.Second)
}

func (tr *tracker) cursorOf(param string) int {
	if param == "" {
		return 0
	}
	p, err := time.Parse(time.RFC3339, param)
	if err != nil || p.Year() < 1990 {
		return 0
	}
	k := int(p.Sub(syntheticCursor(0)) / time.Second)
	if k >= 1 && k <= len(tr.rounds) {
		return tr.rounds[k-1].n - tr.margin
	}
	return -1 // a cursor no round ever stored
}

func (tr *tracker) serve(w http.ResponseWriter, r *http.Request) {
	tr.mu.Lock()
	defer tr.mu.Unlock()
	path := strings.TrimPrefix(r.URL.Path, "/api/v4/")
	parts := strings.Split(path, "/")
	class := ""
	switch {
	case len(parts) == 3 && parts[0] == "projects" && parts[2] == "issues":
		class = "issues"
	case len(parts) == 2 && parts[0] == "users":
		class = "user:" + parts[1]
	case len(parts) == 5 && parts[4] == "notes":
		class = "notes:" + parts[3]
	case len(parts) == 5 && parts[4] == "resource_label_events":
		class = "labels:" + parts[3]
	case len(parts) == 5 && parts[4] == "resource_state_events":
		class = "states:" + parts[3]
	}
	tr.reqs = append(tr.reqs, class)
	if class != "" && class == tr.fail {
		if tr.drop {
			if hj, ok := w.(http.Hijacker); ok {
				if conn, _, err := hj.Hijack(); err == nil {
					_ = conn.Close()
					return
				}
			}
		}
		http.Error(w, `{"message":"400 injected failure"}`, http.StatusBadRequest)
		return
	}
	w.Header().Set("Content-Type", "application/json")
	w.Header().Set("X-Page", "1")
	w.Header().Set("X-Total-Pages", "1")
	w.Header().Set("X-Per-Page", "100")
	var out interface{}
	user := func(id int) map[string]interface{} {
		return map[string]interface{}{"id": id, "username": fmt.Sprintf("user%d", id), "name": fmt.Sprintf("User %d \x00é", id), "public_email": "", "avatar_url": "", "state": "active"}
	}
	switch {
	case class == "issues":
		cur := tr.cursorOf(r.URL.Query().Get("updated_after"))
		if cur < 0 {
			http.Error(w, `{"message":"unknown cursor"}`, http.StatusInternalServerError)
			return
		}
		var iids []int
		for iid, is := range tr.issues {
			if is.Upd > cur {
				iids = append(iids, iid)
			}
		}
		sort.Slice(iids, func(a, b int) bool { return tr.issues[iids[a]].Upd < tr.issues[iids[b]].Upd })
		list := []interface{}{}
		for _, iid := range iids {
			is := tr.issues[iid]
			list = append(list, map[string]interface{}{"id": 1000 + iid, "iid": iid, "project_id": 1, "title": tr.titleAt(is, len(is.Events)), "description": texts(is.Text, "description", is.DescV),
				"state": "opened", "created_at": ts(is.Born), "updated_at": ts(is.Upd), "author": user(1 + iid%2), "web_url": fmt.Sprintf("http://sim/issues/%d", iid), "labels": []string{}})
		}
		out = list
	case strings.HasPrefix(class, "user:"):
		id, _ := strconv.Atoi(parts[1])
		out = user(id)
	default:
		iid, _ := strconv.Atoi(parts[3])
		is := tr.issues[iid]
		list := []interface{}{}
		if is != nil {
			for k, e := range is.Events {
				switch {
				case strings.HasPrefix(class, "notes:") && e.Kind == "comment":
					list = append(list, map[string]interface{}{"id": e.Id, "body": texts(e.Cls, "comment", e.Body), "author": user(1 + e.Id%2), "system": false, "created_at": ts(e.T), "updated_at": ts(e.T + e.Body), "noteable_iid": iid})
				case strings.HasPrefix(class, "notes:") && e.Kind == "title":
					list = append(list, map[string]interface{}{"id": e.Id, "body": fmt.Sprintf("changed title from **%s** to **new title %d**", tr.titleAt(is, k), e.Id), "author": user(1 + e.Id%2), "system": true, "created_at": ts(e.T), "updated_at": ts(e.T)})
				case strings.HasPrefix(class, "notes:") && e.Kind == "desc":
					list = append(list, map[string]interface{}{"id": e.Id, "body": "changed the description", "author": user(2), "system": true, "created_at": ts(e.T), "updated_at": ts(e.T)})
				case strings.HasPrefix(class, "labels:") && e.Kind == "label":
					action := "add"
					if e.Seq%2 == 1 {
						action = "remove"
					}
					list = append(list, map[string]interface{}{"id": e.Id, "action": action, "created_at": ts(e.T), "resource_type": "Issue", "resource_id": 1000 + iid, "user": user(1),
						"label": map[string]interface{}{"id": 7, "name": "label \x00A"}})
				case strings.HasPrefix(class, "states:") && e.Kind == "state":
					st := "closed"
					if e.Seq%2 == 1 {
						st = "reopened"
					}
					list = append(list, map[string]interface{}{"id": e.Id, "state": st, "created_at": ts(e.T), "resource_type": "Issue", "resource_id": 1000 + iid, "user": user(2)})
				}
			}
		}
		out = list
	}
	_ = json.NewEncoder(w).Encode(out)
}

// ---------------------------------------------------------------------------------------------------- the session

type Step struct {
	Act  string `json:"act"`
	I    int    `json:"i"`
	Kind string `json:"kind"`
	K    int    `json:"k"`
	Fail string `json:"fail"`
	Drop bool   `json:"drop"`
}
type Schedule struct {
	Steps   []Step `json:"steps"`
	Name    string `json:"name"`
	Overlap bool   `json:"overlap"`
	Seed    int    `json:"seed"`
}

type BugObs struct {
	I      int      `json:"i"`
	Known  bool     `json:"known"`
	Ids    []int    `json:"ids"`    // gitlab ids carried by the operations, with multiplicity, sorted
	Nedits int      `json:"nedits"` // edit operations without an id (comment bodies that changed)
	Nops   int      `json:"nops"`
	Valid  bool     `json:"valid"`
	Kinds  []string `json:"kinds"` // what kind of operation carries each id (aligned with ids): comment | title | label | state | desc
	Title  int      `json:"title"` // the title event whose title the bug shows (0: the title the issue was born with, or no bug)
}
type Event struct {
	Ev       string   `json:"ev"`
	I        int      `json:"i"`
	Kind     string   `json:"kind"`
	K        int      `json:"k"`
	Fail     string   `json:"fail"`
	Error    bool     `json:"error"`
	Advanced bool     `json:"advanced"`
	Bugs     []BugObs `json:"bugs"`
	Nbugs    int      `json:"nbugs"`
	Errors   []string `json:"errors"`
	Requests int      `json:"requests"`
}

func observe(rc *cache.RepoCache, nIssue int) ([]BugObs, int) {
	obs := make([]BugObs, nIssue)
	for i := range obs {
		obs[i] = BugObs{I: i + 1, Ids: []int{}, Kinds: []string{}, Valid: true}
	}
	n := 0
	for _, id := range rc.Bugs().AllIds() {
		b, err := rc.Bugs().Resolve(id)
		hx.Must(err)
		n++
		snap := b.Snapshot()
		iid, _ := strconv.Atoi(func() string { v, _ := snap.Operations[0].GetMetadata("gitlab-id"); return v }())
		if iid < 1 || iid > nIssue {
			continue
		}
		o := &obs[iid-1]
		if o.Known {
			o.Valid = false // the same issue imported as two bugs
		}
		o.Known = true
		o.Nops = len(snap.Operations)
		kindOf := map[int]string{}
		if _, err := fmt.Sscanf(snap.Title, "new title %d", &o.Title); err != nil {
			o.Title = 0
		}
		if err := b.Validate(); err != nil {
			o.Valid = false
		}
		for _, op := range snap.Operations[1:] {
			if v, ok := op.GetMetadata("gitlab-id"); ok {
				k, _ := strconv.Atoi(v)
				o.Ids = append(o.Ids, k)
				kindOf[k] = map[dag.OperationType]string{bug.AddCommentOp: "comment", bug.SetTitleOp: "title", bug.LabelChangeOp: "label",
					bug.SetStatusOp: "state", bug.EditCommentOp: "desc"}[op.Type()]
			} else if op.Type() == bug.EditCommentOp {
				o.Nedits++
			}
		}
		sort.Ints(o.Ids)
		for _, k := range o.Ids {
			o.Kinds = append(o.Kinds, kindOf[k])
		}
	}
	return obs, n
}

const NIssue = 2

func runSchedule(s Schedule) []*Event {
	dir := hx.Scratch("bridge")
	defer os.RemoveAll(dir)
	repo := hx.InitRepo(dir)
	rc, err := hx.OpenCache(repo)
	hx.Must(err)
	defer rc.Close()
	u, err := rc.Identities().New("importer", "i@example.org")
	hx.Must(err)
	hx.Must(rc.SetUserIdentity(u))

	tr := &tracker{issues: map[int]*issue{}, now: 10, nextid: 101, margin: 5, overlap: s.Overlap, perKind: map[string]int{}}
	srv := httptest.NewUnstartedServer(http.HandlerFunc(tr.serve))
	l, err := net.Listen("tcp", "127.0.0.1:0")
	hx.Must(err)
	srv.Listener = l
	srv.Start()
	defer srv.Close()
	base := srv.URL + "/"
	for k, v := range map[string]string{"target": "gitlab", "project-id": "1", "base-url": base, "default-login": "sim"} {
		hx.Must(repo.LocalConfig().StoreString("git-bug.bridge.sim."+k, v))
	}
	tok := auth.NewToken("gitlab", "secret")
	tok.SetMetadata(auth.MetaKeyLogin, "sim")
	tok.SetMetadata(auth.MetaKeyBaseURL, base)
	hx.Must(auth.Store(rc, tok))
	br, err := bridge.LoadBridge(rc, "sim")
	hx.Must(err)

	var events []*Event
	for _, st := range s.Steps {
		ev := &Event{Ev: st.Act, I: st.I, Kind: st.Kind, K: st.K, Fail: st.Fail, Bugs: []BugObs{}, Errors: []string{}}
		tr.mu.Lock()
		switch st.Act {
		case "NewIssue":
			tr.issues[st.I] = &issue{Iid: st.I, Upd: tr.now, Born: tr.now, Text: st.I + len(events)}
			tr.now++
		case "AddEvent":
			is := tr.issues[st.I]
			id := tr.nextid
			if tr.overlap {
				// separate id spaces for notes, label events and state events, as on a real GitLab instance
				class := map[string]string{"comment": "note", "title": "note", "desc": "note", "label": "label", "state": "state"}[st.Kind]
				tr.perKind[class]++
				id = tr.perKind[class]
			}
			seq := 0
			for _, e := range is.Events {
				if e.Kind == st.Kind {
					seq++
				}
			}
			cls := 0
			if st.Kind == "comment" {
				tr.ncomments++
				cls = 3 + tr.ncomments + s.Seed%13 // starts among the texts that read like the tracker's own notes
			}
			is.Events = append(is.Events, &event{Id: id, Kind: st.Kind, T: tr.now, Seq: seq, Cls: cls})
			if st.Kind == "desc" {
				is.DescV++
			}
			is.Upd = tr.now
			tr.nextid++
			tr.now++
		case "EditNote":
			is := tr.issues[st.I]
			n := 0
			for _, e := range is.Events {
				if e.Kind == "comment" {
					n++
					if n == st.K {
						e.Body++
					}
				}
			}
			is.Upd = tr.now
			tr.now++
		}
		tr.mu.Unlock()
		if st.Act == "Round" {
			tr.mu.Lock()
			tr.cur = &round{start: time.Now(), n: tr.now}
			tr.fail, tr.drop = st.Fail, st.Drop
			if tr.fail == "none" {
				tr.fail = ""
			}
			tr.reqs = nil
			tr.mu.Unlock()
			before, _ := repo.LocalConfig().ReadString("git-bug.bridge.sim.lastImportTime")
			ctx, cancel := context.WithTimeout(context.Background(), 60*time.Second)
			results, err := br.ImportAll(ctx)
			if err != nil {
				ev.Error = true
				ev.Errors = append(ev.Errors, "ImportAll: "+err.Error())
			} else {
				for r := range results {
					if r.Event == core.ImportEventError || r.Err != nil {
						ev.Error = true
						if len(ev.Errors) < 5 {
							ev.Errors = append(ev.Errors, fmt.Sprint(r.Err))
						}
					}
				}
			}
			cancel()
			after, _ := repo.LocalConfig().ReadString("git-bug.bridge.sim.lastImportTime")
			ev.Advanced = after != before
			tr.mu.Lock()
			tr.cur.end = time.Now()
			tr.rounds = append(tr.rounds, *tr.cur)
			if ev.Advanced {
				hx.Must(repo.LocalConfig().StoreTimestamp("git-bug.bridge.sim.lastImportTime", syntheticCursor(len(tr.rounds))))
			}
			tr.now += 10
			ev.Requests = len(tr.reqs)
			tr.fail = ""
			tr.mu.Unlock()
		}
		ev.Bugs, ev.Nbugs = observe(rc, NIssue)
		events = append(events, ev)
	}
	return events
}

func Worker(args []string) {
	hx.Serve(func(item json.RawMessage) interface{} {
		var s Schedule
		hx.Must(json.Unmarshal(item, &s))
		return runSchedule(s)
	})
}

// Run: vh bridge <schedules> <trace>
func Run(args []string) {
	items := hx.ReadLines(args[0])
	out := hx.NewWriter(args[1])
	defer out.Close()
	res := hx.Isolated("bridge-worker", items, 0)
	n, crashes := 0, 0
	for _, r := range res {
		out.Put(&Event{Ev: "Reset", Bugs: []BugObs{}, Errors: []string{}})
		var evs []*Event
		if err := json.Unmarshal(r, &evs); err != nil {
			var c map[string]string
			_ = json.Unmarshal(r, &c)
			out.Put(&Event{Ev: "Crash", Errors: []string{c["crash"]}, Bugs: []BugObs{}})
			crashes++
			continue
		}
		for _, e := range evs {
			out.Put(e)
			n++
		}
	}
	fmt.Printf("{\"sessions\":%d,\"events\":%d,\"crashed_sessions\":%d}\n", len(items), n, crashes)
}
