package hx

import (
	"bufio"
	"bytes"
	"encoding/json"
	"io"
	"os"
	"os/exec"
	"strings"
	"sync"
)

// Isolated runs every item in a worker process (the same binary, command `worker`), so that a panic in a goroutine
// started by the code under test kills only the worker: the item it was executing is then answered with
// {"crash": "<first line of the panic>", "stderr": "..."} and the worker is restarted for the next item.
func Isolated(worker string, items []json.RawMessage, nWorkers int, extraArgs ...string) []json.RawMessage {
	type wk struct {
		cmd    *exec.Cmd
		in     io.WriteCloser
		out    *bufio.Reader
		stderr *bytes.Buffer
	}
	start := func() *wk {
		cmd := exec.Command(os.Args[0], append([]string{worker}, extraArgs...)...)
		in, _ := cmd.StdinPipe()
		so, _ := cmd.StdoutPipe()
		eb := &bytes.Buffer{}
		cmd.Stderr = eb
		if err := cmd.Start(); err != nil {
			Die("cannot start worker: %v", err)
		}
		return &wk{cmd: cmd, in: in, out: bufio.NewReaderSize(so, 1<<20), stderr: eb}
	}
	res := make([]json.RawMessage, len(items))
	pool := sync.Pool{}
	var all []*wk
	var mu sync.Mutex
	Parallel(len(items), nWorkers, func(i int) {
		var w *wk
		if v := pool.Get(); v != nil {
			w = v.(*wk)
		} else {
			w = start()
			mu.Lock()
			all = append(all, w)
			mu.Unlock()
		}
		_, _ = w.in.Write(append(append([]byte(nil), bytes.TrimSpace(items[i])...), '\n'))
		line, err := w.out.ReadBytes('\n')
		if err != nil || len(bytes.TrimSpace(line)) == 0 {
			_ = w.cmd.Wait()
			msg := w.stderr.String()
			if idx := strings.Index(msg, "panic:"); idx >= 0 {
				msg = msg[idx:]
			} else if idx := strings.Index(msg, "fatal error:"); idx >= 0 {
				msg = msg[idx:]
			}
			if strings.HasPrefix(strings.TrimSpace(w.stderr.String()), "harness:") {
				Die("worker died on its own: %s", msg)
			}
			if len(msg) > 1500 {
				msg = msg[:1500]
			}
			first := strings.SplitN(msg, "\n", 2)[0]
			if first == "" {
				first = "worker exited: " + w.cmd.ProcessState.String()
			}
			raw, _ := json.Marshal(map[string]string{"crash": first, "stderr": msg})
			res[i] = raw
			return // the dead worker is not put back
		}
		res[i] = append(json.RawMessage(nil), bytes.TrimSpace(line)...)
		pool.Put(w)
	})
	for _, w := range all {
		_ = w.in.Close()
		_ = w.cmd.Wait()
	}
	return res
}

// Serve is the worker side: one JSON item per line on stdin, one JSON answer per line on stdout.
func Serve(fn func(item json.RawMessage) interface{}) {
	in := bufio.NewReaderSize(os.Stdin, 1<<20)
	out := bufio.NewWriterSize(os.Stdout, 1<<20)
	for {
		line, err := in.ReadBytes('\n')
		if len(bytes.TrimSpace(line)) > 0 {
			ans := fn(bytes.TrimSpace(line))
			b, e := json.Marshal(ans)
			if e != nil {
				Die("marshal answer: %v", e)
			}
			out.Write(b)
			out.WriteByte('\n')
			out.Flush()
		}
		if err != nil {
			return
		}
	}
}
