package hx

import (
	"bufio"
	"bytes"
	"encoding/json"
	"io"
	"os"
	"os/exec"
	"strings"
	"sync"
)

// Isolated runs every item in a worker process (the same binary, command `worker`), so that a panic in a goroutine
// started by the code under test kills only the worker: the item it was executing is then answered with
// {"crash": "<first line of the panic>", "stderr": "..."} and the worker is restarted for the next item.
func Isolated(worker string, items []json.RawMessage, nWorkers int, extraArgs ...string) []json.RawMessage {
	type wk struct {
		cmd    *exec.Cmd
		in     io.WriteCloser
		out    *bufio.Reader
		stderr *bytes.Buffer
		last   int // index of the item answered last by this worker (-1: none)
	}
	start := func() *wk {
		cmd := exec.Command(os.Args[0], append([]string{worker}, extraArgs...)...)
		in, _ := cmd.StdinPipe()
		so, _ := cmd.StdoutPipe()
		eb := &bytes.Buffer{}
		cmd.Stderr = eb
		if err := cmd.Start(); err != nil {
			Die("cannot start worker: %v", err)
		}
		return &wk{cmd: cmd, in: in, out: bufio.NewReaderSize(so, 1<<20), stderr: eb, last: -1}
	}
	res := make([]json.RawMessage, len(items))
	pool := sync.Pool{}
	var all []*wk
	var mu sync.Mutex
	// ask sends one item to a worker and waits for its answer; ok=false when the worker died instead of answering
	ask := func(w *wk, i int) (answer json.RawMessage, crash json.RawMessage, ok bool) {
		_, _ = w.in.Write(append(append([]byte(nil), bytes.TrimSpace(items[i])...), '\n'))
		line, err := w.out.ReadBytes('\n')
		if err != nil || len(bytes.TrimSpace(line)) == 0 {
			_ = w.cmd.Wait()
			msg := w.stderr.String()
			if idx := strings.Index(msg, "panic:"); idx >= 0 {
				msg = msg[idx:]
			} else if idx := strings.Index(msg, "fatal error:"); idx >= 0 {
				msg = msg[idx:]
			}
			if strings.HasPrefix(strings.TrimSpace(w.stderr.String()), "harness:") {
				Die("worker died on its own: %s", msg)
			}
			if len(msg) > 1500 {
				msg = msg[:1500]
			}
			first := strings.SplitN(msg, "\n", 2)[0]
			if first == "" {
				first = "worker exited: " + w.cmd.ProcessState.String()
			}
			raw, _ := json.Marshal(map[string]string{"crash": first, "stderr": msg})
			return nil, raw, false
		}
		return append(json.RawMessage(nil), bytes.TrimSpace(line)...), nil, true
	}
	Parallel(len(items), nWorkers, func(i int) {
		var w *wk
		if v := pool.Get(); v != nil {
			w = v.(*wk)
		} else {
			w = start()
			mu.Lock()
			all = append(all, w)
			mu.Unlock()
		}
		ans, crash, ok := ask(w, i)
		if !ok {
			// A panic in a goroutine of the library may kill the worker a moment after it answered the previous
			// item: run this item again on a fresh worker; if it is answered there, the crash belongs to the previous one.
			prev := w.last
			w = start()
			mu.Lock()
			all = append(all, w)
			mu.Unlock()
			ans2, crash2, ok2 := ask(w, i)
			if ok2 {
				mu.Lock()
				if prev >= 0 {
					res[prev] = crash
				}
				res[i] = ans2
				mu.Unlock()
				w.last = i
				pool.Put(w)
				return
			}
			mu.Lock()
			res[i] = crash2
			mu.Unlock()
			return // the dead worker is not put back
		}
		mu.Lock()
		res[i] = ans
		mu.Unlock()
		w.last = i
		pool.Put(w)
	})
	for _, w := range all {
		_ = w.in.Close()
		_ = w.cmd.Wait()
	}
	return res
}

// Serve is the worker side: one JSON item per line on stdin, one JSON answer per line on stdout.
func Serve(fn func(item json.RawMessage) interface{}) {
	in := bufio.NewReaderSize(os.Stdin, 1<<20)
	out := bufio.NewWriterSize(os.Stdout, 1<<20)
	for {
		line, err := in.ReadBytes('\n')
		if len(bytes.TrimSpace(line)) > 0 {
			ans := fn(bytes.TrimSpace(line))
			b, e := json.Marshal(ans)
			if e != nil {
				Die("marshal answer: %v", e)
			}
			out.Write(b)
			out.WriteByte('\n')
			out.Flush()
		}
		if err != nil {
			return
		}
	}
}
