// Package hx holds helpers shared by the harness commands: NDJSON I/O, worker pools, scratch repositories.
package hx

import (
	"bufio"
	"encoding/json"
	"fmt"
	"os"
	"path/filepath"
	"runtime"
	"strconv"
	"sync"
	"sync/atomic"

	"github.com/MichaelMure/git-bug/cache"
	"github.com/MichaelMure/git-bug/repository"
)

// Seed returns VERIF_SEED (default 1).
func Seed() int64 {
	s, err := strconv.ParseInt(os.Getenv("VERIF_SEED"), 10, 64)
	if err != nil {
		return 1
	}
	return s
}

// Scratch returns a fresh directory under VERIF_SCRATCH (or /dev/shm).

func Scratch(prefix string) string {
	base := os.Getenv("VERIF_SCRATCH")
	if base == "" {
		base = "/dev/shm"
	}
	d, err := os.MkdirTemp(base, fmt.Sprintf("%s-%d-", prefix, os.Getpid()))
	if err != nil {
		panic(err)
	}
	return d
}

// ReadLines reads an NDJSON file as raw messages.
func ReadLines(path string) []json.RawMessage {
	f, err := os.Open(path)
	if err != nil {
		Die("open %s: %v", path, err)
	}
	defer f.Close()
	var res []json.RawMessage
	sc := bufio.NewScanner(f)
	sc.Buffer(make([]byte, 1<<20), 1<<28)
	for sc.Scan() {
		b := sc.Bytes()
		if len(b) == 0 {
			continue
		}
		res = append(res, append(json.RawMessage(nil), b...))
	}
	if err := sc.Err(); err != nil {
		Die("read %s: %v", path, err)
	}
	return res
}

// Writer is a concurrency-safe NDJSON writer.
type Writer struct {
	mu sync.Mutex
	f  *os.File
	w  *bufio.Writer
	N  int
}

func NewWriter(path string) *Writer {
	f, err := os.Create(path)
	if err != nil {
		Die("create %s: %v", path, err)
	}
	return &Writer{f: f, w: bufio.NewWriterSize(f, 1<<20)}
}

func (w *Writer) Put(v interface{}) {
	b, err := json.Marshal(v)
	if err != nil {
		Die("marshal: %v", err)
	}
	w.mu.Lock()
	w.w.Write(b)
	w.w.WriteByte('\n')
	w.N++
	w.mu.Unlock()
}

func (w *Writer) Close() {
	w.mu.Lock()
	defer w.mu.Unlock()
	w.w.Flush()
	w.f.Close()
}

// Die reports a harness-level failure (exit 3: the driver is dead, not the code under test).
var commitMemo sync.Map

// CommitOnce stores a commit like repo.StoreCommit, once per (repository, tree, parents): StoreCommit stamps the commit with the
// current time, so that the same history written twice by a harness (once as what a replica holds, once as what a remote serves)
// would be two histories whenever a second ticks in between.
func CommitOnce(repo repository.ClockedRepo, tree repository.Hash, parents ...repository.Hash) (repository.Hash, error) {
	// keyed by the repository's directory (scratch directories are never reused); not for in-memory repositories, which share none
	key := fmt.Sprintf("%s|%s|%v", repo.LocalStorage().Root(), tree, parents)
	if h, ok := commitMemo.Load(key); ok {
		return h.(repository.Hash), nil
	}
	h, err := repo.StoreCommit(tree, parents...)
	if err == nil {
		commitMemo.Store(key, h)
	}
	return h, err
}

// BeforeExit, when set, runs before Die ends the process (a harness that has to let background work of the code under
// test come to rest first).
var BeforeExit func()

func Die(format string, a ...interface{}) {
	fmt.Fprintf(os.Stderr, "harness: "+format+"\n", a...)
	if BeforeExit != nil {
		BeforeExit()
	}
	os.Exit(3)
}

// Parallel runs fn(i) for i in [0,n) on up to GOMAXPROCS workers.
func Parallel(n int, workers int, fn func(i int)) {
	if workers <= 0 {
		workers = runtime.GOMAXPROCS(0)
	}
	var next int64 = -1
	var wg sync.WaitGroup
	for w := 0; w < workers; w++ {
		wg.Add(1)
		go func() {
			defer wg.Done()
			for {
				i := int(atomic.AddInt64(&next, 1))
				if i >= n {
					return
				}
				fn(i)
			}
		}()
	}
	wg.Wait()
}

// InitRepo creates a non-bare go-git repository with a user configured.
func InitRepo(dir string) *repository.GoGitRepo {
	r, err := repository.InitGoGitRepo(dir, "git-bug")
	if err != nil {
		Die("init repo: %v", err)
	}
	_ = r.LocalConfig().StoreString("user.name", "verif")
	_ = r.LocalConfig().StoreString("user.email", "verif@example.org")
	return r
}

func InitBare(dir string) *repository.GoGitRepo {
	r, err := repository.InitBareGoGitRepo(dir, "git-bug")
	if err != nil {
		Die("init bare repo: %v", err)
	}
	return r
}

// OpenCache opens (or builds) the cache of a repository, draining build events.
func OpenCache(r repository.ClockedRepo) (*cache.RepoCache, error) {
	c, events := cache.NewRepoCache(r)
	var first error
	for ev := range events {
		if ev.Err != nil && first == nil {
			first = ev.Err
		}
	}
	if first != nil {
		return nil, first
	}
	return c, nil
}

func Must(err error) {
	if err != nil {
		_, file, line, _ := runtime.Caller(1)
		Die("%s:%d: %v", filepath.Base(file), line, err)
	}
}
