package queryx

import (
	"fmt"
	"os"
	"path/filepath"
	"sort"
	"strings"

	"github.com/MichaelMure/git-bug/cache"
	"github.com/MichaelMure/git-bug/entities/common"
	"github.com/MichaelMure/git-bug/entities/identity"
	"github.com/MichaelMure/git-bug/entity"
	"github.com/MichaelMure/git-bug/query"

	"verif/harness/hx"
)

func codes(s string) []int {
	r := []int{}
	for _, c := range s {
		r = append(r, int(c))
	}
	return r
}

type identRec struct {
	Id    []int `json:"id"`
	Name  []int `json:"name"`
	Login []int `json:"login"`
}

type bugRec struct {
	Id           int       `json:"id"` // rank of the id among all bug ids
	Status       string    `json:"status"`
	Author       int       `json:"author"`
	Actors       []int     `json:"actors"`
	Participants []int     `json:"participants"`
	Labels       [][]int   `json:"labels"`
	Title        []int     `json:"title"`
	Meta         [][][]int `json:"meta"`
	Ctl          int       `json:"ctl"`
	Ctu          int       `json:"ctu"`
	Etl          int       `json:"etl"`
	Etu          int       `json:"etu"`
}

type qRec struct {
	Status      []string  `json:"status"`
	Author      [][]int   `json:"author"`
	Actor       [][]int   `json:"actor"`
	Participant [][]int   `json:"participant"`
	Label       [][]int   `json:"label"`
	Title       [][]int   `json:"title"`
	NoLabel     bool      `json:"nolabel"`
	Metadata    [][][]int `json:"metadata"`
	OrderBy     string    `json:"orderby"`
	Dir         string    `json:"dir"`
}

type rng struct{ s uint64 }

func newRng(seed uint64) *rng { return &rng{s: seed*2685821657736338717 + 1442695040888963407} }
func (r *rng) n(k int) int {
	r.s ^= r.s << 13
	r.s ^= r.s >> 7
	r.s ^= r.s << 17
	return int((r.s >> 3) % uint64(k))
}

func quote(v string) string {
	if v == "" || strings.ContainsAny(v, " :\t") {
		return `"` + v + `"`
	}
	return v
}

// EvalCmd: vh query-trace <out> <sessions> <queries per session>
func EvalCmd(args []string) {
	out := hx.NewWriter(args[0])
	defer out.Close()
	sessions, perSession := 2, 150
	fmt.Sscan(args[1], &sessions)
	fmt.Sscan(args[2], &perSession)
	for s := 0; s < sessions; s++ {
		evalSession(out, newRng(uint64(hx.Seed())*7919+uint64(s)), perSession)
	}
}

func evalSession(out *hx.Writer, r *rng, nq int) {
	dir := hx.Scratch("query")
	defer os.RemoveAll(dir)
	hub := hx.InitBare(filepath.Join(dir, "hub"))
	defer hub.Close()
	repoA := hx.InitRepo(filepath.Join(dir, "A"))
	repoB := hx.InitRepo(filepath.Join(dir, "B"))
	hx.Must(repoA.AddRemote("origin", filepath.Join(dir, "hub")))
	hx.Must(repoB.AddRemote("origin", filepath.Join(dir, "hub")))
	ca, err := hx.OpenCache(repoA)
	hx.Must(err)
	names := [][2]string{{"Alice Smith", "asmith"}, {"alice JONES", ""}, {"Bob", "Smithy"}, {"", "carol"}}
	var idsA []*cache.IdentityCache
	for _, n := range names {
		i, err := ca.Identities().NewRaw(n[0], "x@example.org", n[1], "", nil, nil)
		hx.Must(err)
		idsA = append(idsA, i)
	}
	hx.Must(ca.SetUserIdentity(idsA[0]))
	_, err = ca.Push("origin")
	hx.Must(err)
	hx.Must(identity.Pull(repoB, "origin"))
	cb, err := hx.OpenCache(repoB)
	hx.Must(err)
	var idsB []*cache.IdentityCache
	for _, i := range idsA {
		x, err := cb.Identities().Resolve(i.Id())
		hx.Must(err)
		idsB = append(idsB, x)
	}
	hx.Must(cb.SetUserIdentity(idsB[0]))

	titles := []string{"Crash on start", "crash in parser", "Typo in string", "Feature: dark mode", "ZZ top", "Typo again"}
	labelPool := []string{"bug", "Good first issue", "prod", "foo:bar"}
	metaPool := [][2]string{{"origin", "github"}, {"origin", "gitlab"}, {"key", "https://www.example.com/"}}
	mk := func(c *cache.RepoCache, ids []*cache.IdentityCache, k int, unix int64) {
		var md map[string]string
		if r.n(2) == 0 {
			m := metaPool[r.n(len(metaPool))]
			md = map[string]string{m[0]: m[1]}
		}
		b, _, err := c.Bugs().NewRaw(ids[r.n(len(ids))], unix, titles[r.n(len(titles))], "message", nil, md)
		hx.Must(err)
		for e := 0; e < r.n(4); e++ {
			au := ids[r.n(len(ids))]
			unix2 := unix + int64(r.n(3))
			switch r.n(4) {
			case 0:
				_, _, err = b.AddCommentRaw(au, unix2, "a comment", nil, nil)
			case 1:
				_, err = b.ForceChangeLabelsRaw(au, unix2, []string{labelPool[r.n(len(labelPool))], labelPool[r.n(len(labelPool))]}[:1+r.n(2)], nil, nil)
			case 2:
				_, err = b.CloseRaw(au, unix2, nil)
			case 3:
				_, err = b.SetTitleRaw(au, unix2, titles[r.n(len(titles))]+" (edited)", nil)
			}
			hx.Must(err)
		}
		hx.Must(b.CommitAsNeeded())
	}
	// bugs of A and B get the same Lamport times; unix times are drawn from a tiny range so that true ties exist
	for k := 0; k < 6; k++ {
		mk(ca, idsA, k, 1_600_000_000+int64(r.n(3)))
	}
	for k := 0; k < 5; k++ {
		mk(cb, idsB, k, 1_600_000_000+int64(r.n(3)))
	}
	_, err = cb.Push("origin")
	hx.Must(err)
	hx.Must(ca.Pull("origin"))
	_ = cb.Close()
	// a cache rebuilt from scratch serves the queries (what a pull leaves in the live cache is C11's subject)
	_ = ca.Close()
	_ = os.RemoveAll(filepath.Join(dir, "A", ".git", "git-bug", "cache"))
	_ = os.RemoveAll(filepath.Join(dir, "A", ".git", "git-bug", "indexes"))
	ca, err = hx.OpenCache(repoA)
	hx.Must(err)
	defer ca.Close()

	// population
	identIdx := map[entity.Id]int{}
	var identRecs []identRec
	for i, id := range idsA {
		identIdx[id.Id()] = i + 1
		identRecs = append(identRecs, identRec{Id: codes(id.Id().String()), Name: codes(id.Name()), Login: codes(id.Login())})
	}
	bugIds := ca.Bugs().AllIds()
	sort.Slice(bugIds, func(i, j int) bool { return bugIds[i] < bugIds[j] })
	bugIdx := map[entity.Id]int{}
	var bugRecs []bugRec
	for i, id := range bugIds {
		bugIdx[id] = i + 1
		b, err := ca.Bugs().Resolve(id)
		hx.Must(err)
		s := b.Snapshot()
		rec := bugRec{Id: i + 1, Status: s.Status.String(), Author: identIdx[s.Author.Id()], Actors: []int{}, Participants: []int{},
			Labels: [][]int{}, Title: codes(s.Title), Meta: [][][]int{}, Ctl: int(b.CreateLamportTime()), Etl: int(b.EditLamportTime()),
			Ctu: int(s.Operations[0].Time().Unix()), Etu: int(s.Operations[len(s.Operations)-1].Time().Unix())}
		for _, a := range s.Actors {
			rec.Actors = append(rec.Actors, identIdx[a.Id()])
		}
		for _, a := range s.Participants {
			rec.Participants = append(rec.Participants, identIdx[a.Id()])
		}
		for _, l := range s.Labels {
			rec.Labels = append(rec.Labels, codes(string(l)))
		}
		for k, v := range s.Operations[0].AllMetadata() {
			rec.Meta = append(rec.Meta, [][]int{codes(k), codes(v)})
		}
		bugRecs = append(bugRecs, rec)
	}
	out.Put(map[string]interface{}{"ev": "Pop", "bugs": bugRecs, "idents": identRecs})

	personPool := []string{"ali", "ALICE", "smith", "Smith", "bob", "carol", "nobody", "alice smith", "jones",
		idsA[0].Id().String()[:6], strings.ToUpper(idsA[2].Id().String()[:4]), idsA[1].Id().String()}
	titlePool := []string{"crash", "CRASH", "Typo in string", "zz", "edited", "mode", "nothing here"}
	sorts := []string{"", "id", "id-asc", "id-desc", "creation", "creation-asc", "creation-desc", "edit", "edit-asc", "edit-desc"}
	sortMeaning := map[string][2]string{"": {"creation", "desc"}, "id": {"id", "asc"}, "id-asc": {"id", "asc"}, "id-desc": {"id", "desc"},
		"creation": {"creation", "desc"}, "creation-asc": {"creation", "asc"}, "creation-desc": {"creation", "desc"},
		"edit": {"edit", "desc"}, "edit-asc": {"edit", "asc"}, "edit-desc": {"edit", "desc"}}
	for k := 0; k < nq; k++ {
		q := qRec{Status: []string{}, Author: [][]int{}, Actor: [][]int{}, Participant: [][]int{}, Label: [][]int{}, Title: [][]int{}, Metadata: [][][]int{}}
		var parts []string
		add := func(s string) { parts = append(parts, s) }
		for j := 0; j < r.n(3)-0 && r.n(3) == 0; j++ {
			st := []string{"open", "closed"}[r.n(2)]
			q.Status = append(q.Status, st)
			add([]string{"status:", "state:"}[r.n(2)] + []string{st, strings.ToUpper(st)}[r.n(2)])
		}
		person := func(kind string, dst *[][]int) {
			for j := 0; j < r.n(3) && r.n(2) == 0; j++ {
				p := personPool[r.n(len(personPool))]
				*dst = append(*dst, codes(p))
				add(kind + ":" + quote(p))
			}
		}
		person("author", &q.Author)
		person("actor", &q.Actor)
		person("participant", &q.Participant)
		for j := 0; j < r.n(3) && r.n(2) == 0; j++ {
			lb := labelPool[r.n(len(labelPool))]
			q.Label = append(q.Label, codes(lb))
			add("label:" + quote(lb))
		}
		for j := 0; j < r.n(3) && r.n(2) == 0; j++ {
			t := titlePool[r.n(len(titlePool))]
			q.Title = append(q.Title, codes(t))
			add("title:" + quote(t))
		}
		if r.n(6) == 0 {
			q.NoLabel = true
			add("no:label")
		}
		for j := 0; j < r.n(3) && r.n(3) == 0; j++ {
			m := metaPool[r.n(len(metaPool))]
			q.Metadata = append(q.Metadata, [][]int{codes(m[0]), codes(m[1])})
			add("metadata:" + m[0] + ":" + quote(m[1]))
		}
		so := sorts[r.n(len(sorts))]
		q.OrderBy, q.Dir = sortMeaning[so][0], sortMeaning[so][1]
		if so != "" {
			add("sort:" + so)
		}
		// clauses in random order
		for i := len(parts) - 1; i > 0; i-- {
			j := r.n(i + 1)
			parts[i], parts[j] = parts[j], parts[i]
		}
		qs := strings.Join(parts, " ")
		ev := map[string]interface{}{"ev": "Query", "q": q, "text": qs, "err": "", "result": []int{}}
		func() {
			defer func() {
				if p := recover(); p != nil {
					ev["err"] = fmt.Sprintf("panic: %v", p)
				}
			}()
			pq, err := query.Parse(qs)
			if err != nil {
				ev["err"] = "parse: " + err.Error()
				return
			}
			res, err := ca.Bugs().Query(pq)
			if err != nil {
				ev["err"] = "query: " + err.Error()
				return
			}
			idx := []int{}
			for _, id := range res {
				idx = append(idx, bugIdx[id])
			}
			ev["result"] = idx
		}()
		out.Put(ev)
	}
	_ = common.OpenStatus
}
