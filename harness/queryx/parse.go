// Package queryx binds spec/Query.tla to query.Parse (vectors) and to RepoCacheBug.Query (traces) (C12).
package queryx

import (
	"encoding/json"
	"fmt"
	"reflect"
	"strings"
	"sync"

	"github.com/MichaelMure/git-bug/entities/common"
	"github.com/MichaelMure/git-bug/query"

	"verif/harness/hx"
)

type Exp struct {
	Err         bool         `json:"err"`
	Search      [][]string   `json:"search"`
	Status      []string     `json:"status"`
	Author      [][]string   `json:"author"`
	Actor       [][]string   `json:"actor"`
	Participant [][]string   `json:"participant"`
	Label       [][]string   `json:"label"`
	Title       [][]string   `json:"title"`
	NoLabel     bool         `json:"nolabel"`
	Metadata    [][][]string `json:"metadata"`
	OrderBy     string       `json:"orderby"`
	Dir         string       `json:"dir"`
}

type Vec struct {
	Atoms []string `json:"atoms"`
	Exp   Exp      `json:"exp"`
}

type variant struct {
	name  string
	blank string
	words map[string]string
}

var variants = []variant{
	{"ascii", " ", nil},
	{"tab", "\t", nil},
	{"nbsp", " ", map[string]string{"x": "é世", "y": "ß"}},
	{"ideographic-space", "　", map[string]string{"x": "Ünï", "y": "ý"}},
}

func (v variant) atom(a string) string {
	switch a {
	case "<sp>":
		return v.blank
	case "<:>":
		return ":"
	case "<dq>":
		return `"`
	case "<sq>":
		return "'"
	}
	if w, ok := v.words[a]; ok {
		return w
	}
	return a
}

func (v variant) render(atoms []string) string {
	var sb strings.Builder
	for _, a := range atoms {
		sb.WriteString(v.atom(a))
	}
	return sb.String()
}

func (v variant) list(vals [][]string) []string {
	var r []string
	for _, x := range vals {
		r = append(r, v.render(x))
	}
	return r
}

func safeParse(s string) (q *query.Query, err error, panicked string) {
	defer func() {
		if p := recover(); p != nil {
			panicked = fmt.Sprint(p)
		}
	}()
	q, err = query.Parse(s)
	return
}

func eqStrings(a, b []string) bool {
	if len(a) == 0 && len(b) == 0 {
		return true
	}
	return reflect.DeepEqual(a, b)
}

func compareParse(v variant, vec Vec) string {
	s := v.render(vec.Atoms)
	q, err, panicked := safeParse(s)
	if panicked != "" {
		return fmt.Sprintf("Parse(%q) panicked: %s", s, panicked)
	}
	e := vec.Exp
	if e.Err {
		if err == nil {
			return fmt.Sprintf("Parse(%q): specification rejects, code accepted %+v", s, *q)
		}
		return ""
	}
	if err != nil {
		return fmt.Sprintf("Parse(%q): specification accepts, code rejected: %v", s, err)
	}
	var status []string
	for _, st := range q.Status {
		status = append(status, st.String())
	}
	var meta [][2]string
	for _, m := range q.Metadata {
		meta = append(meta, [2]string{m.Key, m.Value})
	}
	var emeta [][2]string
	for _, m := range e.Metadata {
		emeta = append(emeta, [2]string{v.render(m[0]), v.render(m[1])})
	}
	ob := map[query.OrderBy]string{query.OrderById: "id", query.OrderByCreation: "creation", query.OrderByEdit: "edit"}[q.OrderBy]
	od := map[query.OrderDirection]string{query.OrderAscending: "asc", query.OrderDescending: "desc"}[q.OrderDirection]
	switch {
	case !eqStrings([]string(q.Search), v.list(e.Search)):
		return fmt.Sprintf("Parse(%q): search terms %q, specification %q", s, q.Search, v.list(e.Search))
	case !eqStrings(status, e.Status):
		return fmt.Sprintf("Parse(%q): status %v, specification %v", s, status, e.Status)
	case !eqStrings(q.Author, v.list(e.Author)):
		return fmt.Sprintf("Parse(%q): author %q, specification %q", s, q.Author, v.list(e.Author))
	case !eqStrings(q.Actor, v.list(e.Actor)):
		return fmt.Sprintf("Parse(%q): actor %q, specification %q", s, q.Actor, v.list(e.Actor))
	case !eqStrings(q.Participant, v.list(e.Participant)):
		return fmt.Sprintf("Parse(%q): participant %q, specification %q", s, q.Participant, v.list(e.Participant))
	case !eqStrings(q.Label, v.list(e.Label)):
		return fmt.Sprintf("Parse(%q): label %q, specification %q", s, q.Label, v.list(e.Label))
	case !eqStrings(q.Title, v.list(e.Title)):
		return fmt.Sprintf("Parse(%q): title %q, specification %q", s, q.Title, v.list(e.Title))
	case q.NoLabel != e.NoLabel:
		return fmt.Sprintf("Parse(%q): no:label %v, specification %v", s, q.NoLabel, e.NoLabel)
	case !(len(meta) == 0 && len(emeta) == 0) && !reflect.DeepEqual(meta, emeta):
		return fmt.Sprintf("Parse(%q): metadata %q, specification %q", s, meta, emeta)
	case ob != e.OrderBy || od != e.Dir:
		return fmt.Sprintf("Parse(%q): sort %s-%s, specification %s-%s", s, ob, od, e.OrderBy, e.Dir)
	}
	return ""
}

// ParseCmd: vh query-parse <vectors> <out>
func ParseCmd(args []string) {
	lines := hx.ReadLines(args[0])
	out := hx.NewWriter(args[1])
	defer out.Close()
	var mu sync.Mutex
	executed, bad := 0, 0
	hx.Parallel(len(lines), 0, func(i int) {
		var vec Vec
		hx.Must(json.Unmarshal(lines[i], &vec))
		for _, v := range variants {
			why := compareParse(v, vec)
			mu.Lock()
			executed++
			if why != "" {
				bad++
				if bad <= 300 {
					out.Put(map[string]interface{}{"vec": vec, "variant": v.name, "why": why})
				}
			}
			mu.Unlock()
		}
	})
	out.Put(map[string]interface{}{"stats": map[string]int{"executed": executed, "mismatches": bad}})
	_ = common.OpenStatus
}

func atomsOf(s string) []string {
	atoms := []string{}
	var word strings.Builder
	flush := func() {
		if word.Len() > 0 {
			atoms = append(atoms, word.String())
			word.Reset()
		}
	}
	for _, r := range s {
		switch {
		case r == ':':
			flush()
			atoms = append(atoms, "<:>")
		case r == '"':
			flush()
			atoms = append(atoms, "<dq>")
		case r == '\'':
			flush()
			atoms = append(atoms, "<sq>")
		case r == ' ' || r == '\t' || r == '\n' || r == 0xa0 || r == 0x3000:
			flush()
			atoms = append(atoms, "<sp>")
		default:
			word.WriteRune(r)
		}
	}
	flush()
	return atoms
}

func atomsList(vs []string) [][]string {
	r := [][]string{}
	for _, v := range vs {
		r = append(r, atomsOf(v))
	}
	return r
}

// ParseTraceCmd: vh query-parse-trace <out> <count>: random strings, outcome of query.Parse logged for TLC.
func ParseTraceCmd(args []string) {
	out := hx.NewWriter(args[0])
	defer out.Close()
	count := 500
	fmt.Sscan(args[1], &count)
	r := newRng(uint64(hx.Seed()) * 31)
	pieces := []string{"a", "b", "é", "label", "metadata", "status", "state", "open", "closed", "sort", "id", "edit-asc", "no", "title", "author",
		" ", " ", "\t", " ", "　", ":", ":", ":", "\"", "\"", "'"}
	for i := 0; i < count; i++ {
		var sb strings.Builder
		n := 1 + r.n(14)
		for j := 0; j < n; j++ {
			sb.WriteString(pieces[r.n(len(pieces))])
		}
		s := sb.String()
		ev := map[string]interface{}{"atoms": atomsOf(s), "text": s, "panic": ""}
		q, err, panicked := safeParse(s)
		got := map[string]interface{}{"err": err != nil, "search": [][]string{}, "status": []string{}, "author": [][]string{}, "actor": [][]string{},
			"participant": [][]string{}, "label": [][]string{}, "title": [][]string{}, "nolabel": false, "metadata": [][][]string{}, "orderby": "creation", "dir": "desc"}
		if panicked != "" {
			ev["panic"] = panicked
		} else if err == nil {
			st := []string{}
			for _, x := range q.Status {
				st = append(st, x.String())
			}
			md := [][][]string{}
			for _, m := range q.Metadata {
				md = append(md, [][]string{atomsOf(m.Key), atomsOf(m.Value)})
			}
			got["search"], got["status"], got["author"], got["actor"] = atomsList(q.Search), st, atomsList(q.Author), atomsList(q.Actor)
			got["participant"], got["label"], got["title"], got["nolabel"], got["metadata"] = atomsList(q.Participant), atomsList(q.Label), atomsList(q.Title), q.NoLabel, md
			got["orderby"] = map[query.OrderBy]string{query.OrderById: "id", query.OrderByCreation: "creation", query.OrderByEdit: "edit"}[q.OrderBy]
			got["dir"] = map[query.OrderDirection]string{query.OrderAscending: "asc", query.OrderDescending: "desc"}[q.OrderDirection]
		}
		ev["got"] = got
		out.Put(ev)
	}
}
