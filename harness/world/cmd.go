package world

import (
	"bufio"
	"bytes"
	"encoding/json"
	"fmt"
	"io"
	"os"
	"os/exec"
	"strings"
	"sync"

	"verif/harness/hx"
)

// Schedule is one behaviour printed by TLC: the replicas in play and the API calls in order.
type Schedule struct {
	Replicas []string `json:"replicas"`
	Steps    []Step   `json:"steps"`
	Quiesce  bool     `json:"quiesce"`
}

func resetEvent(sess int) *Event {
	return &Event{Ev: "Reset", Sess: sess, Runs: []RunSpec{}, New: []*Commit{}, Ref: []int{}, M: "origin", Trk: map[string][]int{}, Hub: map[string][]int{}, Returned: []int{}}
}

// RunCmd: vh world <schedules.ndjson> <trace.ndjson>
// Executes every schedule in its own world, inside worker processes (a panic in a goroutine started by the library
// kills the process: the session is then recorded as a Crash event), and writes one trace: a Reset event, then the
// session's events.
func RunCmd(args []string) {
	if len(args) < 2 {
		hx.Die("usage: world <schedules> <trace>")
	}
	lines := hx.ReadLines(args[0])
	out := hx.NewWriter(args[1])
	defer out.Close()
	sessions := make([][]json.RawMessage, len(lines))
	var mu sync.Mutex
	crashes := 0
	type worker struct {
		cmd    *exec.Cmd
		in     io.WriteCloser
		out    *bufio.Reader
		stderr *bytes.Buffer
	}
	start := func() *worker {
		cmd := exec.Command(os.Args[0], "world-worker")
		in, _ := cmd.StdinPipe()
		so, _ := cmd.StdoutPipe()
		eb := &bytes.Buffer{}
		cmd.Stderr = eb
		if err := cmd.Start(); err != nil {
			hx.Die("cannot start worker: %v", err)
		}
		return &worker{cmd: cmd, in: in, out: bufio.NewReaderSize(so, 1<<20), stderr: eb}
	}
	workers := sync.Pool{}
	hx.Parallel(len(lines), 0, func(i int) {
		var w *worker
		if v := workers.Get(); v != nil {
			w = v.(*worker)
		} else {
			w = start()
		}
		req, _ := json.Marshal(map[string]interface{}{"sess": i + 1, "schedule": json.RawMessage(lines[i])})
		_, _ = w.in.Write(append(req, '\n'))
		var evs []json.RawMessage
		progress := -1
		done := false
		for {
			line, err := w.out.ReadBytes('\n')
			if len(line) > 0 {
				if bytes.HasPrefix(line, []byte(`{"progress"`)) {
					var p struct {
						Progress int `json:"progress"`
					}
					_ = json.Unmarshal(line, &p)
					progress = p.Progress
				} else if bytes.HasPrefix(line, []byte(`{"done"`)) {
					done = true
					break
				} else {
					evs = append(evs, append(json.RawMessage(nil), bytes.TrimSpace(line)...))
				}
			}
			if err != nil {
				break
			}
		}
		if !done {
			_ = w.cmd.Wait()
			msg := w.stderr.String()
			if idx := strings.Index(msg, "panic:"); idx >= 0 {
				msg = msg[idx:]
			}
			if len(msg) > 600 {
				msg = msg[:600]
			}
			if strings.HasPrefix(msg, "harness:") || !strings.Contains(msg, "panic") && !strings.Contains(msg, "fatal error") {
				hx.Die("worker died without a panic of the code under test (session %d, step %d): %s", i+1, progress, msg)
			}
			ev := resetEvent(i + 1)
			ev.Ev = "Crash"
			ev.B = progress
			ev.Err = strings.SplitN(msg, "\n", 2)[0]
			ev.Snap = msg
			raw, _ := json.Marshal(ev)
			evs = []json.RawMessage{raw}
			mu.Lock()
			crashes++
			mu.Unlock()
		} else {
			workers.Put(w)
		}
		mu.Lock()
		sessions[i] = evs
		mu.Unlock()
	})
	for {
		v := workers.Get()
		if v == nil {
			break
		}
		w := v.(*worker)
		_ = w.in.Close()
		_ = w.cmd.Wait()
	}
	n := 0
	for i, evs := range sessions {
		out.Put(resetEvent(i + 1))
		for _, e := range evs {
			out.Put(e)
			n++
		}
	}
	fmt.Printf("{\"sessions\":%d,\"events\":%d,\"crashed_sessions\":%d}\n", len(sessions), n, crashes)
}

// WorkerCmd runs sessions read from stdin, one JSON request per line.
func WorkerCmd(args []string) {
	in := bufio.NewReaderSize(os.Stdin, 1<<20)
	out := bufio.NewWriterSize(os.Stdout, 1<<20)
	enc := json.NewEncoder(out)
	for {
		line, err := in.ReadBytes('\n')
		if len(bytes.TrimSpace(line)) > 0 {
			var req struct {
				Sess     int      `json:"sess"`
				Schedule Schedule `json:"schedule"`
			}
			if e := json.Unmarshal(line, &req); e != nil {
				hx.Die("bad request: %v", e)
			}
			s := req.Schedule
			if len(s.Replicas) == 0 {
				s.Replicas = []string{"A", "B"}
			}
			w := New(req.Sess, s.Replicas, []string{"u1", "u2"})
			for k, st := range s.Steps {
				fmt.Fprintf(out, "{\"progress\":%d}\n", k)
				out.Flush()
				w.Do(st)
			}
			if s.Quiesce {
				fmt.Fprintf(out, "{\"progress\":%d}\n", len(s.Steps))
				out.Flush()
				w.Quiesce()
			}
			w.FinishRanks()
			for _, e := range w.Events() {
				_ = enc.Encode(e)
			}
			fmt.Fprintln(out, `{"done":true}`)
			out.Flush()
			w.Close()
		}
		if err != nil {
			return
		}
	}
}
