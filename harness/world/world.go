// Package world runs TLC-generated schedules of GitBug.tla against real go-git repositories (N replicas sharing one
// bare hub) and records, after every step, the projection of the real state onto the specification's variables.
//
// The projection is read through repository.RepoData and the file system only (refs, commit parents, tree entry
// names, the ops blob, the clock files), never through dag.read, so the oracle for bug.Read is independent of it.
package world

import (
	"crypto/sha256"
	"encoding/hex"
	"encoding/json"
	"fmt"
	"os"
	"path/filepath"
	"sort"
	"strconv"
	"strings"

	"github.com/MichaelMure/git-bug/entities/bug"
	"github.com/MichaelMure/git-bug/entities/common"
	"github.com/MichaelMure/git-bug/entities/identity"
	"github.com/MichaelMure/git-bug/entity"
	"github.com/MichaelMure/git-bug/repository"

	"verif/harness/hx"
)

// Run is one schedule step as printed by MBT_GitBug.
type RunSpec struct {
	Au string `json:"au"`
	N  int    `json:"n"`
}

type Step struct {
	Act     string    `json:"act"`
	R       string    `json:"r"`
	B       int       `json:"b"`
	Runs    []RunSpec `json:"runs"`
	Loaders bool      `json:"loaders"`
	M       string    `json:"m"` // the remote a Push / Fetch / MergeAll talks to ("" = origin)
}

// Remotes every replica has configured; the trace specification's constant Remote is the same set.
var Remotes = []string{"origin", "backup"}

// Commit is a commit in the specification's shape.
type Commit struct {
	Par  []int  `json:"par"`
	Et   int    `json:"et"`
	Ct   int    `json:"ct"`
	Au   string `json:"au"`
	Ops  []int  `json:"ops"`
	Rank int    `json:"rank"`
	Bug  int    `json:"bug"`

	packID string
	hash   repository.Hash
}

type Clk struct {
	E  int `json:"e"`
	C  int `json:"c"`
	De int `json:"de"`
	Dc int `json:"dc"`
}

// Event is one line of the trace.
type Event struct {
	Ev       string           `json:"ev"`
	Sess     int              `json:"sess"`
	R        string           `json:"r"`
	B        int              `json:"b"`
	Runs     []RunSpec        `json:"runs"`
	Loaders  bool             `json:"loaders"`
	New      []*Commit        `json:"new"`
	Ref      []int            `json:"ref"`
	M        string           `json:"m"`
	Trk      map[string][]int `json:"trk"` // per remote
	Hub      map[string][]int `json:"hub"` // per remote
	Clk      Clk              `json:"clk"`
	Ok       bool             `json:"ok"`
	Status   string           `json:"status"`
	Returned []int            `json:"returned"`
	Snap     string           `json:"snap"`
	Err      string           `json:"err"`
	Final    bool             `json:"final"`
	Empty    bool             `json:"empty"`
	Leapt    bool             `json:"leapt"` // the replica's edit clock made a leap earlier in the session
}

const NBug = 3 // width of the ref vectors in the trace (the trace specification uses the same constant)

type replica struct {
	name string
	dir  string
	repo *repository.GoGitRepo
	// the clock files have existed at some point (a clock that never existed is created on demand with value 1)
	hadEdit, hadCreate bool
	leapt              bool // its edit clock made a leap (step ClockLeap)
}

type World struct {
	sess     int
	dir      string
	reps     map[string]*replica
	order    []string
	hubs     map[string]*repository.GoGitRepo // by remote name
	authors  map[string]*identity.Identity    // by model name, as created on the first replica
	authorOf map[string]string                // identity id -> model name

	commitNo map[repository.Hash]int
	commits  []*Commit
	opNo     map[string]int
	bugNo    map[entity.Id]int
	bugIds   []entity.Id
	events   []*Event
	unix     int64
	kindSeq  int
	Mock     bool
}

func fail(format string, a ...interface{}) { hx.Die(format, a...) }

// New builds a fresh world: replicas (named by `names`), a bare hub, and the author identities present everywhere.
func New(sess int, names []string, authors []string) *World {
	w := &World{sess: sess, reps: map[string]*replica{}, authors: map[string]*identity.Identity{}, authorOf: map[string]string{},
		commitNo: map[repository.Hash]int{}, opNo: map[string]int{}, bugNo: map[entity.Id]int{}, unix: 1_600_000_000}
	w.dir = hx.Scratch("world")
	w.hubs = map[string]*repository.GoGitRepo{}
	for _, m := range Remotes {
		w.hubs[m] = hx.InitBare(filepath.Join(w.dir, "hub-"+m))
	}
	for _, n := range names {
		d := filepath.Join(w.dir, n)
		r := hx.InitRepo(d)
		for _, m := range Remotes {
			hx.Must(r.AddRemote(m, filepath.Join(w.dir, "hub-"+m)))
		}
		w.reps[n] = &replica{name: n, dir: d, repo: r}
		w.order = append(w.order, n)
	}
	first := w.reps[names[0]].repo
	for _, a := range authors {
		id, err := identity.NewIdentity(first, a, a+"@example.org")
		hx.Must(err)
		hx.Must(id.Commit(first))
		w.authors[a] = id
		w.authorOf[id.Id().String()] = a
	}
	_, err := identity.Push(first, "origin")
	hx.Must(err)
	for _, n := range names[1:] {
		hx.Must(identity.Pull(w.reps[n].repo, "origin"))
	}
	return w
}

func (w *World) Close() {
	for _, r := range w.reps {
		_ = r.repo.Close()
	}
	for _, h := range w.hubs {
		_ = h.Close()
	}
	_ = os.RemoveAll(w.dir)
}

func (w *World) Events() []*Event { return w.events }

func (w *World) author(r *replica, name string) identity.Interface {
	id, err := identity.ReadLocal(r.repo, w.authors[name].Id())
	hx.Must(err)
	return id
}

// ---------------------------------------------------------------------------------------------------- projection

func sha(data []byte) string {
	h := sha256.Sum256(data)
	return hex.EncodeToString(h[:])
}

// register walks the history of a head in the given repository and numbers unseen commits, parents first.
func (w *World) register(repo repository.RepoData, head repository.Hash, bugNo int, newOnes *[]*Commit) int {
	if n, ok := w.commitNo[head]; ok {
		return n
	}
	c, err := repo.ReadCommit(head)
	if err != nil {
		fail("projection: cannot read commit %s: %v", head, err)
	}
	var par []int
	for _, p := range c.Parents {
		par = append(par, w.register(repo, p, bugNo, newOnes))
	}
	if par == nil {
		par = []int{}
	}
	pc := &Commit{Par: par, Ops: []int{}, Bug: bugNo, hash: head}
	entries, err := repo.ReadTree(c.TreeHash)
	if err != nil {
		fail("projection: cannot read tree: %v", err)
	}
	for _, e := range entries {
		switch {
		case strings.HasPrefix(e.Name, "edit-clock-"):
			pc.Et, _ = strconv.Atoi(strings.TrimPrefix(e.Name, "edit-clock-"))
		case strings.HasPrefix(e.Name, "create-clock-"):
			pc.Ct, _ = strconv.Atoi(strings.TrimPrefix(e.Name, "create-clock-"))
		case e.Name == "ops":
			data, err := repo.ReadData(e.Hash)
			if err != nil {
				fail("projection: cannot read ops blob: %v", err)
			}
			pc.packID = sha(data)
			var pack struct {
				Author struct {
					Id string `json:"id"`
				} `json:"author"`
				Ops []json.RawMessage `json:"ops"`
			}
			if err := json.Unmarshal(data, &pack); err != nil {
				fail("projection: ops blob is not JSON: %v", err)
			}
			pc.Au = w.authorOf[pack.Author.Id]
			if pc.Au == "" {
				pc.Au = "?" + pack.Author.Id
			}
			for _, raw := range pack.Ops {
				id := sha(raw)
				n, ok := w.opNo[id]
				if !ok {
					n = len(w.opNo) + 1
					w.opNo[id] = n
				}
				pc.Ops = append(pc.Ops, n)
			}
		}
	}
	w.commits = append(w.commits, pc)
	w.commitNo[head] = len(w.commits)
	*newOnes = append(*newOnes, pc)
	return len(w.commits)
}

func (w *World) bugOfRef(ref string) (entity.Id, int) {
	id := entity.RefToId(ref)
	n, ok := w.bugNo[id]
	if !ok {
		n = len(w.bugIds) + 1
		w.bugNo[id] = n
		w.bugIds = append(w.bugIds, id)
	}
	return id, n
}

func (w *World) refVector(repo repository.RepoData, prefix string, newOnes *[]*Commit) []int {
	v := make([]int, NBug)
	refs, err := repo.ListRefs(prefix)
	if err != nil {
		fail("projection: list refs: %v", err)
	}
	sort.Strings(refs)
	// number the bugs in creation order: a ref seen for the first time whose bug is unknown gets the next slot
	for _, ref := range refs {
		_, n := w.bugOfRef(ref)
		h, err := repo.ResolveRef(ref)
		if err != nil {
			fail("projection: resolve %s: %v", ref, err)
		}
		if n > NBug {
			fail("projection: more than %d bugs", NBug)
		}
		v[n-1] = w.register(repo, h, n, newOnes)
	}
	return v
}

func readClockFile(dir, name string) int {
	data, err := os.ReadFile(filepath.Join(dir, ".git", "git-bug", "clocks", name))
	if err != nil {
		return -1
	}
	n, err := strconv.Atoi(strings.TrimSpace(string(data)))
	if err != nil {
		return -2 // present but unreadable
	}
	return n
}

func (w *World) clocks(r *replica) Clk {
	k := Clk{E: -1, C: -1, De: readClockFile(r.dir, "bugs-edit"), Dc: readClockFile(r.dir, "bugs-create")}
	all, err := r.repo.AllClocks()
	if err == nil {
		if c, ok := all["bugs-edit"]; ok {
			k.E = int(c.Time())
		}
		if c, ok := all["bugs-create"]; ok {
			k.C = int(c.Time())
		}
	}
	if k.De >= 0 {
		r.hadEdit = true
	}
	if k.Dc >= 0 {
		r.hadCreate = true
	}
	// a clock that never existed is created on demand with value 1, also on disk
	if k.E == -1 && k.De == -1 && !r.hadEdit {
		k.E, k.De = 1, 1
	}
	if k.C == -1 && k.Dc == -1 && !r.hadCreate {
		k.C, k.Dc = 1, 1
	}
	// files lost and no clock object loaded: the next use starts a new clock at 1
	if k.E == -1 && k.De == -1 && r.hadEdit {
		k.E = 1
	}
	if k.C == -1 && k.Dc == -1 && r.hadCreate {
		k.C = 1
	}
	return k
}

// project fills the state part of an event for replica r.
func (w *World) project(ev *Event, r *replica) {
	var newOnes []*Commit
	ev.Ref = w.refVector(r.repo, "refs/bugs/", &newOnes)
	ev.Trk, ev.Hub = map[string][]int{}, map[string][]int{}
	for _, m := range Remotes {
		ev.Trk[m] = w.refVector(r.repo, "refs/remotes/"+m+"/bugs/", &newOnes)
		ev.Hub[m] = w.refVector(w.hubs[m], "refs/bugs/", &newOnes)
	}
	ev.Clk = w.clocks(r)
	ev.New = newOnes
	if ev.New == nil {
		ev.New = []*Commit{}
	}
}

func (w *World) emit(ev *Event, r *replica) *Event {
	ev.Sess = w.sess
	ev.R = r.name
	ev.Leapt = r.leapt
	if ev.M == "" {
		ev.M = "origin"
	}
	if ev.Runs == nil {
		ev.Runs = []RunSpec{}
	}
	if ev.Returned == nil {
		ev.Returned = []int{}
	}
	if ev.New == nil {
		w.project(ev, r)
	}
	w.events = append(w.events, ev)
	return ev
}

// ---------------------------------------------------------------------------------------------------- actions

func (w *World) appendOps(b *bug.Bug, r *replica, runs []RunSpec) {
	for _, run := range runs {
		au := w.author(r, run.Au)
		for i := 0; i < run.N; i++ {
			w.unix++
			w.kindSeq++
			var err error
			switch w.kindSeq % 5 {
			case 0:
				_, _, err = bug.AddComment(b, au, w.unix, fmt.Sprintf("comment %d", w.kindSeq), nil, nil)
			case 1:
				_, err = bug.SetTitle(b, au, w.unix, fmt.Sprintf("title %d", w.kindSeq), nil)
			case 2:
				_, err = bug.ForceChangeLabels(b, au, w.unix, []string{fmt.Sprintf("l%d", w.kindSeq%3)}, nil, nil)
			case 3:
				snap := b.Compile()
				if snap.Status == common.OpenStatus {
					_, err = bug.Close(b, au, w.unix, nil)
				} else {
					_, err = bug.Open(b, au, w.unix, nil)
				}
			case 4:
				_, _, err = bug.AddComment(b, au, w.unix, fmt.Sprintf("unicode é世界 %d", w.kindSeq), nil, nil)
			}
			hx.Must(err)
		}
	}
}

func (w *World) noteOps(b *bug.Bug) {
	for _, op := range b.Operations() {
		id := op.Id().String()
		if _, ok := w.opNo[id]; !ok {
			w.opNo[id] = len(w.opNo) + 1
		}
	}
}

func (w *World) opNumbers(b *bug.Bug) []int {
	res := []int{}
	for _, op := range b.Operations() {
		n, ok := w.opNo[op.Id().String()]
		if !ok {
			n = -1
		}
		res = append(res, n)
	}
	return res
}

func snapDigest(b *bug.Bug) string {
	s := b.Compile()
	var sb strings.Builder
	fmt.Fprintf(&sb, "%s|%s|%v|", s.Title, s.Status, s.Labels)
	for _, c := range s.Comments {
		fmt.Fprintf(&sb, "%s:%s;", c.Author.Id(), c.Message)
	}
	fmt.Fprintf(&sb, "|%d|", len(s.Timeline))
	for _, t := range s.Timeline {
		fmt.Fprintf(&sb, "%s;", t.CombinedId())
	}
	for _, a := range s.Actors {
		fmt.Fprintf(&sb, "a%s;", a.Id())
	}
	for _, a := range s.Participants {
		fmt.Fprintf(&sb, "p%s;", a.Id())
	}
	return sha([]byte(sb.String()))[:16]
}

func (w *World) rep(name string) *replica {
	r, ok := w.reps[name]
	if !ok {
		fail("unknown replica %q", name)
	}
	return r
}

// Do executes one schedule step. A step the code refuses where the model enables it is recorded as an event with Err set.
func (w *World) Do(s Step) {
	r := w.rep(s.R)
	if s.M == "" {
		s.M = "origin"
	}
	switch s.Act {
	case "NewBug":
		first := s.Runs[0]
		au := w.author(r, first.Au)
		w.unix++
		b, _, err := bug.Create(au, w.unix, fmt.Sprintf("bug of %s", s.R), "first message", nil, nil)
		hx.Must(err)
		rest := append([]RunSpec{{Au: first.Au, N: first.N - 1}}, s.Runs[1:]...)
		w.appendOps(b, r, rest)
		ev := &Event{Ev: "NewBug", Runs: s.Runs}
		if err := b.Commit(r.repo); err != nil {
			ev.Err = err.Error()
		}
		// number the operations in creation order before the projection meets them
		w.noteOps(b)
		_, n := w.bugOfRef("refs/bugs/" + b.Id().String())
		ev.B = n
		w.emit(ev, r)
	case "Edit":
		ev := &Event{Ev: "Edit", B: s.B, Runs: s.Runs}
		b, err := safeRead(r.repo, w.bugIds[s.B-1])
		if err != nil {
			ev.Err = "read: " + err.Error()
			w.emit(ev, r)
			return
		}
		w.appendOps(b, r, s.Runs)
		if err := b.Commit(r.repo); err != nil {
			ev.Err = "commit: " + err.Error()
		}
		w.noteOps(b)
		w.emit(ev, r)
	case "Read":
		w.read(r, s.B, false)
	case "Push":
		ev := &Event{Ev: "Push", M: s.M}
		_, err := bug.Push(r.repo, s.M)
		ev.Ok = err == nil
		if err != nil {
			ev.Err = err.Error()
		}
		w.emit(ev, r)
	case "Fetch":
		ev := &Event{Ev: "Fetch", M: s.M}
		all, lerr := w.hubs[s.M].ListRefs("refs/")
		ev.Empty = lerr == nil && len(all) == 0 // the remote holds no ref at all: go-git refuses to fetch from it
		_, err := bug.Fetch(r.repo, s.M)
		if err != nil {
			ev.Err = err.Error()
		}
		w.emit(ev, r)
	case "MergeAll":
		w.mergeAll(r, s.M)
	case "Reopen":
		w.reopen(r, s.Loaders)
	case "Plant":
		// a history nobody's git-bug wrote, as a remote-tracking ref of a bug of its own: one commit whose tree lacks the creation clock
		au := w.author(r, "u1")
		w.unix++
		op := bug.NewCreateOp(au, w.unix, fmt.Sprintf("planted on %s", s.R), "nobody wrote this with git-bug", nil)
		raw, err := json.Marshal(op)
		hx.Must(err)
		blob, err := json.Marshal(map[string]interface{}{"author": map[string]string{"id": au.Id().String()}, "ops": []json.RawMessage{raw}})
		hx.Must(err)
		empty, err := r.repo.StoreData([]byte{})
		hx.Must(err)
		bh, err := r.repo.StoreData(blob)
		hx.Must(err)
		th, err := r.repo.StoreTree([]repository.TreeEntry{{ObjectType: repository.Blob, Hash: empty, Name: "version-4"},
			{ObjectType: repository.Blob, Hash: bh, Name: "ops"}, {ObjectType: repository.Blob, Hash: empty, Name: "edit-clock-1"}})
		hx.Must(err)
		ch, err := r.repo.StoreCommit(th)
		hx.Must(err)
		id := entity.DeriveId(raw)
		hx.Must(r.repo.UpdateRef("refs/remotes/"+s.M+"/bugs/"+id.String(), ch))
		w.opNo[sha(raw)] = len(w.opNo) + 1
		_, n := w.bugOfRef("refs/bugs/" + id.String())
		w.emit(&Event{Ev: "Plant", M: s.M, B: n}, r)
	case "ClockLeap":
		// the replica witnesses an edit time far above its own: what reading a bug created on a replica that far ahead does
		c, err := r.repo.GetOrCreateClock("bugs-edit")
		hx.Must(err)
		hx.Must(r.repo.Witness("bugs-edit", c.Time()+1_000_001))
		r.hadEdit = true
		r.leapt = true
		w.emit(&Event{Ev: "ClockLeap"}, r)
	case "DeleteClocks":
		// b: 0 = both clock files, 1 = the edit clock only, 2 = the creation clock only
		ev := &Event{Ev: "DeleteClocks", B: s.B}
		if s.B == 0 || s.B == 1 {
			_ = os.Remove(filepath.Join(r.dir, ".git", "git-bug", "clocks", "bugs-edit"))
		}
		if s.B == 0 || s.B == 2 {
			_ = os.Remove(filepath.Join(r.dir, ".git", "git-bug", "clocks", "bugs-create"))
		}
		w.project(ev, r)
		r.hadEdit, r.hadCreate = true, true
		ev.Clk = Clk{E: -1, C: -1, De: -1, Dc: -1} // files gone; the process still holds its memory clocks (not observable without a hook)
		w.emit(ev, r)
	default:
		fail("unknown step %q", s.Act)
	}
}

func safeRead(repo repository.ClockedRepo, id entity.Id) (b *bug.Bug, err error) {
	defer func() {
		if p := recover(); p != nil {
			b, err = nil, fmt.Errorf("panic: %v", p)
		}
	}()
	return bug.Read(repo, id)
}

func (w *World) read(r *replica, b int, final bool) {
	ev := &Event{Ev: "Read", B: b, Final: final}
	bg, err := safeRead(r.repo, w.bugIds[b-1])
	if err != nil {
		ev.Ok = false
		ev.Err = err.Error()
	} else {
		ev.Ok = true
		ev.Returned = w.opNumbers(bg)
		ev.Snap = snapDigest(bg)
		if verr := bg.Validate(); verr != nil {
			ev.Ok = false
			ev.Err = "validate: " + verr.Error()
		}
	}
	w.emit(ev, r)
}

func statusName(s entity.MergeStatus) string {
	switch s {
	case entity.MergeStatusNew:
		return "new"
	case entity.MergeStatusInvalid:
		return "invalid"
	case entity.MergeStatusUpdated:
		return "updated"
	case entity.MergeStatusNothing:
		return "nothing"
	case entity.MergeStatusError:
		return "error"
	}
	return "?"
}

func (w *World) mergeAll(r *replica, remote string) {
	mergeAuthor := w.author(r, "u1")
	resolvers := entity.Resolvers{&identity.Identity{}: identity.NewSimpleResolver(r.repo)}
	type one struct {
		id       entity.Id
		status   string
		returned []int
		err      string
	}
	var results []one
	w.emit(&Event{Ev: "MergeAllBegin", M: remote}, r)
	for res := range bug.MergeAll(r.repo, resolvers, remote, mergeAuthor) {
		o := one{id: res.Id, status: statusName(res.Status)}
		if res.Err != nil {
			o.err = res.Err.Error()
		}
		if res.Status == entity.MergeStatusInvalid {
			o.err = res.Reason
		}
		if res.Entity != nil {
			if bg, ok := res.Entity.(*bug.Bug); ok {
				o.returned = w.opNumbers(bg)
			}
		}
		results = append(results, o)
	}
	// The state is projected once MergeAll is over: merges of different bugs touch different refs, only the clocks
	// are shared, so the per-merge clock values are bound on the last event only (-1 = not observed).
	full := &Event{}
	w.project(full, r)
	newByBug := map[int][]*Commit{}
	for _, c := range full.New {
		newByBug[c.Bug] = append(newByBug[c.Bug], c)
	}
	for i, o := range results {
		_, n := w.bugOfRef("refs/bugs/" + o.id.String())
		ev := &Event{Ev: "Merge", M: remote, B: n, Status: o.status, Returned: o.returned, Err: o.err}
		ev.Ref, ev.Trk, ev.Hub = full.Ref, full.Trk, full.Hub
		ev.New = newByBug[n]
		if ev.New == nil {
			ev.New = []*Commit{}
		}
		delete(newByBug, n)
		ev.Clk = Clk{E: -1, C: -1, De: -1, Dc: -1}
		if i == len(results)-1 {
			ev.Clk = full.Clk
			ev.Final = true
		}
		w.emit(ev, r)
	}
	end := &Event{Ev: "MergeAllEnd", M: remote}
	end.Ref, end.Trk, end.Hub, end.Clk, end.New = full.Ref, full.Trk, full.Hub, full.Clk, []*Commit{}
	w.emit(end, r)
}

func (w *World) reopen(r *replica, loaders bool) {
	ev := &Event{Ev: "Reopen", Loaders: loaders}
	_ = r.repo.Close()
	var ls []repository.ClockLoader
	if loaders {
		ls = []repository.ClockLoader{bug.ClockLoader}
	}
	repo, err := repository.OpenGoGitRepo(r.dir, "git-bug", ls)
	if err != nil {
		ev.Err = err.Error()
		// keep going with a repository opened without loaders so that the session can be projected
		repo, err = repository.OpenGoGitRepo(r.dir, "git-bug", nil)
		hx.Must(err)
	}
	r.repo = repo
	w.emit(ev, r)
}

// Quiesce synchronises every replica until no step changes anything (bounded), then reads every bug everywhere.
func (w *World) Quiesce() {
	for round := 0; round < 8; round++ {
		before := w.fingerprint()
		for _, n := range w.order {
			for _, m := range w.used() {
				w.Do(Step{Act: "Fetch", R: n, M: m})
				w.Do(Step{Act: "MergeAll", R: n, M: m})
				w.Do(Step{Act: "Push", R: n, M: m})
			}
		}
		if w.fingerprint() == before {
			break
		}
	}
	for _, n := range w.order {
		for b := 1; b <= len(w.bugIds); b++ {
			r := w.reps[n]
			if ok, _ := r.repo.RefExist("refs/bugs/" + w.bugIds[b-1].String()); ok {
				w.read(r, b, true)
			}
		}
	}
}

// used lists the remotes the session has talked to so far (origin always).
func (w *World) used() []string {
	out := []string{"origin"}
	for _, m := range Remotes[1:] {
		for _, ev := range w.events {
			if ev.M == m {
				out = append(out, m)
				break
			}
		}
	}
	return out
}

func (w *World) fingerprint() string {
	var sb strings.Builder
	dump := func(repo repository.RepoData, prefix string) {
		refs, _ := repo.ListRefs(prefix)
		sort.Strings(refs)
		for _, ref := range refs {
			h, _ := repo.ResolveRef(ref)
			fmt.Fprintf(&sb, "%s=%s;", ref, h)
		}
	}
	for _, n := range w.order {
		dump(w.reps[n].repo, "refs/bugs/")
		for _, m := range Remotes {
			dump(w.reps[n].repo, "refs/remotes/"+m+"/bugs/")
		}
	}
	for _, m := range Remotes {
		dump(w.hubs[m], "refs/bugs/")
	}
	return sb.String()
}

// FinishRanks replaces pack ids by their rank among all pack ids of the session (the specification orders
// concurrent packs by edit time and then by pack id; it only needs the relative order of the ids).
func (w *World) FinishRanks() {
	ids := map[string]bool{}
	for _, c := range w.commits {
		ids[c.packID] = true
	}
	var sorted []string
	for id := range ids {
		sorted = append(sorted, id)
	}
	sort.Strings(sorted)
	rank := map[string]int{}
	for i, id := range sorted {
		rank[id] = i + 1
	}
	for _, c := range w.commits {
		c.Rank = rank[c.packID]
	}
}
