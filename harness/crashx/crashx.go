// Package crashx enumerates crash points of git-bug's write paths (C06): every prefix of the sequence of storage
// mutations a call issues (blob / tree / commit writes, ref updates through repository.ClockedRepo; file operations on
// the clock files through the local-storage hook), each in a child process that dies at the chosen point. The parent
// re-opens the repository the way git-bug does, reads everything back and records what it finds; spec/Crash.tla
// judges the records.
package crashx

import (
	"encoding/json"
	"fmt"
	"os"
	"os/exec"
	"path/filepath"
	"sort"
	"strconv"
	"strings"
	"sync"

	"github.com/go-git/go-billy/v5"

	"github.com/MichaelMure/git-bug/entities/bug"
	"github.com/MichaelMure/git-bug/entities/identity"
	"github.com/MichaelMure/git-bug/entity"
	"github.com/MichaelMure/git-bug/repository"
	"github.com/MichaelMure/git-bug/util/lamport"
	"github.com/ProtonMail/go-crypto/openpgp"

	"verif/harness/hx"
)

// ---------------------------------------------------------------------------------------------------- fault layer

type injector struct {
	mu     sync.Mutex
	n      int
	target int // die when the n-th mutation is about to happen (0 = never)
	log    []string
}

var inj = &injector{}

// hit records a mutation; returns true when the process must die at this one (after its partial effect, if any).
func (i *injector) hit(kind string) bool {
	i.mu.Lock()
	defer i.mu.Unlock()
	i.n++
	i.log = append(i.log, kind)
	return i.target != 0 && i.n == i.target
}

func die() { os.Exit(77) }

type faultRepo struct {
	repository.ClockedRepo
}

func (f faultRepo) StoreData(data []byte) (repository.Hash, error) {
	if inj.hit("blob") {
		die()
	}
	return f.ClockedRepo.StoreData(data)
}
func (f faultRepo) StoreTree(t []repository.TreeEntry) (repository.Hash, error) {
	if inj.hit("tree") {
		die()
	}
	return f.ClockedRepo.StoreTree(t)
}
func (f faultRepo) StoreCommit(tree repository.Hash, parents ...repository.Hash) (repository.Hash, error) {
	if inj.hit("commit") {
		die()
	}
	return f.ClockedRepo.StoreCommit(tree, parents...)
}
func (f faultRepo) StoreSignedCommit(tree repository.Hash, k *openpgp.Entity, parents ...repository.Hash) (repository.Hash, error) {
	if inj.hit("commit") {
		die()
	}
	return f.ClockedRepo.StoreSignedCommit(tree, k, parents...)
}
func (f faultRepo) UpdateRef(ref string, h repository.Hash) error {
	if inj.hit("ref") {
		die()
	}
	return f.ClockedRepo.UpdateRef(ref, h)
}
func (f faultRepo) CopyRef(src, dst string) error {
	if inj.hit("ref") {
		die()
	}
	return f.ClockedRepo.CopyRef(src, dst)
}
func (f faultRepo) RemoveRef(ref string) error {
	if inj.hit("rmref") {
		die()
	}
	return f.ClockedRepo.RemoveRef(ref)
}

// faultFS observes and interrupts the file operations on git-bug's own files (only the clock files matter here).
type faultFS struct {
	billy.Filesystem
}

func isClock(name string) bool { return strings.Contains(name, "clocks") }

func (f faultFS) OpenFile(name string, flag int, perm os.FileMode) (billy.File, error) {
	if isClock(name) && flag&(os.O_WRONLY|os.O_RDWR) != 0 {
		kind := "fs-open"
		if flag&os.O_TRUNC != 0 {
			kind = "fs-open-trunc"
		}
		dead := inj.hit(kind)
		file, err := f.Filesystem.OpenFile(name, flag, perm)
		if dead {
			die() // after the open took effect (an O_TRUNC open leaves an empty file)
		}
		if err != nil {
			return nil, err
		}
		return &faultFile{File: file}, nil
	}
	return f.Filesystem.OpenFile(name, flag, perm)
}
func (f faultFS) Create(name string) (billy.File, error) {
	return f.OpenFile(name, os.O_RDWR|os.O_CREATE|os.O_TRUNC, 0o666)
}
func (f faultFS) Rename(from, to string) error {
	if isClock(from) || isClock(to) {
		if inj.hit("fs-rename") {
			die()
		}
	}
	return f.Filesystem.Rename(from, to)
}
func (f faultFS) TempFile(dir, prefix string) (billy.File, error) {
	if isClock(dir) {
		dead := inj.hit("fs-open-temp")
		file, err := f.Filesystem.TempFile(dir, prefix)
		if dead {
			die()
		}
		if err != nil {
			return nil, err
		}
		return &faultFile{File: file, temp: true}, nil
	}
	return f.Filesystem.TempFile(dir, prefix)
}

type faultFile struct {
	billy.File
	temp bool
}

func (f *faultFile) Write(p []byte) (int, error) {
	if inj.hit("fs-write") {
		_, _ = f.File.Write(p[:len(p)/2]) // a torn write: a proper prefix reaches the disk
		die()
	}
	return f.File.Write(p)
}
func (f *faultFile) Close() error {
	if inj.hit("fs-close") {
		die()
	}
	return f.File.Close()
}

// ---------------------------------------------------------------------------------------------------- scenarios

type scenario struct {
	name string
	// prepare builds the state before the interrupted call (replica A in dir/A, hub in dir/hub, replica B in dir/B)
	prepare func(dir string)
	// run issues the call under test on replica A through the fault layer
	run func(dir string, repo repository.ClockedRepo, raw *repository.GoGitRepo)
}

func openWorld(dir string) (a, b, hub *repository.GoGitRepo) {
	hub = hx.InitBare(filepath.Join(dir, "hub"))
	a = hx.InitRepo(filepath.Join(dir, "A"))
	b = hx.InitRepo(filepath.Join(dir, "B"))
	hx.Must(a.AddRemote("origin", filepath.Join(dir, "hub")))
	hx.Must(b.AddRemote("origin", filepath.Join(dir, "hub")))
	return
}

func mkIdentity(repo repository.ClockedRepo, name string) *identity.Identity {
	i, err := identity.NewIdentity(repo, name, name+"@example.org")
	hx.Must(err)
	hx.Must(i.Commit(repo))
	return i
}

func author(repo repository.ClockedRepo, name string) identity.Interface {
	for s := range identity.ReadAllLocal(repo) {
		hx.Must(s.Err)
		if s.Entity.Name() == name {
			return s.Entity
		}
	}
	hx.Die("no identity %s", name)
	return nil
}

func theBug(repo repository.ClockedRepo) *bug.Bug {
	for s := range bug.ReadAll(repo) {
		hx.Must(s.Err)
		return s.Entity
	}
	hx.Die("no bug")
	return nil
}

// base: two authors known everywhere, one bug with two packs pushed and pulled by B
func prepBase(dir string, withBug bool) {
	a, b, hub := openWorld(dir)
	mkIdentity(a, "alice")
	mkIdentity(a, "bob")
	if withBug {
		bg, _, err := bug.Create(author(a, "alice"), 1600000000, "the bug", "first", nil, nil)
		hx.Must(err)
		_, _, err = bug.AddComment(bg, author(a, "bob"), 1600000001, "second", nil, nil)
		hx.Must(err)
		hx.Must(bg.Commit(a))
	}
	_, err := identity.Push(a, "origin")
	hx.Must(err)
	_, err = bug.Push(a, "origin")
	hx.Must(err)
	hx.Must(identity.Pull(b, "origin"))
	if withBug {
		hx.Must(bug.Pull(b, entity.Resolvers{&identity.Identity{}: identity.NewSimpleResolver(b)}, "origin", author(b, "alice")))
	}
	_ = a.Close()
	_ = b.Close()
	_ = hub.Close()
}

func remoteEdit(dir string, n int) {
	b, err := repository.OpenGoGitRepo(filepath.Join(dir, "B"), "git-bug", nil)
	hx.Must(err)
	bg := theBug(b)
	for i := 0; i < n; i++ {
		_, _, err := bug.AddComment(bg, author(b, "bob"), 1600000100+int64(i), fmt.Sprintf("remote %d", i), nil, nil)
		hx.Must(err)
		hx.Must(bg.Commit(b))
	}
	_, err = bug.Push(b, "origin")
	hx.Must(err)
	_ = b.Close()
}

func resolvers(repo repository.ClockedRepo) entity.Resolvers {
	return entity.Resolvers{&identity.Identity{}: identity.NewSimpleResolver(repo)}
}

func scenarios() []scenario {
	return []scenario{
		{"new-bug-one-author", func(dir string) { prepBase(dir, false) },
			func(dir string, repo repository.ClockedRepo, raw *repository.GoGitRepo) {
				bg, _, err := bug.Create(author(repo, "alice"), 1600000200, "new bug", "message", nil, nil)
				hx.Must(err)
				_, err = bug.SetTitle(bg, author(repo, "alice"), 1600000201, "retitled", nil)
				hx.Must(err)
				hx.Must(bg.Commit(repo))
			}},
		{"new-bug-two-authors", func(dir string) { prepBase(dir, false) },
			func(dir string, repo repository.ClockedRepo, raw *repository.GoGitRepo) {
				bg, _, err := bug.Create(author(repo, "alice"), 1600000200, "new bug", "message", nil, nil)
				hx.Must(err)
				_, _, err = bug.AddComment(bg, author(repo, "bob"), 1600000201, "by bob", nil, nil)
				hx.Must(err)
				_, _, err = bug.AddComment(bg, author(repo, "alice"), 1600000202, "by alice", nil, nil)
				hx.Must(err)
				hx.Must(bg.Commit(repo))
			}},
		{"edit-two-authors", func(dir string) { prepBase(dir, true) },
			func(dir string, repo repository.ClockedRepo, raw *repository.GoGitRepo) {
				bg := theBug(repo)
				_, _, err := bug.AddComment(bg, author(repo, "alice"), 1600000300, "edit a", nil, nil)
				hx.Must(err)
				_, err = bug.Close(bg, author(repo, "bob"), 1600000301, nil)
				hx.Must(err)
				hx.Must(bg.Commit(repo))
			}},
		{"new-identity", func(dir string) { prepBase(dir, false) },
			func(dir string, repo repository.ClockedRepo, raw *repository.GoGitRepo) {
				i, err := identity.NewIdentity(repo, "carol", "carol@example.org")
				hx.Must(err)
				hx.Must(i.Commit(repo))
			}},
		{"mutate-identity-twice", func(dir string) { prepBase(dir, false) },
			func(dir string, repo repository.ClockedRepo, raw *repository.GoGitRepo) {
				i := author(repo, "alice").(*identity.Identity)
				hx.Must(i.Mutate(repo, func(m *identity.Mutator) { m.Login = "alice1" }))
				hx.Must(i.Mutate(repo, func(m *identity.Mutator) { m.Login = "alice2" }))
				hx.Must(i.Commit(repo))
			}},
		{"pull-new-bug", func(dir string) {
			prepBase(dir, false)
			b, err := repository.OpenGoGitRepo(filepath.Join(dir, "B"), "git-bug", nil)
			hx.Must(err)
			bg, _, err := bug.Create(author(b, "bob"), 1600000400, "from b", "message", nil, nil)
			hx.Must(err)
			hx.Must(bg.Commit(b))
			_, err = bug.Push(b, "origin")
			hx.Must(err)
			_ = b.Close()
		}, func(dir string, repo repository.ClockedRepo, raw *repository.GoGitRepo) {
			hx.Must(bug.Pull(repo, resolvers(repo), "origin", author(repo, "alice")))
		}},
		{"pull-fast-forward", func(dir string) { prepBase(dir, true); remoteEdit(dir, 2) },
			func(dir string, repo repository.ClockedRepo, raw *repository.GoGitRepo) {
				hx.Must(bug.Pull(repo, resolvers(repo), "origin", author(repo, "alice")))
			}},
		{"pull-diverged-merge", func(dir string) {
			prepBase(dir, true)
			remoteEdit(dir, 2)
			a, err := repository.OpenGoGitRepo(filepath.Join(dir, "A"), "git-bug", nil)
			hx.Must(err)
			bg := theBug(a)
			_, _, err = bug.AddComment(bg, author(a, "alice"), 1600000500, "local", nil, nil)
			hx.Must(err)
			hx.Must(bg.Commit(a))
			_ = a.Close()
		}, func(dir string, repo repository.ClockedRepo, raw *repository.GoGitRepo) {
			hx.Must(bug.Pull(repo, resolvers(repo), "origin", author(repo, "alice")))
		}},
		{"read-only", func(dir string) { prepBase(dir, true) },
			func(dir string, repo repository.ClockedRepo, raw *repository.GoGitRepo) {
				_ = theBug(repo) // reading witnesses the clocks: clock files are rewritten
			}},
	}
}

func scenarioByName(n string) scenario {
	for _, s := range scenarios() {
		if s.name == n {
			return s
		}
	}
	hx.Die("unknown scenario %s", n)
	return scenario{}
}

// Child: vh crash-child <dir> <scenario> <target>
func Child(args []string) {
	dir, sc := args[0], scenarioByName(args[1])
	target, _ := strconv.Atoi(args[2])
	inj.target = target
	repository.VerifWrapLocalStorage = func(fs billy.Filesystem) billy.Filesystem { return faultFS{fs} }
	raw, err := repository.OpenGoGitRepo(filepath.Join(dir, "A"), "git-bug", nil)
	hx.Must(err)
	sc.run(dir, faultRepo{raw}, raw)
	_ = raw.Close()
	b, _ := json.Marshal(map[string]interface{}{"mutations": inj.log})
	fmt.Println(string(b))
}

// ---------------------------------------------------------------------------------------------------- parent

type Record struct {
	Scenario  string   `json:"scenario"`
	K         int      `json:"k"`         // crash point: mutations 1..k-1 done, mutation k interrupted (k = n+1: nothing interrupted)
	N         int      `json:"n"`         // number of mutations of the uninterrupted call
	Mutations []string `json:"mutations"` // their kinds, in order
	OpenErr   string   `json:"openerr"`
	ReadErr   string   `json:"readerr"`
	Outcome   string   `json:"outcome"` // pre | post | other
	State     string   `json:"state"`
	ClockOK   bool     `json:"clockok"`
	ClockWhy  string   `json:"clockwhy"`
	Redo      string   `json:"redo"` // post | other | "" (not needed)
	RedoErr   string   `json:"redoerr"`
}

// signature of a repository: every entity with the kinds and texts of its operations / versions (ids differ from run
// to run because of nonces, so states are compared structurally), plus clock sanity.
func signature(dir string) (sig string, openErr, readErr string, clockOK bool, clockWhy string) {
	repo, err := repository.OpenGoGitRepo(filepath.Join(dir, "A"), "git-bug", []repository.ClockLoader{bug.ClockLoader})
	if err != nil {
		return "", err.Error(), "", false, "repository does not open"
	}
	defer repo.Close()
	var parts []string
	maxEdit, maxCreate := 0, 0
	func() {
		defer func() {
			if p := recover(); p != nil {
				readErr = fmt.Sprintf("panic: %v", p)
			}
		}()
		for s := range bug.ReadAll(repo) {
			if s.Err != nil {
				readErr = "bug: " + s.Err.Error()
				return
			}
			var ops []string
			for _, op := range s.Entity.Operations() {
				txt := ""
				switch o := op.(type) {
				case *bug.CreateOperation:
					txt = o.Title + "/" + o.Message
				case *bug.AddCommentOperation:
					txt = o.Message
				case *bug.SetTitleOperation:
					txt = o.Title
				}
				ops = append(ops, fmt.Sprintf("%d:%s:%s", op.Type(), op.Author().Name(), txt))
			}
			if err := s.Entity.Validate(); err != nil {
				readErr = "bug invalid: " + err.Error()
			}
			if int(s.Entity.EditLamportTime()) > maxEdit {
				maxEdit = int(s.Entity.EditLamportTime())
			}
			if int(s.Entity.CreateLamportTime()) > maxCreate {
				maxCreate = int(s.Entity.CreateLamportTime())
			}
			parts = append(parts, "bug["+strings.Join(ops, ",")+"]")
		}
		for s := range identity.ReadAllLocal(repo) {
			if s.Err != nil {
				readErr = "identity: " + s.Err.Error()
				return
			}
			parts = append(parts, fmt.Sprintf("identity[%s/%s]", s.Entity.Name(), s.Entity.Login()))
		}
	}()
	sort.Strings(parts)
	sig = strings.Join(parts, ";")
	// the clocks must be usable and not behind anything stored under a local ref
	clockOK = true
	check := func(name string, floor int) {
		c, err := repo.GetOrCreateClock(name)
		if err != nil {
			clockOK, clockWhy = false, name+": "+err.Error()
			return
		}
		if int(c.Time()) < floor {
			clockOK, clockWhy = false, fmt.Sprintf("%s = %d is lower than a stored time %d", name, c.Time(), floor)
		}
		if _, err := repo.Increment(name); err != nil {
			clockOK, clockWhy = false, name+" cannot be incremented: "+err.Error()
		}
	}
	check("bugs-edit", maxEdit)
	check("bugs-create", maxCreate)
	_ = lamport.Time(0)
	return
}

func copyDir(src, dst string) {
	out, err := exec.Command("cp", "-a", src, dst).CombinedOutput()
	if err != nil {
		hx.Die("cp: %v %s", err, out)
	}
}

func child(dir, sc string, target int) (mutations []string, exit int, out string) {
	cmd := exec.Command(os.Args[0], "crash-child", dir, sc, strconv.Itoa(target))
	b, err := cmd.CombinedOutput()
	out = string(b)
	if err != nil {
		if ee, ok := err.(*exec.ExitError); ok {
			return nil, ee.ExitCode(), out
		}
		hx.Die("child: %v", err)
	}
	var res struct {
		Mutations []string `json:"mutations"`
	}
	lines := strings.Split(strings.TrimSpace(out), "\n")
	hx.Must(json.Unmarshal([]byte(lines[len(lines)-1]), &res))
	return res.Mutations, 0, out
}

// Run: vh crash <out>
func Run(args []string) {
	out := hx.NewWriter(args[0])
	defer out.Close()
	type job struct {
		sc   scenario
		base string
		muts []string
		pre  string
		post string
		k    int
	}
	var jobs []job
	root := hx.Scratch("crash")
	defer os.RemoveAll(root)
	for _, sc := range scenarios() {
		base := filepath.Join(root, sc.name+"-base")
		hx.Must(os.MkdirAll(base, 0o755))
		sc.prepare(base)
		// inspection touches the clocks (it increments them): always inspect a copy
		tmp := filepath.Join(root, sc.name+"-tmp")
		copyDir(base, tmp)
		pre, oe, re, _, _ := signature(tmp)
		os.RemoveAll(tmp)
		if oe != "" || re != "" {
			hx.Die("scenario %s: the state before the call is not readable: %s %s", sc.name, oe, re)
		}
		ref := filepath.Join(root, sc.name+"-ref")
		copyDir(base, ref)
		muts, code, o := child(ref, sc.name, 0)
		if code != 0 {
			hx.Die("scenario %s: the uninterrupted call failed: %s", sc.name, o)
		}
		post, oe, re, _, _ := signature(ref)
		os.RemoveAll(ref)
		if oe != "" || re != "" {
			hx.Die("scenario %s: the state after the call is not readable: %s %s", sc.name, oe, re)
		}
		for k := 1; k <= len(muts)+1; k++ {
			jobs = append(jobs, job{sc, base, muts, pre, post, k})
		}
	}
	hx.Parallel(len(jobs), 0, func(i int) {
		j := jobs[i]
		dir := filepath.Join(root, fmt.Sprintf("%s-k%d", j.sc.name, j.k))
		copyDir(j.base, dir)
		defer os.RemoveAll(dir)
		rec := Record{Scenario: j.sc.name, K: j.k, N: len(j.muts), Mutations: append([]string{}, j.muts...)}
		if j.k <= len(j.muts) {
			_, code, o := child(dir, j.sc.name, j.k)
			if code != 77 {
				hx.Die("scenario %s crash point %d: child exited %d instead of dying at the crash point: %s", j.sc.name, j.k, code, o)
			}
		} else {
			if _, code, o := child(dir, j.sc.name, 0); code != 0 {
				hx.Die("scenario %s: uninterrupted run failed: %s", j.sc.name, o)
			}
		}
		// the state is inspected on a copy (inspection itself touches the clocks); the redo runs on the crashed directory
		insp := dir + "-inspect"
		copyDir(dir, insp)
		sig, oe, re, cok, cwhy := signature(insp)
		os.RemoveAll(insp)
		rec.OpenErr, rec.ReadErr, rec.ClockOK, rec.ClockWhy, rec.State = oe, re, cok, cwhy, sig
		switch {
		case oe != "" || re != "":
			rec.Outcome = "other"
		case sig == j.post:
			rec.Outcome = "post"
		case sig == j.pre:
			rec.Outcome = "pre"
		default:
			rec.Outcome = "other"
		}
		if rec.Outcome == "pre" && j.pre != j.post {
			_, code, o := child(dir, j.sc.name, 0)
			if code != 0 {
				rec.Redo, rec.RedoErr = "other", "repeating the call failed: "+lastLine(o)
			} else {
				sig2, oe2, re2, _, _ := signature(dir)
				if oe2 == "" && re2 == "" && sig2 == j.post {
					rec.Redo = "post"
				} else {
					rec.Redo, rec.RedoErr = "other", oe2+re2+" state: "+sig2
				}
			}
		}
		out.Put(rec)
	})
}

func lastLine(s string) string {
	l := strings.Split(strings.TrimSpace(s), "\n")
	return l[len(l)-1]
}
