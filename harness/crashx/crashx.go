// Package crashx enumerates crash points of git-bug's write paths (C06): every prefix of the sequence of storage
// mutations a call issues (blob / tree / commit writes, ref updates through repository.ClockedRepo; file operations on
// the clock files through the local-storage hook), each in a child process that dies at the chosen point. The parent
// re-opens the repository the way git-bug does, reads everything back and records what it finds; spec/Crash.tla
// judges the records.
package crashx

import (
	"encoding/json"
	"fmt"
	gogit "github.com/go-git/go-git/v5"
	"github.com/go-git/go-git/v5/plumbing"
	"github.com/go-git/go-git/v5/plumbing/object"
	"os"
	"os/exec"
	"path/filepath"
	"sort"
	"strconv"
	"strings"
	"sync"
	"time"

	"github.com/go-git/go-billy/v5"

	"github.com/MichaelMure/git-bug/entities/bug"
	"github.com/MichaelMure/git-bug/entities/identity"
	"github.com/MichaelMure/git-bug/entity"
	"github.com/MichaelMure/git-bug/entity/dag"
	"github.com/MichaelMure/git-bug/repository"
	"github.com/MichaelMure/git-bug/util/lamport"
	"github.com/ProtonMail/go-crypto/openpgp"

	"verif/harness/hx"
)

// ---------------------------------------------------------------------------------------------------- fault layer

type injector struct {
	mu     sync.Mutex
	n      int
	target int // die when the n-th mutation is about to happen (0 = never)
	tear   int // how many bytes of an interrupted write reach the disk (-1: half of them)
	log    []string
	wlen   map[int]int // length of the n-th mutation when it is a write
	trail  *os.File    // every mutation is also appended here: what a dying child did stays readable

	// error mode (errors.go): instead of dying at a mutation, the errAt-th repository or clock-file call of any kind (reads
	// too) returns an error and does nothing; errAt < 0 only counts the calls
	errMode bool
	errAt   int
	calls   int
	kinds   []string
	fired   string
	last    time.Time
}

var inj = &injector{tear: -1, wlen: map[int]int{}}

// hit records a mutation; returns true when the process must die at this one (after its partial effect, if any).
func (i *injector) hit(kind string) bool {
	i.mu.Lock()
	defer i.mu.Unlock()
	i.n++
	i.log = append(i.log, kind)
	if i.trail != nil && !i.errMode {
		fmt.Fprintln(i.trail, kind)
	}
	return i.target != 0 && i.n == i.target
}

func die() { os.Exit(77) }

type faultRepo struct {
	repository.ClockedRepo
}

func (f faultRepo) StoreData(data []byte) (repository.Hash, error) {
	if inj.failing("blob") {
		return "", errInjected
	}
	if inj.hit("blob") {
		die()
	}
	h, err := f.ClockedRepo.StoreData(data)
	inj.after("blob", err)
	return h, err
}
func (f faultRepo) StoreTree(t []repository.TreeEntry) (repository.Hash, error) {
	if inj.failing("tree") {
		return "", errInjected
	}
	if inj.hit("tree") {
		die()
	}
	h, err := f.ClockedRepo.StoreTree(t)
	inj.after("tree", err)
	return h, err
}
func (f faultRepo) StoreCommit(tree repository.Hash, parents ...repository.Hash) (repository.Hash, error) {
	if inj.failing("commit") {
		return "", errInjected
	}
	if inj.hit("commit") {
		die()
	}
	h, err := f.ClockedRepo.StoreCommit(tree, parents...)
	inj.after("commit", err)
	return h, err
}
func (f faultRepo) StoreSignedCommit(tree repository.Hash, k *openpgp.Entity, parents ...repository.Hash) (repository.Hash, error) {
	if inj.failing("commit") {
		return "", errInjected
	}
	if inj.hit("commit") {
		die()
	}
	h, err := f.ClockedRepo.StoreSignedCommit(tree, k, parents...)
	inj.after("commit", err)
	return h, err
}
func (f faultRepo) UpdateRef(ref string, h repository.Hash) error {
	if inj.failing("ref " + ref) {
		return errInjected
	}
	if inj.hit("ref " + ref) {
		die()
	}
	err := f.ClockedRepo.UpdateRef(ref, h)
	inj.after("ref "+ref, err)
	return err
}
func (f faultRepo) CopyRef(src, dst string) error {
	if inj.failing("ref " + dst) {
		return errInjected
	}
	if inj.hit("ref " + dst) {
		die()
	}
	err := f.ClockedRepo.CopyRef(src, dst)
	inj.after("ref "+dst, err)
	return err
}
func (f faultRepo) RemoveRef(ref string) error {
	kind := "rmref "
	if strings.HasPrefix(ref, "refs/remotes/") {
		kind = "rmtrack "
	}
	if inj.failing(kind + ref) {
		return errInjected
	}
	if inj.hit(kind + ref) {
		die()
	}
	err := f.ClockedRepo.RemoveRef(ref)
	inj.after(kind+ref, err)
	return err
}

// faultFS observes and interrupts the file operations on git-bug's own files (only the clock files matter here).
type faultFS struct {
	billy.Filesystem
}

func isClock(name string) bool { return strings.Contains(name, "clocks") }

func (f faultFS) OpenFile(name string, flag int, perm os.FileMode) (billy.File, error) {
	if isClock(name) && flag&(os.O_WRONLY|os.O_RDWR) != 0 {
		kind := "fs-open"
		if flag&os.O_TRUNC != 0 {
			kind = "fs-open-trunc"
		}
		if inj.failing(kind) {
			return nil, errInjected
		}
		dead := inj.hit(kind)
		file, err := f.Filesystem.OpenFile(name, flag, perm)
		if dead {
			die() // after the open took effect (an O_TRUNC open leaves an empty file)
		}
		if err != nil {
			return nil, err
		}
		return &faultFile{File: file}, nil
	}
	return f.Filesystem.OpenFile(name, flag, perm)
}
func (f faultFS) Create(name string) (billy.File, error) {
	return f.OpenFile(name, os.O_RDWR|os.O_CREATE|os.O_TRUNC, 0o666)
}
func (f faultFS) Rename(from, to string) error {
	if isClock(from) || isClock(to) {
		if inj.failing("fs-rename") {
			return errInjected
		}
		if inj.hit("fs-rename") {
			die()
		}
	}
	return f.Filesystem.Rename(from, to)
}
func (f faultFS) TempFile(dir, prefix string) (billy.File, error) {
	if isClock(dir) {
		if inj.failing("fs-open-temp") {
			return nil, errInjected
		}
		dead := inj.hit("fs-open-temp")
		file, err := f.Filesystem.TempFile(dir, prefix)
		if dead {
			die()
		}
		if err != nil {
			return nil, err
		}
		return &faultFile{File: file, temp: true}, nil
	}
	return f.Filesystem.TempFile(dir, prefix)
}

type faultFile struct {
	billy.File
	temp bool
}

func (f *faultFile) Write(p []byte) (int, error) {
	if inj.failing("fs-write") {
		return 0, errInjected
	}
	dead := inj.hit("fs-write")
	inj.mu.Lock()
	inj.wlen[inj.n] = len(p)
	inj.mu.Unlock()
	if dead {
		n := len(p) / 2 // a torn write: a proper prefix reaches the disk
		if inj.tear >= 0 && inj.tear < len(p) {
			n = inj.tear
		}
		_, _ = f.File.Write(p[:n])
		die()
	}
	return f.File.Write(p)
}
func (f *faultFile) Close() error {
	if inj.hit("fs-close") {
		die()
	}
	return f.File.Close()
}

// ---------------------------------------------------------------------------------------------------- scenarios

type scenario struct {
	name string
	// prepare builds the state before the interrupted call (replica A in dir/A, hub in dir/hub, replica B in dir/B)
	prepare func(dir string)
	// run issues the call under test on replica A through the fault layer; it must be repeatable (a second run on
	// the state the first one left completes what is missing)
	run func(dir string, repo repository.ClockedRepo, raw *repository.GoGitRepo)
}

func openWorld(dir string) (a, b, hub *repository.GoGitRepo) {
	hub = hx.InitBare(filepath.Join(dir, "hub"))
	a = hx.InitRepo(filepath.Join(dir, "A"))
	b = hx.InitRepo(filepath.Join(dir, "B"))
	hx.Must(a.AddRemote("origin", filepath.Join(dir, "hub")))
	hx.Must(b.AddRemote("origin", filepath.Join(dir, "hub")))
	return
}

func openB(dir string) *repository.GoGitRepo {
	b, err := repository.OpenGoGitRepo(filepath.Join(dir, "B"), "git-bug", nil)
	hx.Must(err)
	return b
}

func openA(dir string) *repository.GoGitRepo {
	a, err := repository.OpenGoGitRepo(filepath.Join(dir, "A"), "git-bug", nil)
	hx.Must(err)
	return a
}

func mkIdentity(repo repository.ClockedRepo, name string) *identity.Identity {
	i, err := identity.NewIdentity(repo, name, name+"@example.org")
	hx.Must(err)
	hx.Must(i.Commit(repo))
	return i
}

// the streams are always drained: the goroutine behind them witnesses clocks, which has to happen before the caller goes
// on (the sequence of mutations must not depend on the scheduler)
func authorOrNil(repo repository.ClockedRepo, name string) *identity.Identity {
	var res *identity.Identity
	for s := range identity.ReadAllLocal(repo) {
		hx.Must(s.Err)
		if s.Entity.Email() == name+"@example.org" {
			res = s.Entity
		}
	}
	return res
}

func author(repo repository.ClockedRepo, name string) identity.Interface {
	if i := authorOrNil(repo, name); i != nil {
		return i
	}
	hx.Die("no identity %s", name)
	return nil
}

func titleOf(b *bug.Bug) string {
	if c, ok := b.FirstOp().(*bug.CreateOperation); ok {
		return c.Title
	}
	return "?"
}

func bugByTitle(repo repository.ClockedRepo, title string) *bug.Bug {
	var res *bug.Bug
	for s := range bug.ReadAll(repo) {
		hx.Must(s.Err)
		if titleOf(s.Entity) == title {
			res = s.Entity
		}
	}
	return res
}

func theBug(repo repository.ClockedRepo) *bug.Bug {
	b := bugByTitle(repo, "the bug")
	if b == nil {
		hx.Die("no bug")
	}
	return b
}

func resolvers(repo repository.ClockedRepo) entity.Resolvers {
	return entity.Resolvers{&identity.Identity{}: identity.NewSimpleResolver(repo)}
}

// base: authors known everywhere, bugs (each two packs by two authors) pushed by A and pulled by B; A has fetched, so it
// holds remote-tracking refs too
func prepBaseN(dir string, authors []string, titles []string) {
	a, b, hub := openWorld(dir)
	for _, n := range authors {
		mkIdentity(a, n)
	}
	for k, t := range titles {
		bg, _, err := bug.Create(author(a, authors[0]), 1600000000+int64(10*k), t, "first", nil, nil)
		hx.Must(err)
		_, _, err = bug.AddComment(bg, author(a, authors[1]), 1600000001+int64(10*k), "second", nil, nil)
		hx.Must(err)
		hx.Must(bg.Commit(a))
	}
	_, err := identity.Push(a, "origin")
	hx.Must(err)
	_, err = bug.Push(a, "origin")
	hx.Must(err)
	hx.Must(identity.Pull(b, "origin"))
	if len(titles) > 0 {
		hx.Must(bug.Pull(b, resolvers(b), "origin", author(b, authors[0])))
		_, err = bug.Fetch(a, "origin")
		hx.Must(err)
	}
	_, err = identity.Fetch(a, "origin")
	hx.Must(err)
	_ = a.Close()
	_ = b.Close()
	_ = hub.Close()
}

func prepBase(dir string, withBug bool) {
	if withBug {
		prepBaseN(dir, []string{"alice", "bob"}, []string{"the bug"})
	} else {
		prepBaseN(dir, []string{"alice", "bob"}, nil)
	}
}

func remoteEdit(dir string, title string, n int, who string) {
	b := openB(dir)
	bg := bugByTitle(b, title)
	for i := 0; i < n; i++ {
		_, _, err := bug.AddComment(bg, author(b, who), 1600000100+int64(i), fmt.Sprintf("remote %d", i), nil, nil)
		hx.Must(err)
		hx.Must(bg.Commit(b))
	}
	_, err := bug.Push(b, "origin")
	hx.Must(err)
	_ = b.Close()
}

func localEdit(dir string, title string, who string) {
	a := openA(dir)
	bg := bugByTitle(a, title)
	_, _, err := bug.AddComment(bg, author(a, who), 1600000500, "local", nil, nil)
	hx.Must(err)
	hx.Must(bg.Commit(a))
	_ = a.Close()
}

func pullAll(repo repository.ClockedRepo) {
	hx.Must(identity.Pull(repo, "origin"))
	hx.Must(bug.Pull(repo, resolvers(repo), "origin", author(repo, "alice")))
}

func scenarios() []scenario {
	return []scenario{
		{"new-bug-one-author", func(dir string) { prepBase(dir, false) },
			func(dir string, repo repository.ClockedRepo, raw *repository.GoGitRepo) {
				bg, _, err := bug.Create(author(repo, "alice"), 1600000200, "new bug", "message", nil, nil)
				hx.Must(err)
				_, err = bug.SetTitle(bg, author(repo, "alice"), 1600000201, "retitled", nil)
				hx.Must(err)
				hx.Must(bg.Commit(repo))
			}},
		{"new-bug-two-authors", func(dir string) { prepBase(dir, false) },
			func(dir string, repo repository.ClockedRepo, raw *repository.GoGitRepo) {
				bg, _, err := bug.Create(author(repo, "alice"), 1600000200, "new bug", "message", nil, nil)
				hx.Must(err)
				_, _, err = bug.AddComment(bg, author(repo, "bob"), 1600000201, "by bob", nil, nil)
				hx.Must(err)
				_, _, err = bug.AddComment(bg, author(repo, "alice"), 1600000202, "by alice", nil, nil)
				hx.Must(err)
				hx.Must(bg.Commit(repo))
			}},
		{"edit-two-authors", func(dir string) { prepBase(dir, true) },
			func(dir string, repo repository.ClockedRepo, raw *repository.GoGitRepo) {
				bg := theBug(repo)
				_, _, err := bug.AddComment(bg, author(repo, "alice"), 1600000300, "edit a", nil, nil)
				hx.Must(err)
				_, err = bug.Close(bg, author(repo, "bob"), 1600000301, nil)
				hx.Must(err)
				hx.Must(bg.Commit(repo))
			}},
		{"new-identity", func(dir string) { prepBase(dir, false) },
			func(dir string, repo repository.ClockedRepo, raw *repository.GoGitRepo) {
				i, err := identity.NewIdentity(repo, "carol", "carol@example.org")
				hx.Must(err)
				hx.Must(i.Commit(repo))
			}},
		{"mutate-identity-twice", func(dir string) { prepBase(dir, false) },
			func(dir string, repo repository.ClockedRepo, raw *repository.GoGitRepo) {
				i := author(repo, "alice").(*identity.Identity)
				hx.Must(i.Mutate(repo, func(m *identity.Mutator) { m.Login = "alice1" }))
				hx.Must(i.Mutate(repo, func(m *identity.Mutator) { m.Login = "alice2" }))
				hx.Must(i.Commit(repo))
			}},
		{"pull-new-bug", func(dir string) {
			prepBase(dir, false)
			b := openB(dir)
			bg, _, err := bug.Create(author(b, "bob"), 1600000400, "from b", "message", nil, nil)
			hx.Must(err)
			hx.Must(bg.Commit(b))
			_, err = bug.Push(b, "origin")
			hx.Must(err)
			_ = b.Close()
		}, func(dir string, repo repository.ClockedRepo, raw *repository.GoGitRepo) {
			hx.Must(bug.Pull(repo, resolvers(repo), "origin", author(repo, "alice")))
		}},
		{"pull-fast-forward", func(dir string) { prepBase(dir, true); remoteEdit(dir, "the bug", 2, "bob") },
			func(dir string, repo repository.ClockedRepo, raw *repository.GoGitRepo) {
				hx.Must(bug.Pull(repo, resolvers(repo), "origin", author(repo, "alice")))
			}},
		{"pull-diverged-merge", func(dir string) {
			prepBase(dir, true)
			remoteEdit(dir, "the bug", 2, "bob")
			localEdit(dir, "the bug", "alice")
		}, func(dir string, repo repository.ClockedRepo, raw *repository.GoGitRepo) {
			hx.Must(bug.Pull(repo, resolvers(repo), "origin", author(repo, "alice")))
		}},
		{"pull-fast-forward-onto-foreign-merge", func(dir string) {
			// both sides edited; the other side merged and pushed: this side fast-forwards onto a merge commit it did not make,
			// whose edit time is above anything its own clock has seen
			prepBase(dir, true)
			localEdit(dir, "the bug", "alice")
			a := openA(dir)
			_, err := bug.Push(a, "origin")
			hx.Must(err)
			_ = a.Close()
			b := openB(dir)
			bg := bugByTitle(b, "the bug")
			for i := 0; i < 3; i++ {
				_, _, err := bug.AddComment(bg, author(b, "bob"), 1600000100+int64(i), fmt.Sprintf("remote %d", i), nil, nil)
				hx.Must(err)
				hx.Must(bg.Commit(b))
			}
			hx.Must(bug.Pull(b, resolvers(b), "origin", author(b, "bob")))
			_, err = bug.Push(b, "origin")
			hx.Must(err)
			_ = b.Close()
		}, func(dir string, repo repository.ClockedRepo, raw *repository.GoGitRepo) {
			hx.Must(bug.Pull(repo, resolvers(repo), "origin", author(repo, "alice")))
		}},
		{"merge-refused-foreign-root", func(dir string) {
			// the remote-tracking ref holds a history that is valid on its own but does not fit the local one: the same first
			// operation (hence the same id) stored again under another root commit, with an edit on top. The merge has to be
			// refused; the local bug must be what it was at every instant of the attempt.
			prepBase(dir, true)
			a := openA(dir)
			bg := theBug(a)
			id := bg.Id()
			commits, err := a.ListCommits("refs/bugs/" + id.String())
			hx.Must(err)
			rootCommit, err := a.ReadCommit(commits[0])
			hx.Must(err)
			// the root pack once more, committed by somebody else (same tree, other commit)
			g, err := gogit.PlainOpen(filepath.Join(dir, "A"))
			hx.Must(err)
			sig := object.Signature{Name: "mallory", Email: "m@example.org", When: time.Unix(1500000000, 0)}
			cm := object.Commit{Author: sig, Committer: sig, TreeHash: plumbing.NewHash(rootCommit.TreeHash.String())}
			obj := g.Storer.NewEncodedObject()
			obj.SetType(plumbing.CommitObject)
			hx.Must(cm.Encode(obj))
			h, err := g.Storer.SetEncodedObject(obj)
			hx.Must(err)
			hx.Must(a.UpdateRef("refs/bugs-scratch/x", repository.Hash(h.String())))
			_ = a.Close()
			// an edit on top of the foreign root, made with git-bug's own code in a scratch namespace-free way: read it as a
			// bug under a temporary ref, append, commit, and hand the result to the remote-tracking ref
			a = openA(dir)
			hx.Must(a.CopyRef("refs/bugs-scratch/x", "refs/remotes/origin/bugs/"+id.String()))
			hx.Must(a.RemoveRef("refs/bugs-scratch/x"))
			_ = a.Close()
			localEdit(dir, "the bug", "alice")
		}, func(dir string, repo repository.ClockedRepo, raw *repository.GoGitRepo) {
			for res := range bug.MergeAll(repo, resolvers(repo), "origin", author(repo, "alice")) {
				if res.Err != nil {
					hx.Must(res.Err)
				}
			}
		}},
		{"pull-several-entities", func(dir string) {
			// one pull that creates a bug, fast-forwards one, merges one, and brings a new identity and a new version of another
			prepBaseN(dir, []string{"alice", "bob"}, []string{"the bug", "second bug", "third bug"})
			b := openB(dir)
			dave := mkIdentity(b, "dave")
			bob := author(b, "bob").(*identity.Identity)
			hx.Must(bob.Mutate(b, func(m *identity.Mutator) { m.Login = "bobby" }))
			hx.Must(bob.Commit(b))
			bg, _, err := bug.Create(dave, 1600000400, "from dave", "message", nil, nil)
			hx.Must(err)
			hx.Must(bg.Commit(b))
			_, err = identity.Push(b, "origin")
			hx.Must(err)
			_ = b.Close()
			remoteEdit(dir, "the bug", 2, "bob")
			remoteEdit(dir, "second bug", 1, "dave")
			localEdit(dir, "second bug", "alice")
			localEdit(dir, "third bug", "alice")
		}, func(dir string, repo repository.ClockedRepo, raw *repository.GoGitRepo) { pullAll(repo) }},
		{"pull-identity-versions-ahead", func(dir string) {
			// identities the replica knows come back several versions ahead (one of them along with a new bug of its owner): each
			// identity goes from its old chain to the whole new one in one step
			prepBaseN(dir, []string{"alice", "bob", "carol"}, []string{"the bug"})
			b := openB(dir)
			bob := author(b, "bob").(*identity.Identity)
			for k := 0; k < 3; k++ {
				kk := k
				hx.Must(bob.Mutate(b, func(m *identity.Mutator) { m.Login = fmt.Sprintf("bob-%d", kk) }))
				hx.Must(bob.Commit(b))
			}
			carol := author(b, "carol").(*identity.Identity)
			for k := 0; k < 2; k++ {
				kk := k
				hx.Must(carol.Mutate(b, func(m *identity.Mutator) { m.Name = fmt.Sprintf("carol the %d.", kk+2) }))
				hx.Must(carol.Commit(b))
			}
			bg, _, err := bug.Create(carol, 1600000500, "from carol", "message", nil, nil)
			hx.Must(err)
			hx.Must(bg.Commit(b))
			_, err = identity.Push(b, "origin")
			hx.Must(err)
			_, err = bug.Push(b, "origin")
			hx.Must(err)
			_ = b.Close()
		}, func(dir string, repo repository.ClockedRepo, raw *repository.GoGitRepo) { pullAll(repo) }},
		{"remove-bug", func(dir string) { prepBaseN(dir, []string{"alice", "bob"}, []string{"the bug", "second bug"}) },
			func(dir string, repo repository.ClockedRepo, raw *repository.GoGitRepo) {
				// the id is asked from replica B: a repeated call still finds it
				pre := openB(dir)
				id := theBug(pre).Id()
				_ = pre.Close()
				hx.Must(bug.Remove(repo, id))
			}},
		{"remove-identity", func(dir string) { prepBaseN(dir, []string{"alice", "bob", "carol"}, nil) },
			func(dir string, repo repository.ClockedRepo, raw *repository.GoGitRepo) {
				pre := openB(dir)
				id := author(pre, "carol").Id()
				_ = pre.Close()
				if err := identity.Remove(repo, id); err != nil && !entity.IsErrNotFound(err) {
					hx.Must(err)
				}
			}},
		{"read-only", func(dir string) { prepBase(dir, true) },
			func(dir string, repo repository.ClockedRepo, raw *repository.GoGitRepo) {
				_ = theBug(repo) // reading witnesses the clocks: clock files are rewritten
			}},
	}
}

// ---- generated scenarios: "gen:<kind>:<seed>", everything derived from the seed so that a child process rebuilds the
// same call from the name

type rng struct{ s uint64 }

func newRng(seed uint64) *rng { return &rng{s: seed*2685821657736338717 + 1442695040888963407} }
func (r *rng) n(k int) int {
	r.s ^= r.s << 13
	r.s ^= r.s >> 7
	r.s ^= r.s << 17
	return int((r.s >> 3) % uint64(k))
}

var genAuthors = []string{"alice", "bob", "carol"}
var genTitles = []string{"the bug", "second bug", "third bug"}

func randomOp(r *rng, bg *bug.Bug, a identity.Interface, unix int64, k int) {
	var err error
	switch r.n(5) {
	case 0, 1:
		_, _, err = bug.AddComment(bg, a, unix, fmt.Sprintf("generated comment %d", k), nil, nil)
	case 2:
		_, err = bug.SetTitle(bg, a, unix, fmt.Sprintf("generated title %d", k), nil)
	case 3:
		_, err = bug.ForceChangeLabels(bg, a, unix, []string{fmt.Sprintf("l%d", k)}, nil, nil)
	default:
		_, _, err = bug.AddComment(bg, a, unix, fmt.Sprintf("generated note %d", k), nil, map[string]string{"k": fmt.Sprint(k)})
	}
	hx.Must(err)
}

func genScenario(name string) scenario {
	parts := strings.Split(name, ":")
	if len(parts) != 3 {
		hx.Die("bad generated scenario %s", name)
	}
	seed, err := strconv.ParseUint(parts[2], 10, 64)
	hx.Must(err)
	switch parts[1] {
	case "commit":
		return scenario{name, func(dir string) { prepBaseN(dir, genAuthors, genTitles[:2]) },
			func(dir string, repo repository.ClockedRepo, raw *repository.GoGitRepo) {
				r := newRng(seed)
				var bg *bug.Bug
				if r.n(2) == 0 {
					var err error
					bg, _, err = bug.Create(author(repo, genAuthors[r.n(3)]), 1600000200, "fresh bug", "message", nil, nil)
					hx.Must(err)
				} else {
					bg = bugByTitle(repo, genTitles[r.n(2)])
				}
				m := 1 + r.n(6)
				for k := 0; k < m; k++ {
					randomOp(r, bg, author(repo, genAuthors[r.n(3)]), 1600000201+int64(k), k)
				}
				hx.Must(bg.Commit(repo))
			}}
	case "identity":
		return scenario{name, func(dir string) { prepBaseN(dir, genAuthors, nil) },
			func(dir string, repo repository.ClockedRepo, raw *repository.GoGitRepo) {
				r := newRng(seed)
				var i *identity.Identity
				muts := r.n(3)
				if r.n(2) == 0 {
					var err error
					i, err = identity.NewIdentity(repo, "dave", "dave@example.org")
					hx.Must(err)
				} else {
					i = author(repo, genAuthors[r.n(3)]).(*identity.Identity)
					muts++
				}
				for k := 0; k < muts; k++ {
					kk := k
					hx.Must(i.Mutate(repo, func(m *identity.Mutator) {
						m.Login = fmt.Sprintf("login%d", kk)
						if kk%2 == 1 {
							m.AvatarUrl = fmt.Sprintf("https://example.org/%d.png", kk)
						}
					}))
				}
				hx.Must(i.Commit(repo))
			}}
	case "pull":
		return scenario{name, func(dir string) {
			prepBaseN(dir, genAuthors, genTitles)
			r := newRng(seed)
			b := openB(dir)
			withDave := r.n(2) == 0
			if withDave {
				mkIdentity(b, "dave")
			}
			for k := 0; k < r.n(3); k++ {
				who := author(b, genAuthors[r.n(3)]).(*identity.Identity)
				kk := k
				hx.Must(who.Mutate(b, func(m *identity.Mutator) { m.Login = fmt.Sprintf("remote-login-%d", kk) }))
				hx.Must(who.Commit(b))
			}
			for k := 0; k < r.n(3); k++ {
				who := genAuthors[r.n(3)]
				if withDave && r.n(2) == 0 {
					who = "dave"
				}
				bg, _, err := bug.Create(author(b, who), 1600000400+int64(k), fmt.Sprintf("remote new %d", k), "message", nil, nil)
				hx.Must(err)
				for j := 0; j < r.n(3); j++ {
					randomOp(r, bg, author(b, genAuthors[r.n(3)]), 1600000410+int64(j), j)
				}
				hx.Must(bg.Commit(b))
			}
			_, err := identity.Push(b, "origin")
			hx.Must(err)
			_, err = bug.Push(b, "origin")
			hx.Must(err)
			_ = b.Close()
			for _, t := range genTitles {
				switch r.n(4) {
				case 0: // untouched
				case 1:
					remoteEdit(dir, t, 1+r.n(2), genAuthors[r.n(3)])
				case 2:
					remoteEdit(dir, t, 1+r.n(2), genAuthors[r.n(3)])
					localEdit(dir, t, genAuthors[r.n(3)])
				case 3:
					localEdit(dir, t, genAuthors[r.n(3)])
				}
			}
		}, func(dir string, repo repository.ClockedRepo, raw *repository.GoGitRepo) { pullAll(repo) }}
	}
	hx.Die("bad generated scenario %s", name)
	return scenario{}
}

func scenarioByName(n string) scenario {
	if strings.HasPrefix(n, "gen:") {
		return genScenario(n)
	}
	for _, s := range scenarios() {
		if s.name == n {
			return s
		}
	}
	hx.Die("unknown scenario %s", n)
	return scenario{}
}

// Child: vh crash-child <dir> <scenario> <target> [<tear>]
func Child(args []string) {
	dir, sc := args[0], scenarioByName(args[1])
	target, _ := strconv.Atoi(args[2])
	inj.target = target
	if len(args) > 3 {
		inj.tear, _ = strconv.Atoi(args[3])
	}
	if len(args) > 4 {
		inj.errAt, _ = strconv.Atoi(args[4])
		inj.errMode = inj.errAt != 0
		// a pull that reports an error returns while the goroutine behind its result channel may still be at work: let it
		// come to rest (it blocks at its next result) before the process ends, so that what is logged as done is done
		hx.BeforeExit = inj.waitQuiet
	}
	var err error
	inj.trail, err = os.OpenFile(filepath.Join(dir, "trail.log"), os.O_CREATE|os.O_TRUNC|os.O_WRONLY, 0o644)
	hx.Must(err)
	repository.VerifWrapLocalStorage = func(fs billy.Filesystem) billy.Filesystem { return faultFS{fs} }
	raw, err := repository.OpenGoGitRepo(filepath.Join(dir, "A"), "git-bug", nil)
	hx.Must(err)
	sc.run(dir, faultRepo{raw}, raw)
	_ = raw.Close()
	wl := map[string]int{}
	for k, v := range inj.wlen {
		wl[strconv.Itoa(k)] = v
	}
	b, _ := json.Marshal(map[string]interface{}{"mutations": inj.log, "wlen": wl, "calls": inj.kinds, "fired": inj.fired})
	fmt.Println(string(b))
}

// ---------------------------------------------------------------------------------------------------- parent

type Mut struct {
	Kind string `json:"kind"`
	Ent  string `json:"ent"`
}

type Record struct {
	Scenario  string            `json:"scenario"`
	K         int               `json:"k"`         // crash point: mutations 1..k-1 done, mutation k interrupted (k = n+1: nothing interrupted)
	Tear      int               `json:"tear"`      // bytes of the interrupted write that reached the disk (-1: half)
	N         int               `json:"n"`         // number of mutations of the uninterrupted call
	Mutations []Mut             `json:"mutations"` // kind and, for ref mutations, the entity
	OpenErr   string            `json:"openerr"`
	ReadErr   string            `json:"readerr"`
	Outcome   map[string]string `json:"outcome"` // entity -> unchanged | pre | post | other
	State     string            `json:"state"`
	ClockOK   bool              `json:"clockok"`
	ClockWhy  string            `json:"clockwhy"`
	Redo      string            `json:"redo"` // post | other | "" (not needed)
	RedoErr   string            `json:"redoerr"`
	Redo2     string            `json:"redo2"` // "" (not tried) | ok | other: the repeated call was itself interrupted, then repeated
	Redo2Err  string            `json:"redo2err"`
}

type sig struct {
	states   map[string]string // entity label -> structural state
	ids      map[string]string // entity id -> label
	openErr  string
	readErr  string
	clockOK  bool
	clockWhy string
}

func (s sig) String() string {
	var parts []string
	for l, st := range s.states {
		parts = append(parts, l+"="+st)
	}
	sort.Strings(parts)
	return strings.Join(parts, ";")
}

func opText(op dag.Operation) string {
	switch o := op.(type) {
	case *bug.CreateOperation:
		return o.Title + "/" + o.Message
	case *bug.AddCommentOperation:
		return o.Message
	case *bug.SetTitleOperation:
		return o.Title
	case *bug.SetStatusOperation:
		return o.Status.String()
	case *bug.LabelChangeOperation:
		return fmt.Sprint(o.Added, o.Removed)
	}
	return fmt.Sprintf("%T", op)
}

// signature of a repository: every entity (labelled by what never changes: the title a bug was created with, the email
// of an identity) with the kinds, authors and texts of its operations / the fields of its last version and the number of
// commits under its ref (ids differ from run to run because of nonces, so states are compared structurally), plus
// clock sanity.
func signature(dir string) (s sig) {
	s.states, s.ids = map[string]string{}, map[string]string{}
	repo, err := repository.OpenGoGitRepo(filepath.Join(dir, "A"), "git-bug", []repository.ClockLoader{bug.ClockLoader})
	if err != nil {
		s.openErr, s.clockWhy = err.Error(), "repository does not open"
		return
	}
	defer repo.Close()
	// the clocks as the repository opens them, before anything is read (reading an entity witnesses its times: looked at
	// afterwards, a clock that came back too low would have been lifted again), against the times stored in every commit under a
	// local ref, read from the trees directly
	clock0 := map[string]int{}
	if all, err := repo.AllClocks(); err == nil {
		for name, c := range all {
			clock0[name] = int(c.Time())
		}
	}
	stored := map[string]int{}
	if refs, err := repo.ListRefs("refs/bugs/"); err == nil {
		for _, ref := range refs {
			commits, err := repo.ListCommits(ref)
			if err != nil {
				continue
			}
			for _, h := range commits {
				c, err := repo.ReadCommit(h)
				if err != nil {
					continue
				}
				entries, err := repo.ReadTree(c.TreeHash)
				if err != nil {
					continue
				}
				for _, e := range entries {
					for prefix, clock := range map[string]string{"edit-clock-": "bugs-edit", "create-clock-": "bugs-create"} {
						if strings.HasPrefix(e.Name, prefix) {
							if n, err := strconv.Atoi(strings.TrimPrefix(e.Name, prefix)); err == nil && n > stored[clock] {
								stored[clock] = n
							}
						}
					}
				}
			}
		}
	}
	maxEdit, maxCreate := 0, 0
	ncommits := func(ref string) int {
		cs, err := repo.ListCommits(ref)
		if err != nil {
			return -1
		}
		return len(cs)
	}
	func() {
		defer func() {
			if p := recover(); p != nil {
				s.readErr = fmt.Sprintf("panic: %v", p)
			}
		}()
		for st := range bug.ReadAll(repo) {
			if st.Err != nil {
				s.readErr = "bug: " + st.Err.Error()
				return
			}
			var ops []string
			for _, op := range st.Entity.Operations() {
				ops = append(ops, fmt.Sprintf("%d:%s:%s", op.Type(), op.Author().Email(), opText(op)))
			}
			if err := st.Entity.Validate(); err != nil {
				s.readErr = "bug invalid: " + err.Error()
			}
			if int(st.Entity.EditLamportTime()) > maxEdit {
				maxEdit = int(st.Entity.EditLamportTime())
			}
			if int(st.Entity.CreateLamportTime()) > maxCreate {
				maxCreate = int(st.Entity.CreateLamportTime())
			}
			label := "bug:" + titleOf(st.Entity)
			if _, dup := s.states[label]; dup {
				label += "#" + st.Entity.Id().String() // two entities created by one repeated call: never equal to pre or post
			}
			s.states[label] = fmt.Sprintf("commits=%d[%s]", ncommits("refs/bugs/"+st.Entity.Id().String()), strings.Join(ops, ","))
			s.ids[st.Entity.Id().String()] = label
		}
		for st := range identity.ReadAllLocal(repo) {
			if st.Err != nil {
				s.readErr = "identity: " + st.Err.Error()
				return
			}
			if err := st.Entity.Validate(); err != nil {
				s.readErr = "identity invalid: " + err.Error()
			}
			label := "identity:" + st.Entity.Email()
			if _, dup := s.states[label]; dup {
				label += "#" + st.Entity.Id().String()
			}
			s.states[label] = fmt.Sprintf("versions=%d[%s/%s/%s/keys=%d]", ncommits("refs/identities/"+st.Entity.Id().String()),
				st.Entity.Name(), st.Entity.Login(), st.Entity.AvatarUrl(), len(st.Entity.Keys()))
			s.ids[st.Entity.Id().String()] = label
		}
	}()
	// the clocks must be usable and not behind anything stored under a local ref
	s.clockOK = true
	check := func(name string, floor int) {
		c, err := repo.GetOrCreateClock(name)
		if err != nil {
			s.clockOK, s.clockWhy = false, name+": "+err.Error()
			return
		}
		if int(c.Time()) < floor {
			s.clockOK, s.clockWhy = false, fmt.Sprintf("%s = %d is lower than a stored time %d", name, c.Time(), floor)
		}
		if _, err := repo.Increment(name); err != nil {
			s.clockOK, s.clockWhy = false, name+" cannot be incremented: "+err.Error()
		}
	}
	for name, floor := range stored {
		if clock0[name] < floor {
			s.clockOK, s.clockWhy = false, fmt.Sprintf("the repository opens with %s = %d, lower than a time stored under a local ref (%d)", name, clock0[name], floor)
		}
	}
	check("bugs-edit", maxEdit)
	check("bugs-create", maxCreate)
	if all, err := repo.AllClocks(); err != nil {
		s.clockOK, s.clockWhy = false, "AllClocks: "+err.Error()
	} else {
		for name := range all {
			check(name, 0)
		}
	}
	_ = lamport.Time(0)
	return
}

func copyDir(src, dst string) {
	out, err := exec.Command("cp", "-a", src, dst).CombinedOutput()
	if err != nil {
		hx.Die("cp: %v %s", err, out)
	}
}

type childResult struct {
	Mutations []string       `json:"mutations"`
	Wlen      map[string]int `json:"wlen"`
}

func child(dir, sc string, target, tear int) (res childResult, exit int, out string) {
	cmd := exec.Command(os.Args[0], "crash-child", dir, sc, strconv.Itoa(target), strconv.Itoa(tear))
	b, err := cmd.CombinedOutput()
	out = string(b)
	if err != nil {
		if ee, ok := err.(*exec.ExitError); ok {
			return res, ee.ExitCode(), out
		}
		hx.Die("child: %v", err)
	}
	lines := strings.Split(strings.TrimSpace(out), "\n")
	hx.Must(json.Unmarshal([]byte(lines[len(lines)-1]), &res))
	return res, 0, out
}

func trail(dir string) []string {
	b, err := os.ReadFile(filepath.Join(dir, "trail.log"))
	if err != nil {
		return nil
	}
	t := strings.TrimSpace(string(b))
	if t == "" {
		return nil
	}
	return strings.Split(t, "\n")
}

func kindOf(entry string) string { return strings.SplitN(entry, " ", 2)[0] }

// Run: vh crash <out> [<generated scenarios per kind> [<scenario> <k> <tear>]]
func Run(args []string) {
	out := hx.NewWriter(args[0])
	defer out.Close()
	ngen := 0
	if len(args) > 1 {
		fmt.Sscan(args[1], &ngen)
	}
	thorough := os.Getenv("VERIF_TIER") == "thorough"
	type job struct {
		sc    scenario
		base  string
		muts  []Mut
		kinds []string
		pre   sig
		post  sig
		k     int
		tear  int
	}
	var jobs []job
	root := hx.Scratch("crash")
	defer os.RemoveAll(root)
	scs := scenarios()
	seed := uint64(hx.Seed())
	for i := 0; i < ngen; i++ {
		for _, kind := range []string{"commit", "identity", "pull"} {
			scs = append(scs, genScenario(fmt.Sprintf("gen:%s:%d", kind, seed*1000+uint64(i))))
		}
	}
	// vh crash <out> 0 <scenario> <k> <tear>: one crash point (replay)
	onlyK, onlyTear := 0, -1
	if len(args) > 4 {
		scs = []scenario{scenarioByName(args[2])}
		fmt.Sscan(args[3], &onlyK)
		fmt.Sscan(args[4], &onlyTear)
	}
	var mu sync.Mutex
	hx.Parallel(len(scs), 0, func(si int) {
		sc := scs[si]
		fsname := strings.ReplaceAll(sc.name, ":", "_")
		base := filepath.Join(root, fsname+"-base")
		hx.Must(os.MkdirAll(base, 0o755))
		sc.prepare(base)
		// inspection touches the clocks (it increments them): always inspect a copy
		tmp := filepath.Join(root, fsname+"-tmp")
		copyDir(base, tmp)
		pre := signature(tmp)
		os.RemoveAll(tmp)
		if pre.openErr != "" || pre.readErr != "" {
			hx.Die("scenario %s: the state before the call is not readable: %s %s", sc.name, pre.openErr, pre.readErr)
		}
		ref := filepath.Join(root, fsname+"-ref")
		copyDir(base, ref)
		res, code, o := child(ref, sc.name, 0, -1)
		if code != 0 {
			hx.Die("scenario %s: the uninterrupted call failed: %s", sc.name, o)
		}
		post := signature(ref)
		os.RemoveAll(ref)
		if post.openErr != "" || post.readErr != "" {
			hx.Die("scenario %s: the state after the call is not readable: %s %s", sc.name, post.openErr, post.readErr)
		}
		// entity of every ref mutation: the id is the last component of the ref name
		var muts []Mut
		for _, e := range res.Mutations {
			f := strings.SplitN(e, " ", 2)
			m := Mut{Kind: f[0]}
			if len(f) == 2 {
				id := f[1][strings.LastIndex(f[1], "/")+1:]
				m.Ent = post.ids[id]
				if m.Ent == "" {
					m.Ent = pre.ids[id]
				}
				if m.Ent == "" {
					hx.Die("scenario %s: ref %s belongs to no entity seen before or after the call", sc.name, f[1])
				}
			}
			muts = append(muts, m)
		}
		var js []job
		for k := 1; k <= len(muts)+1; k++ {
			tears := []int{-1}
			if thorough && k <= len(muts) && muts[k-1].Kind == "fs-write" {
				tears = nil
				for t := 0; t < res.Wlen[strconv.Itoa(k)]; t++ {
					tears = append(tears, t)
				}
			}
			for _, t := range tears {
				if onlyK != 0 && (k != onlyK || (onlyTear >= 0 && t != onlyTear)) {
					continue
				}
				js = append(js, job{sc, base, muts, res.Mutations, pre, post, k, t})
			}
		}
		mu.Lock()
		jobs = append(jobs, js...)
		mu.Unlock()
	})
	sort.SliceStable(jobs, func(i, j int) bool {
		if jobs[i].sc.name != jobs[j].sc.name {
			return jobs[i].sc.name < jobs[j].sc.name
		}
		return jobs[i].k < jobs[j].k
	})
	classify := func(j job, s sig) map[string]string {
		oc := map[string]string{}
		labels := map[string]bool{}
		for l := range j.pre.states {
			labels[l] = true
		}
		for l := range j.post.states {
			labels[l] = true
		}
		for l := range s.states {
			labels[l] = true
		}
		for l := range labels {
			st, pre, post := s.states[l], j.pre.states[l], j.post.states[l]
			switch {
			case st == pre && st == post:
				oc[l] = "unchanged"
			case st == post:
				oc[l] = "post"
			case st == pre:
				oc[l] = "pre"
			default:
				oc[l] = "other"
			}
		}
		return oc
	}
	same := func(a, b sig) bool { return a.String() == b.String() }
	hx.Parallel(len(jobs), 0, func(i int) {
		j := jobs[i]
		dir := filepath.Join(root, fmt.Sprintf("%s-k%d-t%d", strings.ReplaceAll(j.sc.name, ":", "_"), j.k, j.tear))
		copyDir(j.base, dir)
		defer os.RemoveAll(dir)
		rec := Record{Scenario: j.sc.name, K: j.k, Tear: j.tear, N: len(j.muts), Mutations: append([]Mut{}, j.muts...)}
		if j.k <= len(j.muts) {
			_, code, o := child(dir, j.sc.name, j.k, j.tear)
			if code != 77 {
				hx.Die("scenario %s crash point %d: child exited %d instead of dying at the crash point: %s", j.sc.name, j.k, code, o)
			}
			// the dying child must have walked the path of the reference run (same kinds in the same order)
			tr := trail(dir)
			if len(tr) != j.k {
				hx.Die("scenario %s crash point %d: the child logged %d mutations", j.sc.name, j.k, len(tr))
			}
			for x, e := range tr {
				if kindOf(e) != kindOf(j.kinds[x]) {
					hx.Die("scenario %s crash point %d: mutation %d is %s in the child and %s in the reference run (the call is not deterministic)",
						j.sc.name, j.k, x+1, kindOf(e), kindOf(j.kinds[x]))
				}
			}
		} else {
			if _, code, o := child(dir, j.sc.name, 0, -1); code != 0 {
				hx.Die("scenario %s: uninterrupted run failed: %s", j.sc.name, o)
			}
		}
		// the state is inspected on a copy (inspection itself touches the clocks); the redo runs on the crashed directory
		insp := dir + "-inspect"
		copyDir(dir, insp)
		s := signature(insp)
		os.RemoveAll(insp)
		rec.OpenErr, rec.ReadErr, rec.ClockOK, rec.ClockWhy, rec.State = s.openErr, s.readErr, s.clockOK, s.clockWhy, s.String()
		rec.Outcome = classify(j, s)
		needRedo := false
		for _, v := range rec.Outcome {
			if v == "pre" {
				needRedo = true
			}
		}
		if needRedo && s.openErr == "" && s.readErr == "" {
			if thorough {
				// the repeated call is itself interrupted (at a point derived from the job), then repeated
				k2 := 1 + (j.k*7+3)%len(j.muts)
				d2 := dir + "-again"
				copyDir(dir, d2)
				_, code, o := child(d2, j.sc.name, k2, -1)
				if code != 77 && code != 0 {
					rec.Redo2, rec.Redo2Err = "other", fmt.Sprintf("the repeated call (to be interrupted at %d) failed: %s", k2, lastLine(o))
				} else {
					i2 := d2 + "-inspect"
					copyDir(d2, i2)
					s2 := signature(i2)
					os.RemoveAll(i2)
					rec.Redo2 = "ok"
					for l, v := range classify(j, s2) {
						if v == "other" {
							rec.Redo2, rec.Redo2Err = "other", fmt.Sprintf("after a second crash (at %d) entity %s is neither old nor new: %s", k2, l, s2.states[l])
						}
					}
					if s2.openErr != "" || s2.readErr != "" || !s2.clockOK {
						rec.Redo2, rec.Redo2Err = "other", fmt.Sprintf("after a second crash (at %d): %s %s %s", k2, s2.openErr, s2.readErr, s2.clockWhy)
					}
					if rec.Redo2 == "ok" {
						// complete what is still missing (nothing, when the second run got through before its crash point)
						still := false
						for _, v := range classify(j, s2) {
							if v == "pre" {
								still = true
							}
						}
						if still {
							if _, code, o := child(d2, j.sc.name, 0, -1); code != 0 {
								rec.Redo2, rec.Redo2Err = "other", "repeating the call after two crashes failed: "+lastLine(o)
							}
						}
						if rec.Redo2 == "ok" {
							if s3 := signature(d2); !same(s3, j.post) {
								rec.Redo2, rec.Redo2Err = "other", "state after two crashes and a complete call: "+s3.String()
							}
						}
					}
				}
				os.RemoveAll(d2)
			}
			_, code, o := child(dir, j.sc.name, 0, -1)
			if code != 0 {
				rec.Redo, rec.RedoErr = "other", "repeating the call failed: "+lastLine(o)
			} else {
				s2 := signature(dir)
				if s2.openErr == "" && s2.readErr == "" && same(s2, j.post) {
					rec.Redo = "post"
				} else {
					rec.Redo, rec.RedoErr = "other", s2.openErr+s2.readErr+" state: "+s2.String()
				}
			}
		}
		out.Put(rec)
	})
}

func lastLine(s string) string {
	l := strings.Split(strings.TrimSpace(s), "\n")
	return l[len(l)-1]
}
