package crashx

// Error injection (C02: a pull whose repository calls fail never loses operations nor breaks an entity): the same scenarios and
// the same fault layer as the crash enumeration, but instead of dying at a mutation, the c-th call of any kind that the call
// under test makes on the repository (reads and clock operations too) or on a clock file returns an error and does nothing.
// The call under test may report the error or carry on; afterwards every entity whose ref it moved is in the state the
// complete call gives it, every other entity is as before, everything is readable, and repeating the call completes it.

import (
	"encoding/json"
	"errors"
	"fmt"
	"os"
	"os/exec"
	"path/filepath"
	"sort"
	"strconv"
	"strings"
	"time"

	"github.com/MichaelMure/git-bug/repository"
	"github.com/MichaelMure/git-bug/util/lamport"

	"verif/harness/hx"
)

var errInjected = errors.New("injected failure of a repository call")

// failing counts a call in error mode; true when this one has to fail.
func (i *injector) failing(kind string) bool {
	if !i.errMode {
		return false
	}
	i.mu.Lock()
	defer i.mu.Unlock()
	i.calls++
	i.last = time.Now()
	i.kinds = append(i.kinds, strings.SplitN(kind, " ", 2)[0])
	if i.calls == i.errAt {
		i.fired = kind
		if i.trail != nil {
			fmt.Fprintln(i.trail, "ERR "+kind)
		}
		return true
	}
	return false
}

// after logs, in error mode, a mutation that took effect.
func (i *injector) after(kind string, err error) {
	if !i.errMode {
		return
	}
	i.mu.Lock()
	defer i.mu.Unlock()
	i.last = time.Now()
	if err == nil && i.trail != nil {
		fmt.Fprintln(i.trail, kind)
	}
}

// waitQuiet returns once no repository call has started or ended for a while.
func (i *injector) waitQuiet() {
	for {
		i.mu.Lock()
		idle := time.Since(i.last)
		i.mu.Unlock()
		if idle > 250*time.Millisecond {
			return
		}
		time.Sleep(50 * time.Millisecond)
	}
}

func (f faultRepo) FetchRefs(remote string, prefixes ...string) (string, error) {
	if inj.failing("fetch") {
		return "", errInjected
	}
	return f.ClockedRepo.FetchRefs(remote, prefixes...)
}
func (f faultRepo) ReadData(h repository.Hash) ([]byte, error) {
	if inj.failing("read-blob") {
		return nil, errInjected
	}
	return f.ClockedRepo.ReadData(h)
}
func (f faultRepo) ReadTree(h repository.Hash) ([]repository.TreeEntry, error) {
	if inj.failing("read-tree") {
		return nil, errInjected
	}
	return f.ClockedRepo.ReadTree(h)
}
func (f faultRepo) ReadCommit(h repository.Hash) (repository.Commit, error) {
	if inj.failing("read-commit") {
		return repository.Commit{}, errInjected
	}
	return f.ClockedRepo.ReadCommit(h)
}
func (f faultRepo) ResolveRef(ref string) (repository.Hash, error) {
	if inj.failing("resolve-ref") {
		return "", errInjected
	}
	return f.ClockedRepo.ResolveRef(ref)
}
func (f faultRepo) ListRefs(prefix string) ([]string, error) {
	if inj.failing("list-refs") {
		return nil, errInjected
	}
	return f.ClockedRepo.ListRefs(prefix)
}
func (f faultRepo) RefExist(ref string) (bool, error) {
	if inj.failing("ref-exist") {
		return false, errInjected
	}
	return f.ClockedRepo.RefExist(ref)
}
func (f faultRepo) ListCommits(ref string) ([]repository.Hash, error) {
	if inj.failing("list-commits") {
		return nil, errInjected
	}
	return f.ClockedRepo.ListCommits(ref)
}
func (f faultRepo) GetOrCreateClock(name string) (lamport.Clock, error) {
	if inj.failing("clock-get") {
		return nil, errInjected
	}
	return f.ClockedRepo.GetOrCreateClock(name)
}
func (f faultRepo) Increment(name string) (lamport.Time, error) {
	if inj.failing("clock-increment") {
		return 0, errInjected
	}
	return f.ClockedRepo.Increment(name)
}
func (f faultRepo) Witness(name string, t lamport.Time) error {
	if inj.failing("clock-witness") {
		return errInjected
	}
	return f.ClockedRepo.Witness(name, t)
}

type ErrRecord struct {
	Ev        string            `json:"ev"` // "error"
	Scenario  string            `json:"scenario"`
	ErrAt     int               `json:"errat"`   // which call failed
	ErrKind   string            `json:"errkind"` // its kind
	NCalls    int               `json:"ncalls"`
	Reported  bool              `json:"reported"`  // the call under test reported an error (exit status of the child)
	Mutations []Mut             `json:"mutations"` // of the complete call
	Done      []Mut             `json:"done"`      // mutations the failing call made all the same
	OpenErr   string            `json:"openerr"`
	ReadErr   string            `json:"readerr"`
	Outcome   map[string]string `json:"outcome"`
	State     string            `json:"state"`
	ClockOK   bool              `json:"clockok"`
	ClockWhy  string            `json:"clockwhy"`
	Redo      string            `json:"redo"`
	RedoErr   string            `json:"redoerr"`
}

func childErr(dir, sc string, errAt int) (res struct {
	Mutations []string `json:"mutations"`
	Calls     []string `json:"calls"`
	Fired     string   `json:"fired"`
}, exit int, out string) {
	cmd := exec.Command(os.Args[0], "crash-child", dir, sc, "0", "-1", strconv.Itoa(errAt))
	b, err := cmd.CombinedOutput()
	out = string(b)
	if err != nil {
		if ee, ok := err.(*exec.ExitError); ok {
			return res, ee.ExitCode(), out
		}
		hx.Die("child: %v", err)
	}
	lines := strings.Split(strings.TrimSpace(out), "\n")
	hx.Must(json.Unmarshal([]byte(lines[len(lines)-1]), &res))
	return res, 0, out
}

// RunErrors: vh crash-errors <out> <generated pulls> [<scenario> <errat>]
func RunErrors(args []string) {
	out := hx.NewWriter(args[0])
	defer out.Close()
	ngen := 0
	if len(args) > 1 {
		fmt.Sscan(args[1], &ngen)
	}
	root := hx.Scratch("crasherr")
	defer os.RemoveAll(root)
	var scs []scenario
	for _, sc := range scenarios() {
		if strings.HasPrefix(sc.name, "pull-") || strings.HasPrefix(sc.name, "merge-") {
			scs = append(scs, sc)
		}
	}
	seed := uint64(hx.Seed())
	for i := 0; i < ngen; i++ {
		scs = append(scs, genScenario(fmt.Sprintf("gen:pull:%d", seed*1000+uint64(i))))
	}
	only := 0
	if len(args) > 3 {
		scs = []scenario{scenarioByName(args[2])}
		fmt.Sscan(args[3], &only)
	}
	type job struct {
		sc        scenario
		base      string
		muts      []Mut
		pre, post sig
		at, n     int
	}
	var jobs []job
	for _, sc := range scs {
		fsname := strings.ReplaceAll(sc.name, ":", "_")
		base := filepath.Join(root, fsname+"-base")
		hx.Must(os.MkdirAll(base, 0o755))
		sc.prepare(base)
		tmp := filepath.Join(root, fsname+"-tmp")
		copyDir(base, tmp)
		pre := signature(tmp)
		os.RemoveAll(tmp)
		ref := filepath.Join(root, fsname+"-ref")
		copyDir(base, ref)
		res, code, o := childErr(ref, sc.name, -1)
		if code != 0 {
			hx.Die("scenario %s: the call without failure failed: %s", sc.name, o)
		}
		post := signature(ref)
		os.RemoveAll(ref)
		if pre.openErr+pre.readErr+post.openErr+post.readErr != "" {
			hx.Die("scenario %s: state before / after the call not readable", sc.name)
		}
		muts := toMuts(sc.name, res.Mutations, pre, post)
		for c := 1; c <= len(res.Calls); c++ {
			if only != 0 && c != only {
				continue
			}
			jobs = append(jobs, job{sc, base, muts, pre, post, c, len(res.Calls)})
		}
	}
	classify := func(j job, s sig) map[string]string {
		oc := map[string]string{}
		labels := map[string]bool{}
		for _, m := range []map[string]string{j.pre.states, j.post.states, s.states} {
			for l := range m {
				labels[l] = true
			}
		}
		for l := range labels {
			st, pre, post := s.states[l], j.pre.states[l], j.post.states[l]
			switch {
			case st == pre && st == post:
				oc[l] = "unchanged"
			case st == post:
				oc[l] = "post"
			case st == pre:
				oc[l] = "pre"
			default:
				oc[l] = "other"
			}
		}
		return oc
	}
	recs := make([]*ErrRecord, len(jobs))
	hx.Parallel(len(jobs), 0, func(i int) {
		j := jobs[i]
		dir := filepath.Join(root, fmt.Sprintf("%s-e%d", strings.ReplaceAll(j.sc.name, ":", "_"), j.at))
		copyDir(j.base, dir)
		defer os.RemoveAll(dir)
		rec := &ErrRecord{Ev: "error", Scenario: j.sc.name, ErrAt: j.at, NCalls: j.n, Mutations: append([]Mut{}, j.muts...), Done: []Mut{}}
		_, code, o := childErr(dir, j.sc.name, j.at)
		if code == 77 {
			hx.Die("scenario %s: child died in error mode: %s", j.sc.name, o)
		}
		if code != 0 && (strings.Contains(o, "panic:") || strings.Contains(o, "fatal error:")) {
			// a panic of the code under test after a failed call is an outcome
			rec.ReadErr = "the process crashed after the failed call: " + lastLine(o)
		}
		rec.Reported = code != 0
		fired := ""
		var done []string
		for _, e := range trail(dir) {
			if strings.HasPrefix(e, "ERR ") {
				fired = strings.TrimPrefix(e, "ERR ")
			} else {
				done = append(done, e)
			}
		}
		if fired == "" {
			hx.Die("scenario %s: call %d of %d never happened (the call is not deterministic): %s", j.sc.name, j.at, j.n, o)
		}
		rec.ErrKind = strings.SplitN(fired, " ", 2)[0]
		insp := dir + "-inspect"
		copyDir(dir, insp)
		s := signature(insp)
		os.RemoveAll(insp)
		for _, m := range toMutsLoose(done, j.pre, j.post, s) {
			rec.Done = append(rec.Done, m)
		}
		if rec.ReadErr == "" {
			rec.ReadErr = s.readErr
		}
		rec.OpenErr, rec.ClockOK, rec.ClockWhy, rec.State = s.openErr, s.clockOK, s.clockWhy, s.String()
		rec.Outcome = classify(j, s)
		need := false
		for _, v := range rec.Outcome {
			if v == "pre" {
				need = true
			}
		}
		if need && s.openErr == "" && s.readErr == "" {
			if _, code, o := childErr(dir, j.sc.name, -1); code != 0 {
				rec.Redo, rec.RedoErr = "other", "repeating the call failed: "+lastLine(o)
			} else if s2 := signature(dir); s2.openErr == "" && s2.readErr == "" && s2.String() == j.post.String() {
				rec.Redo = "post"
			} else {
				rec.Redo, rec.RedoErr = "other", s2.openErr+s2.readErr+" state: "+s2.String()
			}
		}
		recs[i] = rec
	})
	sort.SliceStable(recs, func(a, b int) bool {
		if recs[a].Scenario != recs[b].Scenario {
			return recs[a].Scenario < recs[b].Scenario
		}
		return recs[a].ErrAt < recs[b].ErrAt
	})
	for _, r := range recs {
		out.Put(r)
	}
}

func toMuts(scName string, entries []string, pre, post sig) []Mut {
	var muts []Mut
	for _, e := range entries {
		f := strings.SplitN(e, " ", 2)
		m := Mut{Kind: f[0]}
		if len(f) == 2 {
			id := f[1][strings.LastIndex(f[1], "/")+1:]
			m.Ent = post.ids[id]
			if m.Ent == "" {
				m.Ent = pre.ids[id]
			}
			if m.Ent == "" {
				hx.Die("scenario %s: ref %s belongs to no entity seen before or after the call", scName, f[1])
			}
		}
		muts = append(muts, m)
	}
	return muts
}

// toMutsLoose: like toMuts for what a failing call did; a ref of an entity seen nowhere is reported under its id.
func toMutsLoose(entries []string, sigs ...sig) []Mut {
	var muts []Mut
	for _, e := range entries {
		f := strings.SplitN(e, " ", 2)
		m := Mut{Kind: f[0]}
		if len(f) == 2 {
			id := f[1][strings.LastIndex(f[1], "/")+1:]
			for _, s := range sigs {
				if m.Ent == "" {
					m.Ent = s.ids[id]
				}
			}
			if m.Ent == "" {
				m.Ent = "unknown:" + id
			}
		}
		muts = append(muts, m)
	}
	return muts
}
