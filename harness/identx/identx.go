// Package identx runs schedules of spec/Ident.tla on real repositories (replicas sharing a bare hub) and records
// the projected version chains after every step (C09, and C02 for identities).
package identx

import (
	"encoding/json"
	"fmt"
	"os"
	"path/filepath"
	"sort"
	"strings"

	"github.com/MichaelMure/git-bug/entities/identity"
	"github.com/MichaelMure/git-bug/entity"
	"github.com/MichaelMure/git-bug/repository"
	"github.com/MichaelMure/git-bug/util/lamport"

	"verif/harness/hx"
)

const NIdent = 3

type Step struct {
	Act string `json:"act"`
	R   string `json:"r"`
	I   int    `json:"i"`
}
type Schedule struct {
	Replicas []string `json:"replicas"`
	Steps    []Step   `json:"steps"`
	Quiesce  bool     `json:"quiesce"`
}
type Event struct {
	Ev       string  `json:"ev"`
	R        string  `json:"r"`
	I        int     `json:"i"`
	Chain    [][]int `json:"chain"`
	Trk      [][]int `json:"trk"`
	Hub      [][]int `json:"hub"`
	Ok       bool    `json:"ok"`
	Status   string  `json:"status"`
	Returned []int   `json:"returned"`
	Err      string  `json:"err"`
	Final    bool    `json:"final"`
	K        int     `json:"k"`        // NewIdent: versions written by the first commit
	IdStable bool    `json:"idstable"` // the id handed out before the commit is the id afterwards and names the ref
}

type world struct {
	dir    string
	reps   map[string]*repository.GoGitRepo
	order  []string
	hub    *repository.GoGitRepo
	verNo  map[repository.Hash]int
	slot   map[entity.Id]int
	ids    []entity.Id
	events []*Event
	n      int
	sigNo  map[string]int
	held   map[string]*identity.Identity // replica/id -> the identity the last merge handed back there
}

// sigOf: what tells the versions of an identity apart in this harness (see the NewIdent and Mutate steps).
func sigOf(i *identity.Identity) string {
	md := i.MutableMetadata()
	keys := make([]string, 0, len(md))
	for k := range md {
		keys = append(keys, k+"="+md[k])
	}
	sort.Strings(keys)
	return i.Name() + "|" + strings.Join(keys, ",")
}

// noteSig remembers which version number the identity's current last version got (after the projection numbered it).
func (w *world) noteSig(repo repository.RepoData, i *identity.Identity) {
	h, err := repo.ResolveRef("refs/identities/" + i.Id().String())
	if err != nil {
		return
	}
	if w.sigNo == nil {
		w.sigNo = map[string]int{}
	}
	w.sigNo[sigOf(i)] = w.verNo[h]
}

func (w *world) chainOf(repo repository.RepoData, ref string) []int {
	hashes, err := repo.ListCommits(ref)
	if err != nil {
		hx.Die("list commits %s: %v", ref, err)
	}
	res := []int{}
	for _, h := range hashes {
		n, ok := w.verNo[h]
		if !ok {
			n = len(w.verNo) + 1
			w.verNo[h] = n
		}
		res = append(res, n)
	}
	return res
}

func (w *world) vector(repo repository.RepoData, prefix string) [][]int {
	v := make([][]int, NIdent)
	for i := range v {
		v[i] = []int{}
	}
	refs, err := repo.ListRefs(prefix)
	hx.Must(err)
	sort.Strings(refs)
	for _, ref := range refs {
		id := entity.RefToId(ref)
		s, ok := w.slot[id]
		if !ok {
			s = len(w.ids) + 1
			w.slot[id] = s
			w.ids = append(w.ids, id)
		}
		if s > NIdent {
			hx.Die("too many identities")
		}
		v[s-1] = w.chainOf(repo, ref)
	}
	return v
}

func (w *world) emit(ev *Event, r string) *Event {
	ev.R = r
	repo := w.reps[r]
	if ev.Chain == nil {
		ev.Chain = w.vector(repo, "refs/identities/")
		ev.Trk = w.vector(repo, "refs/remotes/origin/identities/")
		ev.Hub = w.vector(w.hub, "refs/identities/")
	}
	if ev.Returned == nil {
		ev.Returned = []int{}
	}
	w.events = append(w.events, ev)
	return ev
}

func statusName(s entity.MergeStatus) string {
	switch s {
	case entity.MergeStatusNew:
		return "new"
	case entity.MergeStatusInvalid:
		return "invalid"
	case entity.MergeStatusUpdated:
		return "updated"
	case entity.MergeStatusNothing:
		return "nothing"
	case entity.MergeStatusError:
		return "error"
	}
	return "?"
}

func (w *world) do(s Step) {
	repo := w.reps[s.R]
	switch s.Act {
	case "NewIdent":
		w.n++
		ev := &Event{Ev: "NewIdent", K: 1, IdStable: true}
		i, err := identity.NewIdentity(repo, fmt.Sprintf("user %d", w.n), "u@example.org")
		hx.Must(err)
		// three ways to the first commit: plainly; with metadata set before anybody asked for the id; with metadata set after the id
		// was handed out (the first version can no longer change: the metadata makes a second one, written by the same commit)
		var handedOut entity.Id
		switch w.n % 3 {
		case 1:
			handedOut = i.Id()
			i.SetMetadata("origin", fmt.Sprintf("session %d", w.n))
			ev.K = 2
		case 2:
			i.SetMetadata("origin", fmt.Sprintf("session %d", w.n))
			handedOut = i.Id()
		}
		if err := i.Commit(repo); err != nil {
			ev.Err = err.Error()
		}
		if handedOut != "" {
			ok, _ := repo.RefExist("refs/identities/" + handedOut.String())
			ev.IdStable = ok && i.Id() == handedOut
		}
		// number the slot and the version in creation order
		w.emit(ev, s.R)
		w.noteSig(repo, i)
	case "Mutate":
		w.n++
		ev := &Event{Ev: "Mutate", I: s.I, IdStable: true}
		// the identity is read anew, or it is the object a merge handed back earlier in this process (what a long-lived process -
		// the cache - goes on using)
		var i *identity.Identity
		var err error
		if held := w.held[s.R+"/"+w.ids[s.I-1].String()]; held != nil {
			i = held
			if i.NeedCommit() {
				ev.Err = "the identity a merge handed back claims to hold versions that are not committed"
			}
		} else {
			i, err = identity.ReadLocal(repo, w.ids[s.I-1])
		}
		if err != nil {
			ev.Err = "read: " + err.Error()
			w.emit(ev, s.R)
			return
		}
		before := i.Id()
		if w.n%2 == 0 {
			hx.Must(i.Mutate(repo, func(m *identity.Mutator) { m.Name = fmt.Sprintf("renamed %d", w.n) }))
		} else {
			i.SetMetadata(fmt.Sprintf("key%d", w.n), "value") // on a committed identity: one more version
		}
		if err := i.Commit(repo); err != nil {
			ev.Err = "commit: " + err.Error()
		}
		ok, _ := repo.RefExist("refs/identities/" + before.String())
		ev.IdStable = ok && i.Id() == before && before == w.ids[s.I-1]
		w.emit(ev, s.R)
		w.noteSig(repo, i)
	case "Push":
		ev := &Event{Ev: "Push"}
		_, err := identity.Push(repo, "origin")
		ev.Ok = err == nil
		if err != nil {
			ev.Err = err.Error()
		}
		w.emit(ev, s.R)
	case "Fetch":
		ev := &Event{Ev: "Fetch"}
		if _, err := identity.Fetch(repo, "origin"); err != nil {
			ev.Err = err.Error()
		}
		w.emit(ev, s.R)
	case "MergeAll":
		type one struct {
			id       entity.Id
			status   string
			returned []int
			err      string
		}
		var results []one
		w.emit(&Event{Ev: "MergeAllBegin"}, s.R)
		for res := range identity.MergeAll(repo, "origin") {
			o := one{id: res.Id, status: statusName(res.Status), err: res.Reason}
			if res.Err != nil {
				o.err = res.Err.Error()
			}
			if id, ok := res.Entity.(*identity.Identity); ok && id != nil {
				// every version changed the name or added a metadata key of its own: name and accumulated metadata tell which version
				// the returned identity ends with (0: none this session made)
				o.returned = []int{w.sigNo[sigOf(id)]}
				if w.held == nil {
					w.held = map[string]*identity.Identity{}
				}
				if res.Status == entity.MergeStatusNew || res.Status == entity.MergeStatusUpdated {
					w.held[s.R+"/"+res.Id.String()] = id
				}
			}
			results = append(results, o)
		}
		full := &Event{}
		w.emit(full, s.R)
		w.events = w.events[:len(w.events)-1]
		// what the merge handed back, projected after the fact: the returned identity's versions are its commits
		for k, o := range results {
			slot := w.slot[o.id]
			ev := &Event{Ev: "Merge", I: slot, Status: o.status, Err: o.err, Chain: full.Chain, Trk: full.Trk, Hub: full.Hub, Final: k == len(results)-1}
			ev.Returned = o.returned
			w.emit(ev, s.R)
		}
		w.emit(&Event{Ev: "MergeAllEnd", Chain: full.Chain, Trk: full.Trk, Hub: full.Hub}, s.R)
		// identities that were never reported although a tracking ref exists are visible to the trace
		// specification as missing Merge events only through the final state (chain vs model)
	default:
		hx.Die("unknown step %s", s.Act)
	}
}

func runSchedule(s Schedule) []*Event {
	w := &world{reps: map[string]*repository.GoGitRepo{}, verNo: map[repository.Hash]int{}, slot: map[entity.Id]int{}}
	w.dir = hx.Scratch("ident")
	defer os.RemoveAll(w.dir)
	w.hub = hx.InitBare(filepath.Join(w.dir, "hub"))
	if len(s.Replicas) == 0 {
		s.Replicas = []string{"A", "B"}
	}
	for _, n := range s.Replicas {
		r := hx.InitRepo(filepath.Join(w.dir, n))
		hx.Must(r.AddRemote("origin", filepath.Join(w.dir, "hub")))
		w.reps[n] = r
		w.order = append(w.order, n)
	}
	for _, st := range s.Steps {
		w.do(st)
	}
	if s.Quiesce {
		for round := 0; round < 4; round++ {
			for _, n := range w.order {
				w.do(Step{Act: "Fetch", R: n})
				w.do(Step{Act: "MergeAll", R: n})
				w.do(Step{Act: "Push", R: n})
			}
		}
	}
	for _, r := range w.reps {
		_ = r.Close()
	}
	_ = w.hub.Close()
	return w.events
}

func Worker(args []string) {
	hx.Serve(func(item json.RawMessage) interface{} {
		var s Schedule
		hx.Must(json.Unmarshal(item, &s))
		return runSchedule(s)
	})
}

// Run: vh ident <schedules> <trace>
func Run(args []string) {
	items := hx.ReadLines(args[0])
	out := hx.NewWriter(args[1])
	defer out.Close()
	res := hx.Isolated("ident-worker", items, 0)
	n, crashes := 0, 0
	for _, r := range res {
		out.Put(&Event{Ev: "Reset", Chain: [][]int{}, Trk: [][]int{}, Hub: [][]int{}, Returned: []int{}})
		var evs []*Event
		if err := json.Unmarshal(r, &evs); err != nil {
			var c map[string]string
			_ = json.Unmarshal(r, &c)
			out.Put(&Event{Ev: "Crash", Err: c["crash"], Chain: [][]int{}, Trk: [][]int{}, Hub: [][]int{}, Returned: []int{}})
			crashes++
			continue
		}
		for _, e := range evs {
			out.Put(e)
			n++
		}
	}
	fmt.Printf("{\"sessions\":%d,\"events\":%d,\"crashed_sessions\":%d}\n", len(items), n, crashes)
}

// ---------------------------------------------------------------------------------------------------------------
// field classes (spec/IdentFields.tla)

type FieldVec struct {
	V struct {
		Name   string `json:"name"`
		Login  string `json:"login"`
		Email  string `json:"email"`
		Avatar string `json:"avatar"`
		Nonce  string `json:"nonce"`
	} `json:"v"`
	Clocks string `json:"clocks"`
	Valid  bool   `json:"valid"`
}

func instance(class string, variant int) string {
	switch class {
	case "empty":
		return ""
	case "blank":
		return []string{"   ", "  ", " 　"}[variant%3]
	case "invisible":
		return []string{"\u200b", "\ufeff\u200e", "\u00ad\u200b "}[variant%3]
	case "ok":
		return []string{"alice", "Bob Smith", "x"}[variant%3]
	case "unicode":
		return []string{"René Descartes", "世界", "ß‮é"}[variant%3]
	case "control":
		return []string{"al\x00ice", "bob\x1b[31m", "\u0085x"}[variant%3]
	case "multiline":
		return []string{"alice\nbob", "a\r\nb", "x\n"}[variant%3]
	case "url":
		return []string{"https://example.org/a.png", "http://x/y", "/relative/path"}[variant%3]
	case "noturl":
		return []string{"not an url", "::", "avatar"}[variant%3]
	}
	return class
}

// forged writes an identity chain by hand: versions as JSON blobs, one commit each, offered through a tracking ref.
func forgedVersion(name, login, email, avatar string, nonce int, times map[string]int) []byte {
	m := map[string]interface{}{"version": 2, "times": times, "unix_time": 1600000000, "nonce": make([]byte, nonce)}
	if times == nil {
		delete(m, "times")
	}
	if name != "" {
		m["name"] = name
	}
	if login != "" {
		m["login"] = login
	}
	if email != "" {
		m["email"] = email
	}
	if avatar != "" {
		m["avatar_url"] = avatar
	}
	b, err := json.Marshal(m)
	hx.Must(err)
	return b
}

func storeChain(repo repository.ClockedRepo, blobs [][]byte) (repository.Hash, entity.Id) {
	var parent repository.Hash
	for _, b := range blobs {
		bh, err := repo.StoreData(b)
		hx.Must(err)
		th, err := repo.StoreTree([]repository.TreeEntry{{ObjectType: repository.Blob, Hash: bh, Name: "version"}})
		hx.Must(err)
		if parent == "" {
			parent, err = repo.StoreCommit(th)
		} else {
			parent, err = repo.StoreCommit(th, parent)
		}
		hx.Must(err)
	}
	return parent, entity.DeriveId(blobs[0])
}

func fieldOne(v FieldVec, variant int) string {
	nonce := map[string]int{"short": 5, "ok": 20, "long": 70}[v.V.Nonce]
	name, login, email, avatar := instance(v.V.Name, variant), instance(v.V.Login, variant), instance(v.V.Email, variant), instance(v.V.Avatar, variant)
	repo := repository.NewMockRepo()
	// (1) the editing API: such an identity cannot be created and committed (nonce is not under the caller's control)
	if v.Clocks == "none" && v.V.Nonce == "ok" {
		i, err := identity.NewIdentityFull(repo, name, email, login, avatar, nil)
		if err == nil {
			err = i.Commit(repo)
		}
		if v.Valid && err != nil {
			return "specification: valid; NewIdentityFull+Commit refused: " + err.Error()
		}
		if !v.Valid && err == nil {
			return "specification: invalid; NewIdentityFull+Commit accepted it"
		}
	}
	// (1b) the chain classes through the editing API: the identity is created on a replica whose clocks show the first version's
	// times, travels to a replica whose clocks show the second version's (lower, fewer, others: that replica has seen less), and is
	// changed and committed there: accepted iff the chain is valid, and a refused commit stores nothing
	if v.Clocks != "none" && variant == 0 {
		if why := commitOnReplicaBehind(v); why != "" {
			return why
		}
	}
	// (2) served by a remote: merged iff valid
	var blobs [][]byte
	switch v.Clocks {
	case "none":
		blobs = [][]byte{forgedVersion(name, login, email, avatar, nonce, map[string]int{"bugs-edit": 3})}
	case "grow":
		blobs = [][]byte{forgedVersion(name, login, email, avatar, nonce, map[string]int{"bugs-edit": 3}), forgedVersion(name+"2", login, email, avatar, nonce, map[string]int{"bugs-edit": 4, "bugs-create": 1})}
	case "same":
		blobs = [][]byte{forgedVersion(name, login, email, avatar, nonce, map[string]int{"bugs-edit": 3}), forgedVersion(name+"2", login, email, avatar, nonce, map[string]int{"bugs-edit": 3})}
	case "shrink":
		blobs = [][]byte{forgedVersion(name, login, email, avatar, nonce, map[string]int{"bugs-edit": 3}), forgedVersion(name+"2", login, email, avatar, nonce, map[string]int{"bugs-edit": 2})}
	case "dropped":
		blobs = [][]byte{forgedVersion(name, login, email, avatar, nonce, map[string]int{"bugs-edit": 3, "bugs-create": 2}), forgedVersion(name+"2", login, email, avatar, nonce, map[string]int{"bugs-edit": 4})}
	case "dropped_all":
		blobs = [][]byte{forgedVersion(name, login, email, avatar, nonce, map[string]int{"bugs-edit": 3, "bugs-create": 2}), forgedVersion(name+"2", login, email, avatar, nonce, map[string]int{})}
	case "dropped_null":
		blobs = [][]byte{forgedVersion(name, login, email, avatar, nonce, map[string]int{"bugs-edit": 3}), forgedVersion(name+"2", login, email, avatar, nonce, nil)}
	case "replaced":
		blobs = [][]byte{forgedVersion(name, login, email, avatar, nonce, map[string]int{"bugs-edit": 3}), forgedVersion(name+"2", login, email, avatar, nonce, map[string]int{"other-clock": 9})}
	default:
		hx.Die("unknown clock class %q", v.Clocks)
	}
	repo2 := repository.NewMockRepo()
	head, id := storeChain(repo2, blobs)
	hx.Must(repo2.UpdateRef("refs/remotes/origin/identities/"+id.String(), head))
	var status entity.MergeStatus
	n := 0
	for res := range identity.MergeAll(repo2, "origin") {
		status = res.Status
		n++
	}
	exists, _ := repo2.RefExist("refs/identities/" + id.String())
	if n != 1 {
		return fmt.Sprintf("MergeAll produced %d results", n)
	}
	if v.Valid && (status != entity.MergeStatusNew || !exists) {
		return fmt.Sprintf("specification: valid; merge reported status %d (local ref exists: %v)", status, exists)
	}
	if !v.Valid && (status != entity.MergeStatusInvalid || exists) {
		return fmt.Sprintf("specification: invalid; merge reported status %d (local ref exists: %v)", status, exists)
	}
	// (3) the same versions as the continuation of an identity that is already known locally (its valid beginning): an
	// update is merged iff what it brings is valid, and a refused one leaves the local identity where it was
	known := forgedVersion("known", "", "k@example.org", "", 20, map[string]int{"bugs-edit": 1})
	ext := blobs
	if v.Clocks != "none" {
		// the chain classes bring their own first version: known = that one, extension = the second
		known, ext = blobs[0], blobs[1:]
	}
	repo3 := repository.NewMockRepo()
	localHead, id3 := storeChain(repo3, [][]byte{known})
	hx.Must(repo3.UpdateRef("refs/identities/"+id3.String(), localHead))
	remoteHead, _ := storeChain(repo3, append([][]byte{known}, ext...))
	hx.Must(repo3.UpdateRef("refs/remotes/origin/identities/"+id3.String(), remoteHead))
	n = 0
	for res := range identity.MergeAll(repo3, "origin") {
		status = res.Status
		n++
	}
	now, _ := repo3.ResolveRef("refs/identities/" + id3.String())
	if n != 1 {
		return fmt.Sprintf("update of a known identity: MergeAll produced %d results", n)
	}
	if v.Valid && (status != entity.MergeStatusUpdated || now != remoteHead) {
		return fmt.Sprintf("specification: a valid update of a known identity; merge reported status %d (local ref moved to the remote head: %v)", status, now == remoteHead)
	}
	if !v.Valid && (status != entity.MergeStatusInvalid || now != localHead) {
		return fmt.Sprintf("specification: an invalid update of a known identity must be refused; merge reported status %d (local ref untouched: %v)", status, now == localHead)
	}
	return ""
}

func commitOnReplicaBehind(v FieldVec) string {
	first := map[string]int{"bugs-edit": 3}
	var second map[string]int
	switch v.Clocks {
	case "grow":
		second = map[string]int{"bugs-edit": 4, "bugs-create": 1}
	case "same":
		second = map[string]int{"bugs-edit": 3}
	case "shrink":
		second = map[string]int{"bugs-edit": 2}
	case "dropped":
		first, second = map[string]int{"bugs-edit": 3, "bugs-create": 2}, map[string]int{"bugs-edit": 4}
	case "dropped_all", "dropped_null":
		first, second = map[string]int{"bugs-edit": 3, "bugs-create": 2}, map[string]int{}
	case "replaced":
		second = map[string]int{"other-clock": 9}
	default:
		return ""
	}
	dir := hx.Scratch("identclk")
	defer os.RemoveAll(dir)
	_ = hx.InitBare(filepath.Join(dir, "hub")).Close()
	a, b := hx.InitRepo(filepath.Join(dir, "A")), hx.InitRepo(filepath.Join(dir, "B"))
	defer a.Close()
	defer b.Close()
	hx.Must(a.AddRemote("origin", filepath.Join(dir, "hub")))
	hx.Must(b.AddRemote("origin", filepath.Join(dir, "hub")))
	for n, t := range first {
		hx.Must(a.Witness(n, lamport.Time(t)))
	}
	for n, t := range second {
		hx.Must(b.Witness(n, lamport.Time(t)))
	}
	i, err := identity.NewIdentity(a, "traveller", "t@example.org")
	hx.Must(err)
	hx.Must(i.Commit(a))
	_, err = identity.Push(a, "origin")
	hx.Must(err)
	hx.Must(identity.Pull(b, "origin"))
	ib, err := identity.ReadLocal(b, i.Id())
	hx.Must(err)
	before, err := b.ResolveRef("refs/identities/" + i.Id().String())
	hx.Must(err)
	hx.Must(ib.Mutate(b, func(m *identity.Mutator) { m.Name = "traveller, renamed" }))
	cerr := ib.Commit(b)
	after, _ := b.ResolveRef("refs/identities/" + i.Id().String())
	if v.Valid && (cerr != nil || after == before) {
		return fmt.Sprintf("specification: a valid next version (clocks %v after %v); Mutate+Commit on the second replica: %v (ref moved: %v)", second, first, cerr, after != before)
	}
	if !v.Valid && (cerr == nil || after != before) {
		return fmt.Sprintf("specification: clocks %v after %v must be refused; Mutate+Commit on the second replica: %v (ref moved: %v)", second, first, cerr, after != before)
	}
	return ""
}

func FieldsWorker(args []string) {
	hx.Serve(func(item json.RawMessage) interface{} {
		var v FieldVec
		hx.Must(json.Unmarshal(item, &v))
		for variant := 0; variant < 3; variant++ {
			if why := fieldOne(v, variant); why != "" {
				return map[string]string{"why": fmt.Sprintf("variant %d: %s", variant, why)}
			}
		}
		return map[string]string{"why": ""}
	})
}

// FieldsCmd: vh ident-fields <vectors> <out>
func FieldsCmd(args []string) {
	items := hx.ReadLines(args[0])
	out := hx.NewWriter(args[1])
	defer out.Close()
	res := hx.Isolated("ident-fields-worker", items, 0)
	bad := 0
	for i, r := range res {
		var a map[string]string
		hx.Must(json.Unmarshal(r, &a))
		why := a["why"]
		if c, ok := a["crash"]; ok {
			why = "process crashed: " + c
		}
		if why != "" {
			bad++
			out.Put(map[string]interface{}{"vec": items[i], "why": why})
		}
	}
	out.Put(map[string]interface{}{"stats": map[string]int{"executed": 3 * len(items), "mismatches": bad}})
}
