// Package cachex drives two real repository caches (two users, two repositories, one shared remote) with sessions
// generated from spec/Cache.tla and, after every action, compares everything the live cache serves with what a cache
// rebuilt from a copy of the git data serves (C11).
package cachex

import (
	"encoding/json"
	"fmt"
	"io"
	"os"
	"path/filepath"
	"sort"
	"strings"
	"time"

	"github.com/MichaelMure/git-bug/cache"
	"github.com/MichaelMure/git-bug/entities/bug"
	"github.com/MichaelMure/git-bug/entities/common"
	"github.com/MichaelMure/git-bug/entities/identity"
	"github.com/MichaelMure/git-bug/entity"
	"github.com/MichaelMure/git-bug/query"
	"github.com/MichaelMure/git-bug/repository"

	"verif/harness/hx"
)

type Step struct {
	Act  string `json:"act"`
	R    string `json:"r"`
	B    int    `json:"b"`
	Kind string `json:"kind"`
	N    int    `json:"n"`
}
type Schedule struct {
	Steps []Step `json:"steps"`
	Name  string `json:"name"`
}
type Agree struct {
	Excerpts   bool `json:"excerpts"`
	Snapshots  bool `json:"snapshots"`
	Labels     bool `json:"labels"`
	Queries    bool `json:"queries"`
	Search     bool `json:"search"`
	Metadata   bool `json:"metadata"`
	Identities bool `json:"identities"`
}
type Event struct {
	Ev      string `json:"ev"`
	R       string `json:"r"`
	B       int    `json:"b"`
	N       int    `json:"n"`
	Kind    string `json:"kind"`
	Err     string `json:"err"`
	Git     []int  `json:"git"`
	Live    []int  `json:"live"`
	Rebuilt []int  `json:"rebuilt"`
	Agree   Agree  `json:"agree"`
	Diff    string `json:"diff"`
	// operations that were stored under a local ref before the action and are not any more, although the bug still has
	// its local ref (nothing an action does may lose stored operations; a removal takes the whole bug)
	Lost     int    `json:"lost"`
	LostWhat string `json:"lostwhat"`
}

type replica struct {
	name string
	dir  string
	repo *repository.GoGitRepo
	c    *cache.RepoCache
	user entity.Id
	// observations resolve the bugs alternately in ascending and descending id order: what was left resident by the
	// previous observation (and possibly made stale by the action in between) is then looked at first, before the
	// observation itself pushes it out of a small cache
	desc bool
}

type world struct {
	dir    string
	reps   map[string]*replica
	bugNo  map[entity.Id]int
	bugIds []entity.Id
	words  []string
	metas  []string
	k      int
	events []*Event
}

func openRepo(dir string) *repository.GoGitRepo {
	r, err := repository.OpenGoGitRepo(dir, "git-bug", nil)
	hx.Must(err)
	return r
}

func newWorld() *world {
	w := &world{reps: map[string]*replica{}, bugNo: map[entity.Id]int{}}
	w.dir = hx.Scratch("cachex")
	_ = hx.InitBare(filepath.Join(w.dir, "hub")).Close()
	for _, n := range []string{"A", "B"} {
		d := filepath.Join(w.dir, n)
		repo := hx.InitRepo(d)
		hx.Must(repo.AddRemote("origin", filepath.Join(w.dir, "hub")))
		c, err := hx.OpenCache(repo)
		hx.Must(err)
		u, err := c.Identities().New("user "+n, strings.ToLower(n)+"@example.org")
		hx.Must(err)
		hx.Must(c.SetUserIdentity(u))
		w.reps[n] = &replica{name: n, dir: d, repo: repo, c: c, user: u.Id()}
	}
	a, b := w.reps["A"], w.reps["B"]
	_, err := a.c.Push("origin")
	hx.Must(err)
	hx.Must(b.c.Pull("origin"))
	_, err = b.c.Push("origin")
	hx.Must(err)
	hx.Must(a.c.Pull("origin"))
	return w
}

func (w *world) close() {
	for _, r := range w.reps {
		if r.c != nil {
			_ = r.c.Close()
		}
	}
	_ = os.RemoveAll(w.dir)
}

// ---------------------------------------------------------------------------------------------------- serving

func copyTree(src, dst string, skip func(rel string) bool) error {
	return filepath.Walk(src, func(p string, info os.FileInfo, err error) error {
		if err != nil {
			if os.IsNotExist(err) {
				return nil // a temporary file of a write in flight that is gone again
			}
			return err
		}
		rel, _ := filepath.Rel(src, p)
		if skip(rel) {
			if info.IsDir() {
				return filepath.SkipDir
			}
			return nil
		}
		target := filepath.Join(dst, rel)
		if info.IsDir() {
			return os.MkdirAll(target, 0o755)
		}
		in, err := os.Open(p)
		if err != nil {
			if os.IsNotExist(err) {
				return nil
			}
			return err
		}
		defer in.Close()
		out, err := os.Create(target)
		if err != nil {
			return err
		}
		defer out.Close()
		_, err = io.Copy(out, in)
		return err
	})
}

func (w *world) nums(ids []entity.Id) []int {
	r := []int{}
	for _, id := range ids {
		if n, ok := w.bugNo[id]; ok {
			r = append(r, n)
		} else {
			r = append(r, -1)
		}
	}
	sort.Ints(r)
	return r
}

// serve renders everything a cache answers, facet by facet.
func (w *world) serve(c *cache.RepoCache, desc bool) (map[string]string, []entity.Id) {
	f := map[string]string{}
	ids := c.Bugs().AllIds()
	sort.Slice(ids, func(i, j int) bool { return ids[i] < ids[j] })
	var sb strings.Builder
	for _, id := range ids {
		e, err := c.Bugs().ResolveExcerpt(id)
		if err != nil {
			fmt.Fprintf(&sb, "%s: %v\n", id, err)
			continue
		}
		md := []string{}
		for k, v := range e.CreateMetadata {
			md = append(md, k+"="+v)
		}
		sort.Strings(md)
		fmt.Fprintf(&sb, "%s ct=%d/%d et=%d/%d author=%s status=%s labels=%v title=%q comments=%d actors=%v participants=%v meta=%v\n",
			id, e.CreateLamportTime, e.CreateUnixTime, e.EditLamportTime, e.EditUnixTime, e.AuthorId, e.Status, e.Labels, e.Title, e.LenComments, e.Actors, e.Participants, md)
	}
	f["excerpts"] = sb.String()
	sb.Reset()
	snaps := make([]string, len(ids))
	for k := range ids {
		i := k
		if desc {
			i = len(ids) - 1 - k
		}
		id := ids[i]
		var one strings.Builder
		b, err := c.Bugs().Resolve(id)
		if err != nil {
			snaps[i] = fmt.Sprintf("%s: %v\n", id, err)
			continue
		}
		s := b.Snapshot()
		fmt.Fprintf(&one, "%s %q %s %v |", id, s.Title, s.Status, s.Labels)
		for _, op := range s.Operations {
			fmt.Fprintf(&one, "%s,", op.Id())
		}
		for _, cm := range s.Comments {
			fmt.Fprintf(&one, "[%s:%q]", cm.Author.Id(), cm.Message)
		}
		fmt.Fprintf(&one, " timeline=%d actors=%d participants=%d\n", len(s.Timeline), len(s.Actors), len(s.Participants))
		snaps[i] = one.String()
	}
	// every bug this session ever knew and the cache does not list any more (removed): it must not be served by id either
	listed := map[entity.Id]bool{}
	for _, id := range ids {
		listed[id] = true
	}
	for _, id := range w.bugIds {
		if listed[id] {
			continue
		}
		if b, err := c.Bugs().Resolve(id); err == nil {
			snaps = append(snaps, fmt.Sprintf("%s is not listed, yet resolves (%d operations)\n", id, len(b.Snapshot().Operations)))
		}
		if _, err := c.Bugs().ResolveExcerpt(id); err == nil {
			snaps = append(snaps, fmt.Sprintf("%s is not listed, yet has an excerpt\n", id))
		}
	}
	f["snapshots"] = strings.Join(snaps, "")
	f["labels"] = fmt.Sprint(c.Bugs().ValidLabels())
	sb.Reset()
	battery := []string{"status:open", "status:closed", "no:label", "label:l1", "label:l2", "author:\"user A\"", "author:\"user B\"",
		"actor:renamed", "participant:user", "title:retitled", "title:bug", "sort:edit", "sort:creation-asc", "sort:id", "status:open label:l1 sort:edit-asc"}
	for _, qs := range battery {
		q, err := query.Parse(qs)
		hx.Must(err)
		res, err := c.Bugs().Query(q)
		// which bugs match; their order among equal sort keys is free (the order itself is C12's subject)
		sort.Slice(res, func(i, j int) bool { return res[i] < res[j] })
		fmt.Fprintf(&sb, "%s => %v %v\n", qs, res, err)
	}
	f["queries"] = sb.String()
	sb.Reset()
	for _, word := range w.words {
		q := query.NewQuery()
		q.Search = []string{word}
		q.OrderBy, q.OrderDirection = query.OrderById, query.OrderAscending
		res, err := c.Bugs().Query(q)
		fmt.Fprintf(&sb, "%s => %v %v\n", word, res, err)
	}
	f["search"] = sb.String()
	sb.Reset()
	for _, m := range w.metas {
		b, err := c.Bugs().ResolveBugCreateMetadata(m, "v")
		if err != nil {
			fmt.Fprintf(&sb, "%s => %T\n", m, err)
		} else {
			fmt.Fprintf(&sb, "%s => %s\n", m, b.Id())
		}
	}
	f["metadata"] = sb.String()
	sb.Reset()
	iids := c.Identities().AllIds()
	sort.Slice(iids, func(i, j int) bool { return iids[i] < iids[j] })
	for _, id := range iids {
		e, err := c.Identities().ResolveExcerpt(id)
		if err != nil {
			fmt.Fprintf(&sb, "%s: %v\n", id, err)
			continue
		}
		i, err := c.Identities().Resolve(id)
		name := ""
		if err == nil {
			name = i.Name()
		}
		fmt.Fprintf(&sb, "%s name=%q login=%q resolved=%q meta=%v\n", id, e.Name, e.Login, name, e.ImmutableMetadata)
	}
	f["identities"] = sb.String()
	return f, ids
}

func (w *world) observe(ev *Event, r *replica) {
	// which bugs have a local ref
	refs, err := r.repo.ListRefs("refs/bugs/")
	hx.Must(err)
	var gitIds []entity.Id
	for _, ref := range refs {
		gitIds = append(gitIds, entity.RefToId(ref))
	}
	ev.Git = w.nums(gitIds)
	live, liveIds := w.serve(r.c, r.desc)
	r.desc = !r.desc
	ev.Live = w.nums(liveIds)
	// a cache rebuilt from a copy of the git data
	tmp := hx.Scratch("rebuilt")
	defer os.RemoveAll(tmp)
	hx.Must(copyTree(r.dir, tmp, func(rel string) bool {
		return rel == filepath.Join(".git", "git-bug", "cache") || rel == filepath.Join(".git", "git-bug", "indexes") || rel == filepath.Join(".git", "git-bug", "lock")
	}))
	repo2 := openRepo(tmp)
	c2, err := hx.OpenCache(repo2)
	if err != nil {
		ev.Diff = "rebuild failed: " + err.Error()
		ev.Rebuilt = []int{}
		return
	}
	rebuilt, rebuiltIds := w.serve(c2, false)
	_ = c2.Close()
	ev.Rebuilt = w.nums(rebuiltIds)
	eq := func(k string) bool {
		if live[k] == rebuilt[k] {
			return true
		}
		if ev.Diff == "" {
			ev.Diff = fmt.Sprintf("%s: live cache serves\n%s\nrebuilt cache serves\n%s", k, live[k], rebuilt[k])
			if len(ev.Diff) > 3000 {
				ev.Diff = ev.Diff[:3000]
			}
		}
		return false
	}
	ev.Agree = Agree{Excerpts: eq("excerpts"), Snapshots: eq("snapshots"), Labels: eq("labels"), Queries: eq("queries"),
		Search: eq("search"), Metadata: eq("metadata"), Identities: eq("identities")}
}

// ---------------------------------------------------------------------------------------------------- actions

func (w *world) edit(b *cache.BugCache, kind string) error {
	w.k++
	k := w.k
	var err error
	switch kind {
	case "comment":
		word := fmt.Sprintf("wcomment%d", k)
		w.words = append(w.words, word)
		_, _, err = b.AddComment("a comment " + word)
	case "title":
		word := fmt.Sprintf("wretitle%d", k)
		w.words = append(w.words, word)
		_, err = b.SetTitle("retitled " + word)
	case "status":
		if b.Snapshot().Status == common.OpenStatus {
			_, err = b.Close()
		} else {
			_, err = b.Open()
		}
	case "label":
		snap := b.Snapshot()
		if len(snap.Labels) > 0 && k%3 == 0 {
			_, _, err = b.ChangeLabels(nil, []string{string(snap.Labels[0])})
		} else {
			_, _, err = b.ChangeLabels([]string{fmt.Sprintf("l%d", 1+k%3)}, nil)
			if err != nil { // nothing to change (the label is set already): another label then
				_, _, err = b.ChangeLabels([]string{fmt.Sprintf("extra%d", k)}, nil)
			}
		}
	case "editcomment":
		word := fmt.Sprintf("wedited%d", k)
		w.words = append(w.words, word)
		_, _, err = b.EditCreateComment("edited message " + word)
	case "metadata":
		key := fmt.Sprintf("mk%d", k)
		w.metas = append(w.metas, key)
		_, err = b.SetMetadata(b.Snapshot().Operations[0].Id(), map[string]string{key: "v"})
	default:
		err = fmt.Errorf("unknown edit kind %q", kind)
	}
	return err
}

// storedOps: the operation ids stored in git under every local bug ref, read without the cache
func storedOps(repo *repository.GoGitRepo) map[entity.Id]map[entity.Id]bool {
	res := map[entity.Id]map[entity.Id]bool{}
	refs, err := repo.ListRefs("refs/bugs/")
	hx.Must(err)
	for _, ref := range refs {
		id := entity.RefToId(ref)
		b, err := bug.Read(repo, id)
		if err != nil {
			continue // unreadable: reported by the observation
		}
		ops := map[entity.Id]bool{}
		for _, op := range b.Operations() {
			ops[op.Id()] = true
		}
		res[id] = ops
	}
	return res
}

func (w *world) do(s Step) {
	r := w.reps[s.R]
	ev := &Event{Ev: s.Act, R: s.R, B: s.B, N: s.N, Kind: s.Kind, Git: []int{}, Live: []int{}, Rebuilt: []int{}}
	before := storedOps(r.repo)
	defer func() {
		after := storedOps(r.repo)
		for id, ops := range before {
			now, ok := after[id]
			if !ok {
				continue
			}
			for op := range ops {
				if !now[op] {
					ev.Lost++
					ev.LostWhat = fmt.Sprintf("operation %s of bug %s", op.Human(), id.Human())
				}
			}
		}
	}()
	resolve := func() *cache.BugCache {
		if s.B < 1 || s.B > len(w.bugIds) {
			ev.Err = "no such bug"
			return nil
		}
		b, err := r.c.Bugs().Resolve(w.bugIds[s.B-1])
		if err != nil {
			ev.Err = "resolve: " + err.Error()
			return nil
		}
		return b
	}
	switch s.Act {
	case "New":
		w.k++
		t, m := fmt.Sprintf("wtitle%d", w.k), fmt.Sprintf("wmessage%d", w.k)
		w.words = append(w.words, t, m)
		var b *cache.BugCache
		var err error
		if w.k%2 == 0 {
			// every other bug is opened by somebody nobody has heard of yet: the pull that brings the bug brings its author
			var who *cache.IdentityCache
			who, err = r.c.Identities().New(fmt.Sprintf("guest %d", w.k), fmt.Sprintf("guest%d@example.org", w.k))
			if err == nil {
				b, _, err = r.c.Bugs().NewRaw(who, time.Now().Unix(), "bug "+t, "first message "+m, nil, nil)
			}
		} else {
			b, _, err = r.c.Bugs().New("bug "+t, "first message "+m)
		}
		if err != nil {
			ev.Err = err.Error()
		} else {
			w.bugIds = append(w.bugIds, b.Id())
			w.bugNo[b.Id()] = len(w.bugIds)
			ev.B = len(w.bugIds)
		}
	case "Edit":
		if b := resolve(); b != nil {
			if err := w.edit(b, s.Kind); err != nil {
				ev.Err = err.Error()
			}
		}
	case "Commit":
		if b := resolve(); b != nil {
			if err := b.CommitAsNeeded(); err != nil {
				ev.Err = err.Error()
			}
		}
	case "EditCommit":
		if b := resolve(); b != nil {
			if err := w.edit(b, s.Kind); err != nil {
				ev.Err = err.Error()
			} else if err := b.CommitAsNeeded(); err != nil {
				ev.Err = "commit: " + err.Error()
			}
		}
	case "Push":
		if _, err := r.c.Push("origin"); err != nil {
			// a push is all-or-nothing: refused (the remote moved on), it leaves the remote and the tracking refs as they were,
			// which is what the PushRejected step of the trace specification checks; the wording of the error is free
			ev.Ev = "PushRejected"
			ev.Diff = "push refused: " + err.Error()
		}
	case "Pull":
		if err := r.c.Pull("origin"); err != nil {
			ev.Err = err.Error()
			// a pull that gives up at the first refused entity returns while the goroutines merging the others are still at
			// work: let them finish before anybody looks at the repository
			time.Sleep(time.Second)
		}
	case "Fetch":
		if _, err := r.c.Fetch("origin"); err != nil {
			ev.Err = err.Error()
		}
	case "Remove":
		if s.B < 1 || s.B > len(w.bugIds) {
			ev.Err = "no such bug"
		} else if err := r.c.Bugs().Remove(w.bugIds[s.B-1].String()); err != nil {
			ev.Err = err.Error()
		}
	case "ResolveAll":
		r.c.Bugs().SetCacheSize(s.N)
		for _, id := range r.c.Bugs().AllIds() {
			if _, err := r.c.Bugs().Resolve(id); err != nil {
				ev.Err = "resolve: " + err.Error()
			}
		}
	case "Reopen":
		if err := r.c.Close(); err != nil {
			ev.Err = "close: " + err.Error()
		}
		r.repo = openRepo(r.dir)
		c, err := hx.OpenCache(r.repo)
		if err != nil {
			ev.Err = "open: " + err.Error()
			hx.Die("cannot reopen the cache: %v", err)
		}
		r.c = c
	case "MutateIdentity":
		w.k++
		u, err := r.c.Identities().Resolve(r.user)
		if err != nil {
			ev.Err = err.Error()
		} else {
			err = u.Mutate(r.repo, func(m *identity.Mutator) { m.Name = fmt.Sprintf("renamed %s %d", r.name, w.k) })
			if err == nil {
				err = u.Commit()
			}
			if err != nil {
				ev.Err = err.Error()
			}
		}
	default:
		hx.Die("unknown action %q", s.Act)
	}
	w.observe(ev, r)
	w.events = append(w.events, ev)
}

func runSession(s Schedule) []*Event {
	w := newWorld()
	defer w.close()
	for _, st := range s.Steps {
		w.do(st)
	}
	// end of session: both sides synchronise and must agree with a rebuild
	for _, n := range []string{"A", "B", "A"} {
		r := w.reps[n]
		dirty := false
		for _, id := range r.c.Bugs().AllIds() {
			if b, err := r.c.Bugs().Resolve(id); err == nil && b.NeedCommit() {
				dirty = true
				w.do(Step{Act: "Commit", R: n, B: w.bugNo[id]})
			}
		}
		_ = dirty
		w.do(Step{Act: "Pull", R: n})
		w.do(Step{Act: "Push", R: n})
	}
	return w.events
}

func Worker(args []string) {
	hx.Serve(func(item json.RawMessage) interface{} {
		var s Schedule
		hx.Must(json.Unmarshal(item, &s))
		return runSession(s)
	})
}

// Run: vh cache <schedules> <trace>
func Run(args []string) {
	items := hx.ReadLines(args[0])
	out := hx.NewWriter(args[1])
	defer out.Close()
	res := hx.Isolated("cache-worker", items, 0)
	n, crashes := 0, 0
	for _, r := range res {
		out.Put(&Event{Ev: "Reset", Git: []int{}, Live: []int{}, Rebuilt: []int{}})
		var evs []*Event
		if err := json.Unmarshal(r, &evs); err != nil {
			var c map[string]string
			_ = json.Unmarshal(r, &c)
			out.Put(&Event{Ev: "Crash", Err: c["crash"], Diff: c["stderr"], Git: []int{}, Live: []int{}, Rebuilt: []int{}})
			crashes++
			continue
		}
		for _, e := range evs {
			out.Put(e)
			n++
		}
	}
	fmt.Printf("{\"sessions\":%d,\"events\":%d,\"crashed_sessions\":%d}\n", len(items), n, crashes)
	_ = bug.Typename
}
