// Package forge builds the hand-crafted histories enumerated by spec/MC_Forge.tla with real git objects, on both
// storage backends, and compares what bug.Read and bug.MergeAll make of them with the specification's verdict (C03).
package forge

import (
	"crypto/sha256"
	"encoding/hex"
	"encoding/json"
	"fmt"
	"os"
	"sort"

	"github.com/MichaelMure/git-bug/entities/bug"
	"github.com/MichaelMure/git-bug/entities/identity"
	"github.com/MichaelMure/git-bug/entity"
	"github.com/MichaelMure/git-bug/repository"

	"verif/harness/hx"
)

type Commit struct {
	Par  []int `json:"par"`
	Et   int   `json:"et"`
	Ct   int   `json:"ct"`
	Ops  []int `json:"ops"`
	Rank int   `json:"rank"`
}

// clockValue: the specification's integers stop at 32 bits; its values from 2000000 on stand for clocks near the top of the
// 64-bit range (order preserved)
func clockValue(et int) uint64 {
	if et >= 2000000 {
		return uint64(1)<<63 + uint64(et-2000000)
	}
	return uint64(et)
}

type Vec struct {
	Dag   []Commit `json:"dag"`
	Ok    bool     `json:"ok"`
	Order []int    `json:"order"`
}

type Answer struct {
	Backend string `json:"backend"`
	Why     string `json:"why,omitempty"`
}

func sha(b []byte) string {
	h := sha256.Sum256(b)
	return hex.EncodeToString(h[:])
}

type pack struct {
	blob  []byte
	id    string
	opIds []string
}

var unix int64 = 1_600_000_000

func makePack(author identity.Interface, c Commit, first bool) pack {
	var raws []json.RawMessage
	var ids []string
	for k := range c.Ops {
		unix++
		var op interface{}
		if first && k == 0 {
			op = bug.NewCreateOp(author, unix, "forged", "message", nil)
		} else {
			op = bug.NewAddCommentOp(author, unix, fmt.Sprintf("comment %d", unix), nil)
		}
		raw, err := json.Marshal(op)
		hx.Must(err)
		raws = append(raws, raw)
		ids = append(ids, sha(raw))
	}
	blob, err := json.Marshal(struct {
		Author struct {
			Id string `json:"id"`
		} `json:"author"`
		Ops []json.RawMessage `json:"ops"`
	}{Author: struct {
		Id string `json:"id"`
	}{author.Id().String()}, Ops: raws})
	hx.Must(err)
	return pack{blob: blob, id: sha(blob), opIds: ids}
}

// packsFor generates pack contents whose ids are ordered like the requested ranks (non-empty packs only).
func packsFor(author identity.Interface, dag []Commit) []pack {
	for try := 0; try < 10000; try++ {
		ps := make([]pack, len(dag))
		for i, c := range dag {
			ps[i] = makePack(author, c, i == 0)
		}
		var idx []int
		for i, c := range dag {
			if len(c.Ops) > 0 {
				idx = append(idx, i)
			}
		}
		byRank := append([]int(nil), idx...)
		sort.Slice(byRank, func(a, b int) bool { return dag[byRank[a]].Rank < dag[byRank[b]].Rank })
		byId := append([]int(nil), idx...)
		sort.Slice(byId, func(a, b int) bool { return ps[byId[a]].id < ps[byId[b]].id })
		same := true
		for k := range byRank {
			if byRank[k] != byId[k] {
				same = false
			}
		}
		if same {
			return ps
		}
	}
	hx.Die("could not realise the rank assignment")
	return nil
}

func build(repo repository.ClockedRepo, author identity.Interface, v Vec) (head repository.Hash, id entity.Id, opNo map[string]int) {
	ps := packsFor(author, v.Dag)
	opNo = map[string]int{}
	empty, err := repo.StoreData([]byte{})
	hx.Must(err)
	hashes := make([]repository.Hash, len(v.Dag))
	for i, c := range v.Dag {
		for k, oid := range ps[i].opIds {
			opNo[oid] = c.Ops[k]
		}
		blob, err := repo.StoreData(ps[i].blob)
		hx.Must(err)
		tree := []repository.TreeEntry{
			{ObjectType: repository.Blob, Hash: empty, Name: "version-4"},
			{ObjectType: repository.Blob, Hash: blob, Name: "ops"},
			{ObjectType: repository.Blob, Hash: empty, Name: fmt.Sprintf("edit-clock-%d", clockValue(c.Et))},
		}
		if c.Ct > 0 {
			tree = append(tree, repository.TreeEntry{ObjectType: repository.Blob, Hash: empty, Name: fmt.Sprintf("create-clock-%d", c.Ct)})
		}
		th, err := repo.StoreTree(tree)
		hx.Must(err)
		var parents []repository.Hash
		for _, p := range c.Par {
			parents = append(parents, hashes[p-1])
		}
		hashes[i], err = repo.StoreCommit(th, parents...)
		hx.Must(err)
	}
	return hashes[len(hashes)-1], entity.Id(ps[0].opIds[0]), opNo
}

func safeRead(repo repository.ClockedRepo, id entity.Id) (b *bug.Bug, err error, panicked string) {
	defer func() {
		if p := recover(); p != nil {
			panicked = fmt.Sprint(p)
		}
	}()
	b, err = bug.Read(repo, id)
	return
}

func projected(b *bug.Bug, opNo map[string]int) []int {
	var r []int
	for _, op := range b.Operations() {
		n, ok := opNo[op.Id().String()]
		if !ok {
			n = -1
		}
		r = append(r, n)
	}
	return r
}

func equal(a, b []int) bool {
	if len(a) != len(b) {
		return false
	}
	for i := range a {
		if a[i] != b[i] {
			return false
		}
	}
	return true
}

func refsDump(repo repository.RepoData) string {
	refs, _ := repo.ListRefs("refs/bugs/")
	sort.Strings(refs)
	return fmt.Sprint(refs)
}

func one(backend string, repo repository.ClockedRepo, v Vec) string {
	author, err := identity.NewIdentity(repo, "u1", "u1@example.org")
	hx.Must(err)
	hx.Must(author.Commit(repo))
	head, id, opNo := build(repo, author, v)

	// 1. offered by a remote: merge must report it invalid (and touch nothing) or create it
	hx.Must(repo.UpdateRef("refs/remotes/origin/bugs/"+id.String(), head))
	before := refsDump(repo)
	resolvers := entity.Resolvers{&identity.Identity{}: identity.NewSimpleResolver(repo)}
	var status entity.MergeStatus
	n := 0
	for res := range bug.MergeAll(repo, resolvers, "origin", author) {
		status = res.Status
		n++
	}
	if n != 1 {
		return fmt.Sprintf("MergeAll produced %d results for one tracking ref", n)
	}
	if v.Ok {
		if status != entity.MergeStatusNew {
			return fmt.Sprintf("specification: readable history, merge must report new; code reported status %d", status)
		}
	} else {
		if status != entity.MergeStatusInvalid {
			return fmt.Sprintf("specification: history must be refused (invalid); code reported status %d", status)
		}
		if after := refsDump(repo); after != before {
			return "refused history changed local refs: " + after
		}
		// 2. the same history stored locally: reading it must fail, not crash and not order it
		hx.Must(repo.UpdateRef("refs/bugs/"+id.String(), head))
	}
	for round := 0; round < 2; round++ {
		b, err, panicked := safeRead(repo, id)
		if panicked != "" {
			return "bug.Read panicked: " + panicked
		}
		if v.Ok {
			if err != nil {
				return "specification: readable; bug.Read failed: " + err.Error()
			}
			if got := projected(b, opNo); !equal(got, v.Order) {
				return fmt.Sprintf("order: specification %v, bug.Read %v", v.Order, got)
			}
		} else if err == nil {
			return fmt.Sprintf("specification: history must be refused; bug.Read ordered it as %v", projected(b, opNo))
		}
	}
	return ""
}

// Worker: one vector per line; answers {"mock": why, "gogit": why}.
func Worker(args []string) {
	hx.Serve(func(item json.RawMessage) interface{} {
		var v Vec
		hx.Must(json.Unmarshal(item, &v))
		ans := map[string]string{}
		ans["mock"] = one("mock", repository.NewMockRepo(), v)
		dir := hx.Scratch("forge")
		r := hx.InitRepo(dir)
		ans["gogit"] = one("gogit", r, v)
		_ = r.Close()
		_ = os.RemoveAll(dir)
		return ans
	})
}

// Run: vh forge <vectors> <out>
func Run(args []string) {
	items := hx.ReadLines(args[0])
	out := hx.NewWriter(args[1])
	defer out.Close()
	res := hx.Isolated("forge-worker", items, 0)
	bad := 0
	for i, r := range res {
		var a map[string]string
		hx.Must(json.Unmarshal(r, &a))
		if c, ok := a["crash"]; ok {
			out.Put(map[string]interface{}{"vec": items[i], "backend": "process", "why": "process crashed: " + c})
			bad++
			continue
		}
		for _, be := range []string{"mock", "gogit"} {
			if a[be] != "" {
				out.Put(map[string]interface{}{"vec": items[i], "backend": be, "why": a[be]})
				bad++
			}
		}
	}
	out.Put(map[string]interface{}{"stats": map[string]int{"executed": 2 * len(items), "vectors": len(items), "mismatches": bad}})
}
