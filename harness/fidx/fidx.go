// Package fidx records sessions for spec/Fidelity.tla (C04): one bug built from random operations of every kind with
// arbitrary valid field values (unicode, long text, whitespace, many metadata keys, attached files, several authors in
// one staging area), committed in arbitrary chunks, and read back through every path: bug.Read, bug.ReadAll, the cache,
// and a second replica after push / pull; on go-git and on the mock repository.
package fidx

import (
	"bytes"
	"crypto/sha256"
	"encoding/hex"
	"encoding/json"
	"fmt"
	"os"
	"path/filepath"
	"sort"
	"strings"

	"github.com/MichaelMure/git-bug/entities/bug"
	"github.com/MichaelMure/git-bug/entities/common"
	"github.com/MichaelMure/git-bug/entities/identity"
	"github.com/MichaelMure/git-bug/entity"
	"github.com/MichaelMure/git-bug/entity/dag"
	"github.com/MichaelMure/git-bug/repository"

	"verif/harness/hx"
)

type Op struct {
	Id string `json:"id"`
	D  string `json:"d"`
	Au string `json:"au"`
}

type Event struct {
	Ev     string   `json:"ev"`
	Path   string   `json:"path"`
	Err    string   `json:"err"`
	Eid    string   `json:"eid"`
	Ops    []Op     `json:"ops"`
	Stored []string `json:"stored"`
	Packs  int      `json:"packs"`
	Times  []int    `json:"times"`
	Valid  bool     `json:"valid"`
	Files  bool     `json:"files"`
	Reads  [][]Op   `json:"reads"` // ReadMerged: what every reader saw (several reads on each replica)
	// CommitInvalid: an operation that does not validate was appended by hand; the commit was refused / the ref moved all the same
	Refused bool   `json:"refused"`
	Moved   bool   `json:"moved"`
	What    string `json:"what"`
}

func sha(b []byte) string {
	h := sha256.Sum256(b)
	return hex.EncodeToString(h[:])
}

type rng struct{ s uint64 }

func (r *rng) n(k int) int {
	r.s ^= r.s << 13
	r.s ^= r.s >> 7
	r.s ^= r.s << 17
	return int((r.s >> 3) % uint64(k))
}

var words = []string{"plain", "René", "世界", "emoji🙂", "écombining", "‮rtl‬", "naïve café", "Ünïcödé", "tab\tin", "quote\"s'", "back\\slash", "<html>&amp;", "%s%d", "null", " nbsp", "zero​width"}

func (r *rng) oneLine() string {
	var parts []string
	for i := 0; i < 1+r.n(4); i++ {
		parts = append(parts, words[r.n(len(words))])
	}
	s := strings.Join(parts, []string{" ", "  ", "-"}[r.n(3)])
	s = strings.ReplaceAll(s, "\t", " ")
	if r.n(5) == 0 {
		s = "  " + s + " " // leading / trailing blanks are data
	}
	return s
}

func (r *rng) message() string {
	switch r.n(6) {
	case 0:
		return "" // empty but valid
	case 1:
		return "   \n\t\n" // whitespace only
	case 2:
		return strings.Repeat(r.oneLine()+"\n", 200+r.n(300)) // long
	}
	var lines []string
	for i := 0; i < 1+r.n(5); i++ {
		lines = append(lines, words[r.n(len(words))]+" "+r.oneLine())
	}
	return strings.Join(lines, []string{"\n", "\r\n", "\n\n"}[r.n(3)])
}

func (r *rng) metadata() map[string]string {
	if r.n(3) > 0 {
		return nil
	}
	m := map[string]string{}
	for i := 0; i < 1+r.n(12); i++ {
		m[fmt.Sprintf("key-%s-%d", words[r.n(4)], i)] = r.message()
	}
	return m
}

// digest is a canonical rendering of everything an operation carries.
func ownMetadata(op dag.Operation) map[string]string {
	// the metadata an operation carries itself (AllMetadata also shows what later SetMetadata operations attached)
	switch o := op.(type) {
	case *bug.CreateOperation:
		return o.Metadata
	case *bug.AddCommentOperation:
		return o.Metadata
	case *bug.EditCommentOperation:
		return o.Metadata
	case *bug.SetTitleOperation:
		return o.Metadata
	case *bug.SetStatusOperation:
		return o.Metadata
	case *bug.LabelChangeOperation:
		return o.Metadata
	case *dag.SetMetadataOperation[*bug.Snapshot]:
		return o.Metadata
	case *dag.NoOpOperation[*bug.Snapshot]:
		return o.Metadata
	}
	return nil
}

func digest(op dag.Operation) string {
	var sb strings.Builder
	md := ownMetadata(op)
	keys := make([]string, 0, len(md))
	for k := range md {
		keys = append(keys, k)
	}
	sort.Strings(keys)
	fmt.Fprintf(&sb, "type=%d|author=%s|time=%d|", op.Type(), op.Author().Id(), op.Time().Unix())
	for _, k := range keys {
		fmt.Fprintf(&sb, "md[%q]=%q|", k, md[k])
	}
	switch o := op.(type) {
	case *bug.CreateOperation:
		fmt.Fprintf(&sb, "title=%q|message=%q|files=%v", o.Title, o.Message, o.Files)
	case *bug.AddCommentOperation:
		fmt.Fprintf(&sb, "message=%q|files=%v", o.Message, o.Files)
	case *bug.EditCommentOperation:
		fmt.Fprintf(&sb, "target=%s|message=%q|files=%v", o.Target, o.Message, o.Files)
	case *bug.SetTitleOperation:
		fmt.Fprintf(&sb, "title=%q|was=%q", o.Title, o.Was)
	case *bug.SetStatusOperation:
		fmt.Fprintf(&sb, "status=%s", o.Status)
	case *bug.LabelChangeOperation:
		fmt.Fprintf(&sb, "added=%q|removed=%q", o.Added, o.Removed)
	case *dag.SetMetadataOperation[*bug.Snapshot]:
		nk := make([]string, 0)
		for k := range o.NewMetadata {
			nk = append(nk, k)
		}
		sort.Strings(nk)
		fmt.Fprintf(&sb, "target=%s|", o.Target)
		for _, k := range nk {
			fmt.Fprintf(&sb, "new[%q]=%q|", k, o.NewMetadata[k])
		}
	case *dag.NoOpOperation[*bug.Snapshot]:
		sb.WriteString("noop")
	default:
		fmt.Fprintf(&sb, "%T", op)
	}
	return sha([]byte(sb.String()))[:16]
}

type session struct {
	r        *rng
	backend  string
	dir      string
	repoA    repository.ClockedRepo
	repoB    *repository.GoGitRepo
	authors  []*identity.Identity
	names    map[entity.Id]string
	files    map[repository.Hash][]byte
	pool     []repository.Hash
	unix     int64
	events   []*Event
	lastHead repository.Hash
}

func (s *session) opsOf(b *bug.Bug) []Op {
	res := []Op{}
	for _, op := range b.Operations() {
		res = append(res, Op{Id: op.Id().String(), D: digest(op), Au: s.names[op.Author().Id()]})
	}
	return res
}

func (s *session) newFile() repository.Hash {
	data := []byte(fmt.Sprintf("file content %d %s", s.r.n(1<<30), strings.Repeat("x", s.r.n(2000))))
	h, err := s.repoA.StoreData(data)
	hx.Must(err)
	s.files[h] = data
	s.pool = append(s.pool, h)
	return h
}

func (s *session) files2() []repository.Hash {
	// new files and files already attached earlier (to this operation, to another operation of the same staging area, to an
	// operation committed long ago), in any position
	var fs []repository.Hash
	n := s.r.n(5)
	for i := 0; i < n; i++ {
		switch {
		case len(fs) > 0 && s.r.n(4) == 0:
			fs = append(fs, fs[s.r.n(len(fs))])
		case len(s.pool) > 0 && s.r.n(3) == 0:
			fs = append(fs, s.pool[s.r.n(len(s.pool))])
		default:
			fs = append(fs, s.newFile())
		}
	}
	return fs
}

func (s *session) appendOne(b *bug.Bug) {
	r := s.r
	a := s.authors[r.n(len(s.authors))]
	s.unix += int64(r.n(3))
	var err error
	snap := b.Compile()
	switch r.n(8) {
	case 0, 1:
		_, _, err = bug.AddComment(b, a, s.unix, r.message(), s.files2(), r.metadata())
	case 2:
		target := snap.Comments[r.n(len(snap.Comments))].TargetId()
		_, _, err = bug.EditComment(b, a, s.unix, target, r.message(), s.files2(), r.metadata())
	case 3:
		_, err = bug.SetTitle(b, a, s.unix, r.oneLine(), r.metadata())
	case 4:
		if snap.Status == common.OpenStatus {
			_, err = bug.Close(b, a, s.unix, r.metadata())
		} else {
			_, err = bug.Open(b, a, s.unix, r.metadata())
		}
	case 5:
		_, err = bug.ForceChangeLabels(b, a, s.unix, []string{r.oneLine(), words[r.n(len(words)-8)]}[:1+r.n(2)], []string{words[r.n(4)]}[:r.n(2)], r.metadata())
	case 6:
		target := snap.Operations[r.n(len(snap.Operations))].Id()
		md := r.metadata()
		if md == nil {
			md = map[string]string{"k": "v"}
		}
		_, err = bug.SetMetadata(b, a, s.unix, target, md)
	case 7:
		op := dag.NewNoOpOp[*bug.Snapshot](bug.NoOpOp, a, s.unix)
		for k, v := range r.metadata() {
			op.SetMetadata(k, v)
		}
		b.Append(op)
	}
	hx.Must(err)
}

// storedIds walks the commits created since the last head and returns the hash of the stored form of every operation
func (s *session) storedSince(head repository.Hash) (ids []string, packs int) {
	var chain []repository.Hash
	h := head
	for h != s.lastHead && h != "" {
		c, err := s.repoA.ReadCommit(h)
		hx.Must(err)
		chain = append([]repository.Hash{h}, chain...)
		if len(c.Parents) == 0 {
			break
		}
		h = c.Parents[0]
	}
	for _, ch := range chain {
		c, err := s.repoA.ReadCommit(ch)
		hx.Must(err)
		entries, err := s.repoA.ReadTree(c.TreeHash)
		hx.Must(err)
		for _, e := range entries {
			if e.Name == "ops" {
				data, err := s.repoA.ReadData(e.Hash)
				hx.Must(err)
				var pack struct {
					Ops []json.RawMessage `json:"ops"`
				}
				hx.Must(json.Unmarshal(data, &pack))
				for _, raw := range pack.Ops {
					ids = append(ids, sha(raw))
				}
			}
		}
	}
	return ids, len(chain)
}

func (s *session) readEvent(path string, b *bug.Bug, err error, fileRepo repository.RepoData) {
	ev := &Event{Ev: "Read", Path: path, Ops: []Op{}, Stored: []string{}, Times: []int{0, 0}}
	if err != nil {
		ev.Err = err.Error()
		s.events = append(s.events, ev)
		return
	}
	ev.Eid = b.Id().String()
	ev.Ops = s.opsOf(b)
	verr := b.Validate()
	ev.Valid = verr == nil
	if verr != nil {
		ev.Err = "validate: " + verr.Error()
	}
	ev.Times = []int{int(b.CreateLamportTime()), int(b.EditLamportTime())}
	ev.Files = true
	for _, op := range b.Operations() {
		if wf, ok := op.(dag.OperationWithFiles); ok {
			for _, h := range wf.GetFiles() {
				data, err := fileRepo.ReadData(h)
				if err != nil || !bytes.Equal(data, s.files[h]) {
					ev.Files = false
					ev.Err = fmt.Sprintf("file %s of operation %s is missing or differs on %s", h, op.Id(), path)
				}
			}
		}
	}
	s.events = append(s.events, ev)
}

func runSession(seed uint64, backend string) []*Event {
	s := &session{r: &rng{s: seed*2685821657736338717 + 99}, backend: backend, names: map[entity.Id]string{}, files: map[repository.Hash][]byte{}, unix: 1_600_000_000}
	var gogitA *repository.GoGitRepo
	if backend == "gogit" {
		s.dir = hx.Scratch("fid")
		defer os.RemoveAll(s.dir)
		_ = hx.InitBare(filepath.Join(s.dir, "hub")).Close()
		gogitA = hx.InitRepo(filepath.Join(s.dir, "A"))
		s.repoB = hx.InitRepo(filepath.Join(s.dir, "B"))
		hx.Must(gogitA.AddRemote("origin", filepath.Join(s.dir, "hub")))
		hx.Must(s.repoB.AddRemote("origin", filepath.Join(s.dir, "hub")))
		s.repoA = gogitA
		defer gogitA.Close()
		defer s.repoB.Close()
	} else {
		s.repoA = repository.NewMockRepo()
	}
	for i := 0; i < 3; i++ {
		a, err := identity.NewIdentity(s.repoA, fmt.Sprintf("author %d %s", i, words[i+1]), "a@example.org")
		hx.Must(err)
		hx.Must(a.Commit(s.repoA))
		s.authors = append(s.authors, a)
		s.names[a.Id()] = fmt.Sprintf("u%d", i)
	}
	b, _, err := bug.Create(s.authors[0], s.unix, s.r.oneLine(), s.r.message(), s.files2(), s.r.metadata())
	hx.Must(err)
	s.events = append(s.events, &Event{Ev: "Append", Eid: b.Id().String(), Ops: s.opsOf(b), Stored: []string{}, Times: []int{0, 0}})
	steps := 3 + s.r.n(6)
	for st := 0; st < steps; st++ {
		if st > 0 {
			before := len(b.Operations())
			for k := 0; k < 1+s.r.n(4); k++ {
				s.appendOne(b)
			}
			all := s.opsOf(b)
			s.events = append(s.events, &Event{Ev: "Append", Eid: b.Id().String(), Ops: all[before:], Stored: []string{}, Times: []int{0, 0}})
		}
		if st > 0 && s.r.n(3) == 0 && st < steps-1 {
			continue // keep staging: the next commit takes several chunks of appends
		}
		ev := &Event{Ev: "Commit", Ops: []Op{}, Stored: []string{}, Times: []int{0, 0}}
		if err := b.Commit(s.repoA); err != nil {
			ev.Err = err.Error()
			s.events = append(s.events, ev)
			return s.events
		}
		ev.Eid = b.Id().String()
		ev.Ops = s.opsOf(b)
		head, err := s.repoA.ResolveRef("refs/bugs/" + b.Id().String())
		hx.Must(err)
		ev.Stored, ev.Packs = s.storedSince(head)
		if ev.Stored == nil {
			ev.Stored = []string{}
		}
		s.lastHead = head
		ev.Times = []int{int(b.CreateLamportTime()), int(b.EditLamportTime())}
		s.events = append(s.events, ev)

		// every reader
		rb, err := bug.Read(s.repoA, b.Id())
		s.readEvent(backend+":Read", rb, err, s.repoA)
		var found *bug.Bug
		var rerr error
		for se := range bug.ReadAll(s.repoA) {
			if se.Err != nil {
				rerr = se.Err
				break
			}
			if se.Entity.Id() == b.Id() {
				found = se.Entity
			}
		}
		if found == nil && rerr == nil {
			rerr = fmt.Errorf("ReadAll does not list the bug")
		}
		s.readEvent(backend+":ReadAll", found, rerr, s.repoA)
		if backend == "gogit" && (st == steps-1 || s.r.n(2) == 0) {
			// through the cache
			c, err := hx.OpenCache(gogitA)
			if err != nil {
				s.readEvent("gogit:cache", nil, err, s.repoA)
			} else {
				cb, err := c.Bugs().Resolve(b.Id())
				if err != nil {
					s.readEvent("gogit:cache", nil, err, s.repoA)
				} else {
					snap := cb.Snapshot()
					ev := &Event{Ev: "Read", Path: "gogit:cache", Eid: cb.Id().String(), Ops: []Op{}, Stored: []string{}, Valid: cb.Validate() == nil, Files: true,
						Times: []int{int(cb.CreateLamportTime()), int(cb.EditLamportTime())}}
					for _, op := range snap.Operations {
						ev.Ops = append(ev.Ops, Op{Id: op.Id().String(), D: digest(op), Au: s.names[op.Author().Id()]})
					}
					s.events = append(s.events, ev)
				}
				// the cache closes the repository it was given: reopen it
				_ = c.Close()
				gogitA, err = repository.OpenGoGitRepo(filepath.Join(s.dir, "A"), "git-bug", nil)
				hx.Must(err)
				s.repoA = gogitA
			}
			// on another replica
			_, err = identity.Push(s.repoA, "origin")
			hx.Must(err)
			_, err = bug.Push(s.repoA, "origin")
			hx.Must(err)
			hx.Must(identity.Pull(s.repoB, "origin"))
			resolvers := entity.Resolvers{&identity.Identity{}: identity.NewSimpleResolver(s.repoB)}
			merger, err := identity.ReadLocal(s.repoB, s.authors[0].Id())
			hx.Must(err)
			perr := bug.Pull(s.repoB, resolvers, "origin", merger)
			var bb *bug.Bug
			if perr == nil {
				bb, perr = bug.Read(s.repoB, b.Id())
			}
			s.readEvent("gogit:replica", bb, perr, s.repoB)
		}
	}
	if backend == "gogit" && s.r.n(2) == 0 {
		s.mergedPhase(b)
	}
	s.commitInvalid(b.Id())
	return s.events
}

// commitInvalid: the editing API checks what it appends; an operation appended by hand that does not validate (a blank title, a
// title with a line break, a message with an escape character, a label change without labels, an edit aiming at no id, no time)
// must not get past Commit: what is committed passes validation wherever it is read.
func (s *session) commitInvalid(id entity.Id) {
	fb, err := bug.Read(s.repoA, id)
	if err != nil {
		return // already reported by the reads
	}
	au := s.authors[0]
	s.unix++
	var op bug.Operation
	what := []string{"blank title", "title with a line break", "message with an escape character", "label change without labels", "edit aiming at no id", "no time"}[s.r.n(6)]
	switch what {
	case "blank title":
		op = bug.NewSetTitleOp(au, s.unix, "   ", "was")
	case "title with a line break":
		op = bug.NewSetTitleOp(au, s.unix, "first line\nsecond line", "was")
	case "message with an escape character":
		op = bug.NewAddCommentOp(au, s.unix, "colour \x1b[31m red", nil)
	case "label change without labels":
		op = bug.NewLabelChangeOperation(au, s.unix, nil, nil)
	case "edit aiming at no id":
		op = bug.NewEditCommentOp(au, s.unix, entity.Id("not an id"), "text", nil)
	default:
		op = bug.NewAddCommentOp(au, 0, "written at no time", nil)
	}
	before, _ := s.repoA.ResolveRef("refs/bugs/" + id.String())
	fb.Append(op)
	cerr := fb.Commit(s.repoA)
	after, _ := s.repoA.ResolveRef("refs/bugs/" + id.String())
	s.events = append(s.events, &Event{Ev: "CommitInvalid", Eid: id.String(), What: what, Refused: cerr != nil, Moved: after != before,
		Ops: []Op{}, Stored: []string{}, Times: []int{0, 0}, Reads: [][]Op{}})
}

// mergedPhase: both replicas hold the bug; each appends to it at the same time, both merge, and everybody reads several times.
func (s *session) mergedPhase(b *bug.Bug) {
	resolvers := entity.Resolvers{&identity.Identity{}: identity.NewSimpleResolver(s.repoB)}
	bb, err := bug.Read(s.repoB, b.Id())
	if err != nil {
		return // already reported by the replica read
	}
	nb := len(bb.Operations())
	for k := 0; k < 1+s.r.n(3); k++ {
		au, err := identity.ReadLocal(s.repoB, s.authors[s.r.n(len(s.authors))].Id())
		hx.Must(err)
		s.unix++
		if s.r.n(3) == 0 {
			_, err = bug.SetTitle(bb, au, s.unix, s.r.oneLine(), s.r.metadata())
		} else {
			_, _, err = bug.AddComment(bb, au, s.unix, s.r.message(), nil, s.r.metadata())
		}
		hx.Must(err)
	}
	hx.Must(bb.Commit(s.repoB))
	remote := s.opsOf(bb)[nb:]
	// the same moment on A
	before := len(b.Operations())
	for k := 0; k < 1+s.r.n(3); k++ {
		s.appendOne(b)
	}
	all := s.opsOf(b)
	s.events = append(s.events, &Event{Ev: "Append", Eid: b.Id().String(), Ops: all[before:], Stored: []string{}, Times: []int{0, 0}})
	ev := &Event{Ev: "Commit", Ops: []Op{}, Stored: []string{}, Times: []int{0, 0}}
	if err := b.Commit(s.repoA); err != nil {
		ev.Err = err.Error()
		s.events = append(s.events, ev)
		return
	}
	ev.Eid, ev.Ops = b.Id().String(), s.opsOf(b)
	head, err := s.repoA.ResolveRef("refs/bugs/" + b.Id().String())
	hx.Must(err)
	ev.Stored, ev.Packs = s.storedSince(head)
	if ev.Stored == nil {
		ev.Stored = []string{}
	}
	s.lastHead = head
	ev.Times = []int{int(b.CreateLamportTime()), int(b.EditLamportTime())}
	s.events = append(s.events, ev)
	// exchange: A pushes, B merges and pushes, A fast-forwards
	rm := &Event{Ev: "ReadMerged", Eid: b.Id().String(), Ops: remote, Stored: []string{}, Times: []int{0, 0}, Valid: true, Files: true, Reads: [][]Op{}}
	fail := func(err error) bool {
		if err != nil {
			rm.Err = err.Error()
			s.events = append(s.events, rm)
			return true
		}
		return false
	}
	_, err = bug.Push(s.repoA, "origin")
	if fail(err) {
		return
	}
	merger, err := identity.ReadLocal(s.repoB, s.authors[0].Id())
	hx.Must(err)
	if fail(bug.Pull(s.repoB, resolvers, "origin", merger)) {
		return
	}
	_, err = bug.Push(s.repoB, "origin")
	if fail(err) {
		return
	}
	resolversA := entity.Resolvers{&identity.Identity{}: identity.NewSimpleResolver(s.repoA)}
	if fail(bug.Pull(s.repoA, resolversA, "origin", s.authors[0])) {
		return
	}
	for k := 0; k < 12; k++ {
		repo := repository.ClockedRepo(s.repoA)
		if k%2 == 1 {
			repo = s.repoB
		}
		rb, err := bug.Read(repo, b.Id())
		if fail(err) {
			return
		}
		rm.Reads = append(rm.Reads, s.opsOf(rb))
		if verr := rb.Validate(); verr != nil {
			rm.Valid, rm.Err = false, "validate: "+verr.Error()
		}
		for _, op := range rb.Operations() {
			if wf, ok := op.(dag.OperationWithFiles); ok {
				for _, h := range wf.GetFiles() {
					data, err := repo.ReadData(h)
					if err != nil || !bytes.Equal(data, s.files[h]) {
						rm.Files, rm.Err = false, fmt.Sprintf("file %s of operation %s is missing or differs after the merge", h, op.Id())
					}
				}
			}
		}
	}
	s.events = append(s.events, rm)
}

type item struct {
	Seed    uint64 `json:"seed"`
	Backend string `json:"backend"`
}

func Worker(args []string) {
	hx.Serve(func(raw json.RawMessage) interface{} {
		var it item
		hx.Must(json.Unmarshal(raw, &it))
		return runSession(it.Seed, it.Backend)
	})
}

// Run: vh fidelity <out> <sessions>
func Run(args []string) {
	out := hx.NewWriter(args[0])
	defer out.Close()
	n := 20
	fmt.Sscan(args[1], &n)
	var items []json.RawMessage
	for i := 0; i < n; i++ {
		b, _ := json.Marshal(item{Seed: uint64(hx.Seed())*7919 + uint64(i), Backend: []string{"gogit", "mock", "gogit"}[i%3]})
		items = append(items, b)
	}
	res := hx.Isolated("fidelity-worker", items, 0)
	for _, r := range res {
		out.Put(&Event{Ev: "Reset", Ops: []Op{}, Stored: []string{}, Times: []int{0, 0}, Reads: [][]Op{}})
		var evs []*Event
		if err := json.Unmarshal(r, &evs); err != nil {
			var c map[string]string
			_ = json.Unmarshal(r, &c)
			out.Put(&Event{Ev: "Crash", Err: c["crash"], Ops: []Op{}, Stored: []string{}, Times: []int{0, 0}, Reads: [][]Op{}})
			continue
		}
		for _, e := range evs {
			if e.Reads == nil {
				e.Reads = [][]Op{}
			}
			out.Put(e)
		}
	}
}
