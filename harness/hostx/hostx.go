// Package hostx runs sessions of git-bug commands (the built binary) and library actions on a repository that also
// has branches, tags, a dirty work tree, a staged change and unrelated configuration, and records after every action a
// digest of everything that is not git-bug's and the verdict of `git fsck --strict` (C15).
package hostx

import (
	"bytes"
	"crypto/sha256"
	"encoding/hex"
	"fmt"
	"os"
	"os/exec"
	"path/filepath"
	"sort"
	"strings"
	"syscall"
	"time"

	"github.com/MichaelMure/git-bug/repository"

	"verif/harness/hx"
)

type Event struct {
	Ev      string `json:"ev"`
	Sess    int    `json:"sess"`
	Cmd     string `json:"cmd"`
	Exit    int    `json:"exit"`
	Foreign string `json:"foreign"`
	Fsck    bool   `json:"fsck"`
	FsckOut string `json:"fsckout"`
	Refs    bool   `json:"refsok"` // every ref created by git-bug lies in its namespaces
	Detail  string `json:"detail"`
	Out     string `json:"out"`
	Interop bool   `json:"interop"` // a step of stock git (or a look at what it left): must succeed
	Hung    bool   `json:"hung"`    // the command did not come back
}

type rng struct{ s uint64 }

func (r *rng) n(k int) int {
	r.s ^= r.s << 13
	r.s ^= r.s >> 7
	r.s ^= r.s << 17
	return int((r.s >> 3) % uint64(k))
}

func git(dir string, args ...string) (string, int) {
	cmd := exec.Command("git", args...)
	cmd.Dir = dir
	cmd.Env = append(os.Environ(), "GIT_CONFIG_NOSYSTEM=1", "HOME="+dir, "GIT_AUTHOR_NAME=h", "GIT_AUTHOR_EMAIL=h@x", "GIT_COMMITTER_NAME=h", "GIT_COMMITTER_EMAIL=h@x")
	out, err := cmd.CombinedOutput()
	code := 0
	if err != nil {
		code = 1
		if ee, ok := err.(*exec.ExitError); ok {
			code = ee.ExitCode()
		}
	}
	return string(out), code
}

func mustGit(dir string, args ...string) string {
	out, code := git(dir, args...)
	if code != 0 {
		hx.Die("git %v: %s", args, out)
	}
	return out
}

func isGitBugRef(r string) bool {
	if strings.HasPrefix(r, "refs/bugs/") || strings.HasPrefix(r, "refs/identities/") {
		return true
	}
	if strings.HasPrefix(r, "refs/remotes/") {
		p := strings.Split(r, "/")
		return len(p) >= 5 && (p[3] == "bugs" || p[3] == "identities")
	}
	return false
}

// foreign digests everything git-bug must leave alone.
func foreign(dir string) (digest string, detail string) {
	var sb strings.Builder
	for _, line := range strings.Split(mustGit(dir, "for-each-ref", "--format=%(refname) %(objectname)"), "\n") {
		f := strings.Fields(line)
		if len(f) == 2 && !isGitBugRef(f[0]) {
			sb.WriteString("ref " + line + "\n")
		}
	}
	head, _ := os.ReadFile(filepath.Join(dir, ".git", "HEAD"))
	sb.WriteString("HEAD " + string(head))
	idx, _ := os.ReadFile(filepath.Join(dir, ".git", "index"))
	h := sha256.Sum256(idx)
	sb.WriteString("index " + hex.EncodeToString(h[:8]) + "\n")
	sb.WriteString("status " + mustGit(dir, "status", "--porcelain", "--untracked-files=all"))
	_ = filepath.Walk(dir, func(p string, info os.FileInfo, err error) error {
		if err != nil {
			return nil
		}
		rel, _ := filepath.Rel(dir, p)
		if rel == ".git" || rel == ".config" || rel == ".cache" {
			return filepath.SkipDir
		}
		if !info.IsDir() {
			data, _ := os.ReadFile(p)
			hh := sha256.Sum256(data)
			fmt.Fprintf(&sb, "file %s %s\n", rel, hex.EncodeToString(hh[:6]))
		}
		return nil
	})
	var cfg []string
	for _, line := range strings.Split(mustGit(dir, "config", "--local", "--list"), "\n") {
		if line != "" && !strings.HasPrefix(line, "git-bug.") {
			cfg = append(cfg, line)
		}
	}
	sort.Strings(cfg)
	sb.WriteString("config " + strings.Join(cfg, ";") + "\n")
	// files directly under .git that git-bug has no business with
	for _, name := range []string{"description", "info/exclude", "hooks/pre-commit", "COMMIT_EDITMSG"} {
		data, _ := os.ReadFile(filepath.Join(dir, ".git", name))
		hh := sha256.Sum256(data)
		fmt.Fprintf(&sb, "gitfile %s %s\n", name, hex.EncodeToString(hh[:6]))
	}
	sum := sha256.Sum256([]byte(sb.String()))
	return hex.EncodeToString(sum[:10]), sb.String()
}

func refsOK(dir string, before map[string]bool) bool {
	for _, line := range strings.Split(mustGit(dir, "for-each-ref", "--format=%(refname)"), "\n") {
		if line == "" || before[line] {
			continue
		}
		if !isGitBugRef(line) {
			return false
		}
	}
	return true
}

func prepareHost(dir string) {
	hx.Must(os.MkdirAll(dir, 0o755))
	mustGit(dir, "init", "-q", "-b", "main")
	mustGit(dir, "config", "user.name", "Host User <host@example.org>") // the classic mistake: git itself strips the brackets when it commits
	mustGit(dir, "config", "user.email", "host@example.org")
	// identities for commits given the way people get them wrong: git cleans them when it writes a commit
	mustGit(dir, "config", "author.name", "Ann Lee <ann.lee@example.org>")
	mustGit(dir, "config", "committer.email", "c<d>@example.org")
	mustGit(dir, "config", "alias.co", "checkout")
	// other tools' sections whose names begin like git-bug's own (its section is exactly `git-bug`)
	mustGit(dir, "config", "git-bug-sync.interval", "5")
	mustGit(dir, "config", "git-bug-sync.remote", "backup")
	mustGit(dir, "config", "Git-Bug-Hooks.precommit", "true")
	mustGit(dir, "config", "gitbugzilla.url", "https://bugzilla.example.org")
	mustGit(dir, "config", "git-bu.x", "1")
	mustGit(dir, "config", "git.bug", "1")
	mustGit(dir, "config", "core.autocrlf", "false")
	hx.Must(os.WriteFile(filepath.Join(dir, "README.md"), []byte("# host project\n"), 0o644))
	hx.Must(os.MkdirAll(filepath.Join(dir, "src"), 0o755))
	hx.Must(os.WriteFile(filepath.Join(dir, "src", "main.c"), []byte("int main(){return 0;}\n"), 0o644))
	mustGit(dir, "add", ".")
	mustGit(dir, "commit", "-q", "-m", "initial")
	mustGit(dir, "tag", "v1.0")
	mustGit(dir, "tag", "-a", "v1.0-annotated", "-m", "annotated")
	mustGit(dir, "branch", "feature/x")
	mustGit(dir, "branch", "bugs") // branches that merely share a name (or the beginning of one) with git-bug's namespaces
	mustGit(dir, "branch", "bugs-triage")
	mustGit(dir, "branch", "bugsquash")
	mustGit(dir, "branch", "identities-old")
	mustGit(dir, "worktree", "add", "-q", dir+"-linked", "-b", "linked")                                 // a linked working tree (its .git is a file naming .git/worktrees/...)
	hx.Must(os.WriteFile(filepath.Join(dir, "src", "main.c"), []byte("int main(){return 1;}\n"), 0o644)) // dirty
	hx.Must(os.WriteFile(filepath.Join(dir, "staged.txt"), []byte("staged\n"), 0o644))
	mustGit(dir, "add", "staged.txt")
	hx.Must(os.WriteFile(filepath.Join(dir, "untracked.txt"), []byte("untracked\n"), 0o644))
	hx.Must(os.MkdirAll(filepath.Join(dir, ".git", "hooks"), 0o755))
	hx.Must(os.WriteFile(filepath.Join(dir, ".git", "hooks", "pre-commit"), []byte("#!/bin/sh\nexit 0\n"), 0o755))
}

type session struct {
	n      int
	r      *rng
	gitbug string
	root   string
	a, b   string
	bugs   []string
	events []*Event
	before map[string]bool
	// blobs attached to operations of bugs that still exist at the end (bugs with attachments are not removed by the session)
	attached map[string][]string // bug id -> blobs
}

func (s *session) gb(dir string, args ...string) (string, int) {
	cmd := exec.Command(s.gitbug, args...)
	cmd.Dir = dir
	cmd.Env = append(os.Environ(), "HOME="+s.root, "XDG_CONFIG_HOME="+filepath.Join(s.root, "xdg"), "EDITOR=true")
	var buf bytes.Buffer
	cmd.Stdout, cmd.Stderr = &buf, &buf
	cmd.SysProcAttr = &syscall.SysProcAttr{Setpgid: true}
	hx.Must(cmd.Start())
	done := make(chan error, 1)
	go func() { done <- cmd.Wait() }()
	var err error
	select {
	case err = <-done:
	case <-time.After(3 * time.Minute):
		// a command that does not come back is an outcome (exit status hungExit), not the driver's trouble
		_ = syscall.Kill(-cmd.Process.Pid, syscall.SIGKILL)
		<-done
		return fmt.Sprintf("git-bug %s did not return within 3 minutes", strings.Join(args, " ")), hungExit
	}
	code := 0
	if err != nil {
		code = 1
		if ee, ok := err.(*exec.ExitError); ok {
			code = ee.ExitCode()
		}
	}
	return buf.String(), code
}

const hungExit = -999

func (s *session) step(dir string, label string, f func() (string, int)) {
	out, code := f()
	ev := &Event{Ev: "Step", Sess: s.n, Cmd: label, Exit: code, Out: out, Hung: code == hungExit,
		Interop: strings.HasPrefix(label, "stock git") || strings.HasPrefix(label, "attachments") || strings.HasPrefix(label, "git-bug after gc")}
	if len(ev.Out) > 300 {
		ev.Out = ev.Out[:300]
	}
	ev.Foreign, ev.Detail = foreign(s.a)
	fo, fc := git(s.a, "fsck", "--strict", "--no-dangling")
	ev.Fsck = fc == 0
	ev.FsckOut = strings.TrimSpace(fo)
	if len(ev.FsckOut) > 400 {
		ev.FsckOut = ev.FsckOut[:400]
	}
	ev.Refs = refsOK(s.a, s.before)
	s.events = append(s.events, ev)
}

func (s *session) refreshBugs() {
	out, code := s.gb(s.a, "bug", "--format", "id")
	if code != 0 {
		return
	}
	s.bugs = nil
	for _, l := range strings.Split(out, "\n") {
		l = strings.TrimSpace(l)
		if len(l) == 64 {
			s.bugs = append(s.bugs, l)
		}
	}
}

func runSession(n int, seed uint64, gitbug string, steps int) []*Event {
	s := &session{n: n, r: &rng{s: seed*2685821657736338717 + 7}, gitbug: gitbug}
	s.root = hx.Scratch("host")
	defer os.RemoveAll(s.root)
	s.a, s.b = filepath.Join(s.root, "A"), filepath.Join(s.root, "B")
	hub := filepath.Join(s.root, "hub.git")
	prepareHost(s.a)
	mustGit(s.root, "init", "-q", "--bare", hub)
	mustGit(s.a, "remote", "add", "origin", hub)
	mustGit(s.a, "push", "-q", "origin", "main", "bugs-triage", "bugsquash", "identities-old", "feature/x") // not "bugs": refs/remotes/origin/bugs would be in the way of git-bug's own refs/remotes/origin/bugs/<id>
	mustGit(s.a, "fetch", "-q", "origin")                                                                   // remote-tracking branches refs/remotes/origin/bugs-triage ... exist from the start
	mustGit(s.root, "clone", "-q", hub, s.b)
	mustGit(s.b, "config", "user.name", "b user")
	mustGit(s.b, "config", "user.email", "b@example.org")
	s.before = map[string]bool{}
	for _, line := range strings.Split(mustGit(s.a, "for-each-ref", "--format=%(refname)"), "\n") {
		s.before[line] = true
	}
	start, detail := foreign(s.a)
	s.events = append(s.events, &Event{Ev: "Start", Sess: n, Foreign: start, Detail: detail, Fsck: true, Refs: true})

	s.step(s.a, "user new", func() (string, int) {
		return s.gb(s.a, "user", "new", "-n", "Host User", "-e", "host@example.org", "--non-interactive")
	})
	_, _ = s.gb(s.b, "user", "new", "-n", "B User", "-e", "b@example.org", "--non-interactive")
	k := 0
	for i := 0; i < steps; i++ {
		k++
		s.refreshBugs()
		pick := func() string { return s.bugs[s.r.n(len(s.bugs))][:10] }
		choice := s.r.n(17)
		if len(s.bugs) == 0 {
			choice = 0
		}
		switch choice {
		case 0, 1:
			s.step(s.a, "bug new", func() (string, int) {
				return s.gb(s.a, "bug", "new", "-t", fmt.Sprintf("title %d é", k), "-m", fmt.Sprintf("message %d\nsecond line", k), "--non-interactive")
			})
		case 2, 3:
			id := pick()
			s.step(s.a, "bug comment new", func() (string, int) {
				return s.gb(s.a, "bug", "comment", "new", id, "-m", fmt.Sprintf("comment %d", k), "--non-interactive")
			})
		case 4:
			id := pick()
			s.step(s.a, "bug label new", func() (string, int) {
				return s.gb(s.a, "bug", "label", "new", id, fmt.Sprintf("l%d", k%3), "needs review")
			})
		case 5:
			id := pick()
			s.step(s.a, "bug label rm", func() (string, int) { return s.gb(s.a, "bug", "label", "rm", id, fmt.Sprintf("l%d", k%3)) })
		case 6:
			id := pick()
			s.step(s.a, "bug status close", func() (string, int) { return s.gb(s.a, "bug", "status", "close", id) })
		case 7:
			id := pick()
			s.step(s.a, "bug status open", func() (string, int) { return s.gb(s.a, "bug", "status", "open", id) })
		case 8:
			id := pick()
			s.step(s.a, "bug title edit", func() (string, int) {
				return s.gb(s.a, "bug", "title", "edit", id, "-t", fmt.Sprintf("new title %d", k), "--non-interactive")
			})
		case 9:
			s.step(s.a, "push", func() (string, int) { return s.gb(s.a, "push", "origin") })
		case 10:
			// the other clone creates something and pushes it; we pull (fetch + merge)
			_, _ = s.gb(s.b, "pull", "origin")
			_, _ = s.gb(s.b, "bug", "new", "-t", fmt.Sprintf("from b %d", k), "-m", "message", "--non-interactive")
			_, _ = s.gb(s.b, "push", "origin")
			// the remote also got a tag and a branch this clone has not fetched: none of git-bug's business
			mustGit(s.b, "tag", fmt.Sprintf("from-b-%d", k), "origin/main")
			mustGit(s.b, "push", "-q", "origin", fmt.Sprintf("from-b-%d", k))
			mustGit(s.b, "branch", fmt.Sprintf("topic-b-%d", k), "origin/main")
			mustGit(s.b, "push", "-q", "origin", fmt.Sprintf("topic-b-%d", k))
			s.step(s.a, "pull", func() (string, int) { return s.gb(s.a, "pull", "origin") })
		case 11:
			id := pick()
			s.step(s.a, "bug rm", func() (string, int) {
				o, c := s.gb(s.a, "bug", "rm", id)
				for bid := range s.attached {
					if _, rc := git(s.a, "show-ref", "--verify", "--quiet", "refs/bugs/"+bid); rc != 0 {
						delete(s.attached, bid) // the bug is gone (whatever the command reported): its attachments may go with it
					}
				}
				return o, c
			})
		case 12:
			id := pick()
			s.step(s.a, "bug select+show", func() (string, int) {
				_, _ = s.gb(s.a, "bug", "select", id)
				o, c := s.gb(s.a, "bug", "show")
				_, _ = s.gb(s.a, "bug", "deselect")
				return o, c
			})
		case 13:
			s.step(s.a, "bug + label + user listings", func() (string, int) {
				_, _ = s.gb(s.a, "label")
				_, _ = s.gb(s.a, "user")
				return s.gb(s.a, "bug", "status:open")
			})
		case 14:
			// library: a bug with attached files, through the cache
			s.step(s.a, "library: new bug with files", func() (string, int) {
				repo, err := repository.OpenGoGitRepo(s.a, "git-bug", nil)
				if err != nil {
					return err.Error(), 1
				}
				c, err := hx.OpenCache(repo)
				if err != nil {
					return err.Error(), 1
				}
				defer c.Close()
				h1, err := c.StoreData([]byte(fmt.Sprintf("attachment %d", k)))
				if err != nil {
					return err.Error(), 1
				}
				att := []string{string(h1)}
				b, _, err := c.Bugs().NewWithFiles(fmt.Sprintf("with files %d", k), "see attachment", []repository.Hash{h1})
				if err != nil {
					return err.Error(), 1
				}
				// several operations carrying files in one commit: new files, files attached before, the same file twice
				var hs []repository.Hash
				for j := 0; j < 4; j++ {
					h, err := c.StoreData([]byte(fmt.Sprintf("attachment %d.%d", k, j)))
					if err != nil {
						return err.Error(), 1
					}
					hs = append(hs, h)
					att = append(att, string(h))
				}
				_, _, err = b.AddCommentWithFiles("another", []repository.Hash{hs[0]})
				if err == nil {
					_, _, err = b.AddCommentWithFiles("and another", []repository.Hash{h1, hs[1], hs[0], hs[2]})
				}
				if err == nil {
					_, _, err = b.AddCommentWithFiles("and a last one", []repository.Hash{hs[3], hs[3]})
				}
				if err == nil {
					err = b.Commit()
				}
				if err != nil {
					return err.Error(), 1
				}
				if s.attached == nil {
					s.attached = map[string][]string{}
				}
				s.attached[b.Id().String()] = att
				// and a bug whose only commit carries exactly one file
				lone, err := c.StoreData([]byte(fmt.Sprintf("lone attachment %d", k)))
				if err != nil {
					return err.Error(), 1
				}
				b2, _, err := c.Bugs().NewWithFiles(fmt.Sprintf("one file %d", k), "see the attachment", []repository.Hash{lone})
				if err != nil {
					return err.Error(), 1
				}
				s.attached[b2.Id().String()] = []string{string(lone)}
				// and files attached by editing: the body of a bug and a later comment get files they did not have, in a commit of their own
				// and together with another operation; the texts do not mention the files
				author, err := c.GetUserIdentity()
				if err != nil {
					return err.Error(), 1
				}
				b3, _, err := c.Bugs().New(fmt.Sprintf("files by edit %d", k), "nothing attached yet")
				if err != nil {
					return err.Error(), 1
				}
				var es []repository.Hash
				for j := 0; j < 3; j++ {
					h, err := c.StoreData([]byte(fmt.Sprintf("attached by an edit %d.%d", k, j)))
					if err != nil {
						return err.Error(), 1
					}
					es = append(es, h)
				}
				body := b3.Snapshot().Comments[0].CombinedId()
				if _, err = b3.EditCommentWithFilesRaw(author, time.Now().Unix(), body, "now with a file", []repository.Hash{es[0]}, nil); err == nil {
					err = b3.Commit()
				}
				if err != nil {
					return err.Error(), 1
				}
				cid, _, err := b3.AddComment("a comment without files")
				if err == nil {
					_, err = b3.EditCommentWithFilesRaw(author, time.Now().Unix(), cid, "a comment with files", []repository.Hash{es[1], es[2]}, nil)
				}
				if err == nil {
					err = b3.Commit()
				}
				if err != nil {
					return err.Error(), 1
				}
				s.attached[b3.Id().String()] = []string{string(es[0]), string(es[1]), string(es[2])}
				// and file lists that name no object: strings that are no hashes at all, and a well-formed hash of a blob that does not
				// exist. Refused or accepted, what is written has to be sound (the checks after this step look at it)
				// ... and hashes of objects that exist and are no files: the commit and the tree the host's HEAD names
				headCommit, _ := git(s.a, "rev-parse", "HEAD")
				headTree, _ := git(s.a, "rev-parse", "HEAD^{tree}")
				for j, bogus := range []string{"thisisnotthehashofanygitobjectxxxxxxxxxx", strings.Repeat("g", 64), strings.Repeat("Z", 40), "abc", "",
					strings.Repeat("0", 40), "0123456789abcdef0123456789abcdef01234567", strings.Repeat("ab", 32), strings.TrimSpace(headCommit), strings.TrimSpace(headTree)} {
					bb, _, err := c.Bugs().NewWithFiles(fmt.Sprintf("bogus file %d.%d", k, j), "see the attachment", []repository.Hash{repository.Hash(bogus)})
					if err == nil {
						_, _, err = bb.AddCommentWithFiles("once more", []repository.Hash{h1, repository.Hash(bogus)})
						if err == nil {
							err = bb.Commit()
						}
					}
					_ = err
				}
				return "ok", 0
			})
		case 16:
			// git-bug started from a linked working tree works on the repository itself: what it writes there is what stock git
			// sees in the main working tree, and git's private directory of the linked tree gets nothing
			s.step(s.a, "stock git sees what git-bug writes from a linked working tree", func() (string, int) {
				before, _ := git(s.a, "for-each-ref", "--format=%(refname)", "refs/bugs/")
				out, code := s.gb(s.a+"-linked", "bug", "new", "-t", fmt.Sprintf("from the linked tree %d", k), "-m", "message")
				if code != 0 {
					return "git-bug bug new in the linked working tree: " + out, 1
				}
				after, _ := git(s.a, "for-each-ref", "--format=%(refname)", "refs/bugs/")
				if len(strings.Fields(after)) != len(strings.Fields(before))+1 {
					return "the bug created from the linked working tree is not under refs/bugs of the repository", 1
				}
				for _, name := range []string{"git-bug", "refs/bugs", "refs/identities", "objects"} {
					if _, err := os.Stat(filepath.Join(s.a, ".git", "worktrees", filepath.Base(s.a)+"-linked", name)); err == nil {
						return "git-bug wrote " + name + " into git's private directory of the linked working tree", 1
					}
				}
				return "ok", 0
			})
		case 15:
			id := pick()
			s.step(s.a, "bug comment edit", func() (string, int) {
				out, _ := s.gb(s.a, "bug", "comment", id)
				_ = out
				return s.gb(s.a, "bug", "show", id, "--field", "title")
			})
		}
	}
	// stock git must be able to push, clone and collect what git-bug wrote, and git-bug to read it afterwards
	s.step(s.a, "stock git: push refs/bugs and refs/identities", func() (string, int) {
		return git(s.a, "push", "-q", hub, "+refs/bugs/*:refs/bugs/*", "+refs/identities/*:refs/identities/*")
	})
	s.step(s.a, "stock git: gc --prune=now", func() (string, int) { return git(s.a, "gc", "-q", "--prune=now") })
	s.step(s.a, "git-bug after gc: bug listing", func() (string, int) { return s.gb(s.a, "bug") })
	// attachments are reachable from the bug refs: a pruning gc keeps them
	s.step(s.a, "attachments after gc", func() (string, int) {
		for _, hs := range s.attached {
			for _, h := range hs {
				if o, c := git(s.a, "cat-file", "-e", h); c != 0 {
					return "attached file " + h + " is gone after git gc --prune=now: " + o, 1
				}
			}
		}
		return "ok", 0
	})
	s.step(s.a, "stock git: mirror clone + fsck", func() (string, int) {
		m := filepath.Join(s.root, "mirror.git")
		if o, c := git(s.root, "clone", "-q", "--mirror", hub, m); c != 0 {
			return o, c
		}
		if o, c := git(m, "fsck", "--strict", "--no-dangling"); c != 0 {
			return o, c
		}
		for _, hs := range s.attached {
			for _, h := range hs {
				if o, c := git(m, "cat-file", "-e", h); c != 0 {
					return "attached file " + h + " did not travel with a stock git push and clone: " + o, 1
				}
			}
		}
		return "ok", 0
	})
	if n%3 == 0 {
		// everything git-bug ever wrote goes away, nothing else does
		s.step(s.a, "wipe", func() (string, int) { return s.gb(s.a, "wipe") })
	}
	return s.events
}

// Run: vh host <out> <sessions> <steps> <git-bug binary>
func Run(args []string) {
	out := hx.NewWriter(args[0])
	defer out.Close()
	sessions, steps := 4, 14
	fmt.Sscan(args[1], &sessions)
	fmt.Sscan(args[2], &steps)
	gitbug := args[3]
	res := make([][]*Event, sessions)
	hx.Parallel(sessions, 8, func(i int) {
		res[i] = runSession(i+1, uint64(hx.Seed())*977+uint64(i), gitbug, steps)
	})
	for _, evs := range res {
		for _, e := range evs {
			out.Put(e)
		}
	}
}
