SPECIFICATION Spec
CONSTANTS G = {1, 2}  MaxOps = 3  Recheck = TRUE  Eviction = TRUE
INVARIANTS AckStored
CHECK_DEADLOCK FALSE
