----------------------------- MODULE MC_LockOpen -----------------------------
(* Taking the lock, in steps.  Atomic = TRUE: the pid is written to a temporary file which is then renamed to the lock
   file (one step: Publish).  Atomic = FALSE: the lock file is created empty and the pid written afterwards (Create, Fill);
   a process may die in between (Die), and an empty lock names nobody: every later open is refused for good (it cannot be
   told apart from the lock of a process that is about to write its pid).  UsableAfterDeath is what C19 demands of a lock
   left by a dead holder; the witness cfg (Atomic = FALSE) must violate it.
   lock: 0 = no file, -1 = file without content, h = file naming h. *)
EXTENDS Integers, FiniteSets, TLC
CONSTANTS Holder, Atomic
VARIABLES lock, taking, alive      \* taking: processes between the creation of their lock and its content
vars == <<lock, taking, alive>>

Init == lock = 0 /\ taking = {} /\ alive = {}
Free == lock = 0 \/ (lock > 0 /\ lock \notin alive /\ lock \notin taking)     \* no lock, or the lock of a dead process
Publish(h) == Atomic /\ h \notin alive /\ h \notin taking /\ Free /\ lock' = h /\ alive' = alive \cup {h} /\ UNCHANGED taking
Create(h) == ~Atomic /\ h \notin alive /\ h \notin taking /\ Free /\ lock' = -1 /\ taking' = taking \cup {h} /\ UNCHANGED alive
Fill(h) == h \in taking /\ lock' = h /\ taking' = taking \ {h} /\ alive' = alive \cup {h}
Die(h) == /\ h \in taking \cup alive /\ taking' = taking \ {h} /\ alive' = alive \ {h} /\ UNCHANGED lock
Close(h) == h \in alive /\ alive' = alive \ {h} /\ lock' = (IF lock = h THEN 0 ELSE lock) /\ UNCHANGED taking
Next == \E h \in Holder : Publish(h) \/ Create(h) \/ Fill(h) \/ Die(h) \/ Close(h)
Spec == Init /\ [][Next]_vars

(* when nobody is alive nor taking the lock, the repository can be opened *)
UsableAfterDeath == (alive = {} /\ taking = {}) => Free
AtMostOne == Cardinality(alive) <= 1
=============================================================================
