------------------------------- MODULE Cache -------------------------------
(* The repository cache (cache/repo_cache.go, subcache.go, cached.go) seen from its users: two users on two
   repositories sharing a remote.  The cache serves listing excerpts, resolved entities, labels, query results and
   full-text hits; C11 says that at every quiescent point (no uncommitted operation staged in that repository) all of
   it equals what a cache rebuilt from the git data serves.

   The content of bugs is abstracted away (it is C10's and C01's subject): the model tracks which bugs exist where
   (local ref, remote-tracking ref, hub), what is staged, whether the cache is open, and, per bug, whether the three
   derived stores of the cache (excerpt, search index document, loaded instance) are up to date with the git data
   ("fresh").  Every action says which stores it must refresh; CacheAgrees is the invariant that at quiescent points
   everything is fresh and the cache lists exactly the bugs that have a local ref. *)
EXTENDS Integers, FiniteSets, Sequences

CONSTANTS Replica, NBug, MaxSize

VARIABLES have,      \* have[r]: bugs with a local ref
          trk,       \* trk[r]: bugs with a remote-tracking ref
          hub,       \* bugs in the shared remote
          hubnew,    \* hubnew[r]: bugs whose hub version differs from what r last merged (content moved on the remote)
          staged,    \* staged[r]: bugs with uncommitted operations in the cache of r
          listed,    \* listed[r]: bugs the cache of r has an excerpt for
          indexed,   \* indexed[r]: bugs the search index of r has a document for
          fresh,     \* fresh[r]: bugs whose excerpt, index document and loaded instance (if any) reflect the git data
          size,      \* size[r]: maximum number of loaded entities
          made,      \* number of bugs created so far (bug numbers are never reused, also after a removal)
          res

vars == <<have, trk, hub, hubnew, staged, listed, indexed, fresh, size, made, res>>
Bugs == 1..NBug

Init ==
  /\ have = [r \in Replica |-> {}] /\ trk = [r \in Replica |-> {}] /\ hub = {}
  /\ hubnew = [r \in Replica |-> {}]
  /\ staged = [r \in Replica |-> {}]
  /\ listed = [r \in Replica |-> {}] /\ indexed = [r \in Replica |-> {}] /\ fresh = [r \in Replica |-> {}]
  /\ size = [r \in Replica |-> MaxSize]
  /\ made = 0
  /\ res = "none"

NextBug == made + 1

Quiescent(r) == staged[r] = {}

(* new bug: written to git at once; excerpt, index document and instance created from it *)
CNew(r) ==
  /\ NextBug \in Bugs
  /\ LET b == NextBug IN
     /\ have' = [have EXCEPT ![r] = @ \cup {b}]
     /\ listed' = [listed EXCEPT ![r] = @ \cup {b}]
     /\ indexed' = [indexed EXCEPT ![r] = @ \cup {b}]
     /\ fresh' = [fresh EXCEPT ![r] = @ \cup {b}]
  /\ made' = made + 1
  /\ res' = "new"
  /\ UNCHANGED <<trk, hub, hubnew, staged, size>>

(* an edit through the cache stages an operation: excerpt and index follow the staged state, git does not yet *)
CEdit(r, b) ==
  /\ b \in have[r]
  /\ staged' = [staged EXCEPT ![r] = @ \cup {b}]
  /\ res' = "edit"
  /\ UNCHANGED <<have, trk, hub, hubnew, listed, indexed, fresh, size, made>>

(* commit: git catches up with the instance; other replicas now lag behind if they had merged this bug *)
CCommit(r, b) ==
  /\ b \in staged[r]
  /\ staged' = [staged EXCEPT ![r] = @ \ {b}]
  /\ fresh' = [fresh EXCEPT ![r] = @ \cup {b}]
  /\ res' = "commit"
  /\ UNCHANGED <<have, trk, hub, hubnew, listed, indexed, size, made>>

CPush(r) ==
  /\ hub' = hub \cup have[r]
  /\ trk' = [trk EXCEPT ![r] = @ \cup have[r]]
  /\ hubnew' = [x \in Replica |-> IF x = r THEN hubnew[x] ELSE hubnew[x] \cup (have[r] \cap have[x])]
  /\ res' = "push"
  /\ UNCHANGED <<have, staged, listed, indexed, fresh, size, made>>

(* pull = fetch + merge of every remote-tracking entity; every new or updated bug must become visible: excerpt, index
   document and instance are refreshed from the merged history *)
CPull(r) ==
  /\ Quiescent(r)
  /\ trk' = [trk EXCEPT ![r] = @ \cup hub]
  /\ have' = [have EXCEPT ![r] = @ \cup trk'[r]]
  /\ listed' = [listed EXCEPT ![r] = @ \cup trk'[r]]
  /\ indexed' = [indexed EXCEPT ![r] = @ \cup trk'[r]]
  /\ fresh' = [fresh EXCEPT ![r] = @ \cup trk'[r]]
  /\ hubnew' = [hubnew EXCEPT ![r] = {}]
  /\ res' = "pull"
  /\ UNCHANGED <<hub, staged, size, made>>

(* fetch alone: the remote-tracking refs follow the hub, nothing is merged, the cache serves what it served; a pull that
   follows still merges everything that is tracked (the fetch inside it finding nothing new does not mean nothing to merge) *)
CFetch(r) ==
  /\ trk' = [trk EXCEPT ![r] = @ \cup hub]
  /\ res' = "fetch"
  /\ UNCHANGED <<have, hub, hubnew, staged, listed, indexed, fresh, size, made>>

CRemove(r, b) ==
  /\ b \in listed[r]
  /\ have' = [have EXCEPT ![r] = @ \ {b}]
  /\ trk' = [trk EXCEPT ![r] = @ \ {b}]
  /\ listed' = [listed EXCEPT ![r] = @ \ {b}]
  /\ indexed' = [indexed EXCEPT ![r] = @ \ {b}]
  /\ staged' = [staged EXCEPT ![r] = @ \ {b}]
  /\ fresh' = [fresh EXCEPT ![r] = @ \ {b}]
  /\ res' = "remove"
  /\ UNCHANGED <<hub, hubnew, size, made>>

(* resolving under a small cache size evicts clean instances; an evicted and re-read instance is fresh by construction *)
CResolveAll(r, n) ==
  /\ size' = [size EXCEPT ![r] = n]
  /\ res' = "resolve"
  /\ UNCHANGED <<have, trk, hub, hubnew, staged, listed, indexed, fresh, made>>

(* close and reopen: excerpts and index are persisted; loaded instances are dropped; nothing staged survives a close *)
CReopen(r) ==
  /\ Quiescent(r)
  /\ res' = "reopen"
  /\ UNCHANGED <<have, trk, hub, hubnew, staged, listed, indexed, fresh, size, made>>

(* ---- C11 ---- *)
CacheAgrees ==
  \A r \in Replica : Quiescent(r) =>
     /\ listed[r] = have[r]
     /\ indexed[r] = have[r]
     /\ have[r] \subseteq fresh[r]
(* a removed bug stays removed until a new fetch brings it back (C14) *)
TypeOK == \A r \in Replica : staged[r] \subseteq have[r] /\ listed[r] \subseteq Bugs
=============================================================================
