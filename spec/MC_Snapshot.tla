---------------------------- MODULE MC_Snapshot ----------------------------
(* Every sequence  create . s  with |s| <= MaxLen over the call alphabet; each sequence is one state, checked against
   the theorems of Snapshot and printed with the snapshot the specification prescribes (one implementation test per
   transition: every prefix of a sequence is itself a state). *)
EXTENDS Snapshot, TLC, Json

CONSTANTS MaxLen, Small

VARIABLES calls, S

(* wf: the call attaches files (create, comment, edit); elsewhere FALSE.  To keep the alphabet small author 1 attaches files
   to what it adds or edits and author 2 does not; creation comes in both forms (two initial states). *)
CallF(k, a, t, s, add, rem, key, wf) == [k |-> k, a |-> a, t |-> t, s |-> s, add |-> add, rem |-> rem, key |-> key, wf |-> wf]
Call(k, a, t, s, add, rem, key) == CallF(k, a, t, s, add, rem, key, k \in {"comment", "edit"} /\ a = 1)

Adds == {<<>>, <<1>>, <<2, 1>>, <<1, 1>>, <<3, 1, 2>>}
Rems == {<<>>, <<1>>, <<3, 1>>}
Alphabet ==
  {Call("comment", a, "", "", <<>>, <<>>, "") : a \in {1, 2}} \cup
  {Call("edit", a, t, "", <<>>, <<>>, "") : a \in {1, 2}, t \in {"create", "last", "unknown"}} \cup
  {CallF("editsame", 2, t, "", <<>>, <<>>, "", wf) : t \in {"create", "last"}, wf \in BOOLEAN} \cup
  {Call("title", a, "", "", <<>>, <<>>, "") : a \in {1, 2}} \cup
  {Call("titlestale", 2, "", "", <<>>, <<>>, "")} \cup
  {Call("status", a, "", s, <<>>, <<>>, "") : a \in {1, 2}, s \in {"open", "closed"}} \cup
  ({Call("labelf", 2, "", "", ad, rm, "") : ad \in Adds, rm \in Rems} \ {Call("labelf", 2, "", "", <<>>, <<>>, "")}) \cup
  ({Call("label", 2, "", "", ad, rm, "") : ad \in Adds, rm \in Rems} \ {Call("label", 2, "", "", <<>>, <<>>, "")}) \cup
  {Call("meta", 1, t, "", <<>>, <<>>, key) : t \in {"create", "last"}, key \in Keys} \cup
  {Call("metaempty", 2, t, "", <<>>, <<>>, "k1") : t \in {"create", "last"}} \cup
  {Call("noop", 2, "", "", <<>>, <<>>, "")}

SmallAlphabet ==
  {Call("comment", 2, "", "", <<>>, <<>>, ""), Call("edit", 2, "create", "", <<>>, <<>>, ""), Call("edit", 1, "last", "", <<>>, <<>>, ""), CallF("editsame", 2, "create", "", <<>>, <<>>, "", TRUE),
   Call("title", 2, "", "", <<>>, <<>>, ""), Call("titlestale", 2, "", "", <<>>, <<>>, ""), Call("status", 1, "", "closed", <<>>, <<>>, ""),
   Call("labelf", 2, "", "", <<2, 1>>, <<>>, ""), Call("labelf", 2, "", "", <<1, 1>>, <<1>>, ""), Call("label", 2, "", "", <<2, 1>>, <<1>>, ""),
   Call("label", 2, "", "", <<>>, <<1>>, ""), Call("meta", 1, "last", "", <<>>, <<>>, "k1"), Call("meta", 1, "create", "", <<>>, <<>>, "k0"), Call("metaempty", 2, "last", "", <<>>, <<>>, "k1"),
   Call("noop", 2, "", "", <<>>, <<>>, "")}

Alpha == IF Small THEN SmallAlphabet ELSE Alphabet

Init == \E wf \in BOOLEAN : LET c == CallF("create", 1, "", "", <<>>, <<>>, "", wf) IN calls = <<c>> /\ S = Apply(Empty, c)
Next == /\ Len(calls) <= MaxLen
        /\ \E c \in Alpha : calls' = Append(calls, c) /\ S' = Apply(S, c)
Spec == Init /\ [][Next]_<<calls, S>>

InvWellFormed == WellFormed(S)
InvRepeatable == Compile(Empty, calls) = S                     \* compiling from scratch = maintaining incrementally
InvTitleStatus == S.title > 0 /\ S.status \in {"open", "closed"}
InvOneItemPerStateChange ==
  Len(S.timeline) = Cardinality({i \in DOMAIN calls : calls[i].k \in {"create", "comment", "title", "titlestale", "status", "labelf"}})
                    + (S.n - Cardinality({i \in DOMAIN calls : calls[i].k # "label"}))   \* label calls that produced an operation

Emit == PrintT(ToJson([calls |-> calls, exp |-> S]))
=============================================================================
