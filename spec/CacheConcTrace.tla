-------------------------- MODULE CacheConcTrace --------------------------
(* End-state validation of real concurrent runs (harness/concx): per run the acknowledged operations, the operations of
   calls that returned an error after the operation existed (their fate is open), what is stored per bug, and whether
   anything deadlocked, panicked, or left the cache in disagreement with a rebuild; plus runs of concurrent increments of
   one persisted clock. *)
EXTENDS Integers, Sequences, FiniteSets, Json, IOUtils, TLC
VARIABLE l
Trace == ndJsonDeserialize(IOEnv.TRACE)
ev == Trace[l]
AsSet(s) == {s[i] : i \in DOMAIN s}
OpsOf(acks, b) == {acks[i].op : i \in {j \in DOMAIN acks : acks[j].bug = b}}
NoDup(s) == Cardinality(AsSet(s)) = Len(s)

BugOK(e, b) ==
  /\ b.readable /\ b.valid                                        \* the stored history is a valid chain
  /\ NoDup(b.stored)                                              \* nothing stored twice
  /\ OpsOf(e.acks, b.bug) \subseteq AsSet(b.stored)               \* every acknowledged operation is stored
  /\ AsSet(b.stored) \subseteq OpsOf(e.acks, b.bug) \cup OpsOf(e.maybes, b.bug)   \* and nothing else (but calls that reported an error)

RunOK(e) ==
  /\ e.crash = "" /\ ~e.deadlock /\ e.panics = <<>>
  /\ \A i \in DOMAIN e.bugs : BugOK(e, e.bugs[i])
  /\ e.agrees
  /\ e.stale = ""          \* at every barrier between rounds an excerpt is what its instance holds
  /\ e.clockfile = e.clockmem

ClockOK(e) == e.mem = e.file /\ e.unique /\ e.mem = e.max

Init == l = 1
Next == /\ l <= Len(Trace)
        /\ IF ev.ev = "Run" THEN RunOK(ev) ELSE ClockOK(ev)
        /\ l' = l + 1
Spec == Init /\ [][Next]_l
TraceAccepted == TLCGet("stats").diameter - 1 = Len(Trace)
=============================================================================
