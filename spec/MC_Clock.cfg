SPECIFICATION Spec
CONSTANTS MaxLen = 4  MaxV = 4
INVARIANTS MemGeDisk DominatesSeen Emit
PROPERTIES Monotone IncStrict
CHECK_DEADLOCK FALSE
