---------------------------- MODULE CrashTrace ----------------------------
(* one line per (scenario, crash point): the mutation sequence of the uninterrupted call as observed through the
   fault layer, the crash point, and what the parent found after re-opening the repository. *)
EXTENDS Crash, Json, IOUtils, TLC
VARIABLE l
Trace == ndJsonDeserialize(IOEnv.TRACE)
ev == Trace[l]
Init == l = 1
Next == /\ l <= Len(Trace)
        /\ ev.n = Len(ev.mutations)
        /\ ev.k \in 1..(ev.n + 1)
        \* compared with TRUE so that TLC evaluates the predicates as plain values: as conjuncts of the action their
        \* existential quantifiers would be enumerated as alternatives (a product over every object of a long call)
        /\ WellFormed(ev.mutations) = TRUE
        /\ Safe(ev.mutations, ev.k, ev) = TRUE
        /\ l' = l + 1
Spec == Init /\ [][Next]_l
TraceAccepted == TLCGet("stats").diameter - 1 = Len(Trace)
=============================================================================
