SPECIFICATION Spec
CONSTANTS Holder = {1, 2}  Atomic = FALSE
INVARIANTS UsableAfterDeath AtMostOne
CHECK_DEADLOCK FALSE
