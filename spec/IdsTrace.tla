----------------------------- MODULE IdsTrace -----------------------------
(* Trace validation for Ids: the harness engineers real populations of bugs, identities and comments whose ids share
   prefixes, asks the cache to resolve every prefix of every id and combined id, and logs population, prefix and
   answer.  Each answer must be the one ResolvePrefix / ResolveComment prescribe on the logged population. *)
EXTENDS Ids, Json, IOUtils, TLC

VARIABLES l, bugs, idents, comments

Trace == ndJsonDeserialize(IOEnv.TRACE)
ev == Trace[l]
IsEv(name) == l <= Len(Trace) /\ ev.ev = name /\ l' = l + 1

Init == l = 1 /\ bugs = <<>> /\ idents = <<>> /\ comments = <<>>

Pop == IsEv("Pop") /\ bugs' = ev.bugs /\ idents' = ev.idents /\ comments' = ev.comments

AsSet(s) == {s[i] : i \in DOMAIN s}

QEntity ==
  /\ IsEv("Resolve")
  /\ ev.kind \in {"bug", "bugexcerpt", "identity", "identityexcerpt"}
  /\ LET pop == IF ev.kind \in {"bug", "bugexcerpt"} THEN bugs ELSE idents
         r == ResolvePrefix(pop, ev.prefix) IN
     /\ ev.outcome = r.outcome
     /\ AsSet(ev.matching) = r.matching
  /\ UNCHANGED <<bugs, idents, comments>>

QComment ==
  /\ IsEv("Resolve")
  /\ ev.kind = "comment"
  /\ LET r == ResolveComment(bugs, comments, ev.prefix) IN
     /\ ev.outcome = r.outcome
     /\ ev.outcome = "found" => AsSet(ev.matching) = r.matching      \* the comment, and its bug
     /\ AsSet(ev.bugs) = r.bugs
  /\ UNCHANGED <<bugs, idents, comments>>

(* the combined id the code computes for a comment is Combine(bug id, operation id) *)
QCombined ==
  /\ IsEv("Combined")
  /\ ev.combined = Combine(bugs[comments[ev.comment].bug], comments[ev.comment].op)
  /\ UNCHANGED <<bugs, idents, comments>>

(* the command line's resolution, with and without a selected bug *)
QSelected ==
  /\ IsEv("ResolveSelected")
  /\ LET r == ResolveSelected(bugs, ev.prefix, ev.hasarg, ev.sel) IN
     /\ ev.outcome = r.outcome
     /\ AsSet(ev.matching) = r.matching
     /\ ev.used = r.used                         \* the argument was consumed iff it designated the entity
     /\ (ev.sel = -1 /\ r.outcome = "novalid") => ev.cleared      \* a selection that no longer exists is forgotten
  /\ UNCHANGED <<bugs, idents, comments>>

(* a removal addressed by a prefix that names one bug alone: accepted, and the bug's ref is gone (the population announced next no
   longer has it) *)
RemovedByPrefix == IsEv("RemovedByPrefix") /\ ~ev.refused /\ ~ev.refleft /\ UNCHANGED <<bugs, idents, comments>>
Next == RemovedByPrefix \/ Pop \/ QEntity \/ QComment \/ QCombined \/ QSelected
Spec == Init /\ [][Next]_<<l, bugs, idents, comments>>
TraceAccepted == TLCGet("stats").diameter - 1 = Len(Trace)
=============================================================================
