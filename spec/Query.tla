------------------------------- MODULE Query -------------------------------
(* The query language of git-bug (doc/queries.md): lexer (query/lexer.go), parser (query/parser.go) and
   evaluation over the cache's excerpts (cache/filter.go, cache/bug_subcache.go Query).

   A query string is a sequence of atoms: words (strings without blanks, colons or quotes) and the four
   special symbols SP (any unicode blank), CO (colon), DQ and SQ (double / single quote).                 *)
EXTENDS Integers, Sequences, FiniteSets, SequencesExt

SP == "<sp>"
CO == "<:>"
DQ == "<dq>"
SQ == "<sq>"
IsQuote(a) == a \in {DQ, SQ}

(* ------------------------------------------------------------------ lexer ---- *)
(* splitFunc: split on separators outside quotes; quotes stay in the chunks; empty chunks are dropped.
   State of the scan: result, current chunk, open quote ("" = none). Returns [err, chunks]. *)
RECURSIVE Scan(_, _, _, _, _)
Scan(input, isSep(_), res, chunk, q) ==
  IF input = <<>>
  THEN IF q # "" THEN [err |-> TRUE, chunks |-> <<>>]
       ELSE [err |-> FALSE, chunks |-> IF chunk = <<>> THEN res ELSE Append(res, chunk)]
  ELSE LET a == Head(input) rest == Tail(input) IN
       IF q = "" /\ IsQuote(a) THEN Scan(rest, isSep, res, Append(chunk, a), a)
       ELSE IF q # "" /\ a = q THEN Scan(rest, isSep, res, Append(chunk, a), "")
       ELSE IF q # "" THEN Scan(rest, isSep, res, Append(chunk, a), q)
       ELSE IF ~isSep(a) THEN Scan(rest, isSep, res, Append(chunk, a), q)
       ELSE Scan(rest, isSep, IF chunk = <<>> THEN res ELSE Append(res, chunk), <<>>, q)

Split(input, isSep(_)) == Scan(input, isSep, <<>>, <<>>, "")

RemoveQuote(chunk) ==
  IF Len(chunk) >= 2 /\ chunk[1] = chunk[Len(chunk)] /\ IsQuote(chunk[1])
  THEN SubSeq(chunk, 2, Len(chunk) - 1) ELSE chunk

(* one field -> one token [kind, parts] or an error *)
FieldToken(field) ==
  LET s == Split(field, LAMBDA a : a = CO) IN
  IF s.err \/ field[1] = CO \/ field[Len(field)] = CO THEN [err |-> TRUE, parts |-> <<>>]
  ELSE IF Len(s.chunks) > 3 THEN [err |-> TRUE, parts |-> <<>>]
  ELSE [err |-> FALSE, parts |-> [i \in DOMAIN s.chunks |-> RemoveQuote(s.chunks[i])]]

Tokenize(input) ==
  LET f == Split(input, LAMBDA a : a = SP) IN
  IF f.err THEN [err |-> TRUE, tokens |-> <<>>]
  ELSE LET toks == [i \in DOMAIN f.chunks |-> FieldToken(f.chunks[i])] IN
       IF \E i \in DOMAIN toks : toks[i].err THEN [err |-> TRUE, tokens |-> <<>>]
       ELSE [err |-> FALSE, tokens |-> [i \in DOMAIN toks |-> toks[i].parts]]

(* ------------------------------------------------------------------ parser ---- *)
(* A value is the sequence of atoms between the quotes; Word(v) is the single word it consists of, if so. *)
IsWord(v, w) == v = <<w>>

EmptyQ == [err |-> FALSE, search |-> <<>>, status |-> <<>>, author |-> <<>>, actor |-> <<>>, participant |-> <<>>,
           label |-> <<>>, title |-> <<>>, nolabel |-> FALSE, metadata |-> <<>>, orderby |-> "creation", dir |-> "desc",
           sorted |-> FALSE]
ErrQ == [EmptyQ EXCEPT !.err = TRUE]

SortOf(v) ==
  CASE IsWord(v, "id-desc") -> <<"id", "desc">>
    [] IsWord(v, "id") \/ IsWord(v, "id-asc") -> <<"id", "asc">>
    [] IsWord(v, "creation") \/ IsWord(v, "creation-desc") -> <<"creation", "desc">>
    [] IsWord(v, "creation-asc") -> <<"creation", "asc">>
    [] IsWord(v, "edit") \/ IsWord(v, "edit-desc") -> <<"edit", "desc">>
    [] IsWord(v, "edit-asc") -> <<"edit", "asc">>
    [] OTHER -> <<>>

(* status values are matched after trimming blanks and lowering case (the generators use the spellings below) *)
RECURSIVE TrimL(_)
TrimL(v) == IF v # <<>> /\ Head(v) = SP THEN TrimL(Tail(v)) ELSE v
RECURSIVE TrimR(_)
TrimR(v) == IF v # <<>> /\ v[Len(v)] = SP THEN TrimR(SubSeq(v, 1, Len(v) - 1)) ELSE v
Trim(v) == TrimR(TrimL(v))
OpenWords == {"open", "OPEN", "Open"}
ClosedWords == {"closed", "CLOSED", "Closed"}
StatusOf(v) ==
  LET t == Trim(v) IN
  IF Len(t) = 1 /\ t[1] \in OpenWords THEN "open"
  ELSE IF Len(t) = 1 /\ t[1] \in ClosedWords THEN "closed"
  ELSE ""

Step(q, tok) ==
  IF q.err THEN q
  ELSE IF Len(tok) = 1 THEN [q EXCEPT !.search = Append(q.search, tok[1])]
  ELSE IF Len(tok) = 2 THEN
    LET k == tok[1] v == tok[2] IN
    CASE IsWord(k, "status") \/ IsWord(k, "state") ->
            IF StatusOf(v) = "" THEN ErrQ ELSE [q EXCEPT !.status = Append(q.status, StatusOf(v))]
      [] IsWord(k, "author") -> [q EXCEPT !.author = Append(q.author, v)]
      [] IsWord(k, "actor") -> [q EXCEPT !.actor = Append(q.actor, v)]
      [] IsWord(k, "participant") -> [q EXCEPT !.participant = Append(q.participant, v)]
      [] IsWord(k, "label") -> [q EXCEPT !.label = Append(q.label, v)]
      [] IsWord(k, "title") -> [q EXCEPT !.title = Append(q.title, v)]
      [] IsWord(k, "no") -> IF IsWord(v, "label") THEN [q EXCEPT !.nolabel = TRUE] ELSE ErrQ
      [] IsWord(k, "sort") ->
            IF q.sorted \/ SortOf(v) = <<>> THEN ErrQ
            ELSE [q EXCEPT !.orderby = SortOf(v)[1], !.dir = SortOf(v)[2], !.sorted = TRUE]
      [] OTHER -> ErrQ
  ELSE IF IsWord(tok[1], "metadata") THEN [q EXCEPT !.metadata = Append(q.metadata, <<tok[2], tok[3]>>)]
  ELSE ErrQ

RECURSIVE Fold(_, _)
Fold(q, toks) == IF toks = <<>> THEN q ELSE Fold(Step(q, Head(toks)), Tail(toks))

Parse(input) ==
  LET t == Tokenize(input) IN
  IF t.err THEN ErrQ ELSE Fold(EmptyQ, t.tokens)

(* ------------------------------------------------------------------ grammar of doc/queries.md ---- *)
(* A structured query is a sequence of clauses [k, v] (k = "" for a search term; metadata carries sub and v).
   Render writes it the way the documentation says: qualifier:value, multi-word values in double quotes. *)
NeedsQuote(v) == Len(v) # 1 \/ \E i \in DOMAIN v : v[i] \in {SP, CO}
Quoted(v) == IF NeedsQuote(v) THEN <<DQ>> \o v \o <<DQ>> ELSE v
RenderClause(c) ==
  IF c.k = "" THEN Quoted(c.v)
  ELSE IF c.k = "metadata" THEN <<"metadata", CO>> \o Quoted(c.sub) \o <<CO>> \o Quoted(c.v)
  ELSE <<c.k, CO>> \o Quoted(c.v)
RECURSIVE Render(_)
Render(cs) == IF cs = <<>> THEN <<>>
              ELSE IF Len(cs) = 1 THEN RenderClause(cs[1])
              ELSE RenderClause(cs[1]) \o <<SP>> \o Render(Tail(cs))

(* what a structured query denotes, independently of the lexer *)
DenoteStep(q, c) ==
  IF q.err THEN q
  ELSE IF c.k = "" THEN [q EXCEPT !.search = Append(q.search, c.v)]
  ELSE IF c.k = "metadata" THEN [q EXCEPT !.metadata = Append(q.metadata, <<c.sub, c.v>>)]
  ELSE Step(q, <<<<c.k>>, c.v>>)
RECURSIVE Denote(_, _)
Denote(q, cs) == IF cs = <<>> THEN q ELSE Denote(DenoteStep(q, Head(cs)), Tail(cs))

RoundTrip(cs) == Parse(Render(cs)) = Denote(EmptyQ, cs)

(* ------------------------------------------------------------------ evaluation ---- *)
(* Strings are sequences of code points.  Lower maps A-Z to a-z (the populations use ASCII letters). *)
LowerC(c) == IF c >= 65 /\ c <= 90 THEN c + 32 ELSE c
Lower(s) == [i \in DOMAIN s |-> LowerC(s[i])]
HasSub(s, t) == \E i \in 0..(Len(s) - Len(t)) : SubSeq(s, i + 1, i + Len(t)) = t
HasPrefix(s, t) == Len(t) <= Len(s) /\ SubSeq(s, 1, Len(t)) = t

(* identity excerpt: [id, name, login]; query already lower-cased by the filter *)
IdentMatch(ident, ql) == HasPrefix(ident.id, ql) \/ HasSub(Lower(ident.name), ql) \/ HasSub(Lower(ident.login), ql)

AnyOf(s, P(_)) == s = <<>> \/ \E i \in DOMAIN s : P(s[i])
AllOf(s, P(_)) == \A i \in DOMAIN s : P(s[i])

(* bug excerpt b: [status, author, actors, participants, labels, title, meta, ctl, ctu, etl, etu, id]; idents: seq of identities *)
Matches(q, b, idents) ==
  /\ AnyOf(q.status, LAMBDA s : b.status = s)
  /\ AnyOf(q.author, LAMBDA v : IdentMatch(idents[b.author], Lower(v)))
  /\ AnyOf(q.metadata, LAMBDA p : \E i \in DOMAIN b.meta : b.meta[i] = p)
  /\ AnyOf(q.participant, LAMBDA v : \E i \in DOMAIN b.participants : IdentMatch(idents[b.participants[i]], Lower(v)))
  /\ AnyOf(q.actor, LAMBDA v : \E i \in DOMAIN b.actors : IdentMatch(idents[b.actors[i]], Lower(v)))
  /\ AllOf(q.label, LAMBDA v : \E i \in DOMAIN b.labels : b.labels[i] = v)
  /\ (q.nolabel => b.labels = <<>>)
  /\ AllOf(q.title, LAMBDA v : HasSub(Lower(b.title), Lower(v)))

(* sort keys; ids are compared through their rank *)
KeyLE(q, a, b) ==
  CASE q.orderby = "id" -> a.id <= b.id
    [] q.orderby = "creation" -> a.ctl < b.ctl \/ (a.ctl = b.ctl /\ a.ctu <= b.ctu)
    [] q.orderby = "edit" -> a.etl < b.etl \/ (a.etl = b.etl /\ a.etu <= b.etu)

(* a result is admissible iff it lists exactly the matching bugs, each once, sorted by the key in the direction
   (bugs with equal keys in any order) *)
Admissible(q, pop, idents, result) ==
  /\ \A i, j \in DOMAIN result : i # j => result[i] # result[j]
  /\ {result[i] : i \in DOMAIN result} = {k \in DOMAIN pop : Matches(q, pop[k], idents)}
  /\ \A i \in DOMAIN result : i > 1 =>
        IF q.dir = "asc" THEN KeyLE(q, pop[result[i-1]], pop[result[i]])
        ELSE KeyLE(q, pop[result[i]], pop[result[i-1]])
=============================================================================
