SPECIFICATION Spec
INVARIANT AlwaysValid
PROPERTY Untouched
CHECK_DEADLOCK FALSE
