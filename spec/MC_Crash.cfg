SPECIFICATION Spec
CONSTANTS MaxPacks = 3  AtomicWrite = TRUE
INVARIANTS PathsWellFormed CrashAtomic ClockNeverTorn
CHECK_DEADLOCK FALSE
