SPECIFICATION Spec
CONSTANTS MaxPacks = 3  AtomicWrite = TRUE  RefPerPack = FALSE
INVARIANTS PathsWellFormed CrashAtomic ClockNeverTorn
CHECK_DEADLOCK FALSE
