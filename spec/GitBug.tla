------------------------------- MODULE GitBug -------------------------------
(* The replicated entity store of git-bug: bugs stored as DAGs of operation packs (git commits) under
   refs, Lamport clocks, push / fetch over shared bare remotes ("hubs"; every replica has every remote configured),
   and merge-on-pull.

   Written in the shape of entity/dag/entity.go and entity/dag/entity_actions.go:

     commit universe   <->  git commits written by operationPack.Write (tree entries edit-clock-N,
                            create-clock-N, the ops blob), append-only, numbered in creation order
     ref[r][b]         <->  refs/bugs/<id> of replica r
     trk[r][m][b]      <->  refs/remotes/<m>/bugs/<id> of replica r
     hub[m][b]         <->  refs/bugs/<id> in the bare remote m
     clk[r]            <->  the two Lamport clocks bugs-edit / bugs-create (memory value and clock file)
     res               <->  what the last API call reported (merge status + returned entity, push outcome, read)

   One action = one API call of one process.  A repository is used by one process at a time (C19) and
   other replicas only ever see refs in the hub, so the storage mutations inside one call are not
   observable by anybody else; their atomicity under crashes is the subject of Crash.tla (C06), and the
   goroutine-level interleavings inside one process of CacheConc.tla (C18).                               *)
EXTENDS Integers, Sequences, FiniteSets, SequencesExt

CONSTANTS Replica,      \* the replicas (clones) sharing the hubs
          Remote,       \* the names of the remotes
          NBug,         \* bug slots 1..NBug (slot = order of creation)
          Author,       \* identities
          MaxHop        \* largest plausible clock jump on a non-merge edge (1 000 000 in the code)

VARIABLES commits,      \* Seq of [par, et, ct, au, ops, rank, bug]
          nops,         \* number of operations created so far (operation ids are 1..nops)
          ref, trk, hub,
          clk,          \* [r -> [e, c, de, dc]]  memory edit/create clocks, disk edit/create (-1 = file missing)
          res           \* result of the last call

vars == <<commits, nops, ref, trk, hub, clk, res>>

Bugs == 1..NBug
NoRes == [kind |-> "none"]
Missing == -1

Max2(a, b) == IF a >= b THEN a ELSE b
MaxOf(S) == IF S = {} THEN 0 ELSE CHOOSE x \in S : \A y \in S : y <= x

(* ------------------------------------------------------------------ the DAG ---- *)
C(c) == commits[c]
ParSet(c) == {C(c).par[i] : i \in DOMAIN C(c).par}
IsMerge(c) == Len(C(c).par) > 1

(* ancestors of c, c included.  Commits are numbered in creation order, a parent before its children: one pass from c down to 1
   collects them (a recursion along the parents visits a shared ancestor once per path to it, which is exponential in the number
   of merge commits: histories with a dozen nested merges - two remotes, three replicas, a few rounds - took TLC an hour) *)
RECURSIVE AncWalk(_, _, _)
AncWalk(cs, k, S) == IF k = 0 THEN S
                     ELSE AncWalk(cs, k - 1, IF k \in S THEN S \cup {cs[k].par[i] : i \in DOMAIN cs[k].par} ELSE S)
AncIn(cs, c) == IF c = 0 THEN {} ELSE AncWalk(cs, c, {c})
Anc(c) == AncIn(commits, c)

OpsOfIn(cs, h) == UNION {{cs[c].ops[i] : i \in DOMAIN cs[c].ops} : c \in AncIn(cs, h)}
OpsOf(h) == OpsOfIn(commits, h)

(* What dag.read accepts (doc/model.md + entity.go): exactly one root, the root carries a creation time,
   every pack an edit time, merge commits are empty, clocks strictly increase along every edge, and a
   non-merge edge does not jump more than MaxHop. *)
ReadOK(h) ==
  /\ h # 0
  /\ LET S == Anc(h) IN
     /\ Cardinality({c \in S : C(c).par = <<>>}) = 1
     /\ \A c \in S : C(c).par = <<>> => C(c).ct > 0
     /\ \A c \in S : C(c).et > 0
     /\ \A c \in S : IsMerge(c) => C(c).ops = <<>>
     /\ \A c \in S : \A p \in ParSet(c) :
           /\ C(p).et < C(c).et
           /\ ~IsMerge(c) => C(c).et - C(p).et <= MaxHop

(* The documented total order of packs: edit time, then pack id (here: rank). Packs of equal (et, rank) are
   empty merge packs written by the same author; their relative position is immaterial (tie broken by number). *)
PackLess(a, b) ==
  \/ C(a).et < C(b).et
  \/ C(a).et = C(b).et /\ C(a).rank < C(b).rank
  \/ C(a).et = C(b).et /\ C(a).rank = C(b).rank /\ a < b

PackOrder(h) == SetToSortSeq(Anc(h), PackLess)
OrderOfSet(S) == LET po == SetToSortSeq(S, PackLess) IN FlattenSeq([i \in DOMAIN po |-> C(po[i]).ops])
Order(h) == IF h = 0 THEN <<>> ELSE OrderOfSet(Anc(h))

MaxEt(h) == MaxOf({C(c).et : c \in Anc(h)})
MaxCt(h) == MaxOf({C(c).ct : c \in Anc(h)})

(* ------------------------------------------------------------------ clocks ---- *)
(* Witness = max, persisted at once (PersistedClock.Witness); Increment = +1, persisted at once. *)
WitnessClk(k, et, ct) ==
  LET e == Max2(k.e, et) c == Max2(k.c, ct) IN [e |-> e, c |-> c, de |-> e, dc |-> c]
WitnessHead(k, h) == WitnessClk(k, MaxEt(h), MaxCt(h))
IncEdit(k)   == [k EXCEPT !.e = k.e + 1, !.de = k.e + 1]
IncCreate(k) == [k EXCEPT !.c = k.c + 1, !.dc = k.c + 1]

(* ------------------------------------------------------------------ initial state ---- *)
Init ==
  /\ commits = <<>>
  /\ nops = 0
  /\ ref = [r \in Replica |-> [b \in Bugs |-> 0]]
  /\ trk = [r \in Replica |-> [m \in Remote |-> [b \in Bugs |-> 0]]]
  /\ hub = [m \in Remote |-> [b \in Bugs |-> 0]]
  /\ clk = [r \in Replica |-> [e |-> 1, c |-> 1, de |-> 1, dc |-> 1]]
  /\ res = NoRes

NextBug == Cardinality({b \in Bugs : \E c \in DOMAIN commits : C(c).bug = b}) + 1

(* ------------------------------------------------------------------ editing ---- *)
(* Entity.Commit splits the staging area into maximal same-author runs, one pack (commit) per run: for
   each run, Increment(edit) [, Increment(create) for the very first pack], write the pack with the
   previous commit as only parent; one ref update at the end.  `runs` is a sequence of [au, n].
   rk(i) is the rank (order of the pack id among all pack ids) of the i-th new pack.                        *)
RECURSIVE WriteRuns(_, _, _, _, _, _, _)
WriteRuns(cs, no, k, head, b, runs, rk) ==
  IF runs = <<>> THEN [cs |-> cs, no |-> no, k |-> k, head |-> head]
  ELSE LET k1 == IncEdit(k)
           k2 == IF head = 0 THEN IncCreate(k1) ELSE k1
           new == [par |-> IF head = 0 THEN <<>> ELSE <<head>>, et |-> k1.e,
                   ct |-> IF head = 0 THEN k2.c ELSE 0, au |-> Head(runs).au,
                   ops |-> [i \in 1..Head(runs).n |-> no + i], rank |-> rk[Len(cs) + 1], bug |-> b]
       IN WriteRuns(Append(cs, new), no + Head(runs).n, k2, Len(cs) + 1, b, Tail(runs), rk)

NewBug(r, runs, rk) ==
  /\ NextBug \in Bugs
  /\ LET b == NextBug
         w == WriteRuns(commits, nops, clk[r], 0, b, runs, rk) IN
     /\ commits' = w.cs
     /\ nops' = w.no
     /\ clk' = [clk EXCEPT ![r] = w.k]
     /\ ref' = [ref EXCEPT ![r][b] = w.head]
     /\ res' = [kind |-> "new", r |-> r, b |-> b]
  /\ UNCHANGED <<trk, hub>>

(* Read the bug (dag.read: validity, then witness of every pack's clocks), append, commit. *)
Edit(r, b, runs, rk) ==
  /\ ref[r][b] # 0
  /\ ReadOK(ref[r][b])
  /\ LET k0 == WitnessHead(clk[r], ref[r][b])
         w == WriteRuns(commits, nops, k0, ref[r][b], b, runs, rk) IN
     /\ commits' = w.cs
     /\ nops' = w.no
     /\ clk' = [clk EXCEPT ![r] = w.k]
     /\ ref' = [ref EXCEPT ![r][b] = w.head]
     /\ res' = [kind |-> "edit", r |-> r, b |-> b]
  /\ UNCHANGED <<trk, hub>>

(* bug.Read: either an error (nothing witnessed) or the operations in the documented order. *)
Read(r, b) ==
  /\ ref[r][b] # 0
  /\ IF ReadOK(ref[r][b])
     THEN /\ clk' = [clk EXCEPT ![r] = WitnessHead(clk[r], ref[r][b])]
          /\ res' = [kind |-> "read", r |-> r, b |-> b, ok |-> TRUE, ops |-> Order(ref[r][b])]
     ELSE /\ clk' = clk
          /\ res' = [kind |-> "read", r |-> r, b |-> b, ok |-> FALSE, ops |-> <<>>]
  /\ UNCHANGED <<commits, nops, ref, trk, hub>>

(* ------------------------------------------------------------------ synchronisation ---- *)
(* go-git pushes refs/bugs/*:refs/bugs/* without force; one non-fast-forward ref refuses the whole push. *)
PushOK(r, m) == \A b \in Bugs : ref[r][b] # 0 /\ hub[m][b] # 0 => hub[m][b] \in Anc(ref[r][b])

Push(r, m) ==          \* with nothing to push it succeeds and changes nothing
  /\ IF PushOK(r, m)
     THEN /\ hub' = [hub EXCEPT ![m] = [b \in Bugs |-> IF ref[r][b] # 0 THEN ref[r][b] ELSE hub[m][b]]]
          \* the remote-tracking ref follows for the refs that were actually sent (a ref the remote already holds at the same
          \* commit - it got there through another replica and another remote - is not sent, its tracking ref stays what it was)
          /\ trk' = [trk EXCEPT ![r][m] = [b \in Bugs |-> IF ref[r][b] # 0 /\ hub[m][b] # ref[r][b] THEN ref[r][b] ELSE trk[r][m][b]]]
          /\ res' = [kind |-> "push", r |-> r, ok |-> TRUE]
     ELSE /\ UNCHANGED <<hub, trk>>
          /\ res' = [kind |-> "push", r |-> r, ok |-> FALSE]
  /\ UNCHANGED <<commits, nops, ref, clk>>

(* Fetch: remote-tracking refs of that remote := its refs (forced, no pruning); those of other remotes stay. *)
Fetch(r, m) ==
  /\ trk' = [trk EXCEPT ![r][m] = [b \in Bugs |-> IF hub[m][b] # 0 THEN hub[m][b] ELSE trk[r][m][b]]]
  /\ res' = [kind |-> "fetch", r |-> r]
  /\ UNCHANGED <<commits, nops, ref, hub, clk>>

(* deviation, named: go-git refuses to fetch from a remote that holds no ref at all ("remote repository is empty"): the call
   reports an error and changes nothing.  Whether a remote holds other refs than bugs (identities) is outside this module; the
   trace specification takes it from the log. *)
FetchRefused(r, m) ==
  /\ \A b \in Bugs : hub[m][b] = 0
  /\ res' = [kind |-> "fetch", r |-> r]
  /\ UNCHANGED <<commits, nops, ref, trk, hub, clk>>

(* A history nobody's git-bug wrote turns up as a remote-tracking ref of a new bug (what a fetch from a remote holding rubbish
   leaves behind; the remote itself is outside the model): a root that carries no creation time, which no reader accepts.  Merging
   it reports it invalid - and the merges of the other remote-tracking bugs go on as if it were not there. *)
PlantForeign(r, m, rk) ==
  /\ NextBug \in Bugs
  /\ LET b == NextBug
         new == [par |-> <<>>, et |-> 1, ct |-> 0, au |-> CHOOSE a \in Author : TRUE, ops |-> <<nops + 1>>, rank |-> rk[Len(commits) + 1], bug |-> b] IN
     /\ commits' = Append(commits, new)
     /\ nops' = nops + 1
     /\ trk' = [trk EXCEPT ![r][m][b] = Len(commits) + 1]
     /\ res' = [kind |-> "plant", r |-> r, b |-> b]
  /\ UNCHANGED <<ref, hub, clk>>

(* merge() of one remote-tracking ref, the five scenarios of entity_actions.go.  The entity handed back with
   "new" / "updated" must be the merged result (C02). *)
MergeRes(r, m, b, st, pre, ops) ==
  [kind |-> "merge", r |-> r, m |-> m, b |-> b, status |-> st, pre |-> pre, ops |-> ops]

Merge(r, m, b, au, rk) ==
  LET R == trk[r][m][b] L == ref[r][b] IN
  /\ R # 0
  /\ IF ~ReadOK(R)
     THEN /\ res' = MergeRes(r, m, b, "invalid", L, <<>>)
          /\ UNCHANGED <<commits, nops, ref, clk>>
     ELSE LET k0 == WitnessHead(clk[r], R) IN
          IF L = 0                                                     \* scenario 1
          THEN /\ ref' = [ref EXCEPT ![r][b] = R]
               /\ clk' = [clk EXCEPT ![r] = k0]
               /\ res' = MergeRes(r, m, b, "new", L, Order(R))
               /\ UNCHANGED <<commits, nops>>
          ELSE IF L = R \/ R \in Anc(L)                                \* scenarios 2, 3
          THEN /\ clk' = [clk EXCEPT ![r] = k0]
               /\ res' = MergeRes(r, m, b, "nothing", L, <<>>)
               /\ UNCHANGED <<commits, nops, ref>>
          ELSE IF L \in Anc(R)                                         \* scenario 4: fast-forward
          THEN /\ ref' = [ref EXCEPT ![r][b] = R]
               /\ clk' = [clk EXCEPT ![r] = k0]
               /\ res' = MergeRes(r, m, b, "updated", L, Order(R))
               /\ UNCHANGED <<commits, nops>>
          ELSE                                                         \* scenario 5: merge commit
               LET k1 == IncEdit(WitnessHead(k0, L))
                   mc == [par |-> <<L, R>>, et |-> k1.e, ct |-> 0, au |-> au, ops |-> <<>>,
                         rank |-> rk[Len(commits) + 1], bug |-> b]
                   id == Len(commits) + 1 IN
               /\ commits' = Append(commits, mc)
               /\ ref' = [ref EXCEPT ![r][b] = id]
               /\ clk' = [clk EXCEPT ![r] = k1]
               /\ res' = MergeRes(r, m, b, "updated", L, OrderOfSet(Anc(L) \cup Anc(R)))   \* the merge pack is empty
               /\ UNCHANGED nops
  /\ UNCHANGED <<trk, hub>>

(* ------------------------------------------------------------------ restart / clock files ---- *)
(* Reopen: memory clocks are reloaded from the files; when a clock file is missing and clock loaders are
   configured, both clocks are rebuilt by witnessing every local head (readClockNoCheck: edit time of the
   head commit, creation time of the root). A clock created on demand starts at 1. *)
HeadWitness(k, h) == WitnessClk(k, C(h).et, MaxCt(h))

RECURSIVE WitnessHeads(_, _)
WitnessHeads(k, hs) ==
  IF hs = {} THEN k ELSE LET h == CHOOSE x \in hs : TRUE IN WitnessHeads(HeadWitness(k, h), hs \ {h})

Reopen(r, loaders) ==
  LET k == clk[r]
      miss == k.de = Missing \/ k.dc = Missing
      base == [e |-> IF k.de = Missing THEN 1 ELSE k.de, c |-> IF k.dc = Missing THEN 1 ELSE k.dc,
               de |-> k.de, dc |-> k.dc]
      heads == {ref[r][b] : b \in Bugs} \ {0} IN
  /\ clk' = [clk EXCEPT ![r] = IF miss /\ loaders THEN WitnessHeads(base, heads) ELSE base]
  /\ res' = [kind |-> "reopen", r |-> r]
  /\ UNCHANGED <<commits, nops, ref, trk, hub>>

(* The replica witnesses an edit time more than MaxHop above its own (it reads a bug that was created on a replica that far ahead:
   a root commit may carry any edit time, only the hops between a commit and its parents are bounded).  Nothing is wrong with that
   by itself; but the next commit the replica writes on an older bug sits more than MaxHop above its parent, and ReadOK refuses it:
   the design lets a repository write what it cannot read back (known finding far-clock of C05).  The action is left out of the
   bounded models that must pass; MC_GitBug_leap.cfg includes it and must report AllReadable violated. *)
ClockLeap(r) ==
  /\ clk' = [clk EXCEPT ![r] = WitnessClk(clk[r], clk[r].e + MaxHop + 1, clk[r].c)]
  /\ res' = [kind |-> "leap", r |-> r]
  /\ UNCHANGED <<commits, nops, ref, trk, hub>>

(* which: 0 = both clock files, 1 = the edit clock only, 2 = the creation clock only *)
DeleteClocks(r, which) ==      \* a file that is not there stays not there
  /\ clk' = [clk EXCEPT ![r].de = IF which \in {0, 1} THEN Missing ELSE @, ![r].dc = IF which \in {0, 2} THEN Missing ELSE @]
  /\ res' = [kind |-> "delclocks", r |-> r]
  /\ UNCHANGED <<commits, nops, ref, trk, hub>>

(* ------------------------------------------------------------------ properties ---- *)
Heads == UNION {{ref[r][b] : b \in Bugs} : r \in Replica} \ {0}

(* C01/C03: everything git-bug builds itself stays readable *)
AllReadable == \A h \in Heads \cup (UNION {{hub[m][b] : b \in Bugs} : m \in Remote} \ {0}) : ReadOK(h)

(* C03: an operation is never ordered before one it causally follows *)
Pos(s, x) == CHOOSE i \in DOMAIN s : s[i] = x
CausalOrder ==
  \A h \in Heads :
    LET po == PackOrder(h) IN
    \A p, q \in Anc(h) : (p # q /\ p \in Anc(q)) => Pos(po, p) < Pos(po, q)

NoDupOps == \A h \in Heads : Len(Order(h)) = Cardinality(OpsOf(h))

(* C01: same operations => same order (on every replica) *)
Converged ==
  \A r1, r2 \in Replica : \A b \in Bugs :
    (ref[r1][b] # 0 /\ ref[r2][b] # 0 /\ OpsOf(ref[r1][b]) = OpsOf(ref[r2][b])) => Order(ref[r1][b]) = Order(ref[r2][b])

(* C02: the merge report is truthful, nothing is lost, the returned entity is the merged one *)
MergeTruthful ==
  res.kind = "merge" =>
    LET now == ref[res.r][res.b] R == trk[res.r][res.m][res.b] IN
    /\ res.status = "invalid" <=> ~ReadOK(R)
    /\ res.status = "new" <=> (ReadOK(R) /\ res.pre = 0)
    /\ res.status \in {"nothing", "invalid"} => now = res.pre
    /\ res.status = "updated" => (res.pre # 0 /\ now # res.pre)
    /\ res.status = "nothing" => OpsOf(R) \subseteq OpsOf(now)
    /\ res.status \in {"new", "updated"} => (OpsOf(R) \subseteq OpsOf(now) /\ res.ops = Order(now))
    /\ OpsOf(res.pre) \subseteq OpsOf(now)
    /\ now # 0 => ReadOK(now)

(* C05: the clocks dominate everything stored under a local ref or merged, memory >= disk, never behind *)
ClockDominates ==
  \A r \in Replica :
    /\ clk[r].de # Missing => clk[r].e >= clk[r].de
    /\ clk[r].dc # Missing => clk[r].c >= clk[r].dc

(* after every call the edit clock covers every local head (a repository can always read back what it wrote and
   what it merged); holds as long as clocks are never reloaded without clock loaders after their files were lost *)
ClockCovers ==
  \A r \in Replica : \A b \in Bugs :
    ref[r][b] # 0 => (clk[r].e >= MaxEt(ref[r][b]) /\ clk[r].c >= MaxCt(ref[r][b]))

(* every pack a replica wrote is strictly later than every pack it could see when writing it: checked as an
   action property on the step that appends commits *)
NewCommitsDominate ==
  \A i \in (Len(commits) + 1)..Len(commits') :
    \A p \in AncIn(commits', i) \ {i} : commits'[i].et > commits'[p].et

AppendOnly == IsPrefix(commits, commits')

(* refs only move forward locally (C02: a pull never loses operations) *)
RefsGrow == \A r \in Replica : \A b \in Bugs : OpsOf(ref[r][b]) \subseteq OpsOfIn(commits', ref'[r][b])

ActionProps == [][AppendOnly /\ NewCommitsDominate /\ RefsGrow]_vars

(* C01 (the quiescence clause): when no synchronisation step can change anything any more, all replicas hold
   the same operations for every bug *)
SyncNoop(r) ==
  \A m \in Remote :
  /\ \A b \in Bugs : hub[m][b] # 0 => trk[r][m][b] = hub[m][b]                               \* Fetch changes nothing
  /\ \A b \in Bugs : trk[r][m][b] # 0 => (ref[r][b] # 0 /\ trk[r][m][b] \in Anc(ref[r][b]))  \* Merge reports nothing
  /\ \A b \in Bugs : ref[r][b] # 0 => hub[m][b] = ref[r][b]                                  \* Push changes nothing
Quiescent == \A r \in Replica : SyncNoop(r)
QuiescentConverged ==
  Quiescent => \A r1, r2 \in Replica : \A b \in Bugs : OpsOf(ref[r1][b]) = OpsOf(ref[r2][b])
=============================================================================
