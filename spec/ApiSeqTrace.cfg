SPECIFICATION TraceSpec
CONSTANTS Labels = {"x", "y"}
POSTCONDITION TraceAccepted
CHECK_DEADLOCK FALSE
