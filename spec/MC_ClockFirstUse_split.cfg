SPECIFICATION Spec
CONSTANTS G = {1, 2, 3}  Incs = 3  File0 = 5  Atomic = FALSE
INVARIANTS Unique
CHECK_DEADLOCK FALSE
