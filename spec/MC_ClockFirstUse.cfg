SPECIFICATION Spec
CONSTANTS G = {1, 2, 3}  Incs = 3  File0 = 5  Atomic = TRUE
INVARIANTS Unique OneInstance FileFollows
PROPERTY FileMonotone
CHECK_DEADLOCK FALSE
