--------------------------- MODULE CrashErrTrace ---------------------------
(* one line per (pull scenario, failing call): the mutations of the complete call, the mutations the failing call made, and what
   was found afterwards (harness/crashx/errors.go). *)
EXTENDS Crash, Json, IOUtils, TLC
VARIABLE l
Trace == ndJsonDeserialize(IOEnv.TRACE)
ev == Trace[l]
Init == l = 1
Next == /\ l <= Len(Trace)
        /\ ev.ev = "error"
        /\ ev.errat \in 1..ev.ncalls
        /\ WellFormed(ev.mutations) = TRUE
        /\ ErrSafe(ev.mutations, ev.done, ev) = TRUE
        /\ l' = l + 1
Spec == Init /\ [][Next]_l
TraceAccepted == TLCGet("stats").diameter - 1 = Len(Trace)
=============================================================================
