------------------------------- MODULE MC_Api -------------------------------
(* the API as a state machine over an abstract repository (number of stored operations per bug, number of stored
   blobs): requests of every kind, authenticated or not, well-formed or not; only authenticated well-formed mutations
   and uploads change anything, and by exactly what they ask for *)
EXTENDS Api, TLC
CONSTANTS MaxOps
VARIABLES nops, nblobs, last
vars == <<nops, nblobs, last>>
Mutations == DOMAIN KnownOps
Init == nops = 3 /\ nblobs = 0 /\ last = [ev |-> "none"]
Mutate(m, au, ok) ==
  /\ nops + KnownOps[m] <= MaxOps
  /\ nops' = IF au /\ ok THEN nops + KnownOps[m] ELSE nops
  /\ last' = [ev |-> "Mutation", name |-> m, auth |-> au, valid |-> ok, refused |-> ~(au /\ ok), changed |-> au /\ ok,
              byuser |-> TRUE, reflects |-> au /\ ok, newops |-> IF au /\ ok THEN KnownOps[m] ELSE 0, otherbugs |-> 0]
  /\ UNCHANGED nblobs
Query(au) == last' = [ev |-> "Query", auth |-> au, refused |-> FALSE, changed |-> FALSE] /\ UNCHANGED <<nops, nblobs>>
Upload(au, ok) ==
  /\ nblobs < 2
  /\ nblobs' = IF au /\ ok THEN nblobs + 1 ELSE nblobs
  /\ last' = [ev |-> "Upload", auth |-> au, valid |-> ok, refused |-> ~(au /\ ok), changed |-> au /\ ok, stored |-> au /\ ok]
  /\ UNCHANGED nops
Next == \/ \E m \in Mutations, au \in BOOLEAN, ok \in BOOLEAN : Mutate(m, au, ok)
        \/ \E au \in BOOLEAN : Query(au)
        \/ \E au \in BOOLEAN, ok \in BOOLEAN : Upload(au, ok)
Spec == Init /\ [][Next]_vars
(* the acceptance rules hold for everything the design does, and an unauthenticated request never changes the repository *)
RulesHold == CASE last.ev = "Mutation" -> MutationOK(last) [] last.ev = "Query" -> QueryOK(last) [] last.ev = "Upload" -> UploadOK(last) [] OTHER -> TRUE
ReadOnly == [][(last'.ev # "none" /\ ~last'.auth) => (nops' = nops /\ nblobs' = nblobs)]_vars
=============================================================================
