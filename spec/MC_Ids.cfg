SPECIFICATION Spec
CONSTANTS Depth = 3  MaxPop = 4
INVARIANTS InvSplit InvCounts InvInjective InvResolve EmitSplit
CHECK_DEADLOCK FALSE
