----------------------------- MODULE MC_Cache -----------------------------
EXTENDS Cache, TLC
Next ==
  \/ \E r \in Replica : CNew(r)
  \/ \E r \in Replica, b \in Bugs : CEdit(r, b) \/ CCommit(r, b) \/ CRemove(r, b)
  \/ \E r \in Replica : CPush(r) \/ CPull(r) \/ CFetch(r) \/ CReopen(r)
  \/ \E r \in Replica, n \in 1..MaxSize : CResolveAll(r, n)
Spec == Init /\ [][Next]_vars
=============================================================================
