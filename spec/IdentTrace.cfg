SPECIFICATION TraceSpec
CONSTANTS Replica = {"A", "B", "C"}  NIdent = 3
INVARIANTS MergeTruthful SameRoot
PROPERTY TraceActionProps
POSTCONDITION TraceAccepted
CHECK_DEADLOCK FALSE
