---------------------------- MODULE QueryTrace ----------------------------
(* Evaluation of queries over real populations: the harness builds bugs and identities through the cache, runs
   generated queries through query.Parse + RepoCacheBug.Query and logs the population (projected from resolved
   snapshots; every string as a sequence of code points), the structured query and the returned list.  TLC requires
   every returned list to be Admissible: exactly the matching bugs, each once, sorted by the requested key. *)
EXTENDS Query, Json, IOUtils, TLC
VARIABLES l, pop, idents
Trace == ndJsonDeserialize(IOEnv.TRACE)
ev == Trace[l]
Init == l = 1 /\ pop = <<>> /\ idents = <<>>
Pop == l <= Len(Trace) /\ ev.ev = "Pop" /\ pop' = ev.bugs /\ idents' = ev.idents /\ l' = l + 1
Q == /\ l <= Len(Trace) /\ ev.ev = "Query"
     /\ ev.err = ""
     /\ Admissible(ev.q, pop, idents, ev.result)
     /\ UNCHANGED <<pop, idents>> /\ l' = l + 1
Next == Pop \/ Q
Spec == Init /\ [][Next]_<<l, pop, idents>>
TraceAccepted == TLCGet("stats").diameter - 1 = Len(Trace)
=============================================================================
