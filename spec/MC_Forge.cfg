SPECIFICATION FSpec
CONSTANTS
  Replica = {"A"}
  Remote = {"origin"}
  NBug = 1
  Author = {"u1"}
  MaxHop = 1000000
  MaxN = 3
  Far = 1000005
  RankDirs <- BothDirs
  EtChoices <- EtFull
INVARIANTS OkImpliesCausal Emit
CHECK_DEADLOCK FALSE
