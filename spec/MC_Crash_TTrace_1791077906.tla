---- MODULE MC_Crash_TTrace_1791077906 ----
EXTENDS Sequences, TLCExt, MC_Crash, Toolbox, Naturals, TLC

_expression ==
    LET MC_Crash_TEExpression == INSTANCE MC_Crash_TEExpression
    IN MC_Crash_TEExpression!expression
----

_trace ==
    LET MC_Crash_TETrace == INSTANCE MC_Crash_TETrace
    IN MC_Crash_TETrace!trace
----

_inv ==
    ~(
        TLCGet("level") = Len(_TETrace)
        /\
        phase = ("crashed")
        /\
        muts = (<<[kind |-> "fs-rename", ent |-> ""], [kind |-> "blob", ent |-> ""], [kind |-> "blob", ent |-> ""], [kind |-> "tree", ent |-> ""], [kind |-> "commit", ent |-> ""], [kind |-> "ref", ent |-> "e1"], [kind |-> "fs-rename", ent |-> ""], [kind |-> "blob", ent |-> ""], [kind |-> "blob", ent |-> ""], [kind |-> "tree", ent |-> ""], [kind |-> "commit", ent |-> ""], [kind |-> "ref", ent |-> "e1"]>>)
        /\
        k = (7)
    )
----

_init ==
    /\ phase = _TETrace[1].phase
    /\ k = _TETrace[1].k
    /\ muts = _TETrace[1].muts
----

_next ==
    /\ \E i,j \in DOMAIN _TETrace:
        /\ \/ /\ j = i + 1
              /\ i = TLCGet("level")
        /\ phase  = _TETrace[i].phase
        /\ phase' = _TETrace[j].phase
        /\ k  = _TETrace[i].k
        /\ k' = _TETrace[j].k
        /\ muts  = _TETrace[i].muts
        /\ muts' = _TETrace[j].muts

\* Uncomment the ASSUME below to write the states of the error trace
\* to the given file in Json format. Note that you can pass any tuple
\* to `JsonSerialize`. For example, a sub-sequence of _TETrace.
    \* ASSUME
    \*     LET J == INSTANCE Json
    \*         IN J!JsonSerialize("MC_Crash_TTrace_1791077906.json", _TETrace)

=============================================================================

 Note that you can extract this module `MC_Crash_TEExpression`
  to a dedicated file to reuse `expression` (the module in the 
  dedicated `MC_Crash_TEExpression.tla` file takes precedence 
  over the module `MC_Crash_TEExpression` below).

---- MODULE MC_Crash_TEExpression ----
EXTENDS Sequences, TLCExt, MC_Crash, Toolbox, Naturals, TLC

expression == 
    [
        \* To hide variables of the `MC_Crash` spec from the error trace,
        \* remove the variables below.  The trace will be written in the order
        \* of the fields of this record.
        phase |-> phase
        ,k |-> k
        ,muts |-> muts
        
        \* Put additional constant-, state-, and action-level expressions here:
        \* ,_stateNumber |-> _TEPosition
        \* ,_phaseUnchanged |-> phase = phase'
        
        \* Format the `phase` variable as Json value.
        \* ,_phaseJson |->
        \*     LET J == INSTANCE Json
        \*     IN J!ToJson(phase)
        
        \* Lastly, you may build expressions over arbitrary sets of states by
        \* leveraging the _TETrace operator.  For example, this is how to
        \* count the number of times a spec variable changed up to the current
        \* state in the trace.
        \* ,_phaseModCount |->
        \*     LET F[s \in DOMAIN _TETrace] ==
        \*         IF s = 1 THEN 0
        \*         ELSE IF _TETrace[s].phase # _TETrace[s-1].phase
        \*             THEN 1 + F[s-1] ELSE F[s-1]
        \*     IN F[_TEPosition - 1]
    ]

=============================================================================



Parsing and semantic processing can take forever if the trace below is long.
 In this case, it is advised to uncomment the module below to deserialize the
 trace from a generated binary file.

\*
\*---- MODULE MC_Crash_TETrace ----
\*EXTENDS IOUtils, MC_Crash, TLC
\*
\*trace == IODeserialize("MC_Crash_TTrace_1791077906.bin", TRUE)
\*
\*=============================================================================
\*

---- MODULE MC_Crash_TETrace ----
EXTENDS MC_Crash, TLC

trace == 
    <<
    ([phase |-> "run",muts |-> <<[kind |-> "fs-rename", ent |-> ""], [kind |-> "blob", ent |-> ""], [kind |-> "blob", ent |-> ""], [kind |-> "tree", ent |-> ""], [kind |-> "commit", ent |-> ""], [kind |-> "ref", ent |-> "e1"], [kind |-> "fs-rename", ent |-> ""], [kind |-> "blob", ent |-> ""], [kind |-> "blob", ent |-> ""], [kind |-> "tree", ent |-> ""], [kind |-> "commit", ent |-> ""], [kind |-> "ref", ent |-> "e1"]>>,k |-> 0]),
    ([phase |-> "crashed",muts |-> <<[kind |-> "fs-rename", ent |-> ""], [kind |-> "blob", ent |-> ""], [kind |-> "blob", ent |-> ""], [kind |-> "tree", ent |-> ""], [kind |-> "commit", ent |-> ""], [kind |-> "ref", ent |-> "e1"], [kind |-> "fs-rename", ent |-> ""], [kind |-> "blob", ent |-> ""], [kind |-> "blob", ent |-> ""], [kind |-> "tree", ent |-> ""], [kind |-> "commit", ent |-> ""], [kind |-> "ref", ent |-> "e1"]>>,k |-> 7])
    >>
----


=============================================================================

---- CONFIG MC_Crash_TTrace_1791077906 ----
CONSTANTS
    MaxPacks = 2
    AtomicWrite = TRUE
    RefPerPack = TRUE

INVARIANT
    _inv

CHECK_DEADLOCK
    \* CHECK_DEADLOCK off because of PROPERTY or INVARIANT above.
    FALSE

INIT
    _init

NEXT
    _next

CONSTANT
    _TETrace <- _trace

ALIAS
    _expression
=============================================================================
\* Generated on Sun Oct 04 01:38:27 UTC 2026