SPECIFICATION LeapSpec
CONSTANTS
  Replica = {A}
  Remote = {origin}
  NBug = 1
  Author = {u1, u2}
  MaxHop = 3
  MaxCommit = 3
  RankDir = 1
  WithRestart = FALSE
  LoaderLess = FALSE
INVARIANTS AllReadable
CHECK_DEADLOCK FALSE
