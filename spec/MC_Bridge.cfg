SPECIFICATION Spec
CONSTANTS Issue = {1, 2}  Margin = 5  StopAtFirst = TRUE  MaxEv = 3  MaxRounds = 3
INVARIANTS Complete TitleFollows CursorRule
PROPERTIES Monotone Idempotent
CHECK_DEADLOCK FALSE
