SPECIFICATION CSpec
CONSTANTS Holder = {1, 2}  UnlockFirst = TRUE
INVARIANTS AtMostOne OwnerAlive WriteUnderLock
CHECK_DEADLOCK FALSE
