------------------------------- MODULE Ident -------------------------------
(* Identities (entities/identity): an identity is a linear chain of versions stored as a chain of commits under
   refs/identities/<id>; its id is the id of its first version.  Histories are append-only and merged fast-forward
   only (identity.Merge, identity_actions.go MergeAll).  Versions are numbered in creation order. *)
EXTENDS Integers, Sequences, FiniteSets, SequencesExt

CONSTANTS Replica, NIdent

VARIABLES nver,      \* number of versions created so far
          chain,     \* chain[r][i]: the local version chain of identity slot i on replica r (<<>> = absent)
          tchain,    \* remote-tracking chain
          hchain,    \* chain in the hub
          res

vars == <<nver, chain, tchain, hchain, res>>
Idents == 1..NIdent
NoRes == [kind |-> "none"]

Init ==
  /\ nver = 0
  /\ chain = [r \in Replica |-> [i \in Idents |-> <<>>]]
  /\ tchain = [r \in Replica |-> [i \in Idents |-> <<>>]]
  /\ hchain = [i \in Idents |-> <<>>]
  /\ res = NoRes

NextSlot == Cardinality({i \in Idents : \E r \in Replica : chain[r][i] # <<>> \/ tchain[r][i] # <<>>} \cup {i \in Idents : hchain[i] # <<>>}) + 1

(* k = 1: one version.  k = 2: metadata was set after the id had been handed out (the id is derived from the first version, which
   therefore can no longer change): the metadata goes into a second version, both are written by the first commit *)
NewIdent(r, k) ==
  /\ NextSlot \in Idents /\ k \in 1..2
  /\ chain' = [chain EXCEPT ![r][NextSlot] = [j \in 1..k |-> nver + j]]
  /\ nver' = nver + k
  /\ res' = [kind |-> "new", r |-> r, i |-> NextSlot]
  /\ UNCHANGED <<tchain, hchain>>

(* Mutate + Commit: one more version *)
Mutate(r, i) ==
  /\ chain[r][i] # <<>>
  /\ chain' = [chain EXCEPT ![r][i] = Append(@, nver + 1)]
  /\ nver' = nver + 1
  /\ res' = [kind |-> "mutate", r |-> r, i |-> i]
  /\ UNCHANGED <<tchain, hchain>>

PushOK(r) == \A i \in Idents : chain[r][i] # <<>> => IsPrefix(hchain[i], chain[r][i])
Push(r) ==
  /\ \E i \in Idents : chain[r][i] # <<>>
  /\ IF PushOK(r)
     THEN /\ hchain' = [i \in Idents |-> IF chain[r][i] # <<>> THEN chain[r][i] ELSE hchain[i]]
          /\ tchain' = [tchain EXCEPT ![r] = [i \in Idents |-> IF chain[r][i] # <<>> THEN chain[r][i] ELSE tchain[r][i]]]
          /\ res' = [kind |-> "push", r |-> r, ok |-> TRUE]
     ELSE /\ UNCHANGED <<hchain, tchain>>
          /\ res' = [kind |-> "push", r |-> r, ok |-> FALSE]
  /\ UNCHANGED <<nver, chain>>

Fetch(r) ==
  /\ tchain' = [tchain EXCEPT ![r] = [i \in Idents |-> IF hchain[i] # <<>> THEN hchain[i] ELSE tchain[r][i]]]
  /\ res' = [kind |-> "fetch", r |-> r]
  /\ UNCHANGED <<nver, chain, hchain>>

(* fast-forward only *)
Merge(r, i) ==
  LET R == tchain[r][i] L == chain[r][i] IN
  /\ R # <<>>
  /\ IF L = <<>>
     THEN /\ chain' = [chain EXCEPT ![r][i] = R]
          /\ res' = [kind |-> "merge", r |-> r, i |-> i, status |-> "new", pre |-> L, ret |-> R]
     ELSE IF IsPrefix(L, R) /\ L # R
     THEN /\ chain' = [chain EXCEPT ![r][i] = R]
          /\ res' = [kind |-> "merge", r |-> r, i |-> i, status |-> "updated", pre |-> L, ret |-> R]
     ELSE IF IsPrefix(R, L)
     THEN /\ UNCHANGED chain
          /\ res' = [kind |-> "merge", r |-> r, i |-> i, status |-> "nothing", pre |-> L, ret |-> <<>>]
     ELSE /\ UNCHANGED chain
          /\ res' = [kind |-> "merge", r |-> r, i |-> i, status |-> "invalid", pre |-> L, ret |-> <<>>]
  /\ UNCHANGED <<nver, tchain, hchain>>

(* ---- properties (C09, and C02 for identities) ---- *)
AppendOnly == \A r \in Replica : \A i \in Idents : IsPrefix(chain[r][i], chain'[r][i])
IdStable == \A r \in Replica : \A i \in Idents : chain[r][i] # <<>> => chain'[r][i][1] = chain[r][i][1]
ActionProps == [][AppendOnly /\ IdStable]_vars

MergeTruthful ==
  res.kind = "merge" =>
    LET now == chain[res.r][res.i] R == tchain[res.r][res.i] IN
    /\ res.status = "new" <=> res.pre = <<>>
    /\ res.status = "updated" <=> (res.pre # <<>> /\ now # res.pre)
    /\ res.status = "updated" => (now = R /\ IsPrefix(res.pre, R))
    /\ res.status \in {"nothing", "invalid"} => now = res.pre
    /\ res.status = "invalid" <=> (res.pre # <<>> /\ ~IsPrefix(res.pre, R) /\ ~IsPrefix(R, res.pre))
    /\ res.status \in {"new", "updated"} => res.ret = now

(* chains of one identity are always prefix-related with the hub's or diverged only by local unpublished versions *)
SameRoot == \A r1, r2 \in Replica : \A i \in Idents :
   (chain[r1][i] # <<>> /\ chain[r2][i] # <<>>) => chain[r1][i][1] = chain[r2][i][1]
=============================================================================
