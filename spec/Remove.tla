------------------------------- MODULE Remove -------------------------------
(* Removal of an entity (entity/dag Remove, identity.Remove, SubCache.Remove, `git-bug bug rm`) and wiping
   (`git-bug wipe`).  State: which entities have a local ref, which (remote, entity) pairs have a remote-tracking ref,
   what the cache lists and what the search index holds, and the git-bug configuration keys.
   Every configuration of up to three remotes is an initial state. *)
EXTENDS Integers, FiniteSets, Sequences, TLC, Json, SequencesExt

CONSTANTS AllRemotes,   \* e.g. {"m1","m2","m3"}
          Ents,         \* entities; T is the one removed
          T

VARIABLES remotes, lref, tref, cexc, cidx, conf, done,
          c0     \* the initial configuration (history, for the test vectors)

vars == <<remotes, lref, tref, cexc, cidx, conf, done, c0>>

Others == Ents \ {T}

(* initial configurations: any set of configured remotes, the target local or not, tracked by any subset of the remotes,
   other entities local and tracked everywhere or nowhere (their presence is what the frame condition is about);
   the cache and the index agree with the local refs (C11) *)
Init ==
  /\ remotes \in SUBSET AllRemotes
  /\ \E tl \in BOOLEAN, tt \in SUBSET remotes, ol \in SUBSET Others, ot \in SUBSET Others :
       /\ lref = (IF tl THEN {T} ELSE {}) \cup ol
       /\ tref = {<<m, T>> : m \in tt} \cup {<<m, o>> : m \in remotes, o \in ot}
  /\ cexc = lref /\ cidx = lref
  /\ \E gb \in SUBSET {"git-bug.identity", "git-bug.bridge.x.target"} : conf = gb \cup {"user.name"}   \* any git-bug configuration, also none
  /\ done = <<>>
  /\ c0 = [lref |-> lref, tref |-> tref, conf |-> conf]

(* entity-level removal: local ref and the tracking ref under every configured remote *)
RemoveEntity(e) ==
  /\ lref' = lref \ {e}
  /\ tref' = {p \in tref : p[2] # e}
  /\ UNCHANGED <<remotes, cexc, cidx, conf>>

(* cache-level removal (also the CLI): needs the cache to know the entity; also forgets it in the cache and the index *)
RemoveCached(e) ==
  /\ e \in cexc
  /\ lref' = lref \ {e}
  /\ tref' = {p \in tref : p[2] # e}
  /\ cexc' = cexc \ {e}
  /\ cidx' = cidx \ {e}
  /\ UNCHANGED <<remotes, conf>>

(* a cache-level removal during which the removal of one ref fails: some of the entity's refs are gone, some are left, the call
   reports the error and the cache goes on knowing the entity - so that the removal can be repeated, which finishes the job *)
RemoveCachedFailed(e) ==
  /\ e \in cexc
  /\ \E keepL \in BOOLEAN, keepT \in SUBSET {p \in tref : p[2] = e} :
       /\ (keepL /\ e \in lref) \/ keepT # {}
       /\ lref' = IF keepL THEN lref ELSE lref \ {e}
       /\ tref' = {p \in tref : p[2] # e} \cup keepT
  /\ UNCHANGED <<remotes, cexc, cidx, conf>>

Wipe ==
  /\ lref' = {} /\ tref' = {} /\ cexc' = {} /\ cidx' = {}
  /\ conf' = {k \in conf : SubSeq(k, 1, 8) # "git-bug."}
  /\ UNCHANGED remotes

Step(via) ==
  /\ Len(done) < 2
  /\ (done # <<>> => done[1] = via)                      \* the second step repeats the first (idempotence)
  /\ CASE via = "entity" -> RemoveEntity(T)
       [] via = "cache"  -> RemoveCached(T)
       [] via = "cacheflaky" -> IF done = <<>> THEN RemoveCachedFailed(T) ELSE RemoveCached(T)
       [] via = "wipe"   -> Wipe
  /\ done' = Append(done, via)
  /\ UNCHANGED c0

Next == \E via \in {"entity", "cache", "cacheflaky", "wipe"} : Step(via)
Spec == Init /\ [][Next]_vars

(* ---- properties ---- *)
Removed == (done # <<>> /\ done[1] \in {"entity", "cache"}) \/ (Len(done) = 2 /\ done[1] = "cacheflaky")
Complete == Removed =>
   /\ T \notin lref /\ \A m \in remotes : <<m, T>> \notin tref
   /\ (done[1] \in {"cache", "cacheflaky"} => T \notin cexc /\ T \notin cidx)
IsWipe == done' # <<>> /\ done'[1] = "wipe"
Frame == [][IsWipe \/ \A e \in Others :
             /\ (e \in lref <=> e \in lref')
             /\ \A m \in remotes : (<<m, e>> \in tref <=> <<m, e>> \in tref')
             /\ (e \in cexc <=> e \in cexc')
             /\ (e \in cidx <=> e \in cidx')]_vars
ConfFrame == [][(done' # <<>> /\ done'[1] # "wipe") => conf' = conf]_vars
Idempotent == [][(Len(done) = 1 /\ Len(done') = 2 /\ done[1] = "entity") => (lref' = lref /\ tref' = tref)]_vars
WipeClean == (done # <<>> /\ done[1] = "wipe") => (lref = {} /\ tref = {} /\ cexc = {} /\ conf = {"user.name"})

(* a merge without a new fetch creates the entities that are only remote-tracked; the removed one is not among them *)
AfterMerge(l, t) == l \cup {p[2] : p \in t}
StaysRemoved == Removed => T \notin AfterMerge(lref, tref)
(* a removal that failed can be repeated: the cache still knows the entity *)
Repeatable == (Len(done) = 1 /\ done[1] = "cacheflaky") => T \in cexc

SetSeq(S) == SetToSeq(S)
Emit == ((Len(done) = 1 /\ done[1] # "cacheflaky") \/ (Len(done) = 2 /\ done[1] = "cacheflaky")) =>
  PrintT(ToJson([via |-> done[1], remotes |-> SetSeq(remotes), before |-> [lref |-> SetSeq(c0.lref), tref |-> SetSeq(c0.tref), conf |-> SetSeq(c0.conf)], after |-> [lref |-> SetSeq(lref), tref |-> SetSeq(tref), cexc |-> SetSeq(cexc), merged |-> SetSeq(AfterMerge(cexc, tref))]]))
=============================================================================
