SPECIFICATION Spec
CONSTANTS Replica = {A, B}  NIdent = 2  MaxVer = 5
INVARIANTS MergeTruthful SameRoot
PROPERTY ActionProps
CHECK_DEADLOCK FALSE
