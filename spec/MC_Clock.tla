----------------------------- MODULE MC_Clock -----------------------------
EXTENDS Clock, TLC, Json
CONSTANTS MaxLen, MaxV
VARIABLES ops, k, seen    \* operations so far, clock state, largest value witnessed or issued

Ops == {[op |-> "inc", v |-> 0], [op |-> "reload", v |-> 0], [op |-> "incfail", v |-> 0], [op |-> "witfail", v |-> MaxV]}
       \cup {[op |-> "witness", v |-> v] : v \in 0..MaxV}

Init == ops = <<>> /\ k = Start /\ seen = 1
Next == \E o \in Ops :
  /\ Len(ops) < MaxLen
  /\ ops' = Append(ops, o)
  /\ k' = Step(k, o)
  /\ seen' = IF o.op = "witness" /\ o.v > seen THEN o.v ELSE IF o.op = "inc" /\ k'.mem > seen THEN k'.mem ELSE seen
Spec == Init /\ [][Next]_<<ops, k, seen>>

(* the file never goes back; the object in memory only when it is loaded again after a write that failed (and reported it): never
   below anything issued or witnessed with success *)
Monotone == [][k'.disk >= k.disk /\ (k'.mem >= k.mem \/ (ops'[Len(ops')].op = "reload" /\ k'.mem >= seen))]_<<ops, k, seen>>
MemGeDisk == k.mem >= k.disk
DominatesSeen == k.mem >= seen /\ k.disk >= seen     \* seen: issued or witnessed by calls that reported success     \* also after a reload: nothing issued or witnessed is forgotten
IncStrict == [][(ops' # ops /\ ops'[Len(ops')].op = "inc") => k'.ret > seen]_<<ops, k, seen>>

Emit == PrintT(ToJson([ops |-> ops, exp |-> Run(Start, ops)]))
=============================================================================
