----------------------------- MODULE MBT_Bridge -----------------------------
(* random behaviours of Bridge as scenarios for harness/bridgex (tlc -simulate) *)
EXTENDS Bridge, TLC, Json
CONSTANTS MaxEv, Depth
VARIABLE hist
Kinds == {"comment", "comment", "title", "label", "state", "desc"}
Log(e) == hist' = Append(hist, e)
E(a, i, kind, k, fail) == [act |-> a, i |-> i, kind |-> kind, k |-> k, fail |-> fail]
ToStr(i) == IF i = 1 THEN "1" ELSE "2"
MInit == Init /\ hist = <<>>
MNext ==
  /\ Len(hist) < Depth
  /\ \/ \E i \in Issue : NewIssue(i) /\ Log(E("NewIssue", i, "", 0, ""))
     \/ \E i \in Issue, k \in Kinds : nextid <= MaxEv /\ AddEvent(i, k) /\ Log(E("AddEvent", i, k, 0, ""))
     \/ \E i \in Issue : \E k \in DOMAIN tracker[i].bodyv : tracker[i].bodyv[k].v < 2 /\ EditNote(i, k) /\ Log(E("EditNote", i, "", k, ""))
     \/ (\E i \in Issue : tracker[i].exists) /\ RoundClean /\ Log(E("Round", 0, "", 0, "none"))
     \/ (\E i \in Issue : tracker[i].exists) /\ RoundFailedAt("issues", 1) /\ Log(E("Round", 0, "", 0, "issues"))
     \/ \E c \in {"notes", "labels", "states"}, i \in Issue : RoundFailedAt(c, i) /\ Log(E("Round", 0, "", 0, c \o ":" \o ToStr(i)))
     \/ \E u \in Users : RoundFailedUser(u) /\ Log(E("Round", 0, "", 0, "user:" \o ToStr(u)))
MSpec == MInit /\ [][MNext]_<<vars, hist>>
Emit == Len(hist) >= Depth => PrintT(ToJson([steps |-> hist]))
=============================================================================
