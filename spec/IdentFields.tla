---------------------------- MODULE IdentFields ----------------------------
(* Validity of identity versions (entities/identity version.Validate, Identity.Validate), by classes of field values.
   A version must carry a name or a login; name, login and email must be free of control characters (one line);
   the avatar must be empty or an URL; the nonce 20..64 bytes.  A name made of spaces (blank) or of characters that show
   nothing (invisible: zero-width space, byte order mark, soft hyphen - format characters, not control characters) is no name.  Along a chain no logical clock may decrease or be dropped. *)
EXTENDS Integers, Sequences, TLC, Json

NameClasses   == {"empty", "blank", "invisible", "ok", "unicode", "control", "multiline"}
LoginClasses  == {"empty", "invisible", "ok", "control"}
EmailClasses  == {"empty", "ok", "control"}
AvatarClasses == {"empty", "url", "noturl", "multiline"}
NonceClasses  == {"short", "ok", "long"}
ClockClasses  == {"grow", "same", "shrink", "dropped", "dropped_all", "dropped_null", "replaced"}
   \* second version's clocks relative to the first's: one of two dropped; all dropped (empty map; no map at all); all
   \* dropped and another one introduced

NonEmpty(c) == c \in {"ok", "unicode", "control", "multiline"}
OneLine(c) == c \notin {"control", "multiline"}

VersionValid(v) ==
  /\ (NonEmpty(v.name) \/ NonEmpty(v.login))
  /\ OneLine(v.name) /\ OneLine(v.login) /\ OneLine(v.email)
  /\ v.avatar \in {"empty", "url"}
  /\ v.nonce = "ok"

ChainValid(v1, v2, clocks) == VersionValid(v1) /\ VersionValid(v2) /\ clocks \in {"grow", "same"}

VARIABLE st
Versions == {[name |-> n, login |-> lg, email |-> e, avatar |-> a, nonce |-> no] :
               n \in NameClasses, lg \in LoginClasses, e \in EmailClasses, a \in AvatarClasses, no \in NonceClasses}
Good == [name |-> "ok", login |-> "ok", email |-> "ok", avatar |-> "empty", nonce |-> "ok"]
Init == \/ \E v \in Versions : st = [v |-> v, clocks |-> "none", valid |-> VersionValid(v)]
        \/ \E c \in ClockClasses : st = [v |-> Good, clocks |-> c, valid |-> ChainValid(Good, Good, c)]
Next == UNCHANGED st
Spec == Init /\ [][Next]_st
Emit == PrintT(ToJson(st))
=============================================================================
