--------------------------- MODULE GitBugTrace ---------------------------
(* Trace validation for GitBug: the harness (harness/world) executes API calls on real repositories and logs one
   event per specification action with its arguments, the outcome the code reported and the projection of the
   real state after the step.  A trace is accepted iff every line is explained by the corresponding GitBug
   action *and* the projected real state equals the specification's state, with every invariant of the base
   module evaluated in every state on the way.  Many sessions are concatenated; a Reset line starts a new one. *)
EXTENDS GitBug, Json, IOUtils, TLC

CONSTANTS BindRead,    \* require the logged result of bug.Read to be the specification's (C01, C03)
          BindMerge,   \* require the logged merge status and returned entity to be the specification's (C02)
          BindClock    \* require the logged clock values to be the specification's (C05)

VARIABLES l,        \* next line of the trace
          pend,     \* bugs the MergeAll in progress still has to report on

          digests   \* history: operation order -> digest of the compiled snapshot first observed for it

Trace == ndJsonDeserialize(IOEnv.TRACE)

tvars == <<commits, nops, ref, trk, hub, clk, res, l, digests, pend>>

ev == Trace[l]
IsEv(name) == l <= Len(Trace) /\ ev.ev = name /\ l' = l + 1

TraceInit == Init /\ l = 1 /\ digests = <<>> /\ pend = {}

(* ranks of the commits an action creates come from the log (order of the real pack ids) *)
RkOf(e) == [i \in 1..(Len(commits) + 3) |->
              IF i > Len(commits) /\ i - Len(commits) <= Len(e.new) THEN e.new[i - Len(commits)].rank ELSE 0]

AsVec(s) == [b \in Bugs |-> s[b]]

(* clocks: -1 in the log = not observed for that field *)
ClkMatches(k, logged) ==
  BindClock =>
  /\ logged.e  # -1 => k.e = logged.e
  /\ logged.c  # -1 => k.c = logged.c
  /\ (logged.e # -1 \/ logged.de # -1) => k.de = logged.de
  /\ (logged.c # -1 \/ logged.dc # -1) => k.dc = logged.dc
  /\ (logged.e = -1 /\ logged.de = -1 /\ logged.c = -1 /\ logged.dc = -1) => TRUE

(* the projected real state after the step equals the specification's state *)
StateMatches(e) ==
  /\ commits' = commits \o e.new
  /\ ref'[e.r] = AsVec(e.ref)
  /\ \A m \in Remote : trk'[e.r][m] = AsVec(e.trk[m])
  /\ \A m \in Remote : hub'[m] = AsVec(e.hub[m])
  /\ ClkMatches(clk'[e.r], e.clk)

Reset ==
  /\ IsEv("Reset")
  /\ commits' = <<>> /\ nops' = 0
  /\ ref' = [r \in Replica |-> [b \in Bugs |-> 0]]
  /\ trk' = [r \in Replica |-> [m \in Remote |-> [b \in Bugs |-> 0]]]
  /\ hub' = [m \in Remote |-> [b \in Bugs |-> 0]]
  /\ clk' = [r \in Replica |-> [e |-> 1, c |-> 1, de |-> 1, dc |-> 1]]
  /\ res' = NoRes
  /\ digests' = <<>> /\ pend' = {}

TNewBug == pend = {} /\ UNCHANGED pend /\ IsEv("NewBug") /\ ev.err = "" /\ NewBug(ev.r, ev.runs, RkOf(ev)) /\ ev.b = res'.b /\ StateMatches(ev) /\ UNCHANGED digests
TEdit   == pend = {} /\ UNCHANGED pend /\ IsEv("Edit") /\ ev.err = "" /\ Edit(ev.r, ev.b, ev.runs, RkOf(ev)) /\ StateMatches(ev) /\ UNCHANGED digests

TRead ==
  /\ pend = {} /\ UNCHANGED pend
  /\ IsEv("Read")
  /\ Read(ev.r, ev.b)
  /\ BindRead => (res'.ok = ev.ok /\ res'.ops = ev.returned)
  /\ StateMatches(ev)
  /\ IF ev.ok /\ BindRead
     THEN IF \E i \in DOMAIN digests : digests[i].ops = ev.returned
          THEN /\ \A i \in DOMAIN digests : digests[i].ops = ev.returned => digests[i].snap = ev.snap
               /\ UNCHANGED digests
          ELSE digests' = Append(digests, [ops |-> ev.returned, snap |-> ev.snap])
     ELSE UNCHANGED digests

TPush  == pend = {} /\ UNCHANGED pend /\ IsEv("Push") /\ ev.m \in Remote /\ Push(ev.r, ev.m) /\ res'.ok = ev.ok /\ StateMatches(ev) /\ UNCHANGED digests
TFetch == pend = {} /\ UNCHANGED pend /\ IsEv("Fetch") /\ ev.err = "" /\ ev.m \in Remote /\ Fetch(ev.r, ev.m) /\ StateMatches(ev) /\ UNCHANGED digests

TFetchRefused == pend = {} /\ UNCHANGED pend /\ IsEv("Fetch") /\ ev.err # "" /\ ev.empty /\ ev.m \in Remote /\ FetchRefused(ev.r, ev.m) /\ StateMatches(ev) /\ UNCHANGED digests

(* Merge events of one MergeAll are logged with the state after the whole MergeAll: refs of other bugs may still
   change, so only this bug's refs are bound here (and everything on the final event). *)
(* MergeAll reports on every remote-tracking bug: one Merge event each, between MergeAllBegin and MergeAllEnd *)
TMergeBegin ==
  /\ IsEv("MergeAllBegin") /\ pend = {}
  /\ ev.m \in Remote
  /\ pend' = {b \in Bugs : trk[ev.r][ev.m][b] # 0}
  /\ UNCHANGED <<commits, nops, ref, trk, hub, clk, res, digests>>
TMergeEnd ==
  /\ IsEv("MergeAllEnd") /\ pend = {}
  /\ UNCHANGED <<commits, nops, ref, trk, hub, clk, res, digests, pend>>

TMerge ==
  /\ IsEv("Merge")
  /\ ev.b \in pend /\ pend' = pend \ {ev.b}
  /\ ev.m \in Remote
  /\ \E au \in Author : Merge(ev.r, ev.m, ev.b, au, RkOf(ev))
  /\ BindMerge => (res'.status = ev.status /\ res'.ops = ev.returned)
  /\ commits' = commits \o ev.new
  /\ ref'[ev.r][ev.b] = ev.ref[ev.b]
  /\ trk'[ev.r][ev.m][ev.b] = ev.trk[ev.m][ev.b]
  /\ ev.final => StateMatches(ev)
  /\ UNCHANGED digests

TMergeNone ==
  /\ IsEv("MergeNone") /\ UNCHANGED pend
  /\ \A b \in Bugs : trk[ev.r][ev.m][b] = 0
  /\ UNCHANGED <<commits, nops, ref, trk, hub, clk, digests>>
  /\ res' = NoRes

TReopen == pend = {} /\ UNCHANGED pend /\ IsEv("Reopen") /\ ev.err = "" /\ Reopen(ev.r, ev.loaders) /\ StateMatches(ev) /\ UNCHANGED digests
TDeleteClocks == pend = {} /\ UNCHANGED pend /\ IsEv("DeleteClocks") /\ DeleteClocks(ev.r, ev.b) /\ StateMatches(ev) /\ UNCHANGED digests

TClockLeap == pend = {} /\ UNCHANGED pend /\ IsEv("ClockLeap") /\ ClockLeap(ev.r) /\ StateMatches(ev) /\ UNCHANGED digests

TPlant == pend = {} /\ UNCHANGED pend /\ IsEv("Plant") /\ ev.m \in Remote /\ PlantForeign(ev.r, ev.m, RkOf(ev)) /\ ev.b = res'.b /\ StateMatches(ev) /\ UNCHANGED digests

TraceNext == TPlant \/ TClockLeap \/ TFetchRefused \/ TMergeBegin \/ TMergeEnd \/ Reset \/ TNewBug \/ TEdit \/ TRead \/ TPush \/ TFetch \/ TMerge \/ TMergeNone \/ TReopen \/ TDeleteClocks

TraceSpec == TraceInit /\ [][TraceNext]_tvars

TraceAccepted == TLCGet("stats").diameter - 1 = Len(Trace)

TraceActionProps == [][(ev.ev = "Reset") \/ (AppendOnly /\ NewCommitsDominate /\ RefsGrow)]_tvars
=============================================================================
