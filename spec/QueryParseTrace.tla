------------------------- MODULE QueryParseTrace -------------------------
(* Random query strings beyond the exhaustive bound: the harness splits each string into atoms (maximal runs of
   ordinary characters are words), runs query.Parse and logs atoms and outcome with every value split into atoms
   again; TLC requires the outcome to be Parse(atoms). *)
EXTENDS Query, Json, IOUtils, TLC
VARIABLE l
Trace == ndJsonDeserialize(IOEnv.TRACE)
ev == Trace[l]
Init == l = 1
Next ==
  /\ l <= Len(Trace)
  /\ ev.panic = ""
  /\ LET p == Parse(ev.atoms) IN
       /\ p.err = ev.got.err
       /\ ~p.err =>
            /\ p.search = ev.got.search /\ p.status = ev.got.status /\ p.author = ev.got.author
            /\ p.actor = ev.got.actor /\ p.participant = ev.got.participant /\ p.label = ev.got.label
            /\ p.title = ev.got.title /\ p.nolabel = ev.got.nolabel /\ p.metadata = ev.got.metadata
            /\ p.orderby = ev.got.orderby /\ p.dir = ev.got.dir
  /\ l' = l + 1
Spec == Init /\ [][Next]_l
TraceAccepted == TLCGet("stats").diameter - 1 = Len(Trace)
=============================================================================
