--------------------------- MODULE MC_GitBugLive ---------------------------
(* The liveness half of C01: "... followed by a synchronisation to quiescence".  Two phases: while phase = "edit" the
   replicas do anything (bounded, leaving room for the merge commits of the second phase); at some moment editing stops and
   only pushes, fetches and merges happen, each of them infinitely often (weak fairness per replica and bug).  Then the
   system reaches, and stays in, a state where every replica holds every bug with the same operations in the same order. *)
EXTENDS MC_GitBug
CONSTANT Reserve          \* commits kept free for the merges of the synchronisation phase
VARIABLE phase
lvars == <<vars, phase>>

LInit == Init /\ phase = "edit"
EditRoom(n) == Len(commits) + n + Reserve <= MaxCommit
Editing ==
  /\ phase = "edit" /\ phase' = phase
  /\ \/ \E r \in Replica, runs \in RunChoices : EditRoom(Len(runs)) /\ NewBug(r, runs, Rk)
     \/ \E r \in Replica, b \in Bugs, runs \in RunChoices : EditRoom(Len(runs)) /\ Edit(r, b, runs, Rk)
     \/ \E r \in Replica, m \in Remote : Push(r, m)
     \/ \E r \in Replica, m \in Remote : Fetch(r, m)
     \/ \E r \in Replica, m \in Remote, b \in Bugs : EditRoom(1) /\ Merge(r, m, b, a1, Rk)
Stop == phase = "edit" /\ phase' = "sync" /\ UNCHANGED vars
SPush(r, m) == phase = "sync" /\ phase' = phase /\ Push(r, m)
SFetch(r, m) == phase = "sync" /\ phase' = phase /\ Fetch(r, m)
(* a merge writes a commit only when the two heads have diverged *)
Diverged(r, m, b) == /\ trk[r][m][b] # 0 /\ ref[r][b] # 0
                     /\ trk[r][m][b] \notin Anc(ref[r][b]) /\ ref[r][b] \notin Anc(trk[r][m][b])
SMerge(r, m, b) == phase = "sync" /\ phase' = phase /\ (Room(1) \/ ~Diverged(r, m, b)) /\ Merge(r, m, b, a1, Rk)
LNext == Editing \/ Stop \/ (\E r \in Replica, m \in Remote : SPush(r, m) \/ SFetch(r, m)) \/ (\E r \in Replica, m \in Remote, b \in Bugs : SMerge(r, m, b))
Fair == /\ WF_lvars(Stop)
        /\ \A r \in Replica, m \in Remote : WF_lvars(SPush(r, m)) /\ WF_lvars(SFetch(r, m))
        /\ \A r \in Replica, m \in Remote, b \in Bugs : WF_lvars(SMerge(r, m, b))
LSpec == LInit /\ [][LNext]_lvars /\ Fair
(* witness: without fairness of the merges the replicas may fetch and push for ever and never converge *)
LSpecNoMerge == LInit /\ [][LNext]_lvars /\ WF_lvars(Stop) /\ \A r \in Replica, m \in Remote : WF_lvars(SPush(r, m)) /\ WF_lvars(SFetch(r, m))

Same == \A r1, r2 \in Replica, b \in Bugs :
          /\ (ref[r1][b] # 0) = (ref[r2][b] # 0)
          /\ ref[r1][b] # 0 => (OpsOf(ref[r1][b]) = OpsOf(ref[r2][b]) /\ Order(ref[r1][b]) = Order(ref[r2][b]))
EventuallySame == <>[]Same
(* the reserve suffices: the synchronisation never runs out of commits *)
RoomForMerges == (phase = "sync" /\ \E r \in Replica, m \in Remote, b \in Bugs : Diverged(r, m, b)) => Room(1)
=============================================================================
