SPECIFICATION TraceSpec
CONSTANTS Issue = {1, 2}  Margin = 5  StopAtFirst = TRUE
INVARIANTS Complete CursorRule
PROPERTIES MonotoneT IdempotentT
POSTCONDITION TraceAccepted
CHECK_DEADLOCK FALSE
