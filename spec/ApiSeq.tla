------------------------------- MODULE ApiSeq -------------------------------
(* The mutations of the GraphQL API as a state machine over one bug (api/graphql/resolvers/mutation.go on top of
   cache/bug_cache.go): what a sequence of requests, some with a user attached and some without, leaves behind (C17:
   "each mutation records exactly the requested change ... and the returned bug reflects it"; without a user nothing
   changes).  Texts are identified by the number of the request that sent them (title k, message k).

   b.status, b.labels, b.title, b.was (the title the last title change recorded as the one it replaced; -1: no title change
   yet), b.text (one entry per comment: the request whose message it now shows), b.nops.      *)
EXTENDS Integers, Sequences, FiniteSets

CONSTANTS Labels

VARIABLES b,     \* the bug
          k,     \* number of requests so far
          res    \* outcome of the last request: [refused, newops]

vars == <<b, k, res>>

Init == /\ b = [status |-> "OPEN", labels |-> {}, title |-> 0, was |-> -1, text |-> <<0>>, nops |-> 1]
        /\ k = 0
        /\ res = [refused |-> FALSE, newops |-> 0]

Refuse == b' = b /\ res' = [refused |-> TRUE, newops |-> 0]
Done(n, nb) == b' = [nb EXCEPT !.nops = b.nops + n] /\ res' = [refused |-> FALSE, newops |-> n]

(* a request: name, whether a user is attached, arguments *)
Request(name, auth, i, A, R) ==
  /\ k' = k + 1
  /\ IF ~auth THEN Refuse
     ELSE CASE name = "addComment"          -> Done(1, [b EXCEPT !.text = Append(@, k + 1)])
            [] name = "addCommentAndClose"  -> Done(2, [b EXCEPT !.text = Append(@, k + 1), !.status = "CLOSED"])
            [] name = "addCommentAndReopen" -> Done(2, [b EXCEPT !.text = Append(@, k + 1), !.status = "OPEN"])
            [] name = "editComment"         -> IF i \in DOMAIN b.text THEN Done(1, [b EXCEPT !.text[i] = k + 1]) ELSE Refuse
            [] name = "changeLabels"        ->
                 LET add == A \ b.labels  rem == R \cap b.labels IN           \* only what changes something is recorded
                 IF add \cup rem = {} THEN Refuse ELSE Done(1, [b EXCEPT !.labels = (@ \cup add) \ rem])
            [] name = "openBug"             -> Done(1, [b EXCEPT !.status = "OPEN"])
            [] name = "closeBug"            -> Done(1, [b EXCEPT !.status = "CLOSED"])
            [] name = "setTitle"            -> Done(1, [b EXCEPT !.title = k + 1, !.was = b.title])   \* the operation records what it replaces
            [] name = "editCommentAmbiguous" -> Refuse          \* a prefix shared by several comments designates none of them
            [] name = "setTitleEmpty"       -> Refuse           \* ill-formed: an empty title
            [] name = "unknownBug"          -> Refuse           \* any mutation addressing a bug that does not exist
            [] name = "addCommentMissingFile" -> Refuse         \* a comment attaching a file the repository does not hold: refused when
                                                                \* it is to be written, and nothing of it stays behind in what is served

Names == {"addComment", "addCommentAndClose", "addCommentAndReopen", "editComment", "editCommentAmbiguous", "changeLabels", "openBug",
          "closeBug", "setTitle", "setTitleEmpty", "unknownBug", "addCommentMissingFile"}

Next == \E name \in Names, auth \in BOOLEAN, i \in 1..3, A \in SUBSET Labels, R \in SUBSET Labels :
          /\ (name = "changeLabels") => (A \cap R = {} /\ A \cup R # {})
          /\ (name # "changeLabels") => (A = {} /\ R = {})
          /\ (name # "editComment") => i = 1
          /\ (name = "editCommentAmbiguous") => Len(b.text) >= 2      \* sent only when the prefix is ambiguous indeed
          /\ Request(name, auth, i, A, R)
Spec == Init /\ [][Next]_vars

(* ---- properties ---- *)
TypeOK == b.status \in {"OPEN", "CLOSED"} /\ b.labels \subseteq Labels /\ Len(b.text) >= 1 /\ b.nops >= Len(b.text)
(* a refused request changes nothing; an accepted one adds the operations it reports *)
RefusedChangesNothing == [][res'.refused => b' = b]_vars
OpsOnlyGrow == [][b'.nops = b.nops + res'.newops]_vars
=============================================================================
