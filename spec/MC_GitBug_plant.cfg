SPECIFICATION PlantSpec
CONSTANTS
  Replica = {A, B}
  Remote = {origin}
  NBug = 2
  Author = {u1, u2}
  MaxHop = 1000
  MaxCommit = 4
  RankDir = 1
  WithRestart = FALSE
  LoaderLess = FALSE
INVARIANTS AllReadable CausalOrder NoDupOps Converged MergeTruthful ClockDominates QuiescentConverged
PROPERTY ActionProps
CHECK_DEADLOCK FALSE
