----------------------------- MODULE MBT_ApiSeq -----------------------------
(* request sequences for harness/apix (tlc -simulate): the history carries each request and what the specification
   expects after it *)
EXTENDS ApiSeq, TLC, Json
CONSTANT Depth
VARIABLE hist
MInit == Init /\ hist = <<>>
MNext == /\ k < Depth
         /\ \E name \in Names, auth \in BOOLEAN, i \in 1..3, A \in SUBSET Labels, R \in SUBSET Labels :
              /\ (name = "changeLabels") => (A \cap R = {} /\ A \cup R # {})
              /\ (name # "changeLabels") => (A = {} /\ R = {})
              /\ (name # "editComment") => i = 1
              /\ (name = "editCommentAmbiguous") => Len(b.text) >= 2
              /\ Request(name, auth, i, A, R)
              /\ hist' = Append(hist, [name |-> name, auth |-> auth, i |-> i, add |-> A, rem |-> R])
MSpec == MInit /\ [][MNext]_<<vars, hist>>
Emit == k >= Depth => PrintT(ToJson([reqs |-> hist]))
=============================================================================
