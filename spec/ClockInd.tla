------------------------------ MODULE ClockInd ------------------------------
(* The clock object of Clock.tla without bounds, for Apalache: any number of steps, any witnessed value.  IndInv is
   inductive (Init => IndInv; IndInv /\ Next => IndInv'), so DominatesSeen holds in every reachable state of the unbounded
   clock; the step properties (values never decrease, an increment returns more than everything seen) are checked over
   every step leaving a state that satisfies IndInv. *)
EXTENDS Integers

VARIABLES
  \* @type: Int;
  mem,
  \* @type: Int;
  disk,
  \* @type: Int;
  seen,
  \* @type: Int;
  ret

Init == mem = 1 /\ disk = 1 /\ seen = 1 /\ ret = 0

Inc == mem' = mem + 1 /\ disk' = mem + 1 /\ ret' = mem + 1 /\ seen' = (IF mem + 1 > seen THEN mem + 1 ELSE seen)
Witness(v) == /\ mem' = (IF v > mem THEN v ELSE mem) /\ disk' = (IF v > mem THEN v ELSE mem)
              /\ ret' = 0 /\ seen' = (IF v > seen THEN v ELSE seen)
Reload == mem' = disk /\ disk' = disk /\ ret' = 0 /\ seen' = seen
Next == Inc \/ Reload \/ \E v \in Nat : Witness(v)
(* witness for the vacuity guard: a witness that does not reach the file (IndInv must fail) *)
WitnessNoWrite(v) == /\ mem' = (IF v > mem THEN v ELSE mem) /\ disk' = disk
                     /\ ret' = 0 /\ seen' = (IF v > seen THEN v ELSE seen)
NextBad == Inc \/ Reload \/ \E v \in Nat : WitnessNoWrite(v)

IndInit == mem \in Int /\ disk \in Int /\ seen \in Int /\ ret \in Int
IndInv == mem >= 1 /\ disk = mem /\ seen >= 1 /\ mem >= seen
DominatesSeen == mem >= seen /\ disk >= seen
InitIndInv == IndInit /\ IndInv

(* step properties, from any state satisfying the inductive invariant *)
Monotone == mem' >= mem /\ disk' >= disk
IncStrict == (ret' # 0) => (ret' > seen /\ ret' > mem)
=============================================================================
