SPECIFICATION Spec
CONSTANTS Holder = {1, 2}  Depth = 4
INVARIANTS AtMostOne OwnerAlive Emit
PROPERTY NoLiveLockRemoved
CHECK_DEADLOCK FALSE
