---- MODULE MC_LockClose_TTrace_1791083878 ----
EXTENDS Sequences, TLCExt, MC_LockClose, Toolbox, Naturals, TLC

_expression ==
    LET MC_LockClose_TEExpression == INSTANCE MC_LockClose_TEExpression
    IN MC_LockClose_TEExpression!expression
----

_trace ==
    LET MC_LockClose_TETrace == INSTANCE MC_LockClose_TETrace
    IN MC_LockClose_TETrace!trace
----

_inv ==
    ~(
        TLCGet("level") = Len(_TETrace)
        /\
        res = ([out |-> "opened", by |-> 0])
        /\
        closing = ({1})
        /\
        alive = ({1})
        /\
        wrote = (FALSE)
        /\
        lock = (0)
    )
----

_init ==
    /\ lock = _TETrace[1].lock
    /\ wrote = _TETrace[1].wrote
    /\ alive = _TETrace[1].alive
    /\ closing = _TETrace[1].closing
    /\ res = _TETrace[1].res
----

_next ==
    /\ \E i,j \in DOMAIN _TETrace:
        /\ \/ /\ j = i + 1
              /\ i = TLCGet("level")
        /\ lock  = _TETrace[i].lock
        /\ lock' = _TETrace[j].lock
        /\ wrote  = _TETrace[i].wrote
        /\ wrote' = _TETrace[j].wrote
        /\ alive  = _TETrace[i].alive
        /\ alive' = _TETrace[j].alive
        /\ closing  = _TETrace[i].closing
        /\ closing' = _TETrace[j].closing
        /\ res  = _TETrace[i].res
        /\ res' = _TETrace[j].res

\* Uncomment the ASSUME below to write the states of the error trace
\* to the given file in Json format. Note that you can pass any tuple
\* to `JsonSerialize`. For example, a sub-sequence of _TETrace.
    \* ASSUME
    \*     LET J == INSTANCE Json
    \*         IN J!JsonSerialize("MC_LockClose_TTrace_1791083878.json", _TETrace)

=============================================================================

 Note that you can extract this module `MC_LockClose_TEExpression`
  to a dedicated file to reuse `expression` (the module in the 
  dedicated `MC_LockClose_TEExpression.tla` file takes precedence 
  over the module `MC_LockClose_TEExpression` below).

---- MODULE MC_LockClose_TEExpression ----
EXTENDS Sequences, TLCExt, MC_LockClose, Toolbox, Naturals, TLC

expression == 
    [
        \* To hide variables of the `MC_LockClose` spec from the error trace,
        \* remove the variables below.  The trace will be written in the order
        \* of the fields of this record.
        lock |-> lock
        ,wrote |-> wrote
        ,alive |-> alive
        ,closing |-> closing
        ,res |-> res
        
        \* Put additional constant-, state-, and action-level expressions here:
        \* ,_stateNumber |-> _TEPosition
        \* ,_lockUnchanged |-> lock = lock'
        
        \* Format the `lock` variable as Json value.
        \* ,_lockJson |->
        \*     LET J == INSTANCE Json
        \*     IN J!ToJson(lock)
        
        \* Lastly, you may build expressions over arbitrary sets of states by
        \* leveraging the _TETrace operator.  For example, this is how to
        \* count the number of times a spec variable changed up to the current
        \* state in the trace.
        \* ,_lockModCount |->
        \*     LET F[s \in DOMAIN _TETrace] ==
        \*         IF s = 1 THEN 0
        \*         ELSE IF _TETrace[s].lock # _TETrace[s-1].lock
        \*             THEN 1 + F[s-1] ELSE F[s-1]
        \*     IN F[_TEPosition - 1]
    ]

=============================================================================



Parsing and semantic processing can take forever if the trace below is long.
 In this case, it is advised to uncomment the module below to deserialize the
 trace from a generated binary file.

\*
\*---- MODULE MC_LockClose_TETrace ----
\*EXTENDS IOUtils, MC_LockClose, TLC
\*
\*trace == IODeserialize("MC_LockClose_TTrace_1791083878.bin", TRUE)
\*
\*=============================================================================
\*

---- MODULE MC_LockClose_TETrace ----
EXTENDS MC_LockClose, TLC

trace == 
    <<
    ([res |-> [out |-> "none", by |-> 0],closing |-> {},alive |-> {},wrote |-> FALSE,lock |-> 0]),
    ([res |-> [out |-> "opened", by |-> 0],closing |-> {},alive |-> {1},wrote |-> FALSE,lock |-> 1]),
    ([res |-> [out |-> "opened", by |-> 0],closing |-> {1},alive |-> {1},wrote |-> FALSE,lock |-> 0])
    >>
----


=============================================================================

---- CONFIG MC_LockClose_TTrace_1791083878 ----
CONSTANTS
    Holder = { 1 , 2 }
    UnlockFirst = TRUE

INVARIANT
    _inv

CHECK_DEADLOCK
    \* CHECK_DEADLOCK off because of PROPERTY or INVARIANT above.
    FALSE

INIT
    _init

NEXT
    _next

CONSTANT
    _TETrace <- _trace

ALIAS
    _expression
=============================================================================
\* Generated on Sun Oct 04 03:17:59 UTC 2026