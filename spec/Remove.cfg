SPECIFICATION Spec
CONSTANTS AllRemotes = {"m1", "m2", "m3"}  Ents = {"T", "o1", "o2"}  T = "T"
INVARIANTS Complete WipeClean StaysRemoved Repeatable Emit
PROPERTIES Frame ConfFrame Idempotent
CHECK_DEADLOCK FALSE
