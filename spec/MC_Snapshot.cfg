SPECIFICATION Spec
CONSTANTS MaxLen = 2  Small = FALSE
INVARIANTS InvWellFormed InvRepeatable InvTitleStatus InvOneItemPerStateChange Emit
CHECK_DEADLOCK FALSE
