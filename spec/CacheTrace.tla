---------------------------- MODULE CacheTrace ----------------------------
(* Trace validation for Cache: harness/cachex drives two real caches (two users, two repositories, one remote) with
   generated sessions and, after every action, compares everything the live cache serves with what a cache rebuilt
   from a copy of the git data serves.  It logs the action, which bugs have a local ref, which bugs the live and the
   rebuilt cache list, and one agreement flag per served facet.  The specification decides which points are quiescent
   and there requires: live = rebuilt = local refs, and every facet in agreement. *)
EXTENDS Cache, Json, IOUtils, TLC
VARIABLE l
Trace == ndJsonDeserialize(IOEnv.TRACE)
tvars == <<have, trk, hub, hubnew, staged, listed, indexed, fresh, size, made, res, l>>
ev == Trace[l]
IsEv(n) == l <= Len(Trace) /\ ev.ev = n /\ l' = l + 1
AsSet(s) == {s[i] : i \in DOMAIN s}

(* what the code serves after the step, judged against the specification's post-state *)
Observed(r) ==
  /\ ev.lost = 0                                                  \* nothing stored under a surviving local ref disappears
  /\ AsSet(ev.git) = have'[r]                                    \* the bugs with a local ref are the specification's
  /\ (staged'[r] = {}) =>        \* quiescent after the step (not Quiescent(r)': priming would also prime the argument)
       /\ AsSet(ev.live) = have'[r]                              \* the live cache lists exactly them
       /\ AsSet(ev.rebuilt) = have'[r]                           \* and so does a rebuilt one
       /\ ev.agree.excerpts /\ ev.agree.snapshots /\ ev.agree.labels /\ ev.agree.queries
       /\ ev.agree.search /\ ev.agree.metadata /\ ev.agree.identities

TraceInit == Init /\ l = 1
Reset == IsEv("Reset") /\ have' = [r \in Replica |-> {}] /\ trk' = [r \in Replica |-> {}] /\ hub' = {}
         /\ hubnew' = [r \in Replica |-> {}] /\ staged' = [r \in Replica |-> {}] /\ listed' = [r \in Replica |-> {}]
         /\ indexed' = [r \in Replica |-> {}] /\ fresh' = [r \in Replica |-> {}] /\ size' = [r \in Replica |-> MaxSize] /\ made' = 0 /\ res' = "none"
TNew == IsEv("New") /\ ev.err = "" /\ CNew(ev.r) /\ ev.b = NextBug /\ Observed(ev.r)
TEdit == IsEv("Edit") /\ ev.err = "" /\ CEdit(ev.r, ev.b) /\ Observed(ev.r)
TCommit == IsEv("Commit") /\ ev.err = "" /\ CCommit(ev.r, ev.b) /\ Observed(ev.r)
TEditCommit == /\ IsEv("EditCommit") /\ ev.err = "" /\ ev.b \in have[ev.r]
               /\ fresh' = [fresh EXCEPT ![ev.r] = @ \cup {ev.b}] /\ res' = "commit"
               /\ staged' = [staged EXCEPT ![ev.r] = @ \ {ev.b}]
               /\ UNCHANGED <<have, trk, hub, hubnew, listed, indexed, size, made>> /\ Observed(ev.r)
TPush == IsEv("Push") /\ ev.err = "" /\ CPush(ev.r) /\ Observed(ev.r)
TPushRejected == IsEv("PushRejected") /\ UNCHANGED vars /\ Observed(ev.r)
TPull == IsEv("Pull") /\ ev.err = "" /\ CPull(ev.r) /\ Observed(ev.r)
TFetch == IsEv("Fetch") /\ ev.err = "" /\ CFetch(ev.r) /\ Observed(ev.r)
TRemove == IsEv("Remove") /\ ev.err = "" /\ CRemove(ev.r, ev.b) /\ Observed(ev.r)
TResolveAll == IsEv("ResolveAll") /\ ev.err = "" /\ CResolveAll(ev.r, ev.n) /\ Observed(ev.r)
TReopen == IsEv("Reopen") /\ ev.err = "" /\ CReopen(ev.r) /\ Observed(ev.r)
(* identity changes do not touch bugs *)
TIdent == IsEv("MutateIdentity") /\ ev.err = "" /\ UNCHANGED vars /\ Observed(ev.r)
(* a call that names a bug the repository does not have is refused and changes nothing *)
TNoSuchBug == /\ l <= Len(Trace) /\ ev.ev \in {"Edit", "EditCommit", "Remove"} /\ l' = l + 1
              /\ ev.err # "" /\ ev.b \notin have[ev.r] /\ UNCHANGED vars /\ Observed(ev.r)
TraceNext == TNoSuchBug \/ TPushRejected \/ Reset \/ TNew \/ TEdit \/ TCommit \/ TEditCommit \/ TPush \/ TPull \/ TFetch \/ TRemove \/ TResolveAll \/ TReopen \/ TIdent
TraceSpec == TraceInit /\ [][TraceNext]_tvars
TraceAccepted == TLCGet("stats").diameter - 1 = Len(Trace)
=============================================================================
