SPECIFICATION Spec
CONSTANT MaxOps = 8
INVARIANT RulesHold
PROPERTY ReadOnly
CHECK_DEADLOCK FALSE
