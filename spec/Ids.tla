-------------------------------- MODULE Ids --------------------------------
(* Identifiers of git-bug (entity/id.go, entity/id_interleaved.go) and their resolution by prefix
   (cache/subcache.go resolveMatcher, cache/bug_subcache.go ResolveComment).

   An id is a sequence of IdLen symbols.  A comment is addressed by a combined id that interleaves the id of its bug
   (primary) and the id of its operation (secondary) following a fixed pattern, so that every prefix of the
   combined id splits into a prefix of each part.                                                              *)
EXTENDS Integers, Sequences, FiniteSets, SequencesExt

IdLen == 64

(* 0-based positions of the combined id taken from the secondary id *)
SecondaryPos == {1, 3, 5, 9} \cup {i \in 10..(IdLen - 1) : i % 5 = 4}

Prefix(s, n) == SubSeq(s, 1, n)

(* number of primary / secondary symbols among the first L symbols of a combined id *)
NSec(L) == Cardinality({i \in SecondaryPos : i < L})
NPri(L) == L - NSec(L)

(* Combine: position i (0-based) carries the next unused symbol of the secondary id if i \in SecondaryPos, else of the primary *)
Combine(p, s) ==
  [k \in 1..IdLen |-> IF (k - 1) \in SecondaryPos THEN s[NSec(k)] ELSE p[NPri(k)]]

(* Separate an arbitrary-length prefix of a combined id *)
Separate(x) ==
  LET L == Len(x) IN
  << [j \in 1..NPri(L) |-> x[CHOOSE k \in 1..L : (k - 1) \notin SecondaryPos /\ NPri(k) = j]],
     [j \in 1..NSec(L) |-> x[CHOOSE k \in 1..L : (k - 1) \in SecondaryPos /\ NSec(k) = j]] >>

(* The interleaving theorem (C13): every prefix of a combined id splits into a prefix of each part *)
SplitsIntoPrefixes(p, s, L) ==
  Separate(Prefix(Combine(p, s), L)) = << Prefix(p, NPri(L)), Prefix(s, NSec(L)) >>

(* ---- resolution of a prefix in a population (a sequence of distinct ids; positions identify entities) ---- *)
Matching(pop, x) == {i \in DOMAIN pop : IsPrefix(x, pop[i])}

ResolvePrefix(pop, x) ==
  LET m == Matching(pop, x) IN
  IF Cardinality(m) = 1 THEN [outcome |-> "found", matching |-> m]
  ELSE IF m = {} THEN [outcome |-> "notfound", matching |-> {}]
  ELSE [outcome |-> "multiple", matching |-> m]

(* the command line (commands/select): the first argument is tried as an id prefix; only when it matches nothing does the
   selected entity (if any, and if it still exists) stand in, and then the arguments are left as they are.  A prefix matched
   by several ids is an error listing them - never the selected entity.   sel: index of the selected entity, 0 = none,
   -1 = a selection that no longer exists.   args: 0 = no argument, 1 = the prefix x is the first argument *)
ResolveSelected(pop, x, hasArg, sel) ==
  LET r == ResolvePrefix(pop, x) IN
  IF hasArg /\ r.outcome = "found" THEN [outcome |-> "found", matching |-> r.matching, used |-> TRUE]
  ELSE IF hasArg /\ r.outcome = "multiple" THEN [outcome |-> "multiple", matching |-> r.matching, used |-> FALSE]
  ELSE IF sel >= 1 THEN [outcome |-> "found", matching |-> {sel}, used |-> FALSE]
  ELSE [outcome |-> "novalid", matching |-> {}, used |-> FALSE]

(* comments: a population of [bug, op] pairs (indices into a bug population and the comment's operation id) *)
CommentMatching(bugs, comments, x) ==
  {i \in DOMAIN comments : IsPrefix(x, Combine(bugs[comments[i].bug], comments[i].op))}

ResolveComment(bugs, comments, x) ==
  LET m == CommentMatching(bugs, comments, x) IN
  IF Cardinality(m) = 1 THEN [outcome |-> "found", matching |-> m, bugs |-> {comments[i].bug : i \in m}]
  ELSE IF m = {} THEN [outcome |-> "notfound", matching |-> {}, bugs |-> {}]
  ELSE [outcome |-> "multiple", matching |-> m, bugs |-> {comments[i].bug : i \in m}]
=============================================================================
