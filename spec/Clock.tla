------------------------------- MODULE Clock -------------------------------
(* One Lamport clock object (util/lamport): MemClock, and PersistedClock = MemClock + a file rewritten after every
   change and read back when the clock is loaded again.  Time(), Increment(), Witness(v), and for the persisted one
   Reload() (drop the object, load the file).  A new clock starts at 1. *)
EXTENDS Integers, Sequences

(* incfail / witfail: the same calls while the file cannot be replaced (disk full, say): the call must report the failure -
   a value that is not on disk is not handed out as if it were (err); the object in memory has moved on, the file has not *)
Step(k, op) ==
  CASE op.op = "inc"     -> [mem |-> k.mem + 1, disk |-> k.mem + 1, ret |-> k.mem + 1, err |-> FALSE]
    [] op.op = "witness" -> LET m == IF op.v > k.mem THEN op.v ELSE k.mem IN [mem |-> m, disk |-> m, ret |-> 0, err |-> FALSE]
    [] op.op = "reload"  -> [mem |-> k.disk, disk |-> k.disk, ret |-> 0, err |-> FALSE]
    [] op.op = "incfail" -> [mem |-> k.mem + 1, disk |-> k.disk, ret |-> 0, err |-> TRUE]
    [] op.op = "witfail" -> LET m == IF op.v > k.mem THEN op.v ELSE k.mem IN [mem |-> m, disk |-> k.disk, ret |-> 0, err |-> TRUE]

RECURSIVE Run(_, _)
Run(k, ops) == IF ops = <<>> THEN <<>> ELSE LET k1 == Step(k, Head(ops)) IN <<k1>> \o Run(k1, Tail(ops))

Start == [mem |-> 1, disk |-> 1, ret |-> 0, err |-> FALSE]
=============================================================================
