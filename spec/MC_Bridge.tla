----------------------------- MODULE MC_Bridge -----------------------------
(* tracker histories of <= NIssue issues and <= MaxEv events, <= MaxRounds import rounds with growth in between and a
   failure of any request class in any round *)
EXTENDS Bridge, TLC
CONSTANTS MaxEv, MaxRounds
VARIABLE rounds
Kinds == {"comment", "title", "label", "state", "desc"}
Next ==
  \/ /\ nextid <= MaxEv /\ UNCHANGED rounds
     /\ \/ \E i \in Issue : NewIssue(i)
        \/ \E i \in Issue, k \in Kinds : AddEvent(i, k)
        \/ \E i \in Issue : \E k \in DOMAIN tracker[i].bodyv : tracker[i].bodyv[k].v < 1 /\ EditNote(i, k)
  \/ /\ rounds < MaxRounds /\ rounds' = rounds + 1
     /\ \/ RoundClean
        \/ \E c \in {"issues", "notes", "labels", "states"}, i \in Issue : RoundFailedAt(c, i)
        \/ \E u \in Users : RoundFailedUser(u)
Spec == Init /\ rounds = 0 /\ [][Next]_<<vars, rounds>>
=============================================================================
