------------------------------- MODULE Page -------------------------------
(* Relay-style pagination of an in-memory list, as served by every GraphQL connection of git-bug
   (api/graphql/connections/connection_template.go and its seven generated instances).

   A list of length n is the sequence of positions 0 .. n-1; a cursor designates a position.
   Paginate is the *declarative* meaning of a request (first, after, last, before):
   the window strictly after `after` and strictly before `before`, cut to its first `first`
   elements and then to its last `last` elements.  Walk is the state machine a client runs to
   page through a list.  C20 is WalkCovers + Window + Flags + Cursors + Total below.          *)
EXTENDS Integers, Sequences, FiniteSets

None      == -2     \* argument absent / cursor of an empty page
Foreign   == 100    \* well-formed cursor that designates no element of this list
Malformed == 101    \* undecodable cursor

IsPos(n, c) == c \in 0..(n-1)

Paginate(n, first, after, last, before) ==
  LET afterOK  == IsPos(n, after)
      lo       == IF afterOK THEN after + 1 ELSE 0
      beforeOK == before \in lo..(n-1)            \* `before` is looked up in what follows `after` only
      hi       == IF beforeOK THEN before ELSE n   \* exclusive
      err      == (first # None /\ first < 0) \/ (last # None /\ last < 0)
      cutF     == first # None /\ hi - lo > first
      hi1      == IF cutF THEN lo + first ELSE hi
      cutL     == last # None /\ hi1 - lo > last
      lo1      == IF cutL THEN hi1 - last ELSE lo
      edges    == [i \in 1..(hi1 - lo1) |-> lo1 + i - 1]
  IN IF err
     THEN [err |-> TRUE, edges |-> <<>>, hasNext |-> FALSE, hasPrev |-> FALSE,
           start |-> None, end |-> None, total |-> 0]
     ELSE [err |-> FALSE, edges |-> edges,
           hasNext |-> beforeOK \/ cutF,
           hasPrev |-> afterOK \/ cutL,
           start |-> IF hi1 > lo1 THEN lo1 ELSE None,
           end   |-> IF hi1 > lo1 THEN hi1 - 1 ELSE None,
           total |-> n]

(* ---- what a user relies on, stated on the result of any single request ---- *)
Range(s) == {s[i] : i \in DOMAIN s}

Window(n, first, after, last, before) ==
  LET p == Paginate(n, first, after, last, before) IN
  ~p.err =>
    /\ \A i \in DOMAIN p.edges : p.edges[i] \in 0..(n-1)
    /\ \A i \in DOMAIN p.edges : i > 1 => p.edges[i] = p.edges[i-1] + 1          \* list order, contiguous, no repeat
    /\ IsPos(n, after)  => \A i \in DOMAIN p.edges : p.edges[i] > after
    /\ (IsPos(n, before) /\ (~IsPos(n, after) \/ before > after)) => \A i \in DOMAIN p.edges : p.edges[i] < before
    /\ (first # None) => Len(p.edges) <= first
    /\ (last  # None) => Len(p.edges) <= last
    /\ p.total = n
    /\ (p.edges # <<>>) => p.start = p.edges[1] /\ p.end = p.edges[Len(p.edges)]
    /\ (p.edges = <<>>) => p.start = None /\ p.end = None

(* forward direction: only first/after given; backward: only last/before given *)
FlagsForward(n, first, after) ==
  LET p == Paginate(n, first, after, None, None)
      lo == IF IsPos(n, after) THEN after + 1 ELSE 0 IN
  (first # None /\ first >= 0) => (p.hasNext <=> (lo + Len(p.edges) < n))

FlagsBackward(n, last, before) ==
  LET p == Paginate(n, None, None, last, before)
      hi == IF IsPos(n, before) THEN before ELSE n IN
  (last # None /\ last >= 0) => (p.hasPrev <=> (hi - Len(p.edges) > 0))

Rejects(n, first, after, last, before) ==
  Paginate(n, first, after, last, before).err <=> ((first # None /\ first < 0) \/ (last # None /\ last < 0))

(* ---- the client's paging loop ---- *)
WalkInit(n, k, dir) == [mode |-> "walk", n |-> n, k |-> k, dir |-> dir, cur |-> None, got |-> <<>>,
                        done |-> FALSE, steps |-> 0]

WalkStep(w) ==
  IF w.dir = "fwd"
  THEN LET p == Paginate(w.n, w.k, w.cur, None, None) IN
       [w EXCEPT !.got = w.got \o p.edges, !.cur = p.end, !.done = ~p.hasNext, !.steps = w.steps + 1]
  ELSE LET p == Paginate(w.n, None, None, w.k, w.cur) IN
       [w EXCEPT !.got = p.edges \o w.got, !.cur = p.start, !.done = ~p.hasPrev, !.steps = w.steps + 1]

WalkCovers(w) == w.done => w.got = [i \in 1..w.n |-> i - 1]
WalkTerminates(w) == w.steps <= w.n + 1
=============================================================================
