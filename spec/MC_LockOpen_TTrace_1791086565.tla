---- MODULE MC_LockOpen_TTrace_1791086565 ----
EXTENDS Sequences, TLCExt, MC_LockOpen, Toolbox, Naturals, TLC

_expression ==
    LET MC_LockOpen_TEExpression == INSTANCE MC_LockOpen_TEExpression
    IN MC_LockOpen_TEExpression!expression
----

_trace ==
    LET MC_LockOpen_TETrace == INSTANCE MC_LockOpen_TETrace
    IN MC_LockOpen_TETrace!trace
----

_inv ==
    ~(
        TLCGet("level") = Len(_TETrace)
        /\
        alive = ({})
        /\
        lock = (-1)
        /\
        taking = ({})
    )
----

_init ==
    /\ taking = _TETrace[1].taking
    /\ lock = _TETrace[1].lock
    /\ alive = _TETrace[1].alive
----

_next ==
    /\ \E i,j \in DOMAIN _TETrace:
        /\ \/ /\ j = i + 1
              /\ i = TLCGet("level")
        /\ taking  = _TETrace[i].taking
        /\ taking' = _TETrace[j].taking
        /\ lock  = _TETrace[i].lock
        /\ lock' = _TETrace[j].lock
        /\ alive  = _TETrace[i].alive
        /\ alive' = _TETrace[j].alive

\* Uncomment the ASSUME below to write the states of the error trace
\* to the given file in Json format. Note that you can pass any tuple
\* to `JsonSerialize`. For example, a sub-sequence of _TETrace.
    \* ASSUME
    \*     LET J == INSTANCE Json
    \*         IN J!JsonSerialize("MC_LockOpen_TTrace_1791086565.json", _TETrace)

=============================================================================

 Note that you can extract this module `MC_LockOpen_TEExpression`
  to a dedicated file to reuse `expression` (the module in the 
  dedicated `MC_LockOpen_TEExpression.tla` file takes precedence 
  over the module `MC_LockOpen_TEExpression` below).

---- MODULE MC_LockOpen_TEExpression ----
EXTENDS Sequences, TLCExt, MC_LockOpen, Toolbox, Naturals, TLC

expression == 
    [
        \* To hide variables of the `MC_LockOpen` spec from the error trace,
        \* remove the variables below.  The trace will be written in the order
        \* of the fields of this record.
        taking |-> taking
        ,lock |-> lock
        ,alive |-> alive
        
        \* Put additional constant-, state-, and action-level expressions here:
        \* ,_stateNumber |-> _TEPosition
        \* ,_takingUnchanged |-> taking = taking'
        
        \* Format the `taking` variable as Json value.
        \* ,_takingJson |->
        \*     LET J == INSTANCE Json
        \*     IN J!ToJson(taking)
        
        \* Lastly, you may build expressions over arbitrary sets of states by
        \* leveraging the _TETrace operator.  For example, this is how to
        \* count the number of times a spec variable changed up to the current
        \* state in the trace.
        \* ,_takingModCount |->
        \*     LET F[s \in DOMAIN _TETrace] ==
        \*         IF s = 1 THEN 0
        \*         ELSE IF _TETrace[s].taking # _TETrace[s-1].taking
        \*             THEN 1 + F[s-1] ELSE F[s-1]
        \*     IN F[_TEPosition - 1]
    ]

=============================================================================



Parsing and semantic processing can take forever if the trace below is long.
 In this case, it is advised to uncomment the module below to deserialize the
 trace from a generated binary file.

\*
\*---- MODULE MC_LockOpen_TETrace ----
\*EXTENDS IOUtils, MC_LockOpen, TLC
\*
\*trace == IODeserialize("MC_LockOpen_TTrace_1791086565.bin", TRUE)
\*
\*=============================================================================
\*

---- MODULE MC_LockOpen_TETrace ----
EXTENDS MC_LockOpen, TLC

trace == 
    <<
    ([alive |-> {},lock |-> 0,taking |-> {}]),
    ([alive |-> {},lock |-> -1,taking |-> {1}]),
    ([alive |-> {},lock |-> -1,taking |-> {}])
    >>
----


=============================================================================

---- CONFIG MC_LockOpen_TTrace_1791086565 ----
CONSTANTS
    Holder = { 1 , 2 }
    Atomic = FALSE

INVARIANT
    _inv

CHECK_DEADLOCK
    \* CHECK_DEADLOCK off because of PROPERTY or INVARIANT above.
    FALSE

INIT
    _init

NEXT
    _next

CONSTANT
    _TETrace <- _trace

ALIAS
    _expression
=============================================================================
\* Generated on Sun Oct 04 04:02:46 UTC 2026