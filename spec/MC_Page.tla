----------------------------- MODULE MC_Page -----------------------------
(* Bounded instance of Page: every request (n, first, after, last, before) is an initial state,
   every walk (n, page size, direction) is a behaviour.  With Emit in the configuration each request
   is also printed with the result the specification prescribes (one implementation test per state). *)
EXTENDS Page, TLC, Json

CONSTANTS MaxN, MaxK

VARIABLE st

Sizes == {None, -1} \cup 0..MaxK
Cursors(n) == {None, Foreign, Malformed} \cup 0..(n-1)

VecStates == UNION {
   {[mode |-> "vec", n |-> n, first |-> f, after |-> a, last |-> l, before |-> b] :
        f \in Sizes, a \in Cursors(n), l \in Sizes, b \in Cursors(n)} : n \in 0..MaxN}

WalkStates == {WalkInit(n, k, d) : n \in 0..MaxN, k \in 1..MaxK, d \in {"fwd", "bwd"}}

Init == st \in VecStates \cup WalkStates
Next == st.mode = "walk" /\ ~st.done /\ st' = WalkStep(st)
Spec == Init /\ [][Next]_st

IsVec == st.mode = "vec"
InvWindow  == IsVec => Window(st.n, st.first, st.after, st.last, st.before)
InvRejects == IsVec => Rejects(st.n, st.first, st.after, st.last, st.before)
InvFlagsF  == IsVec => FlagsForward(st.n, st.first, st.after)
InvFlagsB  == IsVec => FlagsBackward(st.n, st.last, st.before)
InvWalkCovers     == ~IsVec => WalkCovers(st)
InvWalkTerminates == ~IsVec => WalkTerminates(st)

Emit == IsVec => PrintT(ToJson([n |-> st.n, first |-> st.first, after |-> st.after, last |-> st.last,
                                before |-> st.before,
                                exp |-> Paginate(st.n, st.first, st.after, st.last, st.before)]))
EmitWalk == (~IsVec /\ st.done) => PrintT(ToJson([walk |-> st.dir, n |-> st.n, k |-> st.k, got |-> st.got, steps |-> st.steps]))
=============================================================================
