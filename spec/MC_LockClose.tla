---------------------------- MODULE MC_LockClose ----------------------------
(* Close taken apart: CloseBegin (the holder starts flushing; it still writes to the repository's local storage), then
   CloseEnd (the lock file is removed, the holder is gone).  Every write of a holder must happen under its own lock, and an
   open attempted at any moment is refused while a holder is alive.  UnlockFirst = TRUE removes the lock in CloseBegin
   instead (a witness: TLC must report WriteUnderLock / OwnerAlive violated). *)
EXTENDS Lock, TLC
CONSTANTS UnlockFirst
VARIABLES closing, wrote      \* holders between CloseBegin and CloseEnd; wrote: a holder wrote without owning the lock
allvars == <<vars, closing, wrote>>

CInit == Init /\ closing = {} /\ wrote = FALSE
COpen(h) == Open(h) /\ UNCHANGED <<closing, wrote>>
CloseBegin(h) == /\ h \in alive /\ h \notin closing /\ closing' = closing \cup {h}
                 /\ lock' = (IF UnlockFirst /\ lock = h THEN 0 ELSE lock)
                 /\ UNCHANGED <<alive, res, wrote>>
Flush(h) == h \in closing /\ wrote' = (wrote \/ lock # h) /\ UNCHANGED <<vars, closing>>
CloseEnd(h) == h \in closing /\ closing' = closing \ {h} /\ Close(h) /\ UNCHANGED wrote
CNext == \E h \in Holder : COpen(h) \/ CloseBegin(h) \/ Flush(h) \/ CloseEnd(h)
CSpec == CInit /\ [][CNext]_allvars
WriteUnderLock == ~wrote
=============================================================================
