SPECIFICATION Spec
CONSTANTS G = {1, 2}  MaxOps = 3  Recheck = TRUE  Eviction = TRUE
INVARIANTS NoDeadlock
CHECK_DEADLOCK FALSE
