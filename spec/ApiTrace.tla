------------------------------ MODULE ApiTrace ------------------------------
EXTENDS Api, Json, IOUtils, TLC
VARIABLE l
Trace == ndJsonDeserialize(IOEnv.TRACE)
ev == Trace[l]
Init == l = 1
Next == /\ l <= Len(Trace)
        /\ CASE ev.ev = "Mutation" -> MutationOK(ev)
             [] ev.ev = "Query" -> QueryOK(ev)
             [] ev.ev = "Upload" -> UploadOK(ev)
        /\ l' = l + 1
Spec == Init /\ [][Next]_l
TraceAccepted == TLCGet("stats").diameter - 1 = Len(Trace)
=============================================================================
