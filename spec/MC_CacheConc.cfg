SPECIFICATION Spec
CONSTANTS G = {1, 2, 3}  MaxOps = 4  Recheck = TRUE  Eviction = FALSE
INVARIANTS AckStored ValidChain NoDeadlock SingleInstance
CHECK_DEADLOCK FALSE
