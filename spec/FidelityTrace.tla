--------------------------- MODULE FidelityTrace ---------------------------
EXTENDS Fidelity, Json, IOUtils, TLC
VARIABLE l
Trace == ndJsonDeserialize(IOEnv.TRACE)
ev == Trace[l]
IsEv(n) == l <= Len(Trace) /\ ev.ev = n /\ l' = l + 1
TInit == Init /\ l = 1
Reset == IsEv("Reset") /\ ops' = <<>> /\ ncommitted' = 0 /\ eid' = "" /\ npacks' = 0 /\ times' = <<0, 0>>
TAppend == IsEv("Append") /\ ev.err = "" /\ AppendOps(ev.ops, ev.eid)
TCommit == IsEv("Commit") /\ ev.err = "" /\ Commit(ev.ops, ev.stored, ev.packs, ev.eid, ev.times)
TRead == IsEv("Read") /\ ev.err = "" /\ Read(ev.eid, ev.ops, ev.valid, ev.times, ev.files)
TReadMerged == IsEv("ReadMerged") /\ ev.err = "" /\ ReadMerged(ev.eid, ev.ops, ev.reads, ev.valid, ev.files)
TCommitInvalid == IsEv("CommitInvalid") /\ ev.refused /\ ~ev.moved /\ CommitRefused
TNext == Reset \/ TAppend \/ TCommit \/ TRead \/ TReadMerged \/ TCommitInvalid
TSpec == TInit /\ [][TNext]_<<vars, l>>
TraceAccepted == TLCGet("stats").diameter - 1 = Len(Trace)
(* an operation, once appended, is never altered or reordered *)
Stable == [][(ev.ev \in {"Reset", "ReadMerged", "CommitInvalid"}) \/ (\A i \in DOMAIN ops : ops'[i] = ops[i])]_<<vars, l>>
=============================================================================
