--------------------------- MODULE MemClockConc ---------------------------
(* lamport.MemClock used by several goroutines at once.  The counter is one atomic word: Increment is one atomic add,
   Witness(v) is a loop of load / compare-and-swap (util/lamport/mem_clock.go).  Each witnesser w of Wit witnesses the value
   Val[w]; each incrementer increments Times times.
     Dominates: a Witness(v) that has returned leaves the clock at v or above, whatever ran meanwhile.
     Monotone:  the counter never decreases.
     Fresh:     no two increments return the same time, and an increment that starts after a Witness(v) returned gets more than v.
   Retry = TRUE is the implementation (a failed compare-and-swap starts over); Retry = FALSE, the witness configuration,
   gives up after a failed compare-and-swap ("somebody moved the clock, it only goes up") and must violate Dominates:
   the somebody may be an increment by one, far below v. *)
EXTENDS Integers, FiniteSets, TLC
CONSTANTS Wit, Val, Inc, Times, Retry
VARIABLES c, pc, cur, left, got, floor, floorAt
vars == <<c, pc, cur, left, got, floor, floorAt>>

Init == /\ c = 1
        /\ pc = [w \in Wit |-> "load"]
        /\ cur = [w \in Wit |-> 0]
        /\ left = [i \in Inc |-> Times]
        /\ got = {}              \* times handed out by increments
        /\ floor = 0             \* largest value whose Witness has returned
        /\ floorAt = [i \in Inc |-> 0]   \* (bookkeeping) floor when the incrementer's latest increment ran: it is atomic, so = floor then

Load(w) == /\ pc[w] = "load"
           /\ cur' = [cur EXCEPT ![w] = c]
           /\ IF Val[w] <= c THEN /\ pc' = [pc EXCEPT ![w] = "done"]
                                  /\ floor' = IF Val[w] > floor THEN Val[w] ELSE floor
                             ELSE /\ pc' = [pc EXCEPT ![w] = "cas"]
                                  /\ UNCHANGED floor
           /\ UNCHANGED <<c, left, got, floorAt>>

Cas(w) == /\ pc[w] = "cas"
          /\ IF c = cur[w]
               THEN /\ c' = Val[w]
                    /\ pc' = [pc EXCEPT ![w] = "done"]
                    /\ floor' = IF Val[w] > floor THEN Val[w] ELSE floor
               ELSE /\ UNCHANGED c
                    /\ IF Retry THEN pc' = [pc EXCEPT ![w] = "load"] /\ UNCHANGED floor
                                ELSE /\ pc' = [pc EXCEPT ![w] = "done"]         \* gives up: Witness returns
                                     /\ floor' = IF Val[w] > floor THEN Val[w] ELSE floor
          /\ UNCHANGED <<cur, left, got, floorAt>>

Increment(i) == /\ left[i] > 0
                /\ c' = c + 1
                /\ left' = [left EXCEPT ![i] = @ - 1]
                /\ got' = got \cup {c + 1}
                /\ floorAt' = [floorAt EXCEPT ![i] = floor]
                /\ UNCHANGED <<pc, cur, floor>>

Next == (\E w \in Wit : Load(w) \/ Cas(w)) \/ (\E i \in Inc : Increment(i))
Spec == Init /\ [][Next]_vars

Dominates == c >= floor
Monotone == [][c' >= c]_vars
Fresh == [][\A i \in Inc : (left'[i] < left[i]) => (c' \notin got /\ c' > floor)]_vars
=============================================================================
