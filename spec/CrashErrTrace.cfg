SPECIFICATION Spec
POSTCONDITION TraceAccepted
CHECK_DEADLOCK FALSE
