SPECIFICATION Spec
CONSTANTS Replica = {A, B}  NBug = 3  MaxSize = 2
INVARIANTS CacheAgrees TypeOK
CHECK_DEADLOCK FALSE
