------------------------------ MODULE CacheConc ------------------------------
(* Several goroutines using one repository cache at once, as the web UI server does (C18): cache/subcache.go Resolve and
   evictIfNeeded, cache/cached.go Commit, entity/dag Entity.Commit.  Steps are split where the code releases its locks.

   One bug.  Its stored history is a set of commits [id, parent, op]; `head` is the ref.  An *instance* is an in-memory
   copy of the bug with the commit it is based on; the cache holds at most one (cached).  Goroutines hold instances.

     Resolve = Lookup (read lock): hit -> done | miss -> ReadGit (no lock) ; Insert (write lock)
     EditCommit (instance lock): new commit on top of the instance's base, ref := it (a plain update), acknowledged
     Evict: the cache drops a clean instance and locks it forever: whoever still holds it blocks on its next call

   Recheck says whether Insert looks again under the write lock (and adopts the instance that is already there);
   Eviction says whether instances can be evicted while goroutines hold them. *)
EXTENDS Integers, FiniteSets, Sequences

CONSTANTS G, MaxOps, Recheck, Eviction

VARIABLES commits,   \* set of [id, parent, g]
          head,      \* id of the commit the ref points to (0 = the creation)
          insts,     \* instance id -> [base, dead]
          cached,    \* instance id in the cache, 0 = none
          pc,        \* pc[g] \in {"idle", "read", "insert", "have", "blocked"}
          mine,      \* mine[g]: instance held (or being built) by g
          acked      \* set of commit ids whose call returned success

vars == <<commits, head, insts, cached, pc, mine, acked>>

Init == /\ commits = {} /\ head = 0 /\ insts = <<>> /\ cached = 0
        /\ pc = [g \in G |-> "idle"] /\ mine = [g \in G |-> 0] /\ acked = {}

RECURSIVE Anc(_)
Anc(c) == IF c = 0 THEN {} ELSE {c} \cup Anc((CHOOSE x \in commits : x.id = c).parent)

Lookup(g) ==
  /\ pc[g] = "idle"
  /\ IF cached # 0 THEN pc' = [pc EXCEPT ![g] = "have"] /\ mine' = [mine EXCEPT ![g] = cached]
                   ELSE pc' = [pc EXCEPT ![g] = "read"] /\ UNCHANGED mine
  /\ UNCHANGED <<commits, head, insts, cached, acked>>

ReadGit(g) ==
  /\ pc[g] = "read"
  /\ insts' = Append(insts, [base |-> head, dead |-> FALSE])
  /\ mine' = [mine EXCEPT ![g] = Len(insts) + 1]
  /\ pc' = [pc EXCEPT ![g] = "insert"]
  /\ UNCHANGED <<commits, head, cached, acked>>

Insert(g) ==
  /\ pc[g] = "insert"
  /\ IF Recheck /\ cached # 0
     THEN mine' = [mine EXCEPT ![g] = cached] /\ UNCHANGED cached
     ELSE cached' = mine[g] /\ UNCHANGED mine
  /\ pc' = [pc EXCEPT ![g] = "have"]
  /\ UNCHANGED <<commits, head, insts, acked>>

EditCommit(g) ==
  /\ pc[g] = "have"
  /\ Cardinality(commits) < MaxOps
  /\ IF insts[mine[g]].dead
     THEN pc' = [pc EXCEPT ![g] = "blocked"] /\ UNCHANGED <<commits, head, insts, acked>>   \* the instance was evicted: locked forever
     ELSE LET id == Cardinality(commits) + 1 IN
          /\ commits' = commits \cup {[id |-> id, parent |-> insts[mine[g]].base, g |-> g]}
          /\ head' = id
          /\ insts' = [insts EXCEPT ![mine[g]].base = id]
          /\ acked' = acked \cup {id}
          /\ pc' = [pc EXCEPT ![g] = "idle"]
  /\ UNCHANGED <<cached, mine>>

Release(g) == pc[g] = "have" /\ pc' = [pc EXCEPT ![g] = "idle"] /\ UNCHANGED <<commits, head, insts, cached, mine, acked>>

Evict ==
  /\ Eviction /\ cached # 0
  /\ insts' = [insts EXCEPT ![cached].dead = TRUE]
  /\ cached' = 0
  /\ UNCHANGED <<commits, head, pc, mine, acked>>

Next == Evict \/ \E g \in G : Lookup(g) \/ ReadGit(g) \/ Insert(g) \/ EditCommit(g) \/ Release(g)
Spec == Init /\ [][Next]_vars

(* ---- C18 ---- *)
AckStored == acked \subseteq Anc(head)                        \* every acknowledged operation is in the stored history
ValidChain == \A c \in commits : c.parent = 0 \/ \E p \in commits : p.id = c.parent
NoDeadlock == \A g \in G : pc[g] # "blocked"
SingleInstance == \A g1, g2 \in G : (pc[g1] = "have" /\ pc[g2] = "have") => mine[g1] = mine[g2]
=============================================================================
