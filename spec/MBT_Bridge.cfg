SPECIFICATION MSpec
CONSTANTS Issue = {1, 2}  Margin = 5  StopAtFirst = TRUE  MaxEv = 110  Depth = 16
INVARIANT Emit
CHECK_DEADLOCK FALSE
