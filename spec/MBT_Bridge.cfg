SPECIFICATION MSpec
CONSTANTS Issue = {1, 2}  Margin = 5  MaxEv = 110  Depth = 16
INVARIANT Emit
CHECK_DEADLOCK FALSE
