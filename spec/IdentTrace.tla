---------------------------- MODULE IdentTrace ----------------------------
(* trace validation for Ident: harness/identx runs schedules on real repositories and logs, per step, the outcome
   and the projected version chains (local, tracking, hub) of the acting replica. *)
EXTENDS Ident, Json, IOUtils, TLC
VARIABLES l,
          pend   \* identities the MergeAll in progress still has to report on
Trace == ndJsonDeserialize(IOEnv.TRACE)
tvars == <<nver, chain, tchain, hchain, res, l, pend>>
ev == Trace[l]
IsEv(n) == l <= Len(Trace) /\ ev.ev = n /\ l' = l + 1
AsVec(s) == [i \in Idents |-> s[i]]
StateMatches(e) ==
  /\ chain'[e.r] = AsVec(e.chain)
  /\ tchain'[e.r] = AsVec(e.trk)
  /\ hchain' = AsVec(e.hub)
StateMatchesNow(e) == chain[e.r] = AsVec(e.chain) /\ tchain[e.r] = AsVec(e.trk) /\ hchain = AsVec(e.hub)
TraceInit == Init /\ l = 1 /\ pend = {}
Reset == IsEv("Reset") /\ nver' = 0 /\ res' = NoRes
         /\ chain' = [r \in Replica |-> [i \in Idents |-> <<>>]] /\ tchain' = [r \in Replica |-> [i \in Idents |-> <<>>]]
         /\ hchain' = [i \in Idents |-> <<>>] /\ pend' = {}
TNew == pend = {} /\ UNCHANGED pend /\ IsEv("NewIdent") /\ ev.err = "" /\ ev.idstable /\ NewIdent(ev.r, ev.k) /\ StateMatches(ev)
TMutate == pend = {} /\ UNCHANGED pend /\ IsEv("Mutate") /\ ev.err = "" /\ ev.idstable /\ Mutate(ev.r, ev.i) /\ StateMatches(ev)
TPush == pend = {} /\ UNCHANGED pend /\ IsEv("Push") /\ Push(ev.r) /\ res'.ok = ev.ok /\ StateMatches(ev)
TFetch == pend = {} /\ UNCHANGED pend /\ IsEv("Fetch") /\ ev.err = "" /\ Fetch(ev.r) /\ StateMatches(ev)
(* MergeAll reports on every remote-tracking identity: one Merge event each, between Begin and End *)
TMergeBegin == /\ IsEv("MergeAllBegin") /\ pend = {}
               /\ pend' = {i \in Idents : tchain[ev.r][i] # <<>>}
               /\ UNCHANGED vars
TMergeEnd == /\ IsEv("MergeAllEnd") /\ pend = {} /\ UNCHANGED <<vars, pend>> /\ StateMatchesNow(ev)
TMerge == /\ IsEv("Merge") /\ Merge(ev.r, ev.i)
          /\ ev.i \in pend /\ pend' = pend \ {ev.i}
          /\ res'.status = ev.status
          /\ ev.status \in {"new", "updated"} => ev.returned = <<res'.ret[Len(res'.ret)]>>   \* the identity handed back ends with the merged chain's last version
          /\ chain'[ev.r][ev.i] = ev.chain[ev.i]
          /\ ev.final => StateMatches(ev)
TraceNext == Reset \/ TNew \/ TMutate \/ TPush \/ TFetch \/ TMerge \/ TMergeBegin \/ TMergeEnd
TraceSpec == TraceInit /\ [][TraceNext]_tvars
TraceAccepted == TLCGet("stats").diameter - 1 = Len(Trace)
TraceActionProps == [][(ev.ev = "Reset") \/ (AppendOnly /\ IdStable)]_tvars
=============================================================================
