------------------------------- MODULE Bridge -------------------------------
(* Importing from an external tracker (bridge/core ImportAll, bridge/gitlab importer) in rounds, while the tracker grows
   and requests fail (C16).

   The tracker holds issues; an issue has a stamp `upd` (when it last changed, in tracker time) and an ordered list of
   events, each with a globally unique id and a kind.  A round starts at tracker time `now`: it lists the issues changed
   after the stored cursor and, for each, fetches its notes, label events and state events and records the ones it has
   not recorded yet.  The cursor stored after a round without error is the start of the round minus a safety margin, so
   issues changed shortly before a round are listed again by the next one: importing has to be idempotent.

   kinds:  "comment"  a note                          -> one add-comment operation carrying the note id
           "edit"     the body of an existing note changed (no new id) -> one edit operation when noticed
           "title" "label" "state"                    -> one operation each, carrying the event id
           "desc"     a "changed the description" note -> one edit operation carrying the note id, if the text differs *)
EXTENDS Integers, Sequences, FiniteSets, SequencesExt

CONSTANTS Issue, Margin,
          StopAtFirst    \* the events of an issue are imported up to the first one that cannot be (TRUE: the code as it is now;
                         \* FALSE: the pinned tree, which went on with the following ones - the witness configuration)

VARIABLES now,        \* tracker time
          tracker,    \* [i -> [exists, upd, events (Seq of [id, kind, note]), bodyv (note id -> version), descv]]
          nextid,
          local,      \* [i -> [known, ids (set of event ids recorded), bodyv (note id -> version seen), descv, nedits]]
          cursor,
          res,        \* outcome of the last round
          grown,      \* the tracker changed since the last round without error (history)
          known       \* tracker users whose identity has been imported (a user is looked up once: GET /users/:id)

vars == <<now, tracker, nextid, local, cursor, res, grown, known>>

Users == {1, 2}
IssueAuthor(i) == 1 + (i % 2)
AuthorOf(kind, id) == CASE kind \in {"comment", "title"} -> 1 + (id % 2) [] kind = "label" -> 1 [] OTHER -> 2

NoIssue == [exists |-> FALSE, upd |-> 0, events |-> <<>>, bodyv |-> <<>>, descv |-> 0]
NoLocal == [known |-> FALSE, ids |-> {}, bodyv |-> <<>>, descv |-> 0, nedits |-> 0, title0 |-> 0, lasttitle |-> 0]

Init == /\ now = 10 /\ nextid = 1 /\ cursor = 0
        /\ tracker = [i \in Issue |-> NoIssue] /\ local = [i \in Issue |-> NoLocal]
        /\ res = [kind |-> "none"] /\ grown = FALSE /\ known = {}

Ids(evs) == {evs[k].id : k \in DOMAIN evs}

(* titles are named by the title event that gave them (0: the title the issue was born with).  The listing of an issue shows
   its current title; a bug is created with it, and every recorded title event sets the title it announces: the bug carries
   the title of the latest recorded title event, or the one it was created with *)
MaxOf(S) == CHOOSE x \in S : \A y \in S : y <= x
TitleIds(T) == {T.events[k].id : k \in {x \in DOMAIN T.events : T.events[x].kind = "title"}}
LastTitle(T) == IF TitleIds(T) = {} THEN 0 ELSE MaxOf(TitleIds(T))
KindOfId(T, id) == LET S == {k \in DOMAIN T.events : T.events[k].id = id} IN IF S = {} THEN "none" ELSE T.events[CHOOSE k \in S : TRUE].kind
(* ... in the order they were imported: the title event recorded last (lasttitle), whatever its place in the tracker's history *)
CurTitle(L, T) == IF L.lasttitle = 0 THEN L.title0 ELSE L.lasttitle

(* ---- the tracker changes; `stamp` is the tracker time of the change (now, or just before the next round) ---- *)
NewIssue(i) ==
  /\ ~tracker[i].exists
  /\ tracker' = [tracker EXCEPT ![i] = [exists |-> TRUE, upd |-> now, events |-> <<>>, bodyv |-> <<>>, descv |-> 0]]
  /\ now' = now + 1
  /\ grown' = TRUE
  /\ UNCHANGED <<nextid, local, cursor, res, known>>

AddEvent(i, kind) ==
  /\ tracker[i].exists /\ kind \in {"comment", "title", "label", "state", "desc"}
  /\ tracker' = [tracker EXCEPT ![i].events = Append(@, [id |-> nextid, kind |-> kind, au |-> AuthorOf(kind, nextid)]),
                                ![i].upd = now,
                                ![i].bodyv = IF kind = "comment" THEN Append(@, [id |-> nextid, v |-> 0]) ELSE @,
                                ![i].descv = IF kind = "desc" THEN @ + 1 ELSE @]
  /\ nextid' = nextid + 1 /\ now' = now + 1
  /\ grown' = TRUE
  /\ UNCHANGED <<local, cursor, res, known>>

EditNote(i, k) ==
  /\ tracker[i].exists /\ k \in DOMAIN tracker[i].bodyv
  /\ tracker' = [tracker EXCEPT ![i].bodyv[k].v = @ + 1, ![i].upd = now]
  /\ now' = now + 1
  /\ grown' = TRUE
  /\ UNCHANGED <<nextid, local, cursor, res, known>>

(* ---- one import round ---- *)
Listed == {i \in Issue : tracker[i].exists /\ tracker[i].upd > cursor}

(* what a complete import of issue i records, given what is already recorded *)
VersionOf(bv, id) == LET S == {k \in DOMAIN bv : bv[k].id = id} IN IF S = {} THEN -1 ELSE bv[CHOOSE k \in S : TRUE].v

EndpointOf(kind) == CASE kind \in {"comment", "title", "desc"} -> "notes" [] kind = "label" -> "labels" [] kind = "state" -> "states"

(* import of issue i when only the events at the positions `seen` are processed (the others were not listed, or were left for
   the next run) *)
ImportIssueSeen(i, seen) ==
  LET T == tracker[i] L == local[i]
      SeenIds == {T.events[k].id : k \in seen}
      newids == SeenIds \ L.ids
      (* description notes are recorded only when the text differs at that moment: the first unrecorded one catches up *)
      descnotes == {T.events[k].id : k \in {x \in seen : T.events[x].kind = "desc"}} \ L.ids
      ldescv == IF L.known THEN L.descv ELSE T.descv        \* a new bug is created with the current description
      takeDesc == IF descnotes # {} /\ ldescv # T.descv THEN {CHOOSE d \in descnotes : \A e \in descnotes : d <= e} ELSE {}
      recorded == (newids \ descnotes) \cup takeDesc
      (* notes already recorded whose body moved on: one edit operation each (only for the notes processed) *)
      edited == {k \in DOMAIN T.bodyv : /\ T.bodyv[k].id \in SeenIds /\ T.bodyv[k].id \in L.ids
                                        /\ VersionOf(L.bodyv, T.bodyv[k].id) # T.bodyv[k].v}
      newtitles == {T.events[k].id : k \in {x \in seen : T.events[x].kind = "title"}} \ L.ids
  IN [known |-> TRUE, ids |-> L.ids \cup recorded,
      bodyv |-> [k \in DOMAIN T.bodyv |-> IF T.bodyv[k].id \in SeenIds THEN T.bodyv[k]
                                          ELSE [id |-> T.bodyv[k].id, v |-> VersionOf(L.bodyv, T.bodyv[k].id)]],
      descv |-> IF takeDesc # {} \/ ~L.known THEN T.descv ELSE L.descv,
      nedits |-> L.nedits + Cardinality(edited),
      title0 |-> IF L.known THEN L.title0 ELSE LastTitle(T),
      lasttitle |-> IF newtitles = {} THEN L.lasttitle ELSE MaxOf(newtitles)]   \* within a run events are imported in their order

AllEvents(i) == DOMAIN tracker[i].events
(* the listing of `skip` (an endpoint, or "" for none) fails: its events are not seen *)
SeenSkipping(i, skip) == {k \in AllEvents(i) : EndpointOf(tracker[i].events[k].kind) # skip}
ImportIssueSkipping(i, skip) == ImportIssueSeen(i, SeenSkipping(i, skip))
ImportIssue(i) == ImportIssueSeen(i, AllEvents(i))
AuthorsSeen(i, seen) == {IssueAuthor(i)} \cup {tracker[i].events[k].au : k \in seen}

(* a new issue is created with its current description: nothing to catch up *)
RoundClean ==
  /\ local' = [i \in Issue |-> IF i \in Listed THEN ImportIssue(i) ELSE local[i]]
  /\ cursor' = now - Margin
  /\ res' = [kind |-> "round", error |-> FALSE, advanced |-> TRUE, listed |-> Listed]
  /\ now' = now + 10 /\ grown' = FALSE
  /\ known' = known \cup UNION {AuthorsSeen(i, AllEvents(i)) : i \in Listed}
  /\ UNCHANGED <<tracker, nextid>>

(* a request failed: an error is reported, the cursor stays.  Listing the issues fails: nothing is imported.  Listing one
   kind of events of issue i fails: those events are not imported, everything else is *)
RoundFailedAt(class, i) ==
  /\ class \in {"issues", "notes", "labels", "states"}
  /\ class # "issues" => i \in Listed
  /\ local' = IF class = "issues" THEN local
               ELSE [j \in Issue |-> IF j = i THEN ImportIssueSkipping(i, class) ELSE IF j \in Listed THEN ImportIssue(j) ELSE local[j]]
  /\ cursor' = cursor
  /\ res' = [kind |-> "round", error |-> TRUE, advanced |-> FALSE, listed |-> Listed]
  /\ now' = now + 10 /\ grown' = TRUE      \* what the failed round missed is still to be caught up
  /\ known' = IF class = "issues" THEN known
              ELSE known \cup UNION {AuthorsSeen(j, IF j = i THEN SeenSkipping(i, class) ELSE AllEvents(j)) : j \in Listed}
  /\ UNCHANGED <<tracker, nextid>>

(* the lookup of user u fails (GET /users/u): it happens only while u is not known.  Issues are processed in the order of the
   listing (by time of last change).  A new issue opened by u cannot be created: the run ends there.  An event by u cannot be
   imported: it is left for the next run - and, with StopAtFirst, so are the events of the issue that follow it (imported before
   it, they would come before it in the bug's history for good: an older title change applied after a newer one) *)
ListedSeq == SetToSortSeq(Listed, LAMBDA a, b : tracker[a].upd < tracker[b].upd)
AbortAt(u) == LET S == {p \in DOMAIN ListedSeq : ~local[ListedSeq[p]].known /\ IssueAuthor(ListedSeq[p]) = u}
              IN IF S = {} THEN Len(ListedSeq) + 1 ELSE CHOOSE p \in S : \A q \in S : p <= q
Processed(u) == {ListedSeq[p] : p \in {q \in DOMAIN ListedSeq : q < AbortAt(u)}}
UserSeen(i, u) == LET bad == {k \in AllEvents(i) : tracker[i].events[k].au = u}
                  IN IF StopAtFirst THEN {k \in AllEvents(i) : \A j \in bad : k < j} ELSE AllEvents(i) \ bad
UserHit(u) == AbortAt(u) <= Len(ListedSeq) \/ \E i \in Processed(u) : \E k \in AllEvents(i) : tracker[i].events[k].au = u
RoundFailedUser(u) ==
  /\ u \notin known /\ UserHit(u)
  /\ local' = [i \in Issue |-> IF i \in Processed(u) THEN ImportIssueSeen(i, UserSeen(i, u)) ELSE local[i]]
  /\ known' = (known \cup UNION {AuthorsSeen(i, UserSeen(i, u)) : i \in Processed(u)}) \ {u}
  /\ cursor' = cursor
  /\ res' = [kind |-> "round", error |-> TRUE, advanced |-> FALSE, listed |-> Listed]
  /\ now' = now + 10 /\ grown' = TRUE
  /\ UNCHANGED <<tracker, nextid>>

(* ---- properties ---- *)
(* after a round without error everything that changed before the round started is recorded (hence a clean round after a
   failed one ends where an import that never failed ends), each event once *)
Complete ==
  (res.kind = "round" /\ ~res.error) =>
     \A i \in Issue : (tracker[i].exists /\ tracker[i].upd <= now - 10) =>
        /\ local[i].known
        /\ Ids(tracker[i].events) \ local[i].ids \subseteq {tracker[i].events[k].id : k \in {x \in DOMAIN tracker[i].events : tracker[i].events[x].kind = "desc"}}
(* ... and every bug carries the title its issue had when the round started *)
TitleFollows ==
  (res.kind = "round" /\ ~res.error) =>
     \A i \in Issue : (tracker[i].exists /\ tracker[i].upd <= now - 10) => CurTitle(local[i], tracker[i]) = LastTitle(tracker[i])
CursorRule == res.kind = "round" => (res.advanced <=> ~res.error)
Monotone == [][\A i \in Issue : local[i].ids \subseteq local'[i].ids /\ (local[i].known => local'[i].known)]_vars
(* a round over an unchanged tracker records nothing *)
Idempotent == [][(~grown /\ res.kind = "round" /\ res'.kind = "round" /\ ~res'.error /\ now' = now + 10) => local' = local]_vars
=============================================================================
