SPECIFICATION LSpec
CONSTANTS
  Replica = {A, B}
  NBug = 1
  Author = {u1, u2}
  MaxHop = 1000
  MaxCommit = 7
  RankDir = 1
  WithRestart = FALSE
  LoaderLess = FALSE
  Reserve = 3
INVARIANTS AllReadable
PROPERTY EventuallySame
CHECK_DEADLOCK FALSE
