SPECIFICATION LSpec
CONSTANTS
  Replica = {A, B}
  Remote = {origin}
  NBug = 1
  Author = {u1, u2}
  MaxHop = 1000
  MaxCommit = 8
  RankDir = 1
  WithRestart = FALSE
  LoaderLess = FALSE
  Reserve = 4
INVARIANTS AllReadable RoomForMerges
PROPERTY EventuallySame
CHECK_DEADLOCK FALSE
