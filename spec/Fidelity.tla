------------------------------ MODULE Fidelity ------------------------------
(* Committed data reads back identically; ids are content-derived and stable (C04).

   One bug is built by appending operations (any kind, any author) to a staging area and committing it in chunks.
   An operation is [id, d, au]: its id, an opaque digest of a canonical rendering of all its fields (type, author,
   time, texts, labels, metadata, file hashes), and its author.  The specification fixes what may never change (ids,
   digests, order, the entity id = id of the first operation), how a commit splits the staging area (one pack per
   maximal run of operations by the same author), that the id of an operation is the hash of its stored form, and that
   every reader (same replica, ReadAll, the cache, another replica after push / pull, either storage backend) sees
   exactly the committed operations, valid, with the same logical times and every attached file present. *)
EXTENDS Integers, Sequences, FiniteSets

VARIABLES ops,        \* all operations appended so far, in order
          ncommitted, \* how many of them are committed
          eid,        \* the entity id (set by the first operation)
          npacks,     \* number of packs (commits) written so far
          times       \* [create, edit] logical times of the entity after the last commit

vars == <<ops, ncommitted, eid, npacks, times>>

Init == ops = <<>> /\ ncommitted = 0 /\ eid = "" /\ npacks = 0 /\ times = <<0, 0>>

Ids(s) == {s[i].id : i \in DOMAIN s}

(* appending never changes what is there; ids are fresh; the entity id is the first operation's id, predicted before any commit *)
AppendOps(new, entityId) ==
  /\ new # <<>>
  /\ Cardinality(Ids(new)) = Len(new) /\ Ids(new) \cap Ids(ops) = {}
  /\ ops' = ops \o new
  /\ eid' = IF ops = <<>> THEN new[1].id ELSE eid
  /\ entityId = eid'
  /\ UNCHANGED <<ncommitted, npacks, times>>

(* number of maximal same-author runs in a sequence of operations *)
Runs(s) == IF s = <<>> THEN 0 ELSE 1 + Cardinality({i \in 2..Len(s) : s[i].au # s[i-1].au})
Staged == SubSeq(ops, ncommitted + 1, Len(ops))

(* commit: ids as predicted, one pack per author run, id of each operation = hash of its stored form *)
Commit(after, stored, packs, entityId, tm) ==
  /\ ncommitted < Len(ops)
  /\ after = ops                                   \* nothing changed: ids, digests, authors, order
  /\ stored = [i \in DOMAIN Staged |-> Staged[i].id]   \* hash of the stored form of each new operation = its id
  /\ packs = Runs(Staged)
  /\ entityId = eid
  /\ tm[1] > 0 /\ tm[2] >= times[2] + packs /\ (times[1] # 0 => tm[1] = times[1])   \* one edit-clock tick per pack at least; creation time fixed
  /\ ncommitted' = Len(ops) /\ npacks' = npacks + packs /\ times' = tm
  /\ UNCHANGED <<ops, eid>>

(* any reader sees exactly the committed operations *)
Read(entityId, seen, valid, tm, files) ==
  /\ ncommitted > 0
  /\ entityId = eid
  /\ seen = SubSeq(ops, 1, ncommitted)
  /\ valid
  /\ tm = times
  /\ files
  /\ UNCHANGED vars

(* another replica appended `remote` to the same committed history at the same time; after both merged, every reader on
   either replica, every time, sees the same sequence: all operations of both sides, each once, each side's order kept
   (which order concurrent operations take is GitBug.tla's subject, not this module's); ids and digests unchanged *)
Pos(s, x) == CHOOSE i \in DOMAIN s : s[i] = x
Keeps(r, s) == \A i, j \in DOMAIN s : i < j => Pos(r, s[i]) < Pos(r, s[j])
ReadMerged(entityId, remote, reads, valid, files) ==
  /\ ncommitted = Len(ops) /\ ncommitted > 0
  /\ entityId = eid
  /\ remote # <<>> /\ Ids(remote) \cap Ids(ops) = {}
  /\ reads # <<>>
  /\ \A i \in DOMAIN reads : reads[i] = reads[1]
  /\ LET r == reads[1] IN
       /\ Len(r) = Len(ops) + Len(remote)
       /\ {r[i] : i \in DOMAIN r} = {ops[i] : i \in DOMAIN ops} \cup {remote[i] : i \in DOMAIN remote}
       /\ Keeps(r, ops) /\ Keeps(r, remote)
       /\ r[1] = ops[1]
       /\ ops' = r /\ ncommitted' = Len(r)
  /\ valid /\ files
  /\ UNCHANGED <<eid, npacks, times>>
(* an operation that does not validate, appended by hand (the editing API checks what it appends): Commit refuses, nothing is
   written - what is committed passes validation wherever it is read *)
CommitRefused == UNCHANGED vars
=============================================================================
