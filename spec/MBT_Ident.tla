----------------------------- MODULE MBT_Ident -----------------------------
(* random behaviours of Ident as schedules for harness/identx (tlc -simulate) *)
EXTENDS Ident, TLC, Json
CONSTANTS MaxVer, Depth
VARIABLES hist, pend, who
mvars == <<nver, chain, tchain, hchain, res, hist, pend, who>>
Log(e) == hist' = Append(hist, e)
Idle == pend = {}
MInit == Init /\ hist = <<>> /\ pend = {} /\ who = CHOOSE r \in Replica : TRUE
MNext ==
  \/ /\ Len(hist) < Depth /\ Idle
     /\ \/ \E r \in Replica : nver < MaxVer /\ NewIdent(r, 1) /\ Log([act |-> "NewIdent", r |-> r, i |-> 0]) /\ UNCHANGED <<pend, who>>
        \/ \E r \in Replica, i \in Idents : nver < MaxVer /\ Mutate(r, i) /\ Log([act |-> "Mutate", r |-> r, i |-> i]) /\ UNCHANGED <<pend, who>>
        \/ \E r \in Replica : (\E i \in Idents : chain[r][i] # <<>> /\ chain[r][i] # hchain[i]) /\ Push(r) /\ Log([act |-> "Push", r |-> r, i |-> 0]) /\ UNCHANGED <<pend, who>>
        \/ \E r \in Replica : (\E i \in Idents : hchain[i] # <<>> /\ tchain[r][i] # hchain[i]) /\ Fetch(r) /\ Log([act |-> "Fetch", r |-> r, i |-> 0]) /\ UNCHANGED <<pend, who>>
        \/ \E r \in Replica : /\ \E i \in Idents : tchain[r][i] # <<>> /\ tchain[r][i] # chain[r][i]
                              /\ pend' = {i \in Idents : tchain[r][i] # <<>>} /\ who' = r
                              /\ Log([act |-> "MergeAll", r |-> r, i |-> 0]) /\ UNCHANGED vars
  \/ \E i \in pend : Merge(who, i) /\ pend' = pend \ {i} /\ UNCHANGED <<hist, who>>
MSpec == MInit /\ [][MNext]_mvars
Emit == (Len(hist) >= Depth /\ Idle) => PrintT(ToJson([steps |-> hist]))
=============================================================================
