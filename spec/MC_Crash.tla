----------------------------- MODULE MC_Crash -----------------------------
(* every write path the grammar of git-bug's commit / merge / pull code can produce (up to MaxPacks packs per entity, one
   or two entities per call, with or without reads that witness clocks) crossed with every crash point: with atomic clock
   writes and one ref update per entity every crash leaves each entity in its old or its new state and a complete clock
   file.  Witnesses: with in-place writes (AtomicWrite = FALSE) TLC exhibits the torn file; with a ref update after every
   pack (RefPerPack = TRUE) it exhibits the mixed entity. *)
EXTENDS Crash, TLC
CONSTANTS MaxPacks, AtomicWrite, RefPerPack
VARIABLES muts, k, phase

M(kind) == [kind |-> kind, ent |-> ""]
R(e) == [kind |-> "ref", ent |-> e]
ClockWrite == IF AtomicWrite THEN <<M("fs-rename")>> ELSE <<M("fs-open-trunc"), M("fs-write"), M("fs-close")>>
Pack(first, e) == ClockWrite \o (IF first THEN ClockWrite ELSE <<>>) \o <<M("blob"), M("blob"), M("tree"), M("commit")>>
                  \o (IF RefPerPack THEN <<R(e)>> ELSE <<>>)
RECURSIVE Packs(_, _, _)
Packs(n, first, e) == IF n = 0 THEN <<>> ELSE Pack(first, e) \o Packs(n - 1, FALSE, e)
Reads(n) == [i \in 1..(n * Len(ClockWrite)) |-> ClockWrite[((i - 1) % Len(ClockWrite)) + 1]]
Seg(r, p, new, e) == Reads(r) \o Packs(p, new, e) \o (IF RefPerPack THEN <<>> ELSE <<R(e)>>)
Remove(e, ntrack) == [i \in 1..ntrack |-> [kind |-> "rmtrack", ent |-> e]] \o <<[kind |-> "rmref", ent |-> e]>>

Paths == {Seg(r, p, new, "e1") \o Reads(post) : r \in 0..2, p \in 1..MaxPacks, new \in BOOLEAN, post \in 0..1}
         \cup {Seg(r, p, new, "e1") \o Seg(r2, p2, new2, "e2") \o Reads(post) :
                 r \in 0..1, p \in 1..MaxPacks, new \in BOOLEAN, r2 \in 0..1, p2 \in 1..2, new2 \in BOOLEAN, post \in 0..1}
         \cup {Reads(r) : r \in 1..2}
         \cup {Remove("e1", t) : t \in 0..2}

Init == muts \in Paths /\ k = 0 /\ phase = "run"
Next == /\ phase = "run" /\ k' \in 1..(Len(muts) + 1) /\ phase' = "crashed" /\ UNCHANGED muts
Spec == Init /\ [][Next]_<<muts, k, phase>>

PathsWellFormed == (AtomicWrite /\ ~RefPerPack) => WellFormed(muts)
CrashAtomic == phase = "crashed" => \A e \in {"e1", "e2"} : Expected(muts, k, e) \in {"unchanged", "pre", "post"}
ClockNeverTorn == phase = "crashed" => ClockFile(muts, k, "ok") = "ok"
=============================================================================
