----------------------------- MODULE MC_Crash -----------------------------
(* every write path the grammar of git-bug's commit / merge code can produce (up to MaxPacks packs, with or without a
   leading read that witnesses clocks) crossed with every crash point: with atomic clock writes every crash leaves the
   old or the new state and a complete clock file; with in-place writes (AtomicWrite = FALSE) TLC exhibits the torn file. *)
EXTENDS Crash, TLC
CONSTANTS MaxPacks, AtomicWrite
VARIABLES muts, k, phase

ClockWrite == IF AtomicWrite THEN <<"fs-rename">> ELSE <<"fs-open-trunc", "fs-write", "fs-close">>
Pack(first) == ClockWrite \o (IF first THEN ClockWrite ELSE <<>>) \o <<"blob", "blob", "tree", "commit">>
RECURSIVE Packs(_, _)
Packs(n, first) == IF n = 0 THEN <<>> ELSE Pack(first) \o Packs(n - 1, FALSE)
Reads(n) == [i \in 1..(n * Len(ClockWrite)) |-> ClockWrite[((i - 1) % Len(ClockWrite)) + 1]]

Paths == {Reads(r) \o Packs(p, new) \o <<"ref">> \o Reads(post) : r \in 0..2, p \in 1..MaxPacks, new \in BOOLEAN, post \in 0..1}
         \cup {Reads(r) : r \in 1..2}

Init == muts \in Paths /\ k = 0 /\ phase = "run"
Next == /\ phase = "run" /\ k' \in 1..(Len(muts) + 1) /\ phase' = "crashed" /\ UNCHANGED muts
Spec == Init /\ [][Next]_<<muts, k, phase>>

PathsWellFormed == AtomicWrite => WellFormed(muts)
CrashAtomic == phase = "crashed" => Expected(muts, k) \in {"pre", "post"}
ClockNeverTorn == phase = "crashed" => ClockFile(muts, k, "ok") = "ok"
=============================================================================
