SPECIFICATION TSpec
PROPERTY Stable
POSTCONDITION TraceAccepted
CHECK_DEADLOCK FALSE
