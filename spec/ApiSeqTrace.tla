---------------------------- MODULE ApiSeqTrace ----------------------------
(* one event per request sent to the real handlers: the request, whether an error was returned, the bug as the API returned
   it and as it is stored (read back from git), who authored the new operations, and whether anything persistent changed *)
EXTENDS ApiSeq, Json, IOUtils, TLC
VARIABLE l
Trace == ndJsonDeserialize(IOEnv.TRACE)
ev == Trace[l]
AsSet(s) == {s[i] : i \in DOMAIN s}
Proj(o) == [status |-> o.status, labels |-> AsSet(o.labels), title |-> o.title, was |-> o.was, text |-> o.text, nops |-> o.nops]
TraceInit == Init /\ l = 1
Reset == l <= Len(Trace) /\ ev.ev = "Reset" /\ l' = l + 1 /\ b' = [status |-> "OPEN", labels |-> {}, title |-> 0, was |-> -1, text |-> <<0>>, nops |-> 1]
         /\ k' = 0 /\ res' = [refused |-> FALSE, newops |-> 0]
Req == /\ l <= Len(Trace) /\ ev.ev = "Request" /\ l' = l + 1
       /\ Request(ev.name, ev.auth, ev.i, AsSet(ev.add), AsSet(ev.rem))
       /\ ev.refused = res'.refused
       /\ Proj(ev.stored) = b'                                   \* what is stored is exactly the requested change
       /\ ~res'.refused => (Proj(ev.returned) = b' /\ ev.byuser)  \* the returned bug reflects it; authored by the attached user
       \* refs, objects, cache answers moved iff accepted (a request refused only when it is to be written has been staged before:
       \* the listing's idea of the bug - its number of comments - lags until the next edit; what is stored and what later
       \* requests return is bound all the same)
       /\ (ev.name # "addCommentMissingFile" => ev.changed = ~res'.refused)
       \* the request met the same request sent without a user (at the same time, the bug not yet loaded): that one is refused,
       \* and everything above holds for the other all the same
       /\ ev.race => ev.anonok
TraceNext == Reset \/ Req
TraceSpec == TraceInit /\ [][TraceNext]_<<vars, l>>
TraceAccepted == TLCGet("stats").diameter - 1 = Len(Trace)
=============================================================================
