-------------------------------- MODULE Api --------------------------------
(* The GraphQL API and the upload endpoint behind the authentication middleware (api/auth, api/graphql/resolvers/
   mutation.go, api/http/git_file_upload_handler.go, commands/webui.go): without an authenticated user (web UI in
   read-only mode) nothing can be changed; with one, each mutation records exactly the requested change, authored by
   that user, and the returned bug reflects it.  `repo` stands for everything persistent (refs, reachable objects, what
   the cache serves); a request is judged by what it reported and by how `repo` changed. *)
EXTENDS Integers, Sequences, FiniteSets

(* number of operations a well-formed call of each known mutation adds to the bug it addresses *)
KnownOps == [newBug |-> 1, addComment |-> 1, addCommentAndClose |-> 2, addCommentAndReopen |-> 2, editComment |-> 1,
             changeLabels |-> 1, openBug |-> 1, closeBug |-> 1, setTitle |-> 1]

(* o: what was observed for one mutation request *)
MutationOK(o) ==
  IF ~o.auth
  THEN /\ o.refused                       \* an error is reported
       /\ ~o.changed                      \* refs, objects and cache answers are what they were
  ELSE IF o.valid
       THEN /\ ~o.refused
            /\ o.changed
            /\ o.byuser                                  \* every new operation is authored by the authenticated user
            /\ o.reflects                                \* the returned bug shows the change
            /\ (o.name \in DOMAIN KnownOps => o.newops = KnownOps[o.name])
            /\ o.otherbugs = 0                           \* no other bug was touched
       ELSE /\ o.refused /\ ~o.changed                   \* ill-formed request: an error and no change

QueryOK(o) == ~o.refused /\ ~o.changed                    \* queries work in read-only mode and change nothing

UploadOK(o) ==
  IF ~o.auth THEN o.refused /\ ~o.changed
  ELSE IF o.valid THEN ~o.refused /\ o.stored ELSE o.refused /\ ~o.changed
=============================================================================
