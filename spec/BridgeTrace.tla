---------------------------- MODULE BridgeTrace ----------------------------
(* trace validation for Bridge: harness/bridgex grows a simulated GitLab tracker, runs the real importer in rounds with
   injected request failures and logs, after every step, what each bug holds: the GitLab ids carried by its operations
   (with multiplicity), the number of anonymous edit operations, validity; for rounds also whether an error was reported
   and whether the stored cursor moved. *)
EXTENDS Bridge, Json, IOUtils, TLC
VARIABLE l
Trace == ndJsonDeserialize(IOEnv.TRACE)
tvars == <<vars, l>>
ev == Trace[l]
IsEv(n) == l <= Len(Trace) /\ ev.ev = n /\ l' = l + 1
AsSet(s) == {s[k] : k \in DOMAIN s}

(* what the code holds equals the specification's record *)
LocalMatches(L) ==
  \A b \in DOMAIN ev.bugs :
     LET o == ev.bugs[b] IN
     /\ o.valid                                           \* imported operations are valid, one bug per issue
     /\ o.known = L[o.i].known
     /\ Len(o.ids) = Cardinality(AsSet(o.ids))            \* every event recorded once
     /\ AsSet(o.ids) = L[o.i].ids
     /\ o.nedits = L[o.i].nedits
     /\ \A k \in DOMAIN o.ids : o.kinds[k] = KindOfId(tracker'[o.i], o.ids[k])   \* each event recorded as what it is (a comment as a comment ...)
     /\ o.title = CurTitle(L[o.i], tracker'[o.i])        \* the title the bug shows (named by the title event that announced it)

TInit == Init /\ l = 1
Reset == IsEv("Reset") /\ now' = 10 /\ nextid' = 101 /\ cursor' = 0 /\ grown' = FALSE
         /\ tracker' = [i \in Issue |-> NoIssue] /\ local' = [i \in Issue |-> NoLocal] /\ res' = [kind |-> "none"] /\ known' = {}
TNewIssue == IsEv("NewIssue") /\ NewIssue(ev.i) /\ LocalMatches(local')
TAddEvent == IsEv("AddEvent") /\ AddEvent(ev.i, ev.kind) /\ LocalMatches(local')
TEditNote == IsEv("EditNote") /\ EditNote(ev.i, ev.k) /\ LocalMatches(local')
IsUserFail == Len(ev.fail) = 6 /\ SubSeq(ev.fail, 1, 5) = "user:"
FailUser == IF SubSeq(ev.fail, 6, 6) = "1" THEN 1 ELSE 2
(* a round in which no request was made to fail: no error, complete, cursor stored *)
TRoundClean == /\ IsEv("Round") /\ ev.fail = "none"
               /\ ~ev.error /\ ev.advanced
               /\ RoundClean /\ LocalMatches(local')
(* a round with a failing request: an error is reported and the cursor stays; what is recorded is what the other
   requests delivered *)
FailClass == IF ev.fail = "issues" THEN "issues" ELSE SubSeq(ev.fail, 1, Len(ev.fail) - 2)
FailIssue == IF ev.fail = "issues" THEN 1 ELSE IF SubSeq(ev.fail, Len(ev.fail), Len(ev.fail)) = "1" THEN 1 ELSE 2
TRoundFailed == /\ IsEv("Round") /\ ev.fail # "none" /\ ~IsUserFail
                /\ ev.error /\ ~ev.advanced
                /\ RoundFailedAt(FailClass, FailIssue) /\ LocalMatches(local')
(* the failing request was never made (its issue was not listed): the round is a clean one *)
TRoundNoFault == /\ IsEv("Round") /\ ev.fail # "none" /\ ev.fail # "issues" /\ ~IsUserFail /\ FailIssue \notin Listed
                 /\ ~ev.error /\ ev.advanced
                 /\ RoundClean /\ LocalMatches(local')
(* the lookup of a user fails: an error and no cursor when the lookup was actually made (the user not known yet and met in this
   round); a clean round otherwise *)
TRoundFailedUser == /\ IsEv("Round") /\ IsUserFail /\ FailUser \notin known /\ UserHit(FailUser)
                    /\ ev.error /\ ~ev.advanced
                    /\ RoundFailedUser(FailUser) /\ LocalMatches(local')
TRoundUserNoFault == /\ IsEv("Round") /\ IsUserFail /\ ~(FailUser \notin known /\ UserHit(FailUser))
                     /\ ~ev.error /\ ev.advanced
                     /\ RoundClean /\ LocalMatches(local')
TraceNext == Reset \/ TNewIssue \/ TAddEvent \/ TEditNote \/ TRoundClean \/ TRoundFailed \/ TRoundNoFault \/ TRoundFailedUser \/ TRoundUserNoFault
(* the action properties of Bridge, per session (a Reset starts a new one) *)
MonotoneT == [][(ev.ev = "Reset") \/ (\A i \in Issue : local[i].ids \subseteq local'[i].ids /\ (local[i].known => local'[i].known))]_tvars
IdempotentT == [][(ev.ev = "Reset") \/ ((~grown /\ res.kind = "round" /\ res'.kind = "round" /\ ~res'.error /\ now' = now + 10) => local' = local)]_tvars
TraceSpec == TInit /\ [][TraceNext]_tvars
TraceAccepted == TLCGet("stats").diameter - 1 = Len(Trace)
=============================================================================
