SPECIFICATION CSpec
CONSTANTS Holder = {1, 2}  UnlockFirst = FALSE
INVARIANTS AtMostOne OwnerAlive WriteUnderLock
CHECK_DEADLOCK FALSE
