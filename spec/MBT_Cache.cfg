SPECIFICATION MSpec
CONSTANTS Replica = {"A", "B"}  NBug = 5  MaxSize = 2  Depth = 18
INVARIANT Emit
CHECK_DEADLOCK FALSE
