------------------------------ MODULE HostRepo ------------------------------
(* git-bug lives inside somebody's git repository (C15).  `foreign` stands for everything that is not git-bug's: every
   ref outside refs/bugs, refs/identities and their refs/remotes/<remote>/ mirrors, HEAD, the index, the work tree, every
   configuration key outside the git-bug section, hooks and other files of .git.  Whatever git-bug does, `foreign` keeps
   its value, every ref it creates lies in its namespaces, and the object database stays acceptable to
   `git fsck --strict` (so that stock git can push, fetch, clone and garbage-collect it). *)
EXTENDS Integers, Sequences

VARIABLES foreign, fsck, refsok, mine   \* mine: abstract count of git-bug refs (the only thing actions may change)
vars == <<foreign, fsck, refsok, mine>>

Init == foreign = "f0" /\ fsck = TRUE /\ refsok = TRUE /\ mine = 0

(* every git-bug action, successful or not *)
Act == /\ mine' \in {mine, mine + 1, IF mine > 0 THEN mine - 1 ELSE 0}
       /\ UNCHANGED <<foreign, fsck, refsok>>

Untouched == [][foreign' = foreign]_vars
AlwaysValid == fsck /\ refsok

(* judging one recorded step against the previous one *)
(* interop steps (stock git pushing, collecting, cloning what git-bug wrote; the attached files being there afterwards)
   must succeed: everything git-bug stores is reachable from its refs in ordinary objects *)
StepOK(prev, cur) == cur.foreign = prev /\ cur.fsck /\ cur.refsok /\ (cur.interop => cur.exit = 0)
                     /\ ~cur.hung      \* every command comes back (a push of what git-bug wrote, for one)
=============================================================================
