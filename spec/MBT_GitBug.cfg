SPECIFICATION MSpec
CONSTANTS
  Replica = {"A", "B"}
  Remote = {"origin"}
  NBug = 2
  Author = {"u1", "u2"}
  MaxHop = 1000000
  MaxCommit = 14
  Depth = 14
  WithRestart = FALSE
INVARIANT Emit
CHECK_DEADLOCK FALSE
