---------------------------- MODULE MC_GitBug ----------------------------
(* Bounded instance of GitBug for exhaustive checking (C01, C02, C03, C05). *)
EXTENDS GitBug, TLC

CONSTANTS MaxCommit,    \* bound on the commit universe
          RankDir,      \* 1: pack ids ascend with creation order, 2: they descend (the real order is unknowable)
          WithRestart,  \* include Reopen / DeleteClocks
          LoaderLess    \* also reopen without clock loaders (as a caller that passes none)

a1 == CHOOSE a \in Author : TRUE
a2 == IF Cardinality(Author) > 1 THEN CHOOSE a \in Author : a # a1 ELSE a1

RunChoices == { <<[au |-> a1, n |-> 1]>>,
                <<[au |-> a2, n |-> 2]>>,
                <<[au |-> a1, n |-> 1], [au |-> a2, n |-> 1]>> }

Rk == [i \in 1..(MaxCommit + 2) |-> IF RankDir = 1 THEN i ELSE 0 - i]

Room(n) == Len(commits) + n <= MaxCommit

Next ==
  \/ \E r \in Replica, runs \in RunChoices : Room(Len(runs)) /\ NewBug(r, runs, Rk)
  \/ \E r \in Replica, b \in Bugs, runs \in RunChoices : Room(Len(runs)) /\ Edit(r, b, runs, Rk)
  \/ \E r \in Replica, b \in Bugs : Read(r, b)
  \/ \E r \in Replica, m \in Remote : (\E b \in Bugs : ref[r][b] # 0) /\ Push(r, m)
  \/ \E r \in Replica, m \in Remote : Fetch(r, m)
  \/ \E r \in Replica, m \in Remote : FetchRefused(r, m)
  \/ \E r \in Replica, m \in Remote, b \in Bugs : Room(1) /\ Merge(r, m, b, a1, Rk)
  \/ WithRestart /\ \E r \in Replica, l \in (IF LoaderLess THEN BOOLEAN ELSE {TRUE}) : Reopen(r, l)
  \/ WithRestart /\ \E r \in Replica, w \in 0..2 : (clk[r].de # Missing \/ clk[r].dc # Missing) /\ DeleteClocks(r, w)

Spec == Init /\ [][Next]_vars

(* with histories planted from outside (GitBug!PlantForeign): every invariant still holds *)
PlantNext == Next \/ \E r \in Replica, m \in Remote : Room(1) /\ PlantForeign(r, m, Rk)
PlantSpec == Init /\ [][PlantNext]_vars

(* with the leap of a clock (GitBug!ClockLeap): the design's counterexample to AllReadable *)
LeapNext == Next \/ \E r \in Replica : ClockLeap(r)
LeapSpec == Init /\ [][LeapNext]_vars

(* only synchronisation steps: used for the liveness clause of C01 *)
SyncNext ==
  \/ \E r \in Replica, m \in Remote : (\E b \in Bugs : ref[r][b] # 0) /\ Push(r, m)
  \/ \E r \in Replica, m \in Remote : Fetch(r, m)
  \/ \E r \in Replica, m \in Remote, b \in Bugs : Room(1) /\ Merge(r, m, b, a1, Rk)

View == <<commits, nops, ref, trk, hub, clk, res>>
=============================================================================
