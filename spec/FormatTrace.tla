---------------------------- MODULE FormatTrace ----------------------------
(* byte-level fuzzing of operation-pack and identity-version blobs: validity of the fuzzed data is not known to the
   specification, so each outcome is judged by the rule that needs no such knowledge (Format!FuzzOK). *)
EXTENDS Integers, Sequences, Json, IOUtils, TLC
VARIABLE l
Trace == ndJsonDeserialize(IOEnv.TRACE)
ev == Trace[l]
FuzzOK(o) ==
  /\ ~o.crashed
  /\ o.status \in {"invalid", "new", "updated", "nothing"}
  /\ o.status = "invalid" => o.untouched
  /\ o.status \in {"new", "updated", "nothing"} => o.readable
Init == l = 1
Next == l <= Len(Trace) /\ FuzzOK(ev.o) /\ l' = l + 1
Spec == Init /\ [][Next]_l
TraceAccepted == TLCGet("stats").diameter - 1 = Len(Trace)
=============================================================================
