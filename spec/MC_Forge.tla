----------------------------- MODULE MC_Forge -----------------------------
(* C03, refusal clauses: every hand-crafted history of up to MaxN commits over the documented on-disk format
   (parents, edit clock, creation clock, pack contents), with the verdict ReadOK and, when readable, the order the
   documented rule prescribes.  Each initial state is one forged DAG; it is printed as a test vector and built with
   real git objects on both storage backends by the harness. *)
EXTENDS GitBug, TLC, Json

CONSTANTS MaxN,       \* commits per forged history
          Far,        \* a clock value more than MaxHop above the others
          EtChoices,  \* edit-clock values tried on every commit
          RankDirs    \* rank assignments tried: 1 = pack ids ascending with commit number, -1 = descending

(* Huge: a clock near the top of the 64-bit range (the harness writes 2^63 + (its value - 2000000) for values from 2000000 on:
   TLC's integers do not reach that far); to the specification it is one more value far above the others *)
Huge == 3000005
EtFull == {0, 1, 2, 3, Far, Huge}
EtSmall == {1, 2, 3}

VARIABLE rd   \* rank direction of this history

ParentChoices(i) == {<<>>} \cup {<<p>> : p \in 1..(i-1)} \cup {<<p, q>> : p \in 1..(i-1), q \in 1..(i-1)}

CommitChoices(i) ==
  { [par |-> p, et |-> e, ct |-> c, au |-> "u1", ops |-> [j \in 1..k |-> (i - 1) * 2 + j], rank |-> rd * i, bug |-> 1] :
      p \in {x \in ParentChoices(i) : Len(x) = 2 => x[1] < x[2]},
      e \in EtChoices, c \in {0, 1}, k \in 0..1 }

Allowed(i, c) ==
  /\ (i = 1 => c.ops # <<>>)                 \* a bug starts with its create operation
  \* a creation clock on parentless commits - and on later ones when the first commit has none (whoever carries it, a history whose
  \* root has no creation time is refused)
  /\ (c.ct = 1 => (IF i = 1 THEN TRUE ELSE (c.par = <<>> \/ commits[1].ct = 0)))

FInit ==
  /\ commits = <<>> /\ nops = 0
  /\ rd \in RankDirs
  /\ ref = [r \in Replica |-> [b \in Bugs |-> 0]]
  /\ trk = [r \in Replica |-> [m \in Remote |-> [b \in Bugs |-> 0]]]
  /\ hub = [m \in Remote |-> [b \in Bugs |-> 0]]
  /\ clk = [r \in Replica |-> [e |-> 1, c |-> 1, de |-> 1, dc |-> 1]]
  /\ res = NoRes
FNext ==
  /\ Len(commits) < MaxN
  /\ \E c \in CommitChoices(Len(commits) + 1) :
        /\ Allowed(Len(commits) + 1, c)
        /\ commits' = Append(commits, c)
  /\ ref' = [r \in Replica |-> [b \in Bugs |-> Len(commits) + 1]]
  /\ UNCHANGED <<nops, trk, hub, clk, res, rd>>
FSpec == FInit /\ [][FNext]_<<vars, rd>>

(* a second family: a root, K concurrent children, and one commit joining all of them (K = 2..4 parents: git allows any
   number), with or without operations of its own, its edit clock just above / equal to / far above its parents' *)
OctoDags ==
  { [i \in 1..(K + 2) |->
       IF i = 1 THEN [par |-> <<>>, et |-> 1, ct |-> 1, au |-> "u1", ops |-> <<1>>, rank |-> d, bug |-> 1]
       ELSE IF i <= K + 1 THEN [par |-> <<1>>, et |-> 2, ct |-> 0, au |-> "u1", ops |-> <<i>>, rank |-> d * i, bug |-> 1]
       ELSE [par |-> [j \in 1..K |-> j + 1], et |-> e, ct |-> 0, au |-> "u1", ops |-> (IF k = 1 THEN <<K + 2>> ELSE <<>>), rank |-> d * i, bug |-> 1]] :
      K \in 2..4, e \in {2, 3, Far}, k \in 0..1, d \in {1, -1} }
OInit ==
  /\ commits \in OctoDags /\ nops = 0 /\ rd = 1
  /\ ref = [r \in Replica |-> [b \in Bugs |-> Len(commits)]]
  /\ trk = [r \in Replica |-> [m \in Remote |-> [b \in Bugs |-> 0]]]
  /\ hub = [m \in Remote |-> [b \in Bugs |-> 0]]
  /\ clk = [r \in Replica |-> [e |-> 1, c |-> 1, de |-> 1, dc |-> 1]]
  /\ res = NoRes
OSpec == OInit /\ [][UNCHANGED <<vars, rd>>]_<<vars, rd>>

BothDirs == {1, -1}
OneDir == {1}
Tip == Len(commits)

Complete == Tip > 0 /\ AncIn(commits, Tip) = DOMAIN commits     \* every commit reachable from the head

(* clock-consistent histories are ordered causally, whatever the pack ids *)
OkImpliesCausal == (Complete /\ ReadOK(Tip)) => (CausalOrder /\ NoDupOps)

Emit == Complete => PrintT(ToJson([dag |-> commits, ok |-> ReadOK(Tip), order |-> IF ReadOK(Tip) THEN Order(Tip) ELSE <<>>]))
=============================================================================
