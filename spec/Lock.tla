-------------------------------- MODULE Lock --------------------------------
(* One process at a time may have the cache of a repository open (cache/repo_cache.go lock / Close, repoIsAvailable,
   util/process).  The lock is a file holding the pid of its owner.  Long-lived holders (the web UI) open, and later
   close or get killed; short commands open, run and close within one step, successfully or not.
   lock = 0: no lock file; lock = h: lock file of holder h (which may be dead: a stale lock). *)
EXTENDS Integers, FiniteSets, Sequences

CONSTANT Holder
VARIABLES lock, alive, res
vars == <<lock, alive, res>>

Init == lock = 0 /\ alive = {} /\ res = [out |-> "none", by |-> 0]

HeldByLive == lock # 0 /\ lock \in alive

(* a holder starts: refused while a live process holds the lock (the refusal names it and changes nothing);
   otherwise a stale lock, if any, is replaced and the holder owns the lock *)
Open(h) ==
  /\ h \notin alive
  /\ IF HeldByLive
     THEN /\ res' = [out |-> "refused", by |-> lock] /\ UNCHANGED <<lock, alive>>
     ELSE /\ lock' = h /\ alive' = alive \cup {h} /\ res' = [out |-> "opened", by |-> 0]

(* clean shutdown releases the lock - as its last act: while the holder still flushes its caches and indexes to disk (the
   steps CloseBegin .. CloseEnd of MC_LockClose) it is alive and must still own the lock *)
Close(h) == h \in alive /\ alive' = alive \ {h} /\ lock' = (IF lock = h THEN 0 ELSE lock) /\ res' = [out |-> "closed", by |-> 0]

(* a killed holder leaves its lock behind *)
Kill(h) == h \in alive /\ alive' = alive \ {h} /\ UNCHANGED lock /\ res' = [out |-> "killed", by |-> 0]

(* a short command: refused while a live process holds the lock; otherwise it runs (cleaning a stale lock) and releases
   the lock when it ends, whether it succeeded or failed *)
Cmd(kind) ==
  IF HeldByLive
  THEN /\ res' = [out |-> "refused", by |-> lock] /\ UNCHANGED <<lock, alive>>
  ELSE /\ lock' = 0 /\ res' = [out |-> kind, by |-> 0] /\ UNCHANGED alive

(* ---- properties ---- *)
Mutex == \A h \in alive : lock = h \/ lock = 0 \/ lock \notin alive   \* a live holder never coexists with another live owner
OwnerAlive == \A h \in alive : lock = h                                  \* every live holder owns the lock: at most one
AtMostOne == Cardinality(alive) <= 1
NoLiveLockRemoved == [][(lock \in alive /\ lock' # lock) => (lock \notin alive')]_vars   \* only its owner's exit removes a live lock
=============================================================================
