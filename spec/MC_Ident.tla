----------------------------- MODULE MC_Ident -----------------------------
EXTENDS Ident, TLC
CONSTANT MaxVer
Next ==
  \/ \E r \in Replica, k \in 1..2 : nver + k <= MaxVer /\ NewIdent(r, k)
  \/ \E r \in Replica, i \in Idents : nver < MaxVer /\ Mutate(r, i)
  \/ \E r \in Replica : Push(r)
  \/ \E r \in Replica : Fetch(r)
  \/ \E r \in Replica, i \in Idents : Merge(r, i)
Spec == Init /\ [][Next]_vars
(* every (common prefix p, local suffix a, remote suffix b) with p + a + b <= MaxVer is reached: witnesses *)
Diverged == \E r \in Replica, i \in Idents : res.kind = "merge" /\ res.status = "invalid"
=============================================================================
