SPECIFICATION Spec
CONSTANTS MaxLex = 4  MaxClauses = 2
INVARIANTS InvRoundTrip InvTokens InvQuoteProtects Emit
CHECK_DEADLOCK FALSE
