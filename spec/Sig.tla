-------------------------------- MODULE Sig --------------------------------
(* The signature rule of git-bug (entity/dag/operation_pack.go readOperationPack, entities/identity
   Identity.ValidKeysAtTime): an identity is a sequence of versions, each with the logical (edit-clock) time at
   which it was created and the set of keys it declares.  A commit of logical time t by that author is judged
   against the keys of the last version whose time is <= t.  Cryptography is ideal: a signature is valid iff it
   was made by the stated key over the exact content. *)
EXTENDS Integers, Sequences, FiniteSets

None == 0          \* commit not signed
Stranger == 99     \* a key that no version of the author ever declared

(* hist: sequence of [t, keys] with non-decreasing t *)
KeysAt(hist, t) ==
  LET S == {i \in DOMAIN hist : hist[i].t <= t} IN
  IF S = {} THEN {} ELSE hist[CHOOSE i \in S : \A j \in S : j <= i].keys

(* commit: [et, signer, altered, shape]; shape "ops": a pack with operations, "empty": a commit without operations (what a
   merge commit is), "unsorted": a pack whose tree lists its entries in another order than git writes them - the rule is the same for all: every commit by an author with keys in force must be signed *)
Accept(hist, c) ==
  \/ KeysAt(hist, c.et) = {}
  \/ (c.signer \in KeysAt(hist, c.et) /\ ~c.altered)

(* the clauses of C08 as theorems *)
Introduced(hist, k) == {i \in DOMAIN hist : k \in hist[i].keys /\ (i = 1 \/ k \notin hist[i-1].keys)}
Theorems(hist, c) ==
  /\ (KeysAt(hist, c.et) # {} /\ c.signer = None) => ~Accept(hist, c)                 \* unsigned refused when a key is in force
  /\ (KeysAt(hist, c.et) # {} /\ c.altered) => ~Accept(hist, c)                        \* altered refused
  /\ (KeysAt(hist, c.et) # {} /\ c.signer = Stranger) => ~Accept(hist, c)              \* stranger refused
  /\ (KeysAt(hist, c.et) = {}) => Accept(hist, c)                                       \* no key in force: accepted unsigned
  /\ (c.signer \notin {None, Stranger} /\ Accept(hist, c) /\ KeysAt(hist, c.et) # {}) =>
        \E i \in DOMAIN hist : hist[i].t <= c.et /\ c.signer \in hist[i].keys           \* the key was introduced no later than the commit
=============================================================================
