------------------------------- MODULE Crash -------------------------------
(* Crash atomicity of git-bug's write paths (C06).  A call issues a sequence of storage mutations [kind, ent]:
     "blob" "tree" "commit"         git objects (invisible until a ref points at them)
     "ref"                          the update of the local ref of entity `ent` (what publishes its new state)
     "rmref"                        the removal of the local ref of entity `ent`
     "rmtrack"                      the removal of a remote-tracking ref (no entity state changes)
     "fs-open-trunc" "fs-write" "fs-close" "fs-rename" "fs-open-temp"    file operations on a clock file
   A call may touch several entities (a pull merges every entity of the remote, one after the other).
   The process may die before any mutation takes effect ("blob" .. "ref", "fs-rename", "fs-close" are atomic), after an
   "fs-open-trunc" took effect (the file is then empty) or in the middle of an "fs-write" (a proper prefix is on disk).
   Crash point k means: mutations 1..k-1 happened, mutation k was interrupted; k = n+1: the call completed.          *)
EXTENDS Integers, Sequences, FiniteSets

Objs == {"blob", "tree", "commit"}
Refs == {"ref", "rmref"}

IsRef(m) == m.kind \in Refs
Ents(muts) == {muts[i].ent : i \in {j \in DOMAIN muts : IsRef(muts[j])}}

(* state of one entity after the crash: decided by the mutations of its own ref alone *)
RefsDone(muts, k, e) == Cardinality({i \in 1..(k - 1) : i <= Len(muts) /\ IsRef(muts[i]) /\ muts[i].ent = e})
RefsTotal(muts, e) == Cardinality({i \in DOMAIN muts : IsRef(muts[i]) /\ muts[i].ent = e})
Expected(muts, k, e) ==
  IF RefsTotal(muts, e) = 0 THEN "unchanged"
  ELSE IF RefsDone(muts, k, e) = RefsTotal(muts, e) THEN "post"
  ELSE IF RefsDone(muts, k, e) = 0 THEN "pre" ELSE "mixed"

(* state of the clock file being written when the process died: "ok" (old or new value, complete), "empty", "torn" *)
RECURSIVE ClockFile(_, _, _)
ClockFile(muts, k, st) ==
  IF muts = <<>> \/ k = 0 THEN st
  ELSE LET m == Head(muts).kind IN
       IF k = 1                                   \* the interrupted mutation
       THEN (IF m = "fs-open-trunc" THEN "empty" ELSE IF m = "fs-write" /\ st = "empty" THEN "torn" ELSE st)
       ELSE ClockFile(Tail(muts), k - 1,
                      IF m = "fs-open-trunc" THEN "empty"
                      ELSE IF m = "fs-write" THEN "ok"
                      ELSE IF m = "fs-rename" THEN "ok"
                      ELSE st)

(* what makes a path crash-safe: each entity is published by a single mutation of its ref, every object written is
   followed by the ref mutation that publishes it, and a clock file is only ever replaced atomically *)
(* a call that publishes something writes its objects before a ref mutation; a call that ends up publishing nothing (a
   refused merge) may leave unreferenced objects behind: garbage, not state *)
ObjsBeforeRef(muts) == (Ents(muts) # {}) => \A i \in DOMAIN muts : muts[i].kind \in Objs => \E j \in DOMAIN muts : j > i /\ IsRef(muts[j])
SingleRef(muts) == \A e \in Ents(muts) : RefsTotal(muts, e) <= 1
AtomicClock(muts) == \A i \in DOMAIN muts : muts[i].kind \notin {"fs-open-trunc", "fs-write"}
WellFormed(muts) == ObjsBeforeRef(muts) /\ SingleRef(muts) /\ AtomicClock(muts)

(* C06 on one record (scenario, crash point, what was found after re-opening): rec.outcome maps every entity present
   before the call, after the uninterrupted call or after the crash to "unchanged" / "pre" / "post" / "other" *)
Safe(muts, k, rec) ==
  /\ rec.openerr = "" /\ rec.readerr = ""                 \* the repository opens again, every entity is readable
  /\ Ents(muts) \subseteq DOMAIN rec.outcome
  /\ \A e \in DOMAIN rec.outcome : rec.outcome[e] = Expected(muts, k, e) /\ rec.outcome[e] \in {"unchanged", "pre", "post"}
  /\ rec.clockok                                           \* clocks usable and not behind anything stored
  /\ ClockFile(muts, k, "ok") = "ok"
  /\ (\E e \in DOMAIN rec.outcome : rec.outcome[e] = "pre") => rec.redo = "post"   \* repeating the call completes it
  /\ rec.redo2 \in {"", "ok"}          \* ... also when the repeated call is interrupted in turn (old or new, then complete)

(* ---- calls that fail instead of dying (C02): one repository call of any kind (reads and clock operations too) returns an error
   and does nothing; the call under test reports it or carries on.  `muts` are the mutations of the complete call, `done` the
   ones the failing call made all the same.  An entity whose ref it moved is in the state the complete call gives it (a ref is
   only ever moved to the final state), every other entity is as before; unreferenced objects may stay behind. *)
ExpectedAfter(muts, done, e) ==
  IF RefsTotal(done, e) > 0 THEN "post"
  ELSE IF RefsTotal(muts, e) > 0 THEN "pre" ELSE "unchanged"

ErrSafe(muts, done, rec) ==
  /\ rec.openerr = "" /\ rec.readerr = ""
  /\ Ents(done) \subseteq DOMAIN rec.outcome
  /\ SingleRef(done) /\ AtomicClock(done)
  /\ \A e \in DOMAIN rec.outcome : rec.outcome[e] = ExpectedAfter(muts, done, e)
  /\ rec.clockok
  /\ (\E e \in DOMAIN rec.outcome : rec.outcome[e] = "pre") => rec.redo = "post"
=============================================================================
