------------------------------- MODULE Crash -------------------------------
(* Crash atomicity of git-bug's write paths (C06).  A call issues a sequence of storage mutations:
     "blob" "tree" "commit"         git objects (invisible until a ref points at them)
     "ref"                          the update of the entity's ref
     "fs-open-trunc" "fs-write" "fs-close" "fs-rename"    file operations on a clock file
   The process may die before any mutation takes effect ("blob" .. "ref", "fs-rename", "fs-close" are atomic), after an
   "fs-open-trunc" took effect (the file is then empty) or in the middle of an "fs-write" (a proper prefix is on disk).
   Crash point k means: mutations 1..k-1 happened, mutation k was interrupted; k = n+1: the call completed.          *)
EXTENDS Integers, Sequences, FiniteSets

Objs == {"blob", "tree", "commit"}
Refs == {"ref"}

(* state of the entity's ref after the crash *)
RefsDone(muts, k) == Cardinality({i \in 1..(k - 1) : i <= Len(muts) /\ muts[i] \in Refs})
RefsTotal(muts) == Cardinality({i \in DOMAIN muts : muts[i] \in Refs})
Expected(muts, k) == IF RefsDone(muts, k) = RefsTotal(muts) THEN "post" ELSE IF RefsDone(muts, k) = 0 THEN "pre" ELSE "mixed"

(* state of the clock file being written when the process died: "ok" (old or new value, complete), "empty", "torn" *)
RECURSIVE ClockFile(_, _, _)
ClockFile(muts, k, st) ==
  IF muts = <<>> \/ k = 0 THEN st
  ELSE LET m == Head(muts) IN
       IF k = 1                                   \* the interrupted mutation
       THEN (IF m = "fs-open-trunc" THEN "empty" ELSE IF m = "fs-write" /\ st = "empty" THEN "torn" ELSE st)
       ELSE ClockFile(Tail(muts), k - 1,
                      IF m = "fs-open-trunc" THEN "empty"
                      ELSE IF m = "fs-write" THEN "ok"
                      ELSE IF m = "fs-rename" THEN "ok"
                      ELSE st)

(* what makes a path crash-safe: objects are all written before the single ref update that publishes them, and the
   clock file is only ever replaced atomically *)
ObjsBeforeRef(muts) == \A i, j \in DOMAIN muts : (muts[i] \in Objs /\ muts[j] \in Refs) => i < j
SingleRef(muts) == RefsTotal(muts) <= 1
AtomicClock(muts) == \A i \in DOMAIN muts : muts[i] \notin {"fs-open-trunc", "fs-write"}
WellFormed(muts) == ObjsBeforeRef(muts) /\ SingleRef(muts) /\ AtomicClock(muts)

(* C06 on one record (scenario, crash point, what was found after re-opening) *)
Safe(muts, k, rec) ==
  /\ rec.openerr = "" /\ rec.readerr = ""                 \* the repository opens again, every entity is readable
  /\ rec.outcome = Expected(muts, k)                       \* old state or new state, decided by the ref update alone
  /\ rec.outcome \in {"pre", "post"}
  /\ rec.clockok                                           \* clocks usable and not behind anything stored
  /\ ClockFile(muts, k, "ok") = "ok"
  /\ (rec.outcome = "pre" /\ RefsTotal(muts) > 0) => rec.redo = "post"   \* repeating the call completes it
=============================================================================
