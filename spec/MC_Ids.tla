------------------------------ MODULE MC_Ids ------------------------------
(* (1) the interleaving theorem for every prefix length 0..64, on position-tagged symbolic ids, so that one run covers
       all ids; each length is printed as a vector (which positions of which part make up the prefix);
   (2) the 0 / 1 / many resolution table on every population of <= MaxPop ids of length Depth over a two-letter
       alphabet padded to full length (all shared-prefix shapes), for every prefix of every id. *)
EXTENDS Ids, TLC, Json

CONSTANTS Depth, MaxPop

VARIABLE st

P == [k \in 1..IdLen |-> k]              \* primary id: symbol k at position k
S == [k \in 1..IdLen |-> 1000 + k]       \* secondary id

Words(n) == [1..n -> {0, 1}]
Pad(w) == [k \in 1..IdLen |-> IF k <= Len(w) THEN w[k] ELSE 7]
Pops == {pp \in SUBSET Words(Depth) : Cardinality(pp) <= MaxPop}

Init ==
  \/ \E L \in 0..IdLen : st = [mode |-> "split", L |-> L]
  \/ \E pp \in Pops : st = [mode |-> "pop", pop |-> SetToSeq({Pad(w) : w \in pp})]
Next == UNCHANGED st
Spec == Init /\ [][Next]_st

InvSplit == st.mode = "split" => SplitsIntoPrefixes(P, S, st.L)
InvCounts == st.mode = "split" => (NPri(IdLen) = 50 /\ NSec(IdLen) = 14 /\ NPri(st.L) + NSec(st.L) = st.L)
(* distinct (primary prefix, secondary prefix) pairs give distinct combined prefixes: the layout is a bijection *)
InvInjective == st.mode = "split" =>
   Cardinality({Combine(P, S)[k] : k \in 1..st.L}) = st.L

(* resolution: found iff exactly one id extends the prefix, and then it is that id; never another *)
InvResolve == st.mode = "pop" =>
  \A i \in DOMAIN st.pop : \A L \in 0..(Depth + 1) :
     LET r == ResolvePrefix(st.pop, Prefix(st.pop[i], L)) IN
     /\ i \in r.matching
     /\ r.outcome = "found" <=> r.matching = {i}
     /\ r.outcome # "notfound"
     /\ \A j \in r.matching : IsPrefix(Prefix(st.pop[i], L), st.pop[j])
     /\ \A j \in DOMAIN st.pop : IsPrefix(Prefix(st.pop[i], L), st.pop[j]) => j \in r.matching

EmitSplit == st.mode = "split" =>
   PrintT(ToJson([L |-> st.L, npri |-> NPri(st.L), nsec |-> NSec(st.L),
                  layout |-> [k \in 1..st.L |-> Combine(P, S)[k]]]))
=============================================================================
