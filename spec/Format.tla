------------------------------- MODULE Format -------------------------------
(* The on-disk format of git-bug seen by a reader that does not trust the writer (C07): what a remote may serve under
   refs/bugs and refs/identities, and which of it must be refused.

   A served history is an otherwise valid history (three operation packs for a bug, two versions for an identity) with
   one structural mutation applied at one position.  Mutations are named; Class says which conjunct of validity a
   mutation breaks, and Verdict what the reader must do.  A few mutations leave the data decodable (an unknown extra
   tree entry, a second clock entry, an unknown JSON field, an empty non-root pack): for those either outcome is
   admissible as long as nothing crashes (the same goes for the odd_* mutations: operations of impeccable form that no honest client
   writes - a label added twice and removed in the same change, a removal of a label never added, an edit aiming at a title change or
   at nothing, a status set to what it is, times before the creation or below zero, a very long comment), an "invalid" report leaves local data untouched and an accepted entity reads
   back and validates. *)
EXTENDS Integers, FiniteSets, Sequences, TLC, Json, SequencesExt

(* mutation -> the validity conjunct it breaks *)
BugMutations ==
  [ none |-> "valid",
    ver_missing |-> "format-version", ver_other |-> "format-version", ver_garbage |-> "format-version",
    ver_huge |-> "format-version", ver_zero |-> "format-version", ver_dup |-> "tolerated",
    ops_missing |-> "ops-entry", ops_is_tree |-> "ops-entry",
    editclock_missing |-> "edit-clock", editclock_garbage |-> "edit-clock", editclock_zero |-> "edit-clock", editclock_two |-> "tolerated",
    createclock_missing |-> "create-clock", createclock_garbage |-> "create-clock",
    extra_file |-> "tolerated", extra_tree |-> "tolerated",
    json_broken |-> "json", json_array |-> "json", json_string |-> "json", json_empty |-> "json",
    author_missing |-> "author", author_null |-> "author", author_number |-> "author", author_unknown |-> "author", author_emptyid |-> "author",
    ops_null |-> "op-list", ops_emptylist |-> "op-list", ops_object |-> "op-list", ops_string |-> "op-list",
    op_unknown_type |-> "op", op_zero_type |-> "op", op_string_type |-> "op", op_null |-> "op", op_number |-> "op",
    op_missing_type |-> "op", op_bad_title |-> "op-valid", op_control_chars |-> "op-valid", op_short_nonce |-> "op-valid",
    op_no_nonce |-> "op-valid", edit_target_short |-> "op-valid", edit_target_empty |-> "op-valid", edit_target_long |-> "op-valid",
    edit_target_badchars |-> "op-valid", meta_target_short |-> "op-valid", op_extra_field |-> "tolerated", op_dup |-> "op-valid", second_create |-> "op-valid", create_not_first |-> "op-valid", create_missing |-> "op-valid",
    odd_label_dup_removed |-> "tolerated", odd_label_dup |-> "tolerated", odd_label_remove_absent |-> "tolerated", odd_label_add_remove |-> "tolerated",
    odd_many_labels |-> "tolerated", odd_status_same |-> "tolerated", odd_title_same |-> "tolerated", odd_edit_non_comment |-> "tolerated",
    odd_edit_unknown |-> "tolerated", odd_meta_unknown |-> "tolerated", odd_comment_huge |-> "tolerated", odd_time_before_create |-> "tolerated",
    odd_time_negative |-> "tolerated",
    merge_with_ops |-> "dag", second_root |-> "dag", clock_back |-> "dag", clock_jump |-> "dag",
    ref_other_id |-> "ref", ref_bad_name |-> "ref", empty_history |-> "op-list" ]

IdentityMutations ==
  [ none |-> "valid",
    entry_missing |-> "tree", entry_renamed |-> "tree", entry_extra |-> "tree", entry_is_tree |-> "tree",
    json_broken |-> "json", json_array |-> "json",
    format_other |-> "format-version", format_missing |-> "format-version", format_string |-> "format-version",
    no_name_login |-> "fields", name_control |-> "fields", nonce_short |-> "fields", nonce_missing |-> "fields",
    avatar_bad |-> "fields", clock_back |-> "clocks", clock_dropped |-> "clocks", clock_all_dropped |-> "clocks", clock_none |-> "clocks",
    keys_garbage |-> "keys", keys_wrongtype |-> "keys", keys_null |-> "keys", keys_number |-> "keys",
    merge_commit |-> "chain", recommitted |-> "chain", ref_other_id |-> "ref", ref_bad_name |-> "ref" ]

Positions == {"root", "middle", "head"}
Locals == {"absent", "equal", "ahead", "behind", "diverged"}

(* mutations that only make sense at some positions *)
BugApplicable(m, p) ==
  CASE m \in {"createclock_missing", "createclock_garbage"} -> p = "root"
    [] m \in {"second_create", "merge_with_ops", "clock_back", "clock_jump"} -> p # "root"
    [] m \in {"create_not_first", "create_missing"} -> p = "root"        \* the one create operation comes second (the ref is named after the first); there is none
    [] m \in {"second_root"} -> p = "middle"
    [] m \in {"ref_other_id", "ref_bad_name", "none", "empty_history"} -> p = "head"
    [] OTHER -> TRUE

(* an empty pack is only a problem where the create operation lives *)
BugClass(m, p) ==
  IF m \in {"ops_null", "ops_emptylist"} /\ p # "root" THEN "tolerated" ELSE BugMutations[m]

Verdict(class) == IF class = "valid" THEN "valid" ELSE IF class = "tolerated" THEN "either" ELSE "invalid"

(* what a merge of a *valid* remote reports in each local situation (the five scenarios of C02) *)
ValidStatus(local) == CASE local = "absent" -> "new" [] local = "equal" -> "nothing" [] local = "ahead" -> "nothing"
                        [] local = "behind" -> "updated" [] local = "diverged" -> "updated"

VARIABLE st
BugCases == {[kind |-> "bug", m |-> m, pos |-> p, local |-> l, class |-> BugClass(m, p), verdict |-> Verdict(BugClass(m, p)), status |-> ValidStatus(l)] :
               m \in DOMAIN BugMutations, p \in Positions, l \in Locals}
(* recommitted: the versions known locally stored again in commits of the remote's own (same blobs, same version and identity
   ids, other commit hashes) with one more version on top: valid where the identity is unknown, a foreign history - not a
   continuation of the local one - everywhere else *)
IdentityClass(m, l) == IF m = "recommitted" /\ l = "absent" THEN "valid" ELSE IdentityMutations[m]
IdentityApplicable(m, p) ==
  CASE m \in {"clock_back", "clock_dropped", "clock_all_dropped", "clock_none", "merge_commit", "recommitted"} -> p = "head"
    [] m \in {"ref_other_id", "ref_bad_name", "none"} -> p = "head"
    [] OTHER -> p \in {"root", "head"}
(* identities merge fast-forward only: a diverged valid remote is refused as well *)
IdentityStatus(local) == CASE local = "absent" -> "new" [] local = "equal" -> "nothing" [] local = "ahead" -> "nothing"
                           [] local = "behind" -> "updated" [] local = "diverged" -> "invalid"
IdentityCases == {[kind |-> "identity", m |-> m, pos |-> p, local |-> l, class |-> IdentityClass(m, l), verdict |-> Verdict(IdentityClass(m, l)), status |-> IdentityStatus(l)] :
               m \in DOMAIN IdentityMutations, p \in Positions, l \in Locals}

Init == st \in {c \in BugCases : BugApplicable(c.m, c.pos)} \cup {c \in IdentityCases : IdentityApplicable(c.m, c.pos)}
Next == UNCHANGED st
Spec == Init /\ [][Next]_st

(* every validity conjunct is exercised, at every position where it applies, in every local situation *)
Classes == {"format-version", "ops-entry", "edit-clock", "create-clock", "json", "author", "op-list", "op", "op-valid", "dag", "ref"}
Emit == PrintT(ToJson(st))

(* ---- the rule for outcomes of arbitrary (fuzzed) data, where validity is not known to the specification ---- *)
FuzzOK(o) ==
  /\ ~o.crashed
  /\ o.status \in {"invalid", "new", "updated", "nothing"}
  /\ o.status = "invalid" => o.untouched
  /\ o.status \in {"new", "updated"} => o.readable
=============================================================================
