SPECIFICATION Spec
CONSTANTS MaxPacks = 1  AtomicWrite = FALSE
INVARIANTS CrashAtomic ClockNeverTorn
CHECK_DEADLOCK FALSE
