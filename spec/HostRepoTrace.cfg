SPECIFICATION TSpec
POSTCONDITION TraceAccepted
CHECK_DEADLOCK FALSE
