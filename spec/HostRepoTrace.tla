--------------------------- MODULE HostRepoTrace ---------------------------
EXTENDS HostRepo, Json, IOUtils, TLC
VARIABLES l, prev
Trace == ndJsonDeserialize(IOEnv.TRACE)
ev == Trace[l]
TInit == Init /\ l = 1 /\ prev = ""
Start == l <= Len(Trace) /\ ev.ev = "Start" /\ prev' = ev.foreign /\ l' = l + 1 /\ UNCHANGED vars
Step == l <= Len(Trace) /\ ev.ev = "Step" /\ StepOK(prev, ev) /\ prev' = prev /\ l' = l + 1 /\ UNCHANGED vars
TNext == Start \/ Step
TSpec == TInit /\ [][TNext]_<<vars, l, prev>>
TraceAccepted == TLCGet("stats").diameter - 1 = Len(Trace)
=============================================================================
