------------------------------ MODULE MC_Lock ------------------------------
(* all orders of open / close / kill of the holders and of short commands (succeeding, failing after the cache was
   opened, failing before) up to Depth steps; every behaviour is printed as a schedule with what each step must report *)
EXTENDS Lock, TLC, Json
CONSTANT Depth
VARIABLE hist
Kinds == {"ok", "fail-after-open", "fail-no-identity"}
Log(act, h, kind) == hist' = Append(hist, [act |-> act, h |-> h, kind |-> kind, out |-> res'.out, by |-> res'.by, lock |-> lock'])
Next ==
  /\ Len(hist) < Depth
  /\ \/ \E h \in Holder : Open(h) /\ Log("Open", h, "")
     \/ \E h \in Holder : Close(h) /\ Log("Close", h, "")
     \/ \E h \in Holder : Kill(h) /\ Log("Kill", h, "")
     \/ \E k \in Kinds : Cmd(k) /\ Log("Cmd", 0, k)
Spec == Init /\ hist = <<>> /\ [][Next]_<<vars, hist>>
Emit == Len(hist) = Depth => PrintT(ToJson([steps |-> hist]))
=============================================================================
