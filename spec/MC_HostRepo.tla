---- MODULE MC_HostRepo ----
EXTENDS HostRepo, TLC
Next == mine < 4 /\ Act
Spec == Init /\ [][Next]_vars
====
