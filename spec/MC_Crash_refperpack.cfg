SPECIFICATION Spec
CONSTANTS MaxPacks = 2  AtomicWrite = TRUE  RefPerPack = TRUE
INVARIANTS CrashAtomic ClockNeverTorn
CHECK_DEADLOCK FALSE
