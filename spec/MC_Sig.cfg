SPECIFICATION Spec
CONSTANTS MaxV = 2  NKeys = 2  MaxT = 3
INVARIANTS InvTheorems Emit
CHECK_DEADLOCK FALSE
