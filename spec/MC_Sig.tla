------------------------------ MODULE MC_Sig ------------------------------
(* every version history of <= MaxV versions over keys 1..NKeys with times in 0..MaxT (non-decreasing), crossed with every
   commit case: logical time, signer (none, each key, a stranger), altered or not. *)
EXTENDS Sig, TLC, Json, SequencesExt
SetToSeqSorted(S) == SetToSortSeq(S, LAMBDA a, b : a < b)
CONSTANTS MaxV, NKeys, MaxT
VARIABLE st

KeySets == SUBSET (1..NKeys)
Signers == {None, Stranger} \cup 1..NKeys
Shapes == {"ops", "empty", "unsorted", "chained"}    \* unsorted: a pack with operations whose tree lists its entries out of git's canonical order; chained: the second signed commit of its author in the bug (each commit is judged by the keys of its own time)
Commits == {[et |-> e, signer |-> s, altered |-> a, shape |-> sh] : e \in 1..(MaxT + 1), s \in Signers, a \in BOOLEAN, sh \in Shapes} \
           {[et |-> e, signer |-> None, altered |-> TRUE, shape |-> sh] : e \in 1..(MaxT + 1), sh \in Shapes}

Init == st = [hist |-> <<>>, c |-> [et |-> 0, signer |-> None, altered |-> FALSE, shape |-> "ops"], done |-> FALSE]
Next ==
  /\ ~st.done
  /\ \/ /\ Len(st.hist) < MaxV
        /\ \E t \in 0..MaxT, ks \in KeySets :
             /\ (st.hist # <<>> => t >= st.hist[Len(st.hist)].t)
             /\ st' = [st EXCEPT !.hist = Append(st.hist, [t |-> t, keys |-> ks])]
     \/ /\ st.hist # <<>>
        /\ \E c \in Commits : st' = [st EXCEPT !.c = c, !.done = TRUE]
Spec == Init /\ [][Next]_st

InvTheorems == st.done => Theorems(st.hist, st.c)
Emit == st.done => PrintT(ToJson([hist |-> [i \in DOMAIN st.hist |-> [t |-> st.hist[i].t, keys |-> SetToSeqSorted(st.hist[i].keys)]],
                                   c |-> st.c, keysat |-> SetToSeqSorted(KeysAt(st.hist, st.c.et)), accept |-> Accept(st.hist, st.c)]))
=============================================================================
