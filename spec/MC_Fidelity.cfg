SPECIFICATION Spec
CONSTANT MaxOps = 6
INVARIANTS EidIsFirst PacksAreRuns
CHECK_DEADLOCK FALSE
