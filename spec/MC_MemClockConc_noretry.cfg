SPECIFICATION Spec
CONSTANTS Wit = {"w1", "w2"}  Val <- ValC  Inc = {"i1", "i2"}  Times = 3  Retry = FALSE
INVARIANT Dominates
PROPERTIES Monotone Fresh
CHECK_DEADLOCK FALSE
