SPECIFICATION Spec
CONSTANTS G = {1, 2}  MaxOps = 3  Recheck = FALSE  Eviction = FALSE
INVARIANTS AckStored
CHECK_DEADLOCK FALSE
