------------------------------ MODULE Snapshot ------------------------------
(* The compiled state of a bug as the fold of its operations (entities/bug/op_*.go, snapshot.go, timeline.go,
   entity/dag/op_set_metadata.go), transcribed operator by operator.

   Operations are identified by their position 1..n in the bug.  Texts are identified by the position of the
   operation that introduced them (message i, title i, metadata value i); labels are small integers whose
   numeric order is the string order of the concrete labels.  An API call may append no operation at all
   (ChangeLabels with nothing to change), which is why calls and operations are distinguished.            *)
EXTENDS Integers, Sequences, FiniteSets, SequencesExt

Keys == {"k0", "k1"}
Own == -1             \* value of a metadata key the operation carries itself (create carries k0)
NoMeta == [k \in Keys |-> 0]

Empty == [n |-> 0, title |-> 0, status |-> "open", labels |-> <<>>, comments |-> <<>>, actors |-> <<>>,
          participants |-> <<>>, timeline |-> <<>>, meta |-> <<>>, author |-> 0]

InSeq(s, x) == \E i \in DOMAIN s : s[i] = x
AddOnce(s, x) == IF InSeq(s, x) THEN s ELSE Append(s, x)
Without(s, x) == SelectSeq(s, LAMBDA y : y # x)
SortInts(s) == SortSeq(s, LAMBDA a, b : a < b)

RECURSIVE AddAll(_, _)
AddAll(s, xs) == IF xs = <<>> THEN s ELSE AddAll(AddOnce(s, Head(xs)), Tail(xs))
RECURSIVE RemoveAll(_, _)
RemoveAll(s, xs) == IF xs = <<>> THEN s ELSE RemoveAll(Without(s, Head(xs)), Tail(xs))

Bump(S) == [S EXCEPT !.n = S.n + 1, !.meta = Append(S.meta, NoMeta)]   \* every appended operation gets a position

ApplyCreate(S, a, wf) ==
  LET i == S.n + 1 IN
  [Bump(S) EXCEPT !.title = i, !.author = a,
     !.actors = AddOnce(S.actors, a), !.participants = AddOnce(S.participants, a),
     !.comments = <<[op |-> i, au |-> a, msg |-> i, files |-> IF wf THEN i ELSE 0]>>,
     !.timeline = <<[kind |-> "create", op |-> i, au |-> a, hist |-> <<i>>, a1 |-> <<>>, a2 |-> <<>>]>>,
     !.meta = Append(S.meta, [NoMeta EXCEPT !["k0"] = Own])]

ApplyAddComment(S, a, wf) ==
  LET i == S.n + 1 IN
  [Bump(S) EXCEPT !.actors = AddOnce(S.actors, a), !.participants = AddOnce(S.participants, a),
     !.comments = Append(S.comments, [op |-> i, au |-> a, msg |-> i, files |-> IF wf THEN i ELSE 0]),
     !.timeline = Append(S.timeline, [kind |-> "comment", op |-> i, au |-> a, hist |-> <<i>>, a1 |-> <<>>, a2 |-> <<>>])]

(* target: position of the targeted operation, 0 = an id that designates no operation of this bug *)
(* same: the edit repeats the text the comment already shows (it may still change the files): one more entry in the edit
   history all the same *)
ApplyEditComment(S, a, target, wf, same) ==
  LET i == S.n + 1
      hit == {j \in DOMAIN S.timeline : S.timeline[j].op = target} IN
  IF hit = {} \/ \A j \in hit : S.timeline[j].kind \notin {"create", "comment"}
  THEN Bump(S)                                         \* unknown or non-comment target: changes nothing
  ELSE LET j == CHOOSE x \in hit : TRUE
           cur == (CHOOSE c \in DOMAIN S.comments : S.comments[c].op = target)
           m == IF same THEN S.comments[cur].msg ELSE i IN
       [Bump(S) EXCEPT !.actors = AddOnce(S.actors, a),
          !.timeline[j].hist = Append(S.timeline[j].hist, m),
          !.comments = [c \in DOMAIN S.comments |->
                          IF S.comments[c].op = target THEN [S.comments[c] EXCEPT !.msg = m, !.files = IF wf THEN i ELSE 0]
                          ELSE S.comments[c]]]      \* text and files are those of the latest edit

ApplySetTitle(S, a) ==
  LET i == S.n + 1 IN
  [Bump(S) EXCEPT !.title = i, !.actors = AddOnce(S.actors, a),
     !.timeline = Append(S.timeline, [kind |-> "title", op |-> i, au |-> a, hist |-> <<i, S.title>>, a1 |-> <<>>, a2 |-> <<>>])]

(* a title change whose author claims the title was already that (`was` is what the author saw, or says to have seen; it is
   recorded as given and decides nothing): the title is set and the change is in the timeline like any other *)
ApplySetTitleStale(S, a) ==
  LET i == S.n + 1 IN
  [Bump(S) EXCEPT !.title = i, !.actors = AddOnce(S.actors, a),
     !.timeline = Append(S.timeline, [kind |-> "title", op |-> i, au |-> a, hist |-> <<i, i>>, a1 |-> <<>>, a2 |-> <<>>])]

ApplySetStatus(S, a, st) ==
  LET i == S.n + 1 IN
  [Bump(S) EXCEPT !.status = st, !.actors = AddOnce(S.actors, a),
     !.timeline = Append(S.timeline, [kind |-> "status:" \o st, op |-> i, au |-> a, hist |-> <<>>, a1 |-> <<>>, a2 |-> <<>>])]

(* the stored operation carries the two lists verbatim: additions first (skipping what is present), then removals, then sort *)
ApplyLabelChange(S, a, added, removed) ==
  LET i == S.n + 1 IN
  [Bump(S) EXCEPT !.labels = SortInts(RemoveAll(AddAll(S.labels, added), removed)),
     !.actors = AddOnce(S.actors, a),
     !.timeline = Append(S.timeline, [kind |-> "label", op |-> i, au |-> a, hist |-> <<>>, a1 |-> added, a2 |-> removed])]

(* ChangeLabels (the non-forced API): filters the request against the current labels; may produce no operation *)
RECURSIVE FilterAdd(_, _, _)
FilterAdd(req, acc, labels) ==
  IF req = <<>> THEN acc
  ELSE IF InSeq(acc, Head(req)) \/ InSeq(labels, Head(req)) THEN FilterAdd(Tail(req), acc, labels)
  ELSE FilterAdd(Tail(req), Append(acc, Head(req)), labels)
RECURSIVE FilterRem(_, _, _)
FilterRem(req, acc, labels) ==
  IF req = <<>> THEN acc
  ELSE IF InSeq(acc, Head(req)) \/ ~InSeq(labels, Head(req)) THEN FilterRem(Tail(req), acc, labels)
  ELSE FilterRem(Tail(req), Append(acc, Head(req)), labels)

ApplyChangeLabels(S, a, add, rem) ==
  LET added == FilterAdd(add, <<>>, S.labels)
      removed == FilterRem(rem, <<>>, S.labels) IN
  IF added = <<>> /\ removed = <<>> THEN S ELSE ApplyLabelChange(S, a, added, removed)

(* metadata set later never overrides: neither the operation's own keys nor an earlier extra value *)
ApplySetMetadata(S, a, target, key) ==
  LET i == S.n + 1 IN
  IF target \in 1..S.n /\ S.meta[target][key] = 0
  THEN [Bump(S) EXCEPT !.meta[target][key] = i]
  ELSE Bump(S)

(* the same with the empty string as value (-2): a key that is there with nothing in it is there, and is not overridden either *)
ApplySetMetadataEmpty(S, a, target, key) ==
  IF target \in 1..S.n /\ S.meta[target][key] = 0
  THEN [Bump(S) EXCEPT !.meta[target][key] = -2]
  ELSE Bump(S)

ApplyNoOp(S, a) == Bump(S)

(* one API call *)
Target(S, t) == CASE t = "create" -> 1 [] t = "last" -> S.n [] OTHER -> 0
Apply(S, c) ==
  CASE c.k = "create"   -> ApplyCreate(S, c.a, c.wf)
    [] c.k = "comment"  -> ApplyAddComment(S, c.a, c.wf)
    [] c.k = "edit"     -> ApplyEditComment(S, c.a, Target(S, c.t), c.wf, FALSE)
    [] c.k = "editsame" -> ApplyEditComment(S, c.a, Target(S, c.t), c.wf, TRUE)
    [] c.k = "title"    -> ApplySetTitle(S, c.a)
    [] c.k = "titlestale" -> ApplySetTitleStale(S, c.a)
    [] c.k = "status"   -> ApplySetStatus(S, c.a, c.s)
    [] c.k = "labelf"   -> ApplyLabelChange(S, c.a, c.add, c.rem)
    [] c.k = "label"    -> ApplyChangeLabels(S, c.a, c.add, c.rem)
    [] c.k = "meta"     -> ApplySetMetadata(S, c.a, Target(S, c.t), c.key)
    [] c.k = "metaempty" -> ApplySetMetadataEmpty(S, c.a, Target(S, c.t), c.key)
    [] c.k = "noop"     -> ApplyNoOp(S, c.a)

RECURSIVE Compile(_, _)
Compile(S, calls) == IF calls = <<>> THEN S ELSE Compile(Apply(S, Head(calls)), Tail(calls))

(* ---- what the property promises, as theorems over every compiled state ---- *)
NoDup(s) == \A i, j \in DOMAIN s : i # j => s[i] # s[j]
Sorted(s) == \A i \in DOMAIN s : i > 1 => s[i-1] < s[i]
WellFormed(S) ==
  /\ Sorted(S.labels) /\ NoDup(S.labels)
  /\ NoDup(S.actors) /\ NoDup(S.participants)
  /\ \A i \in DOMAIN S.participants : InSeq(S.actors, S.participants[i])
  /\ Len(S.meta) = S.n
  /\ NoDup([i \in DOMAIN S.timeline |-> S.timeline[i].op])
  /\ NoDup([i \in DOMAIN S.comments |-> S.comments[i].op])
  /\ \A i \in DOMAIN S.comments : \E j \in DOMAIN S.timeline :
        /\ S.timeline[j].op = S.comments[i].op
        /\ S.timeline[j].kind \in {"create", "comment"}
        /\ S.comments[i].msg = S.timeline[j].hist[Len(S.timeline[j].hist)]   \* text = latest edit
  /\ Cardinality({j \in DOMAIN S.timeline : S.timeline[j].kind \in {"create", "comment"}}) = Len(S.comments)
=============================================================================
