----------------------------- MODULE MBT_Cache -----------------------------
(* random behaviours of Cache as sessions for harness/cachex (tlc -simulate) *)
EXTENDS Cache, TLC, Json
CONSTANT Depth
VARIABLE hist
Kinds == {"comment", "title", "status", "label", "editcomment", "metadata"}
Log(e) == hist' = Append(hist, e)
E(a, r, b, k, n) == [act |-> a, r |-> r, b |-> b, kind |-> k, n |-> n]
MInit == Init /\ hist = <<>>
MNext ==
  /\ Len(hist) < Depth
  /\ \/ \E r \in Replica : CNew(r) /\ Log(E("New", r, 0, "", 0))
     \/ \E r \in Replica, b \in Bugs, k \in Kinds : CEdit(r, b) /\ Log(E("Edit", r, b, k, 0))
     \/ \E r \in Replica, b \in Bugs : CCommit(r, b) /\ Log(E("Commit", r, b, "", 0))
     \/ \E r \in Replica, b \in Bugs, k \in Kinds : b \in have[r] /\ b \notin staged[r] /\ Log(E("EditCommit", r, b, k, 0)) /\ UNCHANGED vars
     \/ \E r \in Replica : have[r] # {} /\ have[r] \ hub # {} /\ CPush(r) /\ Log(E("Push", r, 0, "", 0))
     \/ \E r \in Replica : have[r] # {} /\ CPush(r) /\ res = "commit" /\ Log(E("Push", r, 0, "", 0))
     \/ \E r \in Replica : hub # {} /\ CPull(r) /\ Log(E("Pull", r, 0, "", 0))
     \/ \E r \in Replica : hub # {} /\ res # "fetch" /\ CFetch(r) /\ Log(E("Fetch", r, 0, "", 0))
     \/ \E r \in Replica, b \in Bugs : Cardinality(have[r]) > 1 /\ CRemove(r, b) /\ Log(E("Remove", r, b, "", 0))
     \/ \E r \in Replica, n \in 1..2 : have[r] # {} /\ res # "resolve" /\ CResolveAll(r, n) /\ Log(E("ResolveAll", r, 0, "", n))
     \/ \E r \in Replica : have[r] # {} /\ res # "reopen" /\ CReopen(r) /\ Log(E("Reopen", r, 0, "", 0))
     \/ \E r \in Replica : res # "ident" /\ res' = "ident" /\ Log(E("MutateIdentity", r, 0, "", 0)) /\ UNCHANGED <<have, trk, hub, hubnew, staged, listed, indexed, fresh, size, made>>
MSpec == MInit /\ [][MNext]_<<vars, hist>>
Emit == Len(hist) >= Depth => PrintT(ToJson([steps |-> hist]))
=============================================================================
