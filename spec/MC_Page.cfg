SPECIFICATION Spec
CONSTANTS MaxN = 5  MaxK = 6
INVARIANTS InvWindow InvRejects InvFlagsF InvFlagsB InvWalkCovers InvWalkTerminates Emit EmitWalk
CHECK_DEADLOCK FALSE
