---- MODULE MC_GitBugLive_TTrace_1791091910 ----
EXTENDS Sequences, MC_GitBugLive_TEConstants, TLCExt, Toolbox, MC_GitBugLive, Naturals, TLC

_expression ==
    LET MC_GitBugLive_TEExpression == INSTANCE MC_GitBugLive_TEExpression
    IN MC_GitBugLive_TEExpression!expression
----

_trace ==
    LET MC_GitBugLive_TETrace == INSTANCE MC_GitBugLive_TETrace
    IN MC_GitBugLive_TETrace!trace
----

_prop ==
    ~(([]<>(
            phase = ("sync")
            /\
            res = ([r |-> B, kind |-> "fetch"])
            /\
            ref = ((A :> <<5>> @@ B :> <<8>>))
            /\
            clk = ((A :> [e |-> 5, c |-> 2, de |-> 5, dc |-> 2] @@ B :> [e |-> 6, c |-> 2, de |-> 6, dc |-> 2]))
            /\
            hub = (<<8>>)
            /\
            nops = (6)
            /\
            commits = (<<[au |-> u1, par |-> <<>>, ops |-> <<1>>, ct |-> 2, et |-> 2, rank |-> 1, bug |-> 1], [au |-> u2, par |-> <<1>>, ops |-> <<2, 3>>, ct |-> 0, et |-> 3, rank |-> 2, bug |-> 1], [au |-> u1, par |-> <<1>>, ops |-> <<4>>, ct |-> 0, et |-> 3, rank |-> 3, bug |-> 1], [au |-> u1, par |-> <<2>>, ops |-> <<5>>, ct |-> 0, et |-> 4, rank |-> 4, bug |-> 1], [au |-> u1, par |-> <<4>>, ops |-> <<6>>, ct |-> 0, et |-> 5, rank |-> 5, bug |-> 1], [au |-> u1, par |-> <<3, 2>>, ops |-> <<>>, ct |-> 0, et |-> 4, rank |-> 6, bug |-> 1], [au |-> u1, par |-> <<6, 4>>, ops |-> <<>>, ct |-> 0, et |-> 5, rank |-> 7, bug |-> 1], [au |-> u1, par |-> <<7, 5>>, ops |-> <<>>, ct |-> 0, et |-> 6, rank |-> 8, bug |-> 1]>>)
            /\
            trk = ((A :> <<8>> @@ B :> <<8>>))
    ))/\([]<>(
            phase = ("sync")
            /\
            res = ([r |-> A, kind |-> "fetch"])
            /\
            ref = ((A :> <<5>> @@ B :> <<8>>))
            /\
            clk = ((A :> [e |-> 5, c |-> 2, de |-> 5, dc |-> 2] @@ B :> [e |-> 6, c |-> 2, de |-> 6, dc |-> 2]))
            /\
            hub = (<<8>>)
            /\
            nops = (6)
            /\
            commits = (<<[au |-> u1, par |-> <<>>, ops |-> <<1>>, ct |-> 2, et |-> 2, rank |-> 1, bug |-> 1], [au |-> u2, par |-> <<1>>, ops |-> <<2, 3>>, ct |-> 0, et |-> 3, rank |-> 2, bug |-> 1], [au |-> u1, par |-> <<1>>, ops |-> <<4>>, ct |-> 0, et |-> 3, rank |-> 3, bug |-> 1], [au |-> u1, par |-> <<2>>, ops |-> <<5>>, ct |-> 0, et |-> 4, rank |-> 4, bug |-> 1], [au |-> u1, par |-> <<4>>, ops |-> <<6>>, ct |-> 0, et |-> 5, rank |-> 5, bug |-> 1], [au |-> u1, par |-> <<3, 2>>, ops |-> <<>>, ct |-> 0, et |-> 4, rank |-> 6, bug |-> 1], [au |-> u1, par |-> <<6, 4>>, ops |-> <<>>, ct |-> 0, et |-> 5, rank |-> 7, bug |-> 1], [au |-> u1, par |-> <<7, 5>>, ops |-> <<>>, ct |-> 0, et |-> 6, rank |-> 8, bug |-> 1]>>)
            /\
            trk = ((A :> <<8>> @@ B :> <<8>>))
    )))
----

_init ==
    /\ ref = _TETrace[1].ref
    /\ res = _TETrace[1].res
    /\ trk = _TETrace[1].trk
    /\ hub = _TETrace[1].hub
    /\ nops = _TETrace[1].nops
    /\ phase = _TETrace[1].phase
    /\ clk = _TETrace[1].clk
    /\ commits = _TETrace[1].commits
----

_next ==
    /\ \E i,j \in DOMAIN _TETrace:
        /\ \/ /\ j = i + 1
              /\ i = TLCGet("level")
           \/ /\ i = _TTraceLassoEnd
              /\ j = _TTraceLassoStart
        /\ ref  = _TETrace[i].ref
        /\ ref' = _TETrace[j].ref
        /\ res  = _TETrace[i].res
        /\ res' = _TETrace[j].res
        /\ trk  = _TETrace[i].trk
        /\ trk' = _TETrace[j].trk
        /\ hub  = _TETrace[i].hub
        /\ hub' = _TETrace[j].hub
        /\ nops  = _TETrace[i].nops
        /\ nops' = _TETrace[j].nops
        /\ phase  = _TETrace[i].phase
        /\ phase' = _TETrace[j].phase
        /\ clk  = _TETrace[i].clk
        /\ clk' = _TETrace[j].clk
        /\ commits  = _TETrace[i].commits
        /\ commits' = _TETrace[j].commits

\* Uncomment the ASSUME below to write the states of the error trace
\* to the given file in Json format. Note that you can pass any tuple
\* to `JsonSerialize`. For example, a sub-sequence of _TETrace.
    \* ASSUME
    \*     LET J == INSTANCE Json
    \*         IN J!JsonSerialize("MC_GitBugLive_TTrace_1791091910.json", _TETrace)


_view ==
    <<ref, res, trk, hub, nops, phase, clk, commits, IF TLCGet("level") = _TTraceLassoEnd + 1 THEN _TTraceLassoStart ELSE TLCGet("level")>>
=============================================================================

 Note that you can extract this module `MC_GitBugLive_TEExpression`
  to a dedicated file to reuse `expression` (the module in the 
  dedicated `MC_GitBugLive_TEExpression.tla` file takes precedence 
  over the module `MC_GitBugLive_TEExpression` below).

---- MODULE MC_GitBugLive_TEExpression ----
EXTENDS Sequences, MC_GitBugLive_TEConstants, TLCExt, Toolbox, MC_GitBugLive, Naturals, TLC

expression == 
    [
        \* To hide variables of the `MC_GitBugLive` spec from the error trace,
        \* remove the variables below.  The trace will be written in the order
        \* of the fields of this record.
        ref |-> ref
        ,res |-> res
        ,trk |-> trk
        ,hub |-> hub
        ,nops |-> nops
        ,phase |-> phase
        ,clk |-> clk
        ,commits |-> commits
        
        \* Put additional constant-, state-, and action-level expressions here:
        \* ,_stateNumber |-> _TEPosition
        \* ,_refUnchanged |-> ref = ref'
        
        \* Format the `ref` variable as Json value.
        \* ,_refJson |->
        \*     LET J == INSTANCE Json
        \*     IN J!ToJson(ref)
        
        \* Lastly, you may build expressions over arbitrary sets of states by
        \* leveraging the _TETrace operator.  For example, this is how to
        \* count the number of times a spec variable changed up to the current
        \* state in the trace.
        \* ,_refModCount |->
        \*     LET F[s \in DOMAIN _TETrace] ==
        \*         IF s = 1 THEN 0
        \*         ELSE IF _TETrace[s].ref # _TETrace[s-1].ref
        \*             THEN 1 + F[s-1] ELSE F[s-1]
        \*     IN F[_TEPosition - 1]
    ]

=============================================================================



Parsing and semantic processing can take forever if the trace below is long.
 In this case, it is advised to uncomment the module below to deserialize the
 trace from a generated binary file.

\*
\*---- MODULE MC_GitBugLive_TETrace ----
\*EXTENDS IOUtils, MC_GitBugLive_TEConstants, MC_GitBugLive, TLC
\*
\*trace == IODeserialize("MC_GitBugLive_TTrace_1791091910.bin", TRUE)
\*
\*=============================================================================
\*

---- MODULE MC_GitBugLive_TETrace ----
EXTENDS MC_GitBugLive_TEConstants, MC_GitBugLive, TLC

trace == 
    <<
    ([phase |-> "edit",res |-> [kind |-> "none"],ref |-> (A :> <<0>> @@ B :> <<0>>),clk |-> (A :> [e |-> 1, c |-> 1, de |-> 1, dc |-> 1] @@ B :> [e |-> 1, c |-> 1, de |-> 1, dc |-> 1]),hub |-> <<0>>,nops |-> 0,commits |-> <<>>,trk |-> (A :> <<0>> @@ B :> <<0>>)]),
    ([phase |-> "edit",res |-> [r |-> B, b |-> 1, kind |-> "new"],ref |-> (A :> <<0>> @@ B :> <<1>>),clk |-> (A :> [e |-> 1, c |-> 1, de |-> 1, dc |-> 1] @@ B :> [e |-> 2, c |-> 2, de |-> 2, dc |-> 2]),hub |-> <<0>>,nops |-> 1,commits |-> <<[au |-> u1, par |-> <<>>, ops |-> <<1>>, ct |-> 2, et |-> 2, rank |-> 1, bug |-> 1]>>,trk |-> (A :> <<0>> @@ B :> <<0>>)]),
    ([phase |-> "edit",res |-> [r |-> B, kind |-> "push", ok |-> TRUE],ref |-> (A :> <<0>> @@ B :> <<1>>),clk |-> (A :> [e |-> 1, c |-> 1, de |-> 1, dc |-> 1] @@ B :> [e |-> 2, c |-> 2, de |-> 2, dc |-> 2]),hub |-> <<1>>,nops |-> 1,commits |-> <<[au |-> u1, par |-> <<>>, ops |-> <<1>>, ct |-> 2, et |-> 2, rank |-> 1, bug |-> 1]>>,trk |-> (A :> <<0>> @@ B :> <<1>>)]),
    ([phase |-> "edit",res |-> [r |-> A, kind |-> "fetch"],ref |-> (A :> <<0>> @@ B :> <<1>>),clk |-> (A :> [e |-> 1, c |-> 1, de |-> 1, dc |-> 1] @@ B :> [e |-> 2, c |-> 2, de |-> 2, dc |-> 2]),hub |-> <<1>>,nops |-> 1,commits |-> <<[au |-> u1, par |-> <<>>, ops |-> <<1>>, ct |-> 2, et |-> 2, rank |-> 1, bug |-> 1]>>,trk |-> (A :> <<1>> @@ B :> <<1>>)]),
    ([phase |-> "edit",res |-> [r |-> A, b |-> 1, kind |-> "merge", ops |-> <<1>>, pre |-> 0, status |-> "new"],ref |-> (A :> <<1>> @@ B :> <<1>>),clk |-> (A :> [e |-> 2, c |-> 2, de |-> 2, dc |-> 2] @@ B :> [e |-> 2, c |-> 2, de |-> 2, dc |-> 2]),hub |-> <<1>>,nops |-> 1,commits |-> <<[au |-> u1, par |-> <<>>, ops |-> <<1>>, ct |-> 2, et |-> 2, rank |-> 1, bug |-> 1]>>,trk |-> (A :> <<1>> @@ B :> <<1>>)]),
    ([phase |-> "edit",res |-> [r |-> A, b |-> 1, kind |-> "edit"],ref |-> (A :> <<2>> @@ B :> <<1>>),clk |-> (A :> [e |-> 3, c |-> 2, de |-> 3, dc |-> 2] @@ B :> [e |-> 2, c |-> 2, de |-> 2, dc |-> 2]),hub |-> <<1>>,nops |-> 3,commits |-> <<[au |-> u1, par |-> <<>>, ops |-> <<1>>, ct |-> 2, et |-> 2, rank |-> 1, bug |-> 1], [au |-> u2, par |-> <<1>>, ops |-> <<2, 3>>, ct |-> 0, et |-> 3, rank |-> 2, bug |-> 1]>>,trk |-> (A :> <<1>> @@ B :> <<1>>)]),
    ([phase |-> "edit",res |-> [r |-> B, b |-> 1, kind |-> "edit"],ref |-> (A :> <<2>> @@ B :> <<3>>),clk |-> (A :> [e |-> 3, c |-> 2, de |-> 3, dc |-> 2] @@ B :> [e |-> 3, c |-> 2, de |-> 3, dc |-> 2]),hub |-> <<1>>,nops |-> 4,commits |-> <<[au |-> u1, par |-> <<>>, ops |-> <<1>>, ct |-> 2, et |-> 2, rank |-> 1, bug |-> 1], [au |-> u2, par |-> <<1>>, ops |-> <<2, 3>>, ct |-> 0, et |-> 3, rank |-> 2, bug |-> 1], [au |-> u1, par |-> <<1>>, ops |-> <<4>>, ct |-> 0, et |-> 3, rank |-> 3, bug |-> 1]>>,trk |-> (A :> <<1>> @@ B :> <<1>>)]),
    ([phase |-> "edit",res |-> [r |-> A, kind |-> "push", ok |-> TRUE],ref |-> (A :> <<2>> @@ B :> <<3>>),clk |-> (A :> [e |-> 3, c |-> 2, de |-> 3, dc |-> 2] @@ B :> [e |-> 3, c |-> 2, de |-> 3, dc |-> 2]),hub |-> <<2>>,nops |-> 4,commits |-> <<[au |-> u1, par |-> <<>>, ops |-> <<1>>, ct |-> 2, et |-> 2, rank |-> 1, bug |-> 1], [au |-> u2, par |-> <<1>>, ops |-> <<2, 3>>, ct |-> 0, et |-> 3, rank |-> 2, bug |-> 1], [au |-> u1, par |-> <<1>>, ops |-> <<4>>, ct |-> 0, et |-> 3, rank |-> 3, bug |-> 1]>>,trk |-> (A :> <<2>> @@ B :> <<1>>)]),
    ([phase |-> "edit",res |-> [r |-> B, kind |-> "fetch"],ref |-> (A :> <<2>> @@ B :> <<3>>),clk |-> (A :> [e |-> 3, c |-> 2, de |-> 3, dc |-> 2] @@ B :> [e |-> 3, c |-> 2, de |-> 3, dc |-> 2]),hub |-> <<2>>,nops |-> 4,commits |-> <<[au |-> u1, par |-> <<>>, ops |-> <<1>>, ct |-> 2, et |-> 2, rank |-> 1, bug |-> 1], [au |-> u2, par |-> <<1>>, ops |-> <<2, 3>>, ct |-> 0, et |-> 3, rank |-> 2, bug |-> 1], [au |-> u1, par |-> <<1>>, ops |-> <<4>>, ct |-> 0, et |-> 3, rank |-> 3, bug |-> 1]>>,trk |-> (A :> <<2>> @@ B :> <<2>>)]),
    ([phase |-> "edit",res |-> [r |-> A, b |-> 1, kind |-> "edit"],ref |-> (A :> <<4>> @@ B :> <<3>>),clk |-> (A :> [e |-> 4, c |-> 2, de |-> 4, dc |-> 2] @@ B :> [e |-> 3, c |-> 2, de |-> 3, dc |-> 2]),hub |-> <<2>>,nops |-> 5,commits |-> <<[au |-> u1, par |-> <<>>, ops |-> <<1>>, ct |-> 2, et |-> 2, rank |-> 1, bug |-> 1], [au |-> u2, par |-> <<1>>, ops |-> <<2, 3>>, ct |-> 0, et |-> 3, rank |-> 2, bug |-> 1], [au |-> u1, par |-> <<1>>, ops |-> <<4>>, ct |-> 0, et |-> 3, rank |-> 3, bug |-> 1], [au |-> u1, par |-> <<2>>, ops |-> <<5>>, ct |-> 0, et |-> 4, rank |-> 4, bug |-> 1]>>,trk |-> (A :> <<2>> @@ B :> <<2>>)]),
    ([phase |-> "edit",res |-> [r |-> A, kind |-> "push", ok |-> TRUE],ref |-> (A :> <<4>> @@ B :> <<3>>),clk |-> (A :> [e |-> 4, c |-> 2, de |-> 4, dc |-> 2] @@ B :> [e |-> 3, c |-> 2, de |-> 3, dc |-> 2]),hub |-> <<4>>,nops |-> 5,commits |-> <<[au |-> u1, par |-> <<>>, ops |-> <<1>>, ct |-> 2, et |-> 2, rank |-> 1, bug |-> 1], [au |-> u2, par |-> <<1>>, ops |-> <<2, 3>>, ct |-> 0, et |-> 3, rank |-> 2, bug |-> 1], [au |-> u1, par |-> <<1>>, ops |-> <<4>>, ct |-> 0, et |-> 3, rank |-> 3, bug |-> 1], [au |-> u1, par |-> <<2>>, ops |-> <<5>>, ct |-> 0, et |-> 4, rank |-> 4, bug |-> 1]>>,trk |-> (A :> <<4>> @@ B :> <<2>>)]),
    ([phase |-> "edit",res |-> [r |-> A, b |-> 1, kind |-> "edit"],ref |-> (A :> <<5>> @@ B :> <<3>>),clk |-> (A :> [e |-> 5, c |-> 2, de |-> 5, dc |-> 2] @@ B :> [e |-> 3, c |-> 2, de |-> 3, dc |-> 2]),hub |-> <<4>>,nops |-> 6,commits |-> <<[au |-> u1, par |-> <<>>, ops |-> <<1>>, ct |-> 2, et |-> 2, rank |-> 1, bug |-> 1], [au |-> u2, par |-> <<1>>, ops |-> <<2, 3>>, ct |-> 0, et |-> 3, rank |-> 2, bug |-> 1], [au |-> u1, par |-> <<1>>, ops |-> <<4>>, ct |-> 0, et |-> 3, rank |-> 3, bug |-> 1], [au |-> u1, par |-> <<2>>, ops |-> <<5>>, ct |-> 0, et |-> 4, rank |-> 4, bug |-> 1], [au |-> u1, par |-> <<4>>, ops |-> <<6>>, ct |-> 0, et |-> 5, rank |-> 5, bug |-> 1]>>,trk |-> (A :> <<4>> @@ B :> <<2>>)]),
    ([phase |-> "sync",res |-> [r |-> A, b |-> 1, kind |-> "edit"],ref |-> (A :> <<5>> @@ B :> <<3>>),clk |-> (A :> [e |-> 5, c |-> 2, de |-> 5, dc |-> 2] @@ B :> [e |-> 3, c |-> 2, de |-> 3, dc |-> 2]),hub |-> <<4>>,nops |-> 6,commits |-> <<[au |-> u1, par |-> <<>>, ops |-> <<1>>, ct |-> 2, et |-> 2, rank |-> 1, bug |-> 1], [au |-> u2, par |-> <<1>>, ops |-> <<2, 3>>, ct |-> 0, et |-> 3, rank |-> 2, bug |-> 1], [au |-> u1, par |-> <<1>>, ops |-> <<4>>, ct |-> 0, et |-> 3, rank |-> 3, bug |-> 1], [au |-> u1, par |-> <<2>>, ops |-> <<5>>, ct |-> 0, et |-> 4, rank |-> 4, bug |-> 1], [au |-> u1, par |-> <<4>>, ops |-> <<6>>, ct |-> 0, et |-> 5, rank |-> 5, bug |-> 1]>>,trk |-> (A :> <<4>> @@ B :> <<2>>)]),
    ([phase |-> "sync",res |-> [r |-> B, b |-> 1, kind |-> "merge", ops |-> <<1, 2, 3, 4>>, pre |-> 3, status |-> "updated"],ref |-> (A :> <<5>> @@ B :> <<6>>),clk |-> (A :> [e |-> 5, c |-> 2, de |-> 5, dc |-> 2] @@ B :> [e |-> 4, c |-> 2, de |-> 4, dc |-> 2]),hub |-> <<4>>,nops |-> 6,commits |-> <<[au |-> u1, par |-> <<>>, ops |-> <<1>>, ct |-> 2, et |-> 2, rank |-> 1, bug |-> 1], [au |-> u2, par |-> <<1>>, ops |-> <<2, 3>>, ct |-> 0, et |-> 3, rank |-> 2, bug |-> 1], [au |-> u1, par |-> <<1>>, ops |-> <<4>>, ct |-> 0, et |-> 3, rank |-> 3, bug |-> 1], [au |-> u1, par |-> <<2>>, ops |-> <<5>>, ct |-> 0, et |-> 4, rank |-> 4, bug |-> 1], [au |-> u1, par |-> <<4>>, ops |-> <<6>>, ct |-> 0, et |-> 5, rank |-> 5, bug |-> 1], [au |-> u1, par |-> <<3, 2>>, ops |-> <<>>, ct |-> 0, et |-> 4, rank |-> 6, bug |-> 1]>>,trk |-> (A :> <<4>> @@ B :> <<2>>)]),
    ([phase |-> "sync",res |-> [r |-> B, kind |-> "fetch"],ref |-> (A :> <<5>> @@ B :> <<6>>),clk |-> (A :> [e |-> 5, c |-> 2, de |-> 5, dc |-> 2] @@ B :> [e |-> 4, c |-> 2, de |-> 4, dc |-> 2]),hub |-> <<4>>,nops |-> 6,commits |-> <<[au |-> u1, par |-> <<>>, ops |-> <<1>>, ct |-> 2, et |-> 2, rank |-> 1, bug |-> 1], [au |-> u2, par |-> <<1>>, ops |-> <<2, 3>>, ct |-> 0, et |-> 3, rank |-> 2, bug |-> 1], [au |-> u1, par |-> <<1>>, ops |-> <<4>>, ct |-> 0, et |-> 3, rank |-> 3, bug |-> 1], [au |-> u1, par |-> <<2>>, ops |-> <<5>>, ct |-> 0, et |-> 4, rank |-> 4, bug |-> 1], [au |-> u1, par |-> <<4>>, ops |-> <<6>>, ct |-> 0, et |-> 5, rank |-> 5, bug |-> 1], [au |-> u1, par |-> <<3, 2>>, ops |-> <<>>, ct |-> 0, et |-> 4, rank |-> 6, bug |-> 1]>>,trk |-> (A :> <<4>> @@ B :> <<4>>)]),
    ([phase |-> "sync",res |-> [r |-> B, b |-> 1, kind |-> "merge", ops |-> <<1, 2, 3, 4, 5>>, pre |-> 6, status |-> "updated"],ref |-> (A :> <<5>> @@ B :> <<7>>),clk |-> (A :> [e |-> 5, c |-> 2, de |-> 5, dc |-> 2] @@ B :> [e |-> 5, c |-> 2, de |-> 5, dc |-> 2]),hub |-> <<4>>,nops |-> 6,commits |-> <<[au |-> u1, par |-> <<>>, ops |-> <<1>>, ct |-> 2, et |-> 2, rank |-> 1, bug |-> 1], [au |-> u2, par |-> <<1>>, ops |-> <<2, 3>>, ct |-> 0, et |-> 3, rank |-> 2, bug |-> 1], [au |-> u1, par |-> <<1>>, ops |-> <<4>>, ct |-> 0, et |-> 3, rank |-> 3, bug |-> 1], [au |-> u1, par |-> <<2>>, ops |-> <<5>>, ct |-> 0, et |-> 4, rank |-> 4, bug |-> 1], [au |-> u1, par |-> <<4>>, ops |-> <<6>>, ct |-> 0, et |-> 5, rank |-> 5, bug |-> 1], [au |-> u1, par |-> <<3, 2>>, ops |-> <<>>, ct |-> 0, et |-> 4, rank |-> 6, bug |-> 1], [au |-> u1, par |-> <<6, 4>>, ops |-> <<>>, ct |-> 0, et |-> 5, rank |-> 7, bug |-> 1]>>,trk |-> (A :> <<4>> @@ B :> <<4>>)]),
    ([phase |-> "sync",res |-> [r |-> A, kind |-> "push", ok |-> TRUE],ref |-> (A :> <<5>> @@ B :> <<7>>),clk |-> (A :> [e |-> 5, c |-> 2, de |-> 5, dc |-> 2] @@ B :> [e |-> 5, c |-> 2, de |-> 5, dc |-> 2]),hub |-> <<5>>,nops |-> 6,commits |-> <<[au |-> u1, par |-> <<>>, ops |-> <<1>>, ct |-> 2, et |-> 2, rank |-> 1, bug |-> 1], [au |-> u2, par |-> <<1>>, ops |-> <<2, 3>>, ct |-> 0, et |-> 3, rank |-> 2, bug |-> 1], [au |-> u1, par |-> <<1>>, ops |-> <<4>>, ct |-> 0, et |-> 3, rank |-> 3, bug |-> 1], [au |-> u1, par |-> <<2>>, ops |-> <<5>>, ct |-> 0, et |-> 4, rank |-> 4, bug |-> 1], [au |-> u1, par |-> <<4>>, ops |-> <<6>>, ct |-> 0, et |-> 5, rank |-> 5, bug |-> 1], [au |-> u1, par |-> <<3, 2>>, ops |-> <<>>, ct |-> 0, et |-> 4, rank |-> 6, bug |-> 1], [au |-> u1, par |-> <<6, 4>>, ops |-> <<>>, ct |-> 0, et |-> 5, rank |-> 7, bug |-> 1]>>,trk |-> (A :> <<5>> @@ B :> <<4>>)]),
    ([phase |-> "sync",res |-> [r |-> B, kind |-> "fetch"],ref |-> (A :> <<5>> @@ B :> <<7>>),clk |-> (A :> [e |-> 5, c |-> 2, de |-> 5, dc |-> 2] @@ B :> [e |-> 5, c |-> 2, de |-> 5, dc |-> 2]),hub |-> <<5>>,nops |-> 6,commits |-> <<[au |-> u1, par |-> <<>>, ops |-> <<1>>, ct |-> 2, et |-> 2, rank |-> 1, bug |-> 1], [au |-> u2, par |-> <<1>>, ops |-> <<2, 3>>, ct |-> 0, et |-> 3, rank |-> 2, bug |-> 1], [au |-> u1, par |-> <<1>>, ops |-> <<4>>, ct |-> 0, et |-> 3, rank |-> 3, bug |-> 1], [au |-> u1, par |-> <<2>>, ops |-> <<5>>, ct |-> 0, et |-> 4, rank |-> 4, bug |-> 1], [au |-> u1, par |-> <<4>>, ops |-> <<6>>, ct |-> 0, et |-> 5, rank |-> 5, bug |-> 1], [au |-> u1, par |-> <<3, 2>>, ops |-> <<>>, ct |-> 0, et |-> 4, rank |-> 6, bug |-> 1], [au |-> u1, par |-> <<6, 4>>, ops |-> <<>>, ct |-> 0, et |-> 5, rank |-> 7, bug |-> 1]>>,trk |-> (A :> <<5>> @@ B :> <<5>>)]),
    ([phase |-> "sync",res |-> [r |-> B, b |-> 1, kind |-> "merge", ops |-> <<1, 2, 3, 4, 5, 6>>, pre |-> 7, status |-> "updated"],ref |-> (A :> <<5>> @@ B :> <<8>>),clk |-> (A :> [e |-> 5, c |-> 2, de |-> 5, dc |-> 2] @@ B :> [e |-> 6, c |-> 2, de |-> 6, dc |-> 2]),hub |-> <<5>>,nops |-> 6,commits |-> <<[au |-> u1, par |-> <<>>, ops |-> <<1>>, ct |-> 2, et |-> 2, rank |-> 1, bug |-> 1], [au |-> u2, par |-> <<1>>, ops |-> <<2, 3>>, ct |-> 0, et |-> 3, rank |-> 2, bug |-> 1], [au |-> u1, par |-> <<1>>, ops |-> <<4>>, ct |-> 0, et |-> 3, rank |-> 3, bug |-> 1], [au |-> u1, par |-> <<2>>, ops |-> <<5>>, ct |-> 0, et |-> 4, rank |-> 4, bug |-> 1], [au |-> u1, par |-> <<4>>, ops |-> <<6>>, ct |-> 0, et |-> 5, rank |-> 5, bug |-> 1], [au |-> u1, par |-> <<3, 2>>, ops |-> <<>>, ct |-> 0, et |-> 4, rank |-> 6, bug |-> 1], [au |-> u1, par |-> <<6, 4>>, ops |-> <<>>, ct |-> 0, et |-> 5, rank |-> 7, bug |-> 1], [au |-> u1, par |-> <<7, 5>>, ops |-> <<>>, ct |-> 0, et |-> 6, rank |-> 8, bug |-> 1]>>,trk |-> (A :> <<5>> @@ B :> <<5>>)]),
    ([phase |-> "sync",res |-> [r |-> B, kind |-> "push", ok |-> TRUE],ref |-> (A :> <<5>> @@ B :> <<8>>),clk |-> (A :> [e |-> 5, c |-> 2, de |-> 5, dc |-> 2] @@ B :> [e |-> 6, c |-> 2, de |-> 6, dc |-> 2]),hub |-> <<8>>,nops |-> 6,commits |-> <<[au |-> u1, par |-> <<>>, ops |-> <<1>>, ct |-> 2, et |-> 2, rank |-> 1, bug |-> 1], [au |-> u2, par |-> <<1>>, ops |-> <<2, 3>>, ct |-> 0, et |-> 3, rank |-> 2, bug |-> 1], [au |-> u1, par |-> <<1>>, ops |-> <<4>>, ct |-> 0, et |-> 3, rank |-> 3, bug |-> 1], [au |-> u1, par |-> <<2>>, ops |-> <<5>>, ct |-> 0, et |-> 4, rank |-> 4, bug |-> 1], [au |-> u1, par |-> <<4>>, ops |-> <<6>>, ct |-> 0, et |-> 5, rank |-> 5, bug |-> 1], [au |-> u1, par |-> <<3, 2>>, ops |-> <<>>, ct |-> 0, et |-> 4, rank |-> 6, bug |-> 1], [au |-> u1, par |-> <<6, 4>>, ops |-> <<>>, ct |-> 0, et |-> 5, rank |-> 7, bug |-> 1], [au |-> u1, par |-> <<7, 5>>, ops |-> <<>>, ct |-> 0, et |-> 6, rank |-> 8, bug |-> 1]>>,trk |-> (A :> <<5>> @@ B :> <<8>>)]),
    ([phase |-> "sync",res |-> [r |-> A, kind |-> "fetch"],ref |-> (A :> <<5>> @@ B :> <<8>>),clk |-> (A :> [e |-> 5, c |-> 2, de |-> 5, dc |-> 2] @@ B :> [e |-> 6, c |-> 2, de |-> 6, dc |-> 2]),hub |-> <<8>>,nops |-> 6,commits |-> <<[au |-> u1, par |-> <<>>, ops |-> <<1>>, ct |-> 2, et |-> 2, rank |-> 1, bug |-> 1], [au |-> u2, par |-> <<1>>, ops |-> <<2, 3>>, ct |-> 0, et |-> 3, rank |-> 2, bug |-> 1], [au |-> u1, par |-> <<1>>, ops |-> <<4>>, ct |-> 0, et |-> 3, rank |-> 3, bug |-> 1], [au |-> u1, par |-> <<2>>, ops |-> <<5>>, ct |-> 0, et |-> 4, rank |-> 4, bug |-> 1], [au |-> u1, par |-> <<4>>, ops |-> <<6>>, ct |-> 0, et |-> 5, rank |-> 5, bug |-> 1], [au |-> u1, par |-> <<3, 2>>, ops |-> <<>>, ct |-> 0, et |-> 4, rank |-> 6, bug |-> 1], [au |-> u1, par |-> <<6, 4>>, ops |-> <<>>, ct |-> 0, et |-> 5, rank |-> 7, bug |-> 1], [au |-> u1, par |-> <<7, 5>>, ops |-> <<>>, ct |-> 0, et |-> 6, rank |-> 8, bug |-> 1]>>,trk |-> (A :> <<8>> @@ B :> <<8>>)]),
    ([phase |-> "sync",res |-> [r |-> B, kind |-> "push", ok |-> TRUE],ref |-> (A :> <<5>> @@ B :> <<8>>),clk |-> (A :> [e |-> 5, c |-> 2, de |-> 5, dc |-> 2] @@ B :> [e |-> 6, c |-> 2, de |-> 6, dc |-> 2]),hub |-> <<8>>,nops |-> 6,commits |-> <<[au |-> u1, par |-> <<>>, ops |-> <<1>>, ct |-> 2, et |-> 2, rank |-> 1, bug |-> 1], [au |-> u2, par |-> <<1>>, ops |-> <<2, 3>>, ct |-> 0, et |-> 3, rank |-> 2, bug |-> 1], [au |-> u1, par |-> <<1>>, ops |-> <<4>>, ct |-> 0, et |-> 3, rank |-> 3, bug |-> 1], [au |-> u1, par |-> <<2>>, ops |-> <<5>>, ct |-> 0, et |-> 4, rank |-> 4, bug |-> 1], [au |-> u1, par |-> <<4>>, ops |-> <<6>>, ct |-> 0, et |-> 5, rank |-> 5, bug |-> 1], [au |-> u1, par |-> <<3, 2>>, ops |-> <<>>, ct |-> 0, et |-> 4, rank |-> 6, bug |-> 1], [au |-> u1, par |-> <<6, 4>>, ops |-> <<>>, ct |-> 0, et |-> 5, rank |-> 7, bug |-> 1], [au |-> u1, par |-> <<7, 5>>, ops |-> <<>>, ct |-> 0, et |-> 6, rank |-> 8, bug |-> 1]>>,trk |-> (A :> <<8>> @@ B :> <<8>>)]),
    ([phase |-> "sync",res |-> [r |-> A, kind |-> "push", ok |-> FALSE],ref |-> (A :> <<5>> @@ B :> <<8>>),clk |-> (A :> [e |-> 5, c |-> 2, de |-> 5, dc |-> 2] @@ B :> [e |-> 6, c |-> 2, de |-> 6, dc |-> 2]),hub |-> <<8>>,nops |-> 6,commits |-> <<[au |-> u1, par |-> <<>>, ops |-> <<1>>, ct |-> 2, et |-> 2, rank |-> 1, bug |-> 1], [au |-> u2, par |-> <<1>>, ops |-> <<2, 3>>, ct |-> 0, et |-> 3, rank |-> 2, bug |-> 1], [au |-> u1, par |-> <<1>>, ops |-> <<4>>, ct |-> 0, et |-> 3, rank |-> 3, bug |-> 1], [au |-> u1, par |-> <<2>>, ops |-> <<5>>, ct |-> 0, et |-> 4, rank |-> 4, bug |-> 1], [au |-> u1, par |-> <<4>>, ops |-> <<6>>, ct |-> 0, et |-> 5, rank |-> 5, bug |-> 1], [au |-> u1, par |-> <<3, 2>>, ops |-> <<>>, ct |-> 0, et |-> 4, rank |-> 6, bug |-> 1], [au |-> u1, par |-> <<6, 4>>, ops |-> <<>>, ct |-> 0, et |-> 5, rank |-> 7, bug |-> 1], [au |-> u1, par |-> <<7, 5>>, ops |-> <<>>, ct |-> 0, et |-> 6, rank |-> 8, bug |-> 1]>>,trk |-> (A :> <<8>> @@ B :> <<8>>)]),
    ([phase |-> "sync",res |-> [r |-> B, kind |-> "fetch"],ref |-> (A :> <<5>> @@ B :> <<8>>),clk |-> (A :> [e |-> 5, c |-> 2, de |-> 5, dc |-> 2] @@ B :> [e |-> 6, c |-> 2, de |-> 6, dc |-> 2]),hub |-> <<8>>,nops |-> 6,commits |-> <<[au |-> u1, par |-> <<>>, ops |-> <<1>>, ct |-> 2, et |-> 2, rank |-> 1, bug |-> 1], [au |-> u2, par |-> <<1>>, ops |-> <<2, 3>>, ct |-> 0, et |-> 3, rank |-> 2, bug |-> 1], [au |-> u1, par |-> <<1>>, ops |-> <<4>>, ct |-> 0, et |-> 3, rank |-> 3, bug |-> 1], [au |-> u1, par |-> <<2>>, ops |-> <<5>>, ct |-> 0, et |-> 4, rank |-> 4, bug |-> 1], [au |-> u1, par |-> <<4>>, ops |-> <<6>>, ct |-> 0, et |-> 5, rank |-> 5, bug |-> 1], [au |-> u1, par |-> <<3, 2>>, ops |-> <<>>, ct |-> 0, et |-> 4, rank |-> 6, bug |-> 1], [au |-> u1, par |-> <<6, 4>>, ops |-> <<>>, ct |-> 0, et |-> 5, rank |-> 7, bug |-> 1], [au |-> u1, par |-> <<7, 5>>, ops |-> <<>>, ct |-> 0, et |-> 6, rank |-> 8, bug |-> 1]>>,trk |-> (A :> <<8>> @@ B :> <<8>>)])
    >>
----


=============================================================================

---- MODULE MC_GitBugLive_TEConstants ----
EXTENDS MC_GitBugLive

CONSTANTS A, B, u1, u2, _TTraceLassoStart, _TTraceLassoEnd

=============================================================================

---- CONFIG MC_GitBugLive_TTrace_1791091910 ----
CONSTANTS
    Replica = { A , B }
    NBug = 1
    Author = { u1 , u2 }
    MaxHop = 1000
    MaxCommit = 8
    RankDir = 1
    WithRestart = FALSE
    LoaderLess = FALSE
    Reserve = 3
    A = A
    B = B
    u1 = u1
    u2 = u2
_TTraceLassoStart = 21
_TTraceLassoEnd = 24

PROPERTY
    _prop

CHECK_DEADLOCK
    \* CHECK_DEADLOCK off because of PROPERTY or INVARIANT above.
    FALSE

INIT
    _init

NEXT
    _next

VIEW
    _view

CONSTANT
    _TETrace <- _trace

ALIAS
    _expression
=============================================================================
\* Generated on Sun Oct 04 05:32:36 UTC 2026