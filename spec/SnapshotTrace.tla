--------------------------- MODULE SnapshotTrace ---------------------------
(* Long random call sequences executed on the real code.  One trace line per sequence: the calls, a projection of the
   compiled snapshot after every single call (a deviation may heal a few calls later: the end state alone would hide it),
   the complete snapshot at the end (in memory, and after commit + read).  One specification step per call: the state S
   is advanced with Snapshot!Apply and compared; a final step per line compares the complete snapshots. *)
EXTENDS Snapshot, Json, IOUtils, TLC, SequencesExt
VARIABLES l, j, S
Trace == ndJsonDeserialize(IOEnv.TRACE)
ev == Trace[l]
Init == l = 1 /\ j = 0 /\ S = Empty
Slim(T) == [n |-> T.n, title |-> T.title, status |-> T.status, labels |-> T.labels, ncomments |-> Len(T.comments),
            ntimeline |-> Len(T.timeline), actors |-> T.actors, participants |-> T.participants]
Call ==
  /\ l <= Len(Trace) /\ ev.err = "" /\ Len(ev.steps) = Len(ev.calls)
  /\ j < Len(ev.calls)
  /\ S' = Apply(S, ev.calls[j + 1])
  /\ WellFormed(S')
  /\ Slim(S') = ev.steps[j + 1]
  /\ j' = j + 1 /\ l' = l
End ==
  /\ l <= Len(Trace) /\ ev.err = ""
  /\ j = Len(ev.calls)
  /\ ev.mem = S /\ ev.read = S
  /\ l' = l + 1 /\ j' = 0 /\ S' = Empty
Next == Call \/ End
Spec == Init /\ [][Next]_<<l, j, S>>
Steps == FoldLeft(LAMBDA acc, e : acc + Len(e.calls) + 1, 0, Trace)
TraceAccepted == TLCGet("stats").diameter - 1 = Steps
=============================================================================
