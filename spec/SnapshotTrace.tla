--------------------------- MODULE SnapshotTrace ---------------------------
(* Long random call sequences executed on the real code: each line carries the calls and the snapshots the code
   compiled (in memory, and after commit + read); TLC folds the calls with Snapshot!Compile and requires equality. *)
EXTENDS Snapshot, Json, IOUtils, TLC
VARIABLE l
Trace == ndJsonDeserialize(IOEnv.TRACE)
ev == Trace[l]
Init == l = 1
Next ==
  /\ l <= Len(Trace)
  /\ ev.err = ""
  /\ LET S == Compile(Empty, ev.calls) IN
       /\ WellFormed(S)
       /\ ev.mem = S
       /\ ev.read = S
  /\ l' = l + 1
Spec == Init /\ [][Next]_l
TraceAccepted == TLCGet("stats").diameter - 1 = Len(Trace)
=============================================================================
