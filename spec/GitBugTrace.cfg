SPECIFICATION TraceSpec
CONSTANTS
  Replica = {"A", "B", "C"}
  Remote = {"origin", "backup"}
  NBug = 3
  Author = {"u1", "u2"}
  MaxHop = 1000000
  BindRead = TRUE
  BindMerge = TRUE
  BindClock = TRUE
INVARIANTS AllReadable CausalOrder NoDupOps Converged MergeTruthful ClockDominates QuiescentConverged
PROPERTY TraceActionProps
POSTCONDITION TraceAccepted
CHECK_DEADLOCK FALSE
