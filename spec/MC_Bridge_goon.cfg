SPECIFICATION Spec
CONSTANTS Issue = {1, 2}  Margin = 5  StopAtFirst = FALSE  MaxEv = 4  MaxRounds = 2
INVARIANTS TitleFollows
CHECK_DEADLOCK FALSE
