SPECIFICATION TraceSpec
CONSTANTS Replica = {"A", "B"}  NBug = 6  MaxSize = 1000
INVARIANTS CacheAgrees TypeOK
POSTCONDITION TraceAccepted
CHECK_DEADLOCK FALSE
