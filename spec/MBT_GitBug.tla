---------------------------- MODULE MBT_GitBug ----------------------------
(* Behaviours of GitBug as test schedules: the same actions at API granularity, with a history variable that
   records the API calls.  `tlc -simulate` walks random behaviours; when a behaviour reaches Depth calls it is
   printed as one JSON line and executed against the real repositories by harness/world.  Guards only steer the
   random walk towards calls that do something (no-op fetches and pushes are still reachable, just rarer). *)
EXTENDS GitBug, TLC, Json

CONSTANTS MaxCommit, Depth, WithRestart

VARIABLES hist,   \* the API calls so far
          pend,   \* bugs still to be merged by the MergeAll in progress (MergeAll = one Merge per tracking ref)
          who     \* replica running that MergeAll, and the remote it merges from

mvars == <<commits, nops, ref, trk, hub, clk, res, hist, pend, who>>

RunChoices == { <<[au |-> "u1", n |-> 1]>>, <<[au |-> "u2", n |-> 1]>>, <<[au |-> "u1", n |-> 2]>>,
                <<[au |-> "u1", n |-> 1], [au |-> "u2", n |-> 1]>>,
                <<[au |-> "u2", n |-> 1], [au |-> "u1", n |-> 2]>> }

Rk == [i \in 1..(MaxCommit + 3) |-> i]
Room(n) == Len(commits) + n <= MaxCommit
Idle == pend = {}
Log(e) == hist' = Append(hist, e)

MInit == Init /\ hist = <<>> /\ pend = {} /\ who = <<CHOOSE r \in Replica : TRUE, CHOOSE m \in Remote : TRUE>>

MNewBug == \E r \in Replica, runs \in RunChoices :
   /\ Idle /\ Room(Len(runs)) /\ NewBug(r, runs, Rk)
   /\ Log([act |-> "NewBug", r |-> r, b |-> 0, runs |-> runs, loaders |-> FALSE, m |-> "origin"]) /\ UNCHANGED <<pend, who>>
MEdit == \E r \in Replica, b \in Bugs, runs \in RunChoices :
   /\ Idle /\ Room(Len(runs)) /\ Edit(r, b, runs, Rk)
   /\ Log([act |-> "Edit", r |-> r, b |-> b, runs |-> runs, loaders |-> FALSE, m |-> "origin"]) /\ UNCHANGED <<pend, who>>
MRead == \E r \in Replica, b \in Bugs :
   /\ Idle /\ res.kind \in {"merge", "edit", "reopen"} /\ Read(r, b)
   /\ Log([act |-> "Read", r |-> r, b |-> b, runs |-> <<>>, loaders |-> FALSE, m |-> "origin"]) /\ UNCHANGED <<pend, who>>
MPush == \E r \in Replica, m \in Remote :
   /\ Idle /\ (\E b \in Bugs : ref[r][b] # 0 /\ ref[r][b] # hub[m][b]) /\ Push(r, m)
   /\ Log([act |-> "Push", r |-> r, b |-> 0, runs |-> <<>>, loaders |-> FALSE, m |-> m]) /\ UNCHANGED <<pend, who>>
MFetch == \E r \in Replica, m \in Remote :
   /\ Idle /\ (\E b \in Bugs : hub[m][b] # 0 /\ trk[r][m][b] # hub[m][b]) /\ Fetch(r, m)
   /\ Log([act |-> "Fetch", r |-> r, b |-> 0, runs |-> <<>>, loaders |-> FALSE, m |-> m]) /\ UNCHANGED <<pend, who>>
MMergeAllBegin == \E r \in Replica, m \in Remote :
   /\ Idle /\ (\E b \in Bugs : trk[r][m][b] # 0 /\ trk[r][m][b] # ref[r][b])
   /\ pend' = {b \in Bugs : trk[r][m][b] # 0} /\ who' = <<r, m>>
   /\ Log([act |-> "MergeAll", r |-> r, b |-> 0, runs |-> <<>>, loaders |-> FALSE, m |-> m])
   /\ UNCHANGED vars
MMergeOne == \E b \in pend :
   /\ Room(1) /\ Merge(who[1], who[2], b, "u1", Rk) /\ pend' = pend \ {b} /\ UNCHANGED <<hist, who>>
MRestart == \E r \in Replica, ld \in BOOLEAN, del \in BOOLEAN :
   /\ WithRestart /\ Idle /\ res.kind # "reopen"
   /\ IF del
      THEN /\ clk[r].de # Missing
           /\ clk' = [clk EXCEPT ![r] = LET k == [clk[r] EXCEPT !.de = Missing, !.dc = Missing]
                                            base == [e |-> 1, c |-> 1, de |-> Missing, dc |-> Missing]
                                            heads == {ref[r][x] : x \in Bugs} \ {0}
                                        IN IF ld THEN WitnessHeads(base, heads) ELSE base]
           /\ res' = [kind |-> "reopen", r |-> r]
           /\ UNCHANGED <<commits, nops, ref, trk, hub>>
           /\ hist' = hist \o << [act |-> "DeleteClocks", r |-> r, b |-> 0, runs |-> <<>>, loaders |-> FALSE, m |-> "origin"],
                                 [act |-> "Reopen", r |-> r, b |-> 0, runs |-> <<>>, loaders |-> ld, m |-> "origin"] >>
      ELSE /\ Reopen(r, ld)
           /\ Log([act |-> "Reopen", r |-> r, b |-> 0, runs |-> <<>>, loaders |-> ld, m |-> "origin"])
   /\ UNCHANGED <<pend, who>>

MNext == \/ Len(hist) < Depth /\ (MNewBug \/ MEdit \/ MRead \/ MPush \/ MFetch \/ MMergeAllBegin \/ MRestart)
         \/ MMergeOne
MSpec == MInit /\ [][MNext]_mvars

(* print the behaviour once it is long enough (and no MergeAll is half done) *)
Emit == (Len(hist) >= Depth /\ Idle) => PrintT(ToJson([steps |-> hist]))
=============================================================================
