---------------------------- MODULE MC_Fidelity ----------------------------
(* small exhaustive instance: all ways of appending <= MaxOps operations by 2 authors and committing in chunks; checks the
   pack-split rule and id stability on the model itself *)
EXTENDS Fidelity, TLC
CONSTANT MaxOps
Next ==
  \/ \E a \in {"u1", "u2"} :
        /\ Len(ops) < MaxOps
        /\ AppendOps(<<[id |-> Len(ops) + 1, d |-> Len(ops) + 1, au |-> a]>>, IF ops = <<>> THEN 1 ELSE eid)
  \/ /\ ncommitted < Len(ops)
     /\ Commit(ops, [i \in DOMAIN Staged |-> Staged[i].id], Runs(Staged), eid, <<IF times[1] = 0 THEN 2 ELSE times[1], times[2] + Runs(Staged)>>)
Spec == Init /\ [][Next]_vars
EidIsFirst == ops # <<>> => eid = ops[1].id
PacksAreRuns == ncommitted = Len(ops) => npacks >= Runs(ops)   \* committing in chunks can only split further, never merge authors
=============================================================================
