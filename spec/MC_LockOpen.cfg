SPECIFICATION Spec
CONSTANTS Holder = {1, 2}  Atomic = TRUE
INVARIANTS UsableAfterDeath AtMostOne
CHECK_DEADLOCK FALSE
