SPECIFICATION Spec
CONSTANTS Labels = {"x", "y"}  MaxReq = 4
INVARIANT TypeOK
PROPERTIES RefusedChangesNothing OpsOnlyGrow
CONSTRAINT Bounded
CHECK_DEADLOCK FALSE
