--------------------------- MODULE ClockFirstUse ---------------------------
(* The first use of a persisted Lamport clock by several goroutines of one process (repository/gogit.go GetOrCreateClock /
   getClock, util/lamport PersistedClock; part of C18: concurrent commits take their times from the same clock).

   A repository keeps a map name -> clock instance.  A goroutine that needs the clock looks it up and, when the map has
   none, loads it from the clock file (or creates it) and publishes the instance in the map.  An instance has its own
   counter; an increment bumps the counter and writes the file.  The times handed out are unique and the file holds the
   largest one exactly when there is one instance only: lookup, load and publication have to be one critical section
   (Atomic = TRUE, the shipped design).  With Atomic = FALSE the load happens outside the lock and the publication does not
   look again: two first users build an instance each (the witness configuration must violate Unique). *)
EXTENDS Integers, FiniteSets, Sequences

CONSTANTS G, Incs, File0, Atomic

VARIABLES pub,      \* the instance in the map (0 = none); instances are named by the goroutine that built them
          val,      \* val[i]: counter of instance i (0 = not built)
          file,     \* content of the clock file
          mine,     \* mine[g]: the instance goroutine g uses (0 = none yet)
          pc,       \* "lookup" | "load" | "store" | "run" | "done"
          left,     \* increments g still has to do
          issued    \* sequence of all times handed out

vars == <<pub, val, file, mine, pc, left, issued>>

Init == /\ pub = 0 /\ val = [g \in G |-> 0] /\ file = File0
        /\ mine = [g \in G |-> 0] /\ pc = [g \in G |-> "lookup"] /\ left = [g \in G |-> Incs]
        /\ issued = <<>>

(* under the map's lock *)
Lookup(g) ==
  /\ pc[g] = "lookup"
  /\ IF pub # 0
       THEN mine' = [mine EXCEPT ![g] = pub] /\ pc' = [pc EXCEPT ![g] = "run"] /\ UNCHANGED <<pub, val>>
       ELSE IF Atomic
              THEN /\ val' = [val EXCEPT ![g] = file] /\ pub' = g
                   /\ mine' = [mine EXCEPT ![g] = g] /\ pc' = [pc EXCEPT ![g] = "run"]
              ELSE pc' = [pc EXCEPT ![g] = "load"] /\ UNCHANGED <<pub, val, mine>>
  /\ UNCHANGED <<file, left, issued>>

(* only when not Atomic: file read outside the lock, then publication without looking again *)
Load(g) ==
  /\ pc[g] = "load"
  /\ val' = [val EXCEPT ![g] = file]
  /\ pc' = [pc EXCEPT ![g] = "store"]
  /\ UNCHANGED <<pub, file, mine, left, issued>>
Store(g) ==
  /\ pc[g] = "store"
  /\ pub' = g /\ mine' = [mine EXCEPT ![g] = g] /\ pc' = [pc EXCEPT ![g] = "run"]
  /\ UNCHANGED <<val, file, left, issued>>

(* under the instance's lock: bump, write the file (temp file + rename: atomic), hand out *)
Inc(g) ==
  /\ pc[g] = "run" /\ left[g] > 0
  /\ LET i == mine[g] IN
     /\ val' = [val EXCEPT ![i] = @ + 1]
     /\ file' = val[i] + 1
     /\ issued' = Append(issued, val[i] + 1)
  /\ left' = [left EXCEPT ![g] = @ - 1]
  /\ pc' = [pc EXCEPT ![g] = IF left[g] = 1 THEN "done" ELSE "run"]
  /\ UNCHANGED <<pub, mine>>

Next == \E g \in G : Lookup(g) \/ Load(g) \/ Store(g) \/ Inc(g)
Spec == Init /\ [][Next]_vars

AsSet(s) == {s[k] : k \in DOMAIN s}
(* no time is handed out twice *)
Unique == Cardinality(AsSet(issued)) = Len(issued)
(* one instance per process *)
OneInstance == \A g, h \in G : (mine[g] # 0 /\ mine[h] # 0) => mine[g] = mine[h]
(* when all are done the file holds what the published instance holds, which is the largest time handed out *)
FileFollows == (\A g \in G : pc[g] = "done") =>
                  /\ file = val[pub]
                  /\ \A t \in AsSet(issued) : t <= file
                  /\ file \in AsSet(issued)
(* times never run backwards for later users: the file never decreases *)
FileMonotone == [][file' >= file]_vars
=============================================================================
